#!/bin/sh
# usage: scripts/silent.sh <patch.diff> <property>
# Applies a behaviour-preserving change and expects the check to stay silent (exit 0).
cd "$(dirname "$0")/.." || exit 2
if [ -n "$(git -C /repo status --porcelain)" ]; then echo "repo not clean"; exit 2; fi
git -C /repo apply "$(realpath "$1")" || { echo "cannot apply $1"; exit 2; }
out=$(./check "$2" quick 2>&1); rc=$?
git -C /repo checkout -- . ; git -C /repo clean -fdq
if [ $rc -eq 0 ]; then echo "SILENT  $2  $1"; exit 0; fi
echo "FALSE-ALARM  $2  $1"; echo "$out" | grep -B3 VIOLATION | head -12; exit 1
