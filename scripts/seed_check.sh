#!/bin/sh
# usage: scripts/seed_check.sh <Cxx>   applies /verif/seeded/<id>/patch.diff to /repo, runs all checks, restores /repo
cd "$(dirname "$0")/.." || exit 2
id="$1"
if [ -n "$(git -C /repo status --porcelain)" ]; then echo "repo not clean"; exit 2; fi
git -C /repo apply "/verif/seeded/$id/patch.diff" || { echo "cannot apply"; exit 2; }
out=$(./bin/jsv all 2>&1)
git -C /repo checkout -- . ; git -C /repo clean -fdq
echo "$out" | grep -E "VIOLATION|violations \(" | grep -v " 0 violations" | head -20
if echo "$out" | grep -q "VIOLATION property=$id"; then echo "SEED $id: CAUGHT by $id"; 
elif echo "$out" | grep -q "VIOLATION"; then echo "SEED $id: caught only by another property"; 
else echo "SEED $id: MISSED"; fi
