#!/bin/sh
# usage: scripts/mutant.sh <patch.diff | revert:<commit>> <property> <expected key substring>
# Applies a change to /repo's working tree, runs the property check, expects a
# VIOLATION whose text contains the substring, and always restores /repo.
set -u
cd "$(dirname "$0")/.." || exit 2
src="$1"; prop="$2"; expect="$3"
if [ -n "$(git -C /repo status --porcelain)" ]; then echo "repo not clean"; exit 2; fi
case "$src" in
  revert:*) git -C /repo show "${src#revert:}" | git -C /repo apply -R || { echo "cannot revert"; exit 2; } ;;
  *) git -C /repo apply "$(realpath "$src")" || { echo "cannot apply $src"; exit 2; } ;;
esac
out=$(./check "$prop" quick 2>&1); rc=$?
git -C /repo checkout -- . ; git -C /repo clean -fdq
if [ $rc -eq 1 ] && echo "$out" | grep -F "VIOLATION property=$prop" >/dev/null && echo "$out" | grep -F -- "$expect" >/dev/null; then
  echo "CAUGHT  $prop  $src  ($expect)"; exit 0
fi
echo "MISSED  $prop  $src  (rc=$rc, wanted: $expect)"; echo "$out" | tail -5; exit 1
