#!/bin/bash
# usage: scripts/refactorings_all.sh [name]
# Applies every behaviour-preserving refactoring of /verif/refactorings (written by sub-agents that
# saw only the property text) to a scratch copy of /repo's current tree and runs all twenty checks
# on it: every one must stay SILENT, except those listed in refactorings/EXPECTED-ALARMS.tsv
# (documented brittleness). Writes refactorings/RESULTS.md. /repo itself is not touched.
cd "$(dirname "$0")/.." || exit 2
[ -x bin/jsv ] || { echo "build the analyzer first (./check C01)"; exit 2; }
work=$(mktemp -d /tmp/refac.XXXXXX) || exit 2
trap 'rm -rf "$work"' EXIT
filter="$1"
one() {
  n=$1; d=$work/$n; mkdir -p $d/repo $d/verif
  rsync -a --exclude .git /repo/ $d/repo/; cp known_findings.json $d/verif/
  if ! (cd $d/repo && patch -p1 -s --no-backup-if-mismatch < /verif/refactorings/$n/patch.diff >/dev/null 2>&1); then echo "CANNOT-APPLY" > $work/$n.status; rm -rf $d; return; fi
  ./bin/jsv all --repo $d/repo --verif $d/verif > $work/$n.out 2>&1
  if grep -q "^VIOLATION" $work/$n.out; then echo ALARM > $work/$n.status; else echo SILENT > $work/$n.status; fi
  rm -rf $d
}
export -f one; export work
names=$(ls -d refactorings/C*/ | xargs -n1 basename)
[ -n "$filter" ] && names=$(echo "$names" | grep -E "^$filter")
echo "$names" | xargs -P 8 -I{} bash -c 'one {}'
res=refactorings/RESULTS.md; [ -n "$filter" ] && res=/dev/stdout
rc=0
{
echo "# Behaviour-preserving refactorings: every check must stay silent"
echo
echo "Each refactoring was written by a fresh sub-agent from the property text alone (four per property), with the"
echo "instruction to leave the behaviour identical for every input; most were verified by the sub-agent with a"
echo "differential test. This file is produced by scripts/refactorings_all.sh."
echo
for n in $names; do
  st=$(cat $work/$n.status 2>/dev/null || echo NO-RESULT)
  exp=$(grep -P "^$n\t" refactorings/EXPECTED-ALARMS.tsv 2>/dev/null | cut -f2)
  echo "## $n"
  python3 -c "import json;m=json.load(open('refactorings/$n/meta.json'));print(m.get('what',''))" 2>/dev/null
  echo
  if [ "$st" = ALARM ] && [ -n "$exp" ]; then echo "**ALARM (expected, documented): $exp**"; elif [ "$st" = ALARM ]; then echo "**FALSE ALARM**"; else echo "**$st**"; fi
  [ "$st" = ALARM ] && grep -E "^    key=" $work/$n.out | sed 's/^    key=/    /' | sort -u | head -6
  echo
done
} > $res
for n in $names; do
  st=$(cat $work/$n.status 2>/dev/null || echo NO-RESULT)
  exp=$(grep -P "^$n\t" refactorings/EXPECTED-ALARMS.tsv 2>/dev/null | cut -f2)
  if [ "$st" = ALARM ] && [ -n "$exp" ]; then echo "REFAC $n: ALARM (expected)"; else echo "REFAC $n: $st"; fi
  { [ "$st" = SILENT ] || { [ "$st" = ALARM ] && [ -n "$exp" ]; }; } || rc=1
done
exit $rc
