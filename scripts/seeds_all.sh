#!/bin/bash
# usage: scripts/seeds_all.sh [name|Cxx]
# Runs every seeded change against the checks and writes seeded/RESULTS.md.
# Each change is applied to a scratch copy of /repo's current tree (outside /repo and /verif, removed
# afterwards) and decided by `jsv all --repo <copy>`; 8 run in parallel. /repo itself is not touched.
cd "$(dirname "$0")/.." || exit 2
if [ -n "$(git -C /repo status --porcelain)" ]; then echo "repo not clean"; exit 2; fi
[ -x bin/jsv ] || { echo "build the analyzer first (./check C01)"; exit 2; }
work=$(mktemp -d /tmp/seeds.XXXXXX) || exit 2
trap 'rm -rf "$work"' EXIT
filter="$1"
one() {
  name=$1; id=${name:0:3}; d=$work/$name
  mkdir -p $d/repo $d/verif
  rsync -a --exclude .git /repo/ $d/repo/
  cp known_findings.json $d/verif/
  if ! (cd $d/repo && patch -p1 -s --no-backup-if-mismatch < /verif/seeded/$name/patch.diff >/dev/null 2>&1); then
    echo "CANNOT-APPLY" > $work/$name.status; rm -rf $d; return
  fi
  ./bin/jsv all --repo $d/repo --verif $d/verif > $work/$name.out 2>&1
  if grep -q "VIOLATION property=$id " $work/$name.out; then echo CAUGHT > $work/$name.status; else echo MISSED > $work/$name.status; fi
  rm -rf $d
}
export -f one; export work
names=$(ls -d seeded/C*/ | xargs -n1 basename)
if [ -n "$filter" ]; then names=$(echo "$names" | grep -E "^($filter|$filter-.*)$"); fi
echo "$names" | xargs -P 8 -I{} bash -c 'one {}'
res=seeded/RESULTS.md; [ -n "$filter" ] && res=/dev/stdout
rc=0
{
echo "# Seeded breaking changes: which check reports which"
echo
echo "Each change was written by a fresh sub-agent from the property text alone, confirmed in a scratch worktree"
echo "(builds, the pinned suite still passes, the demo test fails on the change and passes without it), and is kept here"
echo "as patch.diff + zz_seed_demo_test.go + meta.json. This file is produced by scripts/seeds_all.sh, which applies"
echo "each patch to a scratch copy of /repo's current tree and runs all twenty checks on it."
echo
for name in $names; do
  id=${name:0:3}; st=$(cat $work/$name.status 2>/dev/null || echo NO-RESULT)
  echo "## $name"
  python3 -c "import json;m=json.load(open('seeded/$name/meta.json'));print(m.get('summary') or m.get('what') or '')" 2>/dev/null
  echo
  case $st in
    CAUGHT) echo "**caught by its own property's check**:" ;;
    MISSED) echo "**MISSED by $id's check**" ;;
    *) echo "**$st**" ;;
  esac
  echo
  [ -f $work/$name.out ] && grep -E "^    key=" $work/$name.out | sed 's/^    key=/    /' | sort -u | head -12
  echo
done
} > $res
for name in $names; do st=$(cat $work/$name.status 2>/dev/null || echo NO-RESULT); echo "SEED $name: $st"; [ "$st" = CAUGHT ] || rc=1; done
exit $rc
