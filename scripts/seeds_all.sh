#!/bin/sh
# usage: scripts/seeds_all.sh   runs every seeded change against the checks, writes seeded/RESULTS.md, re-runs the checks on the clean tree
cd "$(dirname "$0")/.." || exit 2
if [ -n "$(git -C /repo status --porcelain)" ]; then echo "repo not clean"; exit 2; fi
res=seeded/RESULTS.md
[ -n "$1" ] && res=/dev/null
{
echo "# Seeded breaking changes: which check reports which"
echo
echo "Each change was written by a fresh sub-agent from the property text alone, confirmed in a scratch worktree"
echo "(builds, the pinned suite still passes, the demo test fails on the change and passes without it), and is kept here"
echo "as patch.diff + zz_seed_demo_test.go + meta.json. This file is produced by scripts/seeds_all.sh."
echo
} > $res
rc=0
for d in seeded/C*/; do
  name=$(basename $d); id=$(echo $name | cut -c1-3)
  [ -n "$1" ] && [ "$1" != "$name" ] && [ "$1" != "$id" ] && continue
  git -C /repo apply "/verif/seeded/$name/patch.diff" || { echo "cannot apply $id"; rc=2; continue; }
  out=$(./bin/jsv all 2>&1)
  git -C /repo checkout -- . ; git -C /repo clean -fdq
  own=$(echo "$out" | grep -c "VIOLATION property=$id ")
  echo "## $name" >> $res
  python3 -c "import json;m=json.load(open('seeded/$name/meta.json'));print(m.get('summary') or m.get('what') or '')" >> $res 2>/dev/null
  echo >> $res
  if [ "$own" -gt 0 ]; then echo "SEED $name: CAUGHT"; echo "**caught by its own property's check**:" >> $res; else echo "SEED $name: MISSED"; echo "**MISSED by $id's check**" >> $res; rc=1; fi
  echo >> $res
  echo "$out" | grep -E "^    key=" | sed 's/^    key=/    /' | sort -u | head -12 >> $res
  echo >> $res
done
./bin/jsv all >/dev/null 2>&1
exit $rc
