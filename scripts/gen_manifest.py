#!/usr/bin/env python3
"""Generates /verif/MANIFEST.json from the table below (single source of truth)."""
import json, os

HERE = os.path.dirname(os.path.dirname(os.path.abspath(__file__)))

NOTE = ("Trusted base: go/types, golang.org/x/tools v0.29.0 (go/packages, go/ssa, VTA call graph), and the reasoned "
        "exception tables in analyzer/internal/rules. Clause-level claim: the rules decide structural necessary conditions "
        "of the property (named in level_claimed.text and evidence coverage.rule); they do not decide the behaviour over all inputs.")

# property -> (claimed text, technique, design_ref)
CLAIMED = {
    "C16": ("Static decision over finite tables extracted from the source: every errs.Code constant has a unique value and a format; "
            "all Code.F call sites (constant, parameter-forwarded or recovered codes) match their format in arity and verb/type, so no rejection "
            "can degrade to code 1 'Runtime Failure', a %!w struct dump or an address. Exhaustive over the code table and all call sites; "
            "line/column arithmetic and String() rendering are not decided.",
            "AST/type-resolved table extraction + call-site arity/verb checking (go/packages, go/types)", "§4 C16"),
}

CLAIMED.update({
    "C02": ("Static decision of structural necessary conditions of crash-freedom: every first/last-element access, constant-bound slice and scanner lookahead is dominated by a guard implying it is in bounds (or tabled with its caller invariant); every panic operand is an error type; for every public entry point no explicit panic is reachable outside a recovering frame unless tabled with a reason; `any`-typed index arguments have an accepted static type. Does not decide loop termination, stack discipline of the scanners or memory use.",
            "dominating-guard facts over the typed AST, panic/recover model over go/ssa + VTA call graph (catcher vs converter classification), reasoned tables", "§4 C02"),
    "C09": ("Static decision that no observable result depends on Go's randomised map iteration order: every `range` over a map in scope is classified order-insensitive by construction or tabled with the reason at most one element can match. Does not decide equality across processes in general.",
            "AST/SSA effect classification of every map range (callee may-panic and heap-write summaries over the VTA call graph)", "§4 C09"),
    "C20": ("Exhaustive static decision over the closed vocabulary extracted from the source: IsValidType key set = declared types minus Undefined; the soft-equality relation on all 18x18 pairs is reflexive, symmetric and equals the documented families; json/schema token mappings agree for every json.Type; the literal classifiers are map-order independent and sibling implementations agree. Does not decide agreement of GuessSchemaType with the scanner on all literal texts.",
            "constant-table extraction (map literals, switch tables) and finite relation checking; normalised clone comparison", "§4 C20"),
})

CLAIMED.update({
    "C10": ("Static decision of structural necessary conditions of result stability: no expression aliasing a pooled buffer is returned or stored by a pool user; the reset of every pooled struct assigns every field and reset+Put are deferred right after Get; every package-level variable is never written after initialisation (or is a tabled pool/once object). Does not decide value equality with a fresh process.",
            "typed-AST alias analysis of pool users, field-coverage of reset methods, SSA write-set of package variables", "§4 C10"),
    "C11": ("Static decision of structural necessary conditions of race-freedom: pooled-buffer aliasing (as C10), locking discipline of the four generated containers (mode, deferred unlock, helper callers, no re-entrance), once-guarded fields written only under their once closure, and a type-based write-effect rule showing the read-only API writes no field of the persistent model outside once closures and held locks. Type-based, not object-based: not a proof of race-freedom.",
            "SSA lock/once typestate checks + type-based write effects over the VTA call graph", "§4 C11"),
    "C19": ("Static decision of structural necessary conditions of ordered-map behaviour for the four generated containers: removal from the order list is control-dependent on the key being found; no method mutates the order list while ranging over it; every data store keeps data/order in bijection; constructors cannot create duplicates; the three map instances are identical modulo types; lock discipline; JSON separator discipline. Does not decide equivalence with a reference dictionary over all operation histories.",
            "SSA dominance/control-dependence checks, range-mutation effects, normalised sibling comparison", "§4 C19"),
})

CLAIMED.update({
    "C13": ("Static decision on finite tables extracted from the source: the number recogniser is extracted as a DFA over <state method, finished flag> by specialising every state method for each of the 256 byte values, its driver contract is checked on SSA, and language equivalence with the RFC 8259 number grammar is decided by product construction (mismatches reported with a shortest witness); the six comparison predicates, `not` and Cmp's sign logic are decided as exhaustive truth tables; negative zero normalisation; overflow/allocation guards. Does not decide the digit-wise comparison loops, exponent shifting or String().",
            "SSA partial evaluation per input byte -> DFA extraction -> product-automaton equivalence; symbolic decision tables (go/ssa abstract interpreter)", "§4 C13"),
})

CLAIMED.update({
    "C12": ("Static decision on tables extracted from formats/json: every scanner state function is specialised for each of the 256 byte values (SSA partial evaluation), the end-of-input table, pair tables and IsOpening are extracted as well, and the resulting pushdown system is compared in lock step with a reference RFC 8259 recogniser over all bytes and all configurations up to nesting depth 3, with and without the trailing-characters option; mismatches are reported with a shortest witness. The scanner's stack observations are checked to be limited to len==0/len==1/top two entries, which is why bounded depth covers all behaviours. Does not decide lexeme spans, Len() values or tree equality with an independent decoder.",
            "SSA partial evaluation per input byte -> pushdown system extraction -> product with a reference recogniser (bounded nesting + observation-depth argument)", "§4 C12"),
})

CLAIMED.update({
    "C14": ("Static decision on per-byte summaries of every state function of the schema and enum scanners (SSA partial evaluation): LF and CR have identical rows in every state; SPACE and TAB have identical rows in every between-token state; and in the loader rule names are compared only after TrimSpaces().Unquote(). Exhaustive over states and bytes. Does not decide equality of AST/example/OpenAPI across spellings nor inline vs multi-line annotation equivalence.",
            "SSA partial evaluation per input byte -> row equality between byte classes; typed-AST normalisation check", "§4 C14"),
})

CLAIMED.update({
    "C01": ("Static decision of structural necessary conditions of 'Check() verdict = rule semantics': each value validator and compile-time pair check is extracted by symbolic evaluation as a guard->outcome table and compared with the documented rule semantics for every ordering of its operands and every exclusivity flag (operands identified by data flow; decimal predicates interpreted through their own extracted tables); rule-name -> constraint wiring is checked against the decoded stringer tables; exclusiveMinimum/Maximum folding, validator dispatch (all constraints validated, nullable short-circuit, interface coverage), the `or` all-fail rule and the format validators' stdlib delegation are checked structurally. Does not decide the composition over arbitrary schemas, regex matching or enum equality of escaped strings.",
            "symbolic decision tables over go/ssa (abstract interpreter) compared with reference truth tables; typed-AST wiring checks; stringer/switch table decoding", "§4 C01"),
})

CLAIMED.update({
    "C03": ("Static decision of structural necessary conditions of JSON preservation: a field-based taint analysis shows every JSON-decoded string (keys, values and everything that stores them) passes a JSON string encoder before it is written into an example; the literal branch of the example builder returns the raw lexeme span; members are emitted by position from ordered slices. Does not decide value equality of the round trip nor that every JSON text is accepted (see DESIGN C03.subset).",
            "field-based, context-insensitive taint analysis on the typed AST (decoded string -> JSON sink); structural checks", "§4 C03"),
    "C06": ("Static decision of structural necessary conditions of the recursion check and Example() termination: visit/leave pairing by defer; optional/nullable test dominating the walk; leaf cases; object = AND, alternative = OR; the recursive call must reuse the lookup table (violated on the pinned tree: known finding, printed as such); bounded type expansion in the example builder (test < increment < deferred decrement < recursion); separator discipline of JSON-emitting loops. Does not decide both directions of the property over all reference graphs.",
            "typestate/ordering checks on the typed AST, must-alias of table argument, separator-discipline rule", "§4 C06"),
    "C08": ("Wiring-level static decision: every rule name the OpenAPI package looks up is a member of the decoded constraint-name table and each OpenAPI keyword constructor reads the rule of the documented name; decoded schema text reaches OpenAPI JSON only through a JSON string encoder (taint analysis over struct fields, parameters and results, with the one guarded encoder shape-checked); separators of hand-written marshalers. Does not decide that an example validates against the generated schema (needs a JSON-Schema evaluator at run time).",
            "constant-table membership + typed-AST wiring table; field-based taint analysis; separator-discipline rule", "§4 C08"),
})

CLAIMED.update({
    "C04": ("Static decision of structural necessary conditions of AST fidelity: overflow guard of numeric rule parsing; rule-name <-> constraint wiring against the decoded stringer tables; the AST snapshot is stored before any compilation step and the rewriting steps run only under Compile; collectASTRules forwards every rule except the two documented special cases; each rule's AST value is rendered loss-free from the field holding its source text/value. Does not decide the source->tree homomorphism for nested lists, notes or child order.",
            "SSA dominance/ordering checks, who-may-call checks over the VTA call graph, switch-table and data-source checks on the typed AST", "§4 C04"),
    "C05": ("Static decision of structural necessary conditions of reference resolution: sibling agreement between every resolver (checker, compilers, example builder, OpenAPI) and the collector behind UsedUserTypes() on the set of reference positions read; the collector descends into every node kind with children; names are appended only when new (control dependence on the failed membership test); every failed type-table lookup raises ErrUserTypeNotFound. Does not decide the iff over all reference graphs.",
            "resolved-call sibling agreement, interface-implementer enumeration, SSA control-dependence checks", "§4 C05"),
    "C07": ("Static decision of structural necessary conditions of allOf inheritance: field coverage of constraint equality methods (AdditionalProperties.IsEqual ignores `mode`: known finding); inherited children are deep copies marked with their source; every Node.Copy re-creates constraints and children; required keys are propagated; the compile recursion guard is in test-insert-recurse-delete order; each documented refusal is raised on its guard; no map-order dependence. Does not decide the merged key set for arbitrary inheritance DAGs.",
            "field-coverage and aliasing checks on the typed AST, statement-order checks, map-range classification", "§4 C07"),
    "C17": ("Static decision: the enum scanner is extracted as a pushdown system (per-byte summaries, end-of-input table, pair tables) and its annotation-free fragment is compared in lock step with a reference recogniser for `[` JSON scalars without exponent `]`; the duplicate keys of rule files and inline enums are compared as symbolic functions; the literal classifier is order independent and agrees with its sibling; element accesses of the enum package are guarded. Does not decide annotations inside rule files nor verdict equality of `enum: @name` vs the inline list.",
            "SSA partial evaluation per input byte -> pushdown system -> product with a reference recogniser; symbolic function comparison", "§4 C17"),
    "C18": ("Static decision of structural necessary conditions for regex schemas: guarded first-byte reads (empty text gets a diagnostic); the delimiter loop body evaluated as a table over <escaped, byte class> (6 cells); schema text derived from a regex schema is quoted by JSON rules, not Go rules; AST value, Len and the OpenAPI pattern add/strip exactly one delimiter pair. Does not decide that the pattern is a valid regular expression nor that the example matches.",
            "dominating-guard facts, mini AST evaluator for the loop-body table, constructor-argument quoting rule", "§4 C18"),
})

CLAIMED.update({
    "C15": ("Static decision of three structural necessary conditions of 'what follows never moves the boundary': from the per-byte summary of the schema scanner's stateEndTop (SSA partial evaluation, all 256 bytes) "
            "under <length mode, no annotation open, empty lexeme stack>, every byte other than a blank, `/` and `#` only emits the EndTop lexeme (LF/CR only NewLine); Length() leaves its loop at the EndTop lexeme; "
            "the candidate length is End()+1 after a lexeme and End() or End()-1 at EndTop, after which exactly SP/TAB/LF/CR are dropped (trim predicate evaluated on all 256 bytes). "
            "Prefix acceptance, idempotence of Len on the prefix, AST equality and the lexeme positions themselves are NOT decided (they quantify over runs of the scanner).",
            "SSA partial evaluation per input byte (row of one state under a fixed configuration) + typed-AST arithmetic/shape checks", "§4 C15"),
})


# clauses added during the seeded rounds (appended to the claimed text)
ADDED = {
 "C01": " Further structural clauses: validators read the example only through Unquote()/NewNumber(); string lengths are counted in characters; every registered type is checked on every path of CheckRootSchema; the recursion guard of the allowed-JSON-types walk is path-scoped; the decimal predicate tables, zero normalisation and normalisation must-pass-through of C13. The UUID validator examines every position of every accepted form (tables unrolled); the magnitude comparison of numbers is tabulated per operand role (= C13.cmp). Boolean rules read by mere presence are removed when false; enum membership compares value and kind; the \\u decoder table. Unnamed types get names that are unique across schema objects.",
 "C02": " Further: the complete inventory of variable-index element accesses (loop-bounded, guarded, clamped counter, generated, or tabled with its invariant); push/pop pairing of the scanners' return stacks; calls into third-party code under a recover; visited sets not re-created inside a recursive cycle; panicking standard-library helpers guarded; the invariants behind two table entries are checked by running the enum-grammar and number-grammar products under this property. The OpenAPI conversion never initialises a mutable container from the stored AST; the example builder's expansion counter is only compared with constants. The deferred error converters never re-throw a recovered value unconverted. A visited set that travels as a parameter is handed on by every call of a recursive cycle.",
 "C03": " Further: per-byte tables of the JSON string decoder (getu4, escapes); one-directional simulation of the RFC 8259 reference (without exponents) by the schema scanner model with bounded stacks; no Trim with a quote cutset. The string states accept exactly the RFC 8259 bytes; the generic stack only pushes, pops one, or copies completely; no rejection is guarded by a size or depth constant.",
 "C04": " Further: sibling consistency of the note-text states for `#` inside multi-line annotations; the decoder tables of C03.",
 "C05": " Further: collector loops visit every element; the recorders of type names append unconditionally; the collector also walks unnamed types; children are looked up by (key, flag); nested allOf rules are visited. Every recursive tree walker follows both object and array children; the shortcut text is split at the pipe in loader and collector alike; only unnamed types of a registered type are copied into the root. The generated names of unnamed types are unique across schema objects; the once wrappers block late callers until the result is stored. AddType registers every kind of type unconditionally.",
 "C06": " Further: every alternative of a choice is walked; every map consulted by the recursion walk is path-scoped (no memo). allOf copies every child of the inherited type (copies keep their constraints); `type: \"mixed\"` keeps the alternatives of a choice.",
 "C07": " Further: parent constraint objects are shared only when immutable; key records are built with the destination's own index; the OpenAPI property listing is one recursive cycle (transitive) with no skipping. allOf copies every child and only unnamed types; slices made with a length are never appended to; the recover of Compile sits inside the once closure. extendWith has no early exit; package openapi does not re-enter through its exported entry points.",
 "C08": " Further: the example builder encodes decoded keys with a JSON encoder; properties are selected by the IsKeyShortcut flag; no literal passes through float64; conversion never writes into the schema's stored AST; no Trim with a quote cutset. The string states of the schema and enum scanners accept exactly the RFC 8259 bytes (literals are copied verbatim into examples). A choice is a key type only when all alternatives agree (39-cell table); enum membership compares value and kind. The type-name table of the converter answers for every JSON kind and agrees with SchemaType.ToTokenType.",
 "C09": " Further: a map store inside a callee counts only when keyed by the loop key; no %p in any format string (known finding: address-based names of unnamed types); no stateful out-of-module object reached through shared state; conversion does not write into the stored AST.",
 "C10": " Further: registration methods write the receiver only after the last step that can fail; no stateful out-of-module object cached and driven by read-only calls; a registered type's model is neither copied nor left untouched by the root's allOf compilation (known finding). No in-place re-slice of a foreign slice; no write into a []byte parameter or Bytes storage; Example() returns freshly allocated bytes; only unnamed types are copied into the root. Enum.Values() returns a fresh slice. GetAST() returns a node built or copied for the call; Values() copies the bytes of each value.",
 "C11": " Further: lazily built fields are read only after their once has run in the same call; the write-effect rule ranges over the field-reachability closure of the model types; no package-level variable written after init; stateful out-of-module objects must be created per call; known finding: shared type objects rewritten by allOf compilation. No function returns the address of a persistent model field; no in-place re-slice of a foreign slice. The pooled loader's reset clears every field.",
 "C12": " Further: arithmetic of Length() (End()+1 / End() at EndTop / exactly SP,TAB,LF,CR trimmed); Len() and Check() rewind before and after and install a fresh scanner. The generic stack only pushes, pops one, or copies completely; no size or depth limit. The once wrappers store results inside once.Do and load them after it.",
 "C13": " Further: Scan rejects only through the state machine, the finished flag, setExp and the trims, and every successful return passes through all normalisation steps; ParseUint rejects only empty input, non-digits and overflow. cmpAbs/cmpInt/cmpFra/int()/fra() tabulated by operand role over every ordering of the part lengths, every index and every digit pair; the recogniser's counters, setExp and getNatural tabulated (C13.count).",
 "C14": " Further: a skipped blank leaves no trace; both annotation openers are tested together; constant regexps treat LF/CR and SPACE/TAB alike; a line end right after a comment opener ends the empty comment; notes are stored trimmed; every structural state of the rule loader lets NewLine pass; rule names are compared after TrimSpaces().Unquote(). The no-second-annotation guard is installed on every path that ends an inline annotation; a second line-end byte after a line end is absorbed; the end of the input right after the first slash of an annotation is an error. The scanners move their position by single steps only (no search inside a state function); the shortcut text is split at the pipe; an unclosed ### comment is an error. The comma of an object and of an array both allow annotations again. On the scanner model, the end of the input is accepted after a prefix exactly when a line end followed by the end of the input is (alphabet of 16 byte classes, all reachable configurations). Every path that ends an inline annotation line resets the annotation mode.",
 "C16": " Further: every SetIndex argument is a scanner idiom or tabled; rendering cannot panic (clamped Repeat count); guarded element accesses incl. the variable-index inventory; a registered type has a root node and is registered with its own file; end-of-input handlers close lexemes with their partner; a JSON document is rewound with a fresh scanner. Bytes.LineAndColumn is a per-byte counter program (newline symbol: line+1, column reset; else column+1; 1-based) over data[:index] and is recomputed after SetIndex/SetFile; type registrations pass offset 0 (checkType re-bases by Type.Begin); replacing the file of an error resets its cached length/newline symbol. All fmt format strings are constants; the newline symbol is decided over the whole text (512-cell table); SetFile recounts line and column. The deferred error converters never re-throw a recovered value unconverted.",
 "C17": " Further: both uniqueness maps are keyed by the whole <value, kind> item; the small literal predicates of the two classifiers have equal symbolic accept sets; every transition to the rule-value state records the rule name; an empty `//` comment ends at the line end. An empty rule text is a positioned diagnostic; the end-of-input handlers of the rule scanner and the schema scanner close the same openers; the end of the input right after a single slash is an error. No function writes into a []byte parameter or Bytes storage (the string decoder allocates); string states accept exactly the RFC 8259 bytes. Both annotation openers are recognised wherever one is; Enum.Values() returns a fresh slice.",
 "C18": " Further: the pattern is matched against the decoded string; FromRSchema encodes exactly the result of Pattern(); no pooled buffer is returned from Example(). InQuotes and the classifier's IsString accept the same literals; the \\u decoder table. AddType registers a regex type unconditionally.",
 "C19": " Further: the set constructor appends (no position writes). No method returns the container's order slice or data map itself. Slices made with a length are never appended to. MarshalJSON writes only JSON punctuation and the output of a JSON encoder.",
 "C20": " Further: the five small literal predicates of GuessSchemaType and json.Guess have equal symbolic accept sets. Bytes.InQuotes and GuessData.IsString have equal accept sets.",
 "C15": " Further: NewLine/EndTop lexemes do not move the length; LF differs from SPACE in the pipe-accepting shortcut states; dedicated callees of the return stack leave by a pop. The scanners move their position by single steps only; an unclosed ### comment is an error at the end of the input. On the scanner model, the end of the input is accepted after a prefix exactly when a line end followed by the end of the input is. Every path that ends an inline annotation line resets the annotation mode.",
}

NOT_YET = {}

NOT_APPLICABLE = {}

def main():
    props = [json.loads(l)["id"] for l in open(os.path.join(HERE, "properties.jsonl"))]
    checks, na = [], []
    for p in props:
        if p in CLAIMED:
            text, tech, ref = CLAIMED[p]
            text = text + ADDED.get(p, "")
            checks.append({
                "property_id": p,
                "quick_cmd": f"./check {p} quick",
                "thorough_cmd": f"./check {p} thorough",
                "evidence_file": f"/verif/evidence/{p}.json",
                "replay_cmd_template": "./bin/jsv explain {path}",
                "engine": "jsv",
                "level_claimed": {"category": "other", "text": text, "design_ref": ref},
                "level_note": NOTE,
                "technique": "static analysis: " + tech,
            })
        elif p in NOT_APPLICABLE:
            na.append({"property_id": p, "reason": NOT_APPLICABLE[p]})
        else:
            na.append({"property_id": p, "reason": NOT_YET.get(p, "check designed (DESIGN.md §4) but not built yet; not claimed until its rules run and are validated both ways")})
    m = {
        "version": 1,
        "setup_cmd": "cd /verif/analyzer && GOFLAGS=-mod=mod GOPROXY=off GOSUMDB=off GOTOOLCHAIN=local GOWORK=off go build -o /verif/bin/jsv ./cmd/jsv",
        "hooks": {
            "guard": "verif",
            "enable": "none needed: static analysis reads /repo's sources, no instrumentation is compiled in",
            "baseline_off_cmd": "cd /repo && GOFLAGS=-mod=mod GOPROXY=off GOSUMDB=off GOTOOLCHAIN=local go test -json -vet=off -count=1 -timeout 25m ./...",
            "source_commits": [],
            "add_only": True,
        },
        "engines": [{
            "name": "jsv",
            "path": "/verif/analyzer",
            "serves_properties": sorted(CLAIMED),
            "kind_free_text": "repository-specific static analyzer (go/packages + go/types + go/ssa + VTA call graph); one rule set per property; loads /repo's working tree on every run, executes nothing from it",
        }],
        "checks": checks,
        "not_applicable": na,
        "notes": "All checks are static analysis (see DESIGN.md). known_findings.json lists genuine defects left unrepaired (printed as KNOWN-FINDING) and the fix: commits made in /repo.",
    }
    json.dump(m, open(os.path.join(HERE, "MANIFEST.json"), "w"), indent=1)
    print("claimed:", len(checks), "not claimed:", len(na))

if __name__ == "__main__":
    main()
