#!/usr/bin/env python3
"""mkmutant.py <name> <property> <expect> <file> <old> <new> [<file> <old> <new> ...]
Creates selftest/mutants/<name>.diff by editing /repo in place (restored afterwards)
and appends a line to selftest/mutants/INDEX.tsv."""
import sys, subprocess, os
name, prop, expect = sys.argv[1:4]
kind = 'silent' if expect == 'SILENT' else 'mutants'
edits = sys.argv[4:]
assert len(edits) % 3 == 0
assert subprocess.run(['git','-C','/repo','status','--porcelain'],capture_output=True,text=True).stdout == ''
try:
    for i in range(0, len(edits), 3):
        f, old, new = edits[i:i+3]
        p = os.path.join('/repo', f)
        s = open(p).read()
        old = old.encode().decode('unicode_escape'); new = new.encode().decode('unicode_escape')
        assert s.count(old) >= 1, (f, old)
        s = s.replace(old, new, 1)
        open(p, 'w').write(s)
    d = subprocess.run(['git','-C','/repo','diff'],capture_output=True,text=True).stdout
    here = os.path.dirname(os.path.dirname(os.path.abspath(__file__)))
    open(os.path.join(here,'selftest/'+kind,name+'.diff'),'w').write(d)
    idx = os.path.join(here,'selftest/'+kind+'/INDEX.tsv')
    lines = [l for l in (open(idx).read().splitlines() if os.path.exists(idx) else []) if not l.startswith(name+'\t')]
    lines.append('\t'.join([name, prop, expect]))
    open(idx,'w').write('\n'.join(lines)+'\n')
    # must compile
    env = dict(os.environ, GOFLAGS='-mod=mod', GOPROXY='off', GOSUMDB='off', GOTOOLCHAIN='local')
    r = subprocess.run(['go','build','./...'],cwd='/repo',capture_output=True,text=True,env=env)
    if r.returncode != 0:
        print('MUTANT DOES NOT COMPILE:', r.stderr[:500])
finally:
    subprocess.run(['git','-C','/repo','checkout','--','.'])
print('written', name)
