#!/bin/bash
# usage: scripts/seeds_par.sh [name-prefix]   fast iteration helper: evaluates the seeded changes in parallel on scratch
# copies of /repo's working tree under /tmp/sp (removed afterwards). The canonical run is scripts/seeds_all.sh,
# which applies each change to /repo itself.
cd "$(dirname "$0")/.." || exit 2
rm -rf /tmp/sp; mkdir -p /tmp/sp
names=$(ls -d seeded/C*/ | xargs -n1 basename | grep "^${1:-}")
run_one() {
  name=$1; id=${name:0:3}
  d=/tmp/sp/$name; mkdir -p $d/repo $d/verif
  rsync -a --exclude .git /repo/ $d/repo/
  cp /verif/known_findings.json $d/verif/
  (cd $d/repo && git apply /verif/seeded/$name/patch.diff 2>/dev/null) || (cd $d/repo && patch -p1 -s < /verif/seeded/$name/patch.diff) || { echo "SEED $name: CANNOT APPLY"; return; }
  out=$(/verif/bin/jsv all --repo $d/repo --verif $d/verif 2>&1)
  if echo "$out" | grep -q "VIOLATION property=$id "; then echo "SEED $name: CAUGHT"; else echo "SEED $name: MISSED ($(echo "$out" | grep -c VIOLATION) other)"; fi
  rm -rf $d
}
export -f run_one
echo "$names" | xargs -P 6 -I{} bash -c 'run_one {}'
rm -rf /tmp/sp
