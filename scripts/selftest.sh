#!/bin/sh
# Runs every mutant of selftest/mutants/INDEX.tsv (and the reverts of the fix: commits
# listed in selftest/reverts.tsv) against its property check; all must be CAUGHT.
cd "$(dirname "$0")/.." || exit 2
fail=0
only="$1"
while IFS="$(printf '\t')" read -r name prop expect; do
  [ -z "$name" ] && continue
  [ -n "$only" ] && [ "$only" != "$prop" ] && continue
  scripts/mutant.sh "selftest/mutants/$name.diff" "$prop" "$expect" | head -1 || true
done < selftest/mutants/INDEX.tsv | tee /tmp/selftest.$$ 
while IFS="$(printf '\t')" read -r commit prop expect; do
  [ -z "$commit" ] && continue
  [ -n "$only" ] && [ "$only" != "$prop" ] && continue
  scripts/mutant.sh "revert:$commit" "$prop" "$expect" | head -1 || true
done < selftest/reverts.tsv | tee -a /tmp/selftest.$$
if [ -f selftest/silent/INDEX.tsv ]; then
while IFS="$(printf '\t')" read -r name prop expect; do
  [ -z "$name" ] && continue
  [ -n "$only" ] && [ "$only" != "$prop" ] && continue
  scripts/silent.sh "selftest/silent/$name.diff" "$prop" | head -1 || true
done < selftest/silent/INDEX.tsv | tee -a /tmp/selftest.$$
fi
grep -c '^CAUGHT\|^SILENT' /tmp/selftest.$$; if grep -q '^FALSE-ALARM' /tmp/selftest.$$; then fail=1; fi; if grep -q '^MISSED' /tmp/selftest.$$; then fail=1; fi; rm -f /tmp/selftest.$$
exit $fail
