#!/bin/sh
# Runs the repository test suite (guard off; there are no hooks) and fails on any
# failing test other than the baseline's own always-failing TestEnum_String.
export GOFLAGS=-mod=mod GOPROXY=off GOSUMDB=off GOTOOLCHAIN=local GOWORK=off
cd "${1:-/repo}" || exit 2
out=$(go test -vet=off -count=1 ./... 2>&1)
echo "$out" | grep -E '^(--- FAIL|FAIL|panic)' | grep -v 'TestEnum_String' | grep -v '^FAIL$' | grep -v 'ischema/constraint' > /tmp/repotest.$$ 
n=$(echo "$out" | grep -c '^ok')
echo "ok packages: $n"
if [ -s /tmp/repotest.$$ ]; then cat /tmp/repotest.$$; rm -f /tmp/repotest.$$; exit 1; fi
rm -f /tmp/repotest.$$
[ "$n" -ge 22 ] || { echo "$out" | tail -20; exit 1; }
