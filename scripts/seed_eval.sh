#!/bin/bash
# usage: scripts/seed_eval.sh <Cxx> [worktree] [seed-subdir] [name under /verif/seeded]
# 1. confirms a sub-agent's seeded change in its scratch worktree: compiles, suite passes with it,
#    demo fails with it and passes without it;  2. copies it to /verif/seeded/<id>/;
# 3. applies it to /repo, runs ./check <id> (and all properties), restores /repo.
set -u
id="$1"; wt="${2:-/tmp/wt/$id}"; seed="$wt/seed${3:+/$3}"; name="${4:-$id}"
export GOFLAGS=-mod=mod GOPROXY=off GOSUMDB=off GOTOOLCHAIN=local GOWORK=off
cd "$wt" || exit 2
[ -f "$seed/patch.diff" ] || { echo "no patch"; exit 2; }
git checkout -q -- . ; 
demo=$(ls "$seed"/*_test.go | head -1)
pkgdir=$(python3 -c "import json;m=json.load(open('$seed/meta.json'));print(m.get('demo',''))" | grep -o '\./[a-zA-Z0-9_/.-]*' | head -1)
# find package of the demo from its package clause + path comment
rel=$(grep -m1 -o '[a-zA-Z0-9_/.-]*zz_seed_demo_test.go' "$demo" | head -1)
if [ -n "$rel" ] && [ -d "$(dirname "$rel")" ]; then target="$rel"; else target="${pkgdir:-.}/zz_seed_demo_test.go"; fi
echo "demo target: $target"
cp "$demo" "$target"
echo "== without change: demo must pass"
go test -vet=off -count=1 -run 'Seed|seed|ZZ' "./$(dirname "$target")" 2>&1 | tail -3
r_without=${PIPESTATUS[0]}
git apply "$seed/patch.diff" || { echo "patch does not apply"; rm -f "$target"; exit 2; }
echo "== with change: build + demo must fail"
go build ./... || { echo "DOES NOT COMPILE"; git checkout -q -- .; rm -f "$target"; exit 2; }
go test -vet=off -count=1 -run 'Seed|seed|ZZ' "./$(dirname "$target")" 2>&1 | tail -3
r_with=${PIPESTATUS[0]}
rm -f "$target"
echo "== with change: existing suite"
mv "$wt/seed" /tmp/seed.$$.hold  # keep the demo copy out of ./...
out=$(go test -vet=off -count=1 ./... 2>&1); mv /tmp/seed.$$.hold "$wt/seed"; echo "$out" | grep -E '^(--- FAIL|FAIL)' | grep -v 'TestEnum_String' | grep -v '^FAIL$' | grep -v 'ischema/constraint' ; suite_bad=$(echo "$out" | grep -E '^--- FAIL' | grep -vc 'TestEnum_String')
git checkout -q -- .
echo "RESULT $id: demo_without_rc=$r_without demo_with_rc=$r_with suite_new_failures=$suite_bad"
if [ "$r_without" = 0 ] && [ "$r_with" != 0 ] && [ "$suite_bad" = 0 ]; then
  mkdir -p "/verif/seeded/$name"; cp "$seed"/patch.diff "$seed"/meta.json "$demo" "/verif/seeded/$name/"
  echo "CONFIRMED -> /verif/seeded/$name"
else
  echo "NOT CONFIRMED"; exit 1
fi
