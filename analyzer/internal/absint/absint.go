// Package absint is engine E3/E4: a small abstract interpreter over go/ssa used
// as a *partial evaluator*. It never runs code of /repo. Values that depend only
// on constants (e.g. the input byte a scanner step function is specialised
// for) are folded; every other condition forks the path and is recorded as a
// structured atom. The result of evaluating a loop-free function is a finite
// list of paths <path condition, effects, terminator> - a decision table.
package absint

import (
	"fmt"
	"go/constant"
	"go/token"
	"go/types"
	"sort"
	"strings"

	"golang.org/x/tools/go/ssa"
)

// ---------- abstract values ----------

type Val interface{ Key() string }

// Const is a compile-time constant (V == nil: nil / zero value of T).
type Const struct {
	V constant.Value
	// Tag, if set, replaces the value in Key(): the constant the function is
	// specialised for (the input byte) is folded in conditions but rendered
	// uniformly, so that the rows of different bytes can be compared.
	Tag string
}

// FuncV is a function value with closure bindings.
type FuncV struct {
	Fn    *ssa.Function
	Binds []Val
}

// Ptr points to an abstract location.
type Ptr struct {
	Base string // parameter name, "loc#N", "global:name"
	Path string // ".field[idx]..."
}

// Tuple is a multi-value.
type Tuple struct{ Vs []Val }

// Sym is a structured symbolic value.
type Sym struct {
	Op   string // "param", "load", "call", "bin", "un", "sel", "index", "len", "conv", "opaque", "invoke", "extract", "slice", "fresh"
	Name string // parameter name, callee name, operator, field path, type ...
	Args []Val
	Ep   int // epoch for loads / effectful calls
	key  string
}

func (c Const) Key() string {
	if c.Tag != "" {
		return c.Tag
	}
	if c.V == nil {
		return "nil"
	}
	return c.V.ExactString()
}

func (f FuncV) Key() string {
	s := "func:" + f.Fn.Name()
	if len(f.Binds) > 0 {
		var bs []string
		for _, b := range f.Binds {
			bs = append(bs, b.Key())
		}
		s += "[" + strings.Join(bs, ",") + "]"
	}
	return s
}

func (p Ptr) Key() string { return "&" + p.Base + p.Path }

func (t Tuple) Key() string {
	var bs []string
	for _, b := range t.Vs {
		bs = append(bs, b.Key())
	}
	return "(" + strings.Join(bs, ",") + ")"
}

func (s Sym) Key() string {
	if s.key != "" {
		return s.key
	}
	var as []string
	for _, a := range s.Args {
		as = append(as, a.Key())
	}
	k := s.Op
	if s.Name != "" {
		k += ":" + s.Name
	}
	if len(as) > 0 {
		k += "(" + strings.Join(as, ",") + ")"
	}
	if s.Ep != 0 {
		k += fmt.Sprintf("@%d", s.Ep)
	}
	return k
}

func MkBool(b bool) Const { return Const{V: constant.MakeBool(b)} }
func MkInt(i int64) Const { return Const{V: constant.MakeInt64(i)} }

// MkByte is the tagged constant a step function is specialised for.
func MkByte(b int) Const    { return Const{V: constant.MakeInt64(int64(b)), Tag: "BYTE"} }
func Param(name string) Sym { return Sym{Op: "param", Name: name} }

// ---------- path state ----------

// Atom is one decided branch condition.
type Atom struct {
	Cond  Val
	Truth bool
}

func (a Atom) String() string {
	if a.Truth {
		return a.Cond.Key()
	}
	return "!(" + a.Cond.Key() + ")"
}

// Effect is an observable action on the path, in order.
type Effect struct {
	Kind string // "store", "call", "defer", "abort"
	What string // location key or callee
	Args []Val
}

func (e Effect) String() string {
	var as []string
	for _, a := range e.Args {
		as = append(as, a.Key())
	}
	switch e.Kind {
	case "store":
		return e.What + "=" + strings.Join(as, ",")
	}
	return e.Kind + " " + e.What + "(" + strings.Join(as, ",") + ")"
}

type State struct {
	mem     map[string]Val
	Atoms   []Atom
	atomSet map[string]bool
	Effects []Effect
	epoch   int
	nloc    int
	Steps   int
}

func newState() *State {
	return &State{mem: map[string]Val{}, atomSet: map[string]bool{}}
}

func (s *State) clone() *State {
	n := &State{mem: make(map[string]Val, len(s.mem)), atomSet: make(map[string]bool, len(s.atomSet)), epoch: s.epoch, nloc: s.nloc, Steps: s.Steps}
	for k, v := range s.mem {
		n.mem[k] = v
	}
	for k, v := range s.atomSet {
		n.atomSet[k] = v
	}
	n.Atoms = append([]Atom(nil), s.Atoms...)
	n.Effects = append([]Effect(nil), s.Effects...)
	return n
}

// Outcome is the end of one path.
type Outcome struct {
	St   *State
	Kind string // "return", "panic", "abort"
	Val  Val
	Pos  token.Pos
}

// Config controls inlining.
type Config struct {
	// InModule reports whether a function belongs to the analysed module.
	InModule func(*ssa.Function) bool
	// Opaque: never inlined; recorded as an effectful call (epoch bump).
	Opaque func(*ssa.Function) bool
	// Pure: never inlined; result is a call symbol, no effect, no epoch bump.
	Pure func(*ssa.Function) bool
	// Effect: never inlined; recorded as an effect without invalidating memory;
	// the result is a call symbol.
	Effect func(*ssa.Function) bool
	// Inline: if non-nil, only functions for which it returns true are inlined;
	// the others become pure call symbols (unless Opaque).
	Inline func(*ssa.Function) bool
	// InlineLoops: a function selected by Inline is entered even when its CFG has a loop (paths that
	// go round the loop more than twice end as "abort" outcomes)
	InlineLoops bool
	// SelfBases: pointer bases whose stores are recorded as effects (e.g. "s").
	SelfBases map[string]bool
	MaxDepth  int
	MaxSteps  int
	// ResolveInvoke optionally resolves an interface method call on a value of
	// known dynamic type.
	ResolveInvoke func(recv Val, method *types.Func) *ssa.Function
}

type Interp struct {
	Cfg      Config
	loopMemo map[*ssa.Function]bool
}

func New(cfg Config) *Interp {
	if cfg.MaxDepth == 0 {
		cfg.MaxDepth = 12
	}
	if cfg.MaxSteps == 0 {
		cfg.MaxSteps = 200000
	}
	return &Interp{Cfg: cfg, loopMemo: map[*ssa.Function]bool{}}
}

type frame struct {
	fn     *ssa.Function
	env    map[ssa.Value]Val
	prev   *ssa.BasicBlock
	cnt    map[*ssa.BasicBlock]int
	defers []Effect
}

func copyFrame(fr *frame) *frame {
	n := &frame{fn: fr.fn, env: make(map[ssa.Value]Val, len(fr.env)), prev: fr.prev, cnt: make(map[*ssa.BasicBlock]int, len(fr.cnt))}
	for k, v := range fr.env {
		n.env[k] = v
	}
	for k, v := range fr.cnt {
		n.cnt[k] = v
	}
	n.defers = append([]Effect(nil), fr.defers...)
	return n
}

// HasLoop reports whether fn's CFG has a back edge.
func (in *Interp) HasLoop(fn *ssa.Function) bool {
	if v, ok := in.loopMemo[fn]; ok {
		return v
	}
	color := map[*ssa.BasicBlock]int{}
	var dfs func(b *ssa.BasicBlock) bool
	dfs = func(b *ssa.BasicBlock) bool {
		color[b] = 1
		for _, s := range b.Succs {
			if color[s] == 1 {
				return true
			}
			if color[s] == 0 && dfs(s) {
				return true
			}
		}
		color[b] = 2
		return false
	}
	r := len(fn.Blocks) == 0 || dfs(fn.Blocks[0])
	in.loopMemo[fn] = r
	return r
}

// Run evaluates fn with the given arguments (and closure bindings).
func (in *Interp) Run(fn *ssa.Function, args []Val, binds []Val) []Outcome {
	return in.call(fn, args, binds, newState(), 0)
}

// RunWith evaluates fn starting from a prepared memory (location key -> value).
func (in *Interp) RunWith(fn *ssa.Function, args []Val, binds []Val, mem map[string]Val) []Outcome {
	st := newState()
	for k, v := range mem {
		st.mem[k] = v
	}
	return in.call(fn, args, binds, st, 0)
}

func (in *Interp) call(fn *ssa.Function, args []Val, binds []Val, st *State, depth int) []Outcome {
	fr := &frame{fn: fn, env: map[ssa.Value]Val{}, cnt: map[*ssa.BasicBlock]int{}}
	for i, p := range fn.Params {
		if i < len(args) {
			fr.env[p] = args[i]
		} else {
			fr.env[p] = Param(p.Name())
		}
	}
	for i, fv := range fn.FreeVars {
		if i < len(binds) {
			fr.env[fv] = binds[i]
		} else {
			fr.env[fv] = Sym{Op: "free", Name: fv.Name()}
		}
	}
	return in.runFrom(fr, fn.Blocks[0], 0, st, depth)
}

func (in *Interp) get(fr *frame, v ssa.Value) Val {
	switch x := v.(type) {
	case *ssa.Const:
		return Const{V: x.Value}
	case *ssa.Function:
		return FuncV{Fn: x}
	case *ssa.Global:
		return Ptr{Base: "global:" + x.Name()}
	case *ssa.Builtin:
		return Sym{Op: "builtin", Name: x.Name()}
	}
	if r, ok := fr.env[v]; ok {
		return r
	}
	return Sym{Op: "opaque", Name: "?" + v.Name()}
}

// FieldNameHook, when set, names field i of struct type t (used to keep the names the pinned tree
// had for renamed fields). An empty result means: use the declared name.
var FieldNameHook func(t types.Type, i int) string

func fieldName(t types.Type, i int) string {
	if FieldNameHook != nil {
		if n := FieldNameHook(t, i); n != "" {
			return n
		}
	}
	if p, ok := t.Underlying().(*types.Pointer); ok {
		t = p.Elem()
	}
	if s, ok := t.Underlying().(*types.Struct); ok && i < s.NumFields() {
		return s.Field(i).Name()
	}
	return fmt.Sprintf("#%d", i)
}

func (in *Interp) load(st *State, a Val) Val {
	p, ok := a.(Ptr)
	if !ok {
		return Sym{Op: "load", Args: []Val{a}, Ep: st.epoch}
	}
	k := p.Key()
	if v, ok := st.mem[k]; ok {
		return v
	}
	// a whole value stored at a prefix: select the component symbolically
	path := p.Path
	for i := len(path) - 1; i > 0; i-- {
		if path[i] == '.' || path[i] == '[' {
			pre := Ptr{p.Base, path[:i]}.Key()
			if v, ok := st.mem[pre]; ok {
				if sv, isS := v.(Sym); isS && sv.Op == "struct" {
					for _, fa := range sv.Args {
						if fs, ok := fa.(Sym); ok && fs.Name == path[i:] {
							return fs.Args[0]
						}
					}
				}
				return Sym{Op: "sel", Name: path[i:], Args: []Val{v}}
			}
		}
	}
	if v, ok := st.mem[Ptr{p.Base, ""}.Key()]; ok && path != "" {
		return Sym{Op: "sel", Name: path, Args: []Val{v}}
	}
	// a struct whose fields were stored one by one: snapshot
	var fields []string
	for mk := range st.mem {
		if strings.HasPrefix(mk, k+".") {
			fields = append(fields, mk)
		}
	}
	if len(fields) > 0 {
		sort.Strings(fields)
		sv := Sym{Op: "struct"}
		for _, f := range fields {
			sv.Args = append(sv.Args, Sym{Op: "field", Name: strings.TrimPrefix(f, k), Args: []Val{st.mem[f]}})
		}
		return sv
	}
	ep := st.epoch
	if strings.HasPrefix(p.Base, "loc#") {
		ep = 0
	}
	return Sym{Op: "load", Name: k, Ep: ep}
}

func (in *Interp) store(st *State, a Val, v Val) {
	p, ok := a.(Ptr)
	if !ok {
		st.Effects = append(st.Effects, Effect{Kind: "store", What: "*" + a.Key(), Args: []Val{v}})
		return
	}
	k := p.Key()
	for mk := range st.mem {
		if strings.HasPrefix(mk, k+".") || strings.HasPrefix(mk, k+"[") {
			delete(st.mem, mk)
		}
	}
	st.mem[k] = v
	if in.Cfg.SelfBases[p.Base] {
		st.Effects = append(st.Effects, Effect{Kind: "store", What: p.Base + p.Path, Args: []Val{v}})
	}
}

func isCmp(op token.Token) bool {
	switch op {
	case token.EQL, token.NEQ, token.LSS, token.LEQ, token.GTR, token.GEQ:
		return true
	}
	return false
}

func binop(op token.Token, a, b Val) Val {
	ca, oka := a.(Const)
	cb, okb := b.(Const)
	if oka && okb && ca.V != nil && cb.V != nil {
		if isCmp(op) {
			if ca.V.Kind() == cb.V.Kind() || (ca.V.Kind() != constant.String && cb.V.Kind() != constant.String && ca.V.Kind() != constant.Bool) {
				return Const{V: constant.MakeBool(constant.Compare(ca.V, op, cb.V))}
			}
		}
		switch op {
		case token.ADD, token.SUB, token.MUL, token.AND, token.OR, token.XOR, token.REM, token.QUO:
			if ca.V.Kind() == constant.Int && cb.V.Kind() == constant.Int {
				if (op == token.REM || op == token.QUO) && constant.Sign(cb.V) == 0 {
					break
				}
				if op == token.QUO {
					return Const{V: constant.BinaryOp(ca.V, token.QUO_ASSIGN, cb.V)}
				}
				return Const{V: constant.BinaryOp(ca.V, op, cb.V)}
			}
			if ca.V.Kind() == constant.String && op == token.ADD {
				return Const{V: constant.BinaryOp(ca.V, op, cb.V)}
			}
		case token.LAND, token.LOR:
			return Const{V: constant.BinaryOp(ca.V, op, cb.V)}
		}
	}
	if op == token.EQL || op == token.NEQ {
		isIface := func(v Val) bool { s, ok := v.(Sym); return ok && s.Op == "iface" }
		if (isIface(a) && okb && cb.V == nil) || (isIface(b) && oka && ca.V == nil) {
			return MkBool(op == token.NEQ)
		}
	}
	if oka && okb && (op == token.EQL || op == token.NEQ) && (ca.V == nil || cb.V == nil) {
		return MkBool(((ca.V == nil) == (cb.V == nil)) == (op == token.EQL))
	}
	if fa, ok := a.(FuncV); ok {
		if fb, ok := b.(FuncV); ok && (op == token.EQL || op == token.NEQ) {
			return MkBool((fa.Key() == fb.Key()) == (op == token.EQL))
		}
	}
	if pa, ok := a.(Ptr); ok {
		if okb && cb.V == nil && (op == token.EQL || op == token.NEQ) {
			_ = pa
			return MkBool(op == token.NEQ) // a pointer to a location is never nil
		}
	}
	// canonical operand order for symmetric operators
	if (op == token.EQL || op == token.NEQ || op == token.ADD || op == token.MUL || op == token.AND || op == token.OR) && a.Key() > b.Key() {
		a, b = b, a
	}
	if op == token.NEQ {
		return Sym{Op: "un", Name: "!", Args: []Val{Sym{Op: "bin", Name: "==", Args: []Val{a, b}}}}
	}
	return Sym{Op: "bin", Name: op.String(), Args: []Val{a, b}}
}

func unop(op token.Token, a Val) Val {
	if c, ok := a.(Const); ok && c.V != nil {
		switch op {
		case token.NOT:
			return MkBool(!constant.BoolVal(c.V))
		case token.SUB:
			return Const{V: constant.UnaryOp(token.SUB, c.V, 0)}
		}
	}
	if op == token.NOT {
		if s, ok := a.(Sym); ok && s.Op == "un" && s.Name == "!" {
			return s.Args[0]
		}
	}
	return Sym{Op: "un", Name: op.String(), Args: []Val{a}}
}

func (in *Interp) runFrom(fr *frame, b *ssa.BasicBlock, start int, st *State, depth int) []Outcome {
	for {
		if start == 0 {
			fr.cnt[b]++
		}
		if fr.cnt[b] > 2 || st.Steps > in.Cfg.MaxSteps {
			st.Effects = append(st.Effects, Effect{Kind: "abort", What: "loop-or-budget in " + fr.fn.Name()})
			return []Outcome{{St: st, Kind: "abort", Val: Sym{Op: "opaque", Name: "loop"}}}
		}
		for ii := start; ii < len(b.Instrs); ii++ {
			ins := b.Instrs[ii]
			st.Steps++
			switch x := ins.(type) {
			case *ssa.Phi:
				for i, p := range b.Preds {
					if p == fr.prev {
						fr.env[x] = in.get(fr, x.Edges[i])
					}
				}
			case *ssa.BinOp:
				fr.env[x] = binop(x.Op, in.get(fr, x.X), in.get(fr, x.Y))
			case *ssa.UnOp:
				a := in.get(fr, x.X)
				if x.Op == token.MUL {
					fr.env[x] = in.load(st, a)
				} else {
					fr.env[x] = unop(x.Op, a)
				}
			case *ssa.FieldAddr:
				a := in.get(fr, x.X)
				fname := fieldName(x.X.Type(), x.Field)
				if p, ok := a.(Ptr); ok {
					fr.env[x] = Ptr{p.Base, p.Path + "." + fname}
				} else {
					fr.env[x] = Ptr{"(" + a.Key() + ")", "." + fname}
				}
			case *ssa.Field:
				a := in.get(fr, x.X)
				fr.env[x] = Sym{Op: "sel", Name: "." + fieldName(x.X.Type(), x.Field), Args: []Val{a}}
			case *ssa.Alloc:
				st.nloc++
				fr.env[x] = Ptr{Base: fmt.Sprintf("loc#%d", st.nloc)}
			case *ssa.Store:
				in.store(st, in.get(fr, x.Addr), in.get(fr, x.Val))
			case *ssa.ChangeType:
				fr.env[x] = in.get(fr, x.X)
			case *ssa.Convert:
				a := in.get(fr, x.X)
				if c, ok := a.(Const); ok && c.V != nil {
					// numeric conversions of constants keep the value; string(byte) etc.
					if bt, ok := x.Type().Underlying().(*types.Basic); ok {
						if bt.Info()&types.IsInteger != 0 && c.V.Kind() == constant.Int {
							fr.env[x] = c
							break
						}
						if bt.Info()&types.IsString != 0 && c.V.Kind() == constant.Int {
							if n, ok := constant.Int64Val(c.V); ok {
								fr.env[x] = Const{V: constant.MakeString(string(rune(n)))}
								break
							}
						}
					}
				}
				fr.env[x] = Sym{Op: "conv", Name: types.TypeString(x.Type(), func(p *types.Package) string { return p.Name() }), Args: []Val{a}}
			case *ssa.MakeInterface:
				// an interface made from a concrete value is never nil, whatever it holds
				fr.env[x] = Sym{Op: "iface", Args: []Val{in.get(fr, x.X)}}
			case *ssa.ChangeInterface:
				fr.env[x] = in.get(fr, x.X)
			case *ssa.MakeClosure:
				var bs []Val
				for _, bv := range x.Bindings {
					bs = append(bs, in.get(fr, bv))
				}
				fr.env[x] = FuncV{Fn: x.Fn.(*ssa.Function), Binds: bs}
			case *ssa.Extract:
				t := in.get(fr, x.Tuple)
				if tt, ok := t.(Tuple); ok && x.Index < len(tt.Vs) {
					fr.env[x] = tt.Vs[x.Index]
				} else {
					fr.env[x] = Sym{Op: "extract", Name: fmt.Sprintf("#%d", x.Index), Args: []Val{t}}
				}
			case *ssa.Call:
				outs := in.doCall(fr, x.Common(), x.Pos(), st, depth)
				if len(outs) == 1 && outs[0].Kind == "return" {
					fr.env[x] = outs[0].Val
					st = outs[0].St
					continue
				}
				var res []Outcome
				for _, o := range outs {
					if o.Kind != "return" {
						res = append(res, o)
						continue
					}
					nfr := copyFrame(fr)
					nfr.env[x] = o.Val
					res = append(res, in.runFrom(nfr, b, ii+1, o.St, depth)...)
				}
				return res
			case *ssa.If:
				c := in.get(fr, x.Cond)
				if cc, ok := c.(Const); ok && cc.V != nil {
					fr.prev = b
					if constant.BoolVal(cc.V) {
						b = b.Succs[0]
					} else {
						b = b.Succs[1]
					}
					goto next
				}
				{
					truth := true
					// normalise negation
					for {
						s, ok := c.(Sym)
						if ok && s.Op == "un" && s.Name == "!" {
							c = s.Args[0]
							truth = !truth
							continue
						}
						break
					}
					k := c.Key()
					if dec, ok := st.atomSet[k]; ok {
						fr.prev = b
						if dec == truth {
							b = b.Succs[0]
						} else {
							b = b.Succs[1]
						}
						goto next
					}
					st2 := st.clone()
					st.atomSet[k] = truth
					st.Atoms = append(st.Atoms, Atom{c, truth})
					st2.atomSet[k] = !truth
					st2.Atoms = append(st2.Atoms, Atom{c, !truth})
					fr2 := copyFrame(fr)
					fr.prev = b
					fr2.prev = b
					r1 := in.runFrom(fr, b.Succs[0], 0, st, depth)
					r2 := in.runFrom(fr2, b.Succs[1], 0, st2, depth)
					return append(r1, r2...)
				}
			case *ssa.Jump:
				fr.prev = b
				b = b.Succs[0]
				goto next
			case *ssa.Return:
				var v Val
				switch len(x.Results) {
				case 0:
					v = Const{V: nil}
				case 1:
					v = in.get(fr, x.Results[0])
				default:
					var vs []Val
					for _, r := range x.Results {
						vs = append(vs, in.get(fr, r))
					}
					v = Tuple{vs}
				}
				return []Outcome{{St: st, Kind: "return", Val: v, Pos: x.Pos()}}
			case *ssa.Panic:
				return []Outcome{{St: st, Kind: "panic", Val: in.get(fr, x.X), Pos: x.Pos()}}
			case *ssa.Slice:
				var as []Val
				as = append(as, in.get(fr, x.X))
				for _, e := range []ssa.Value{x.Low, x.High} {
					if e != nil {
						as = append(as, in.get(fr, e))
					} else {
						as = append(as, Const{V: nil})
					}
				}
				fr.env[x] = Sym{Op: "slice", Args: as}
			case *ssa.IndexAddr:
				a := in.get(fr, x.X)
				i := in.get(fr, x.Index)
				if p, ok := a.(Ptr); ok {
					fr.env[x] = Ptr{p.Base, p.Path + "[" + i.Key() + "]"}
				} else {
					fr.env[x] = Ptr{"(" + a.Key() + ")", "[" + i.Key() + "]"}
				}
			case *ssa.Index:
				fr.env[x] = Sym{Op: "index", Args: []Val{in.get(fr, x.X), in.get(fr, x.Index)}}
			case *ssa.Lookup:
				v := Sym{Op: "lookup", Args: []Val{in.get(fr, x.X), in.get(fr, x.Index)}, Ep: st.epoch}
				if x.CommaOk {
					fr.env[x] = Tuple{[]Val{v, Sym{Op: "lookupok", Args: v.Args, Ep: st.epoch}}}
				} else {
					fr.env[x] = v
				}
			case *ssa.TypeAssert:
				a := in.get(fr, x.X)
				if s, ok := a.(Sym); ok && s.Op == "iface" && !x.CommaOk {
					a = s.Args[0]
				}
				tn := types.TypeString(x.AssertedType, func(p *types.Package) string { return p.Name() })
				if x.CommaOk {
					fr.env[x] = Tuple{[]Val{Sym{Op: "assert", Name: tn, Args: []Val{a}}, Sym{Op: "assertok", Name: tn, Args: []Val{a}}}}
				} else {
					fr.env[x] = a
				}
			case *ssa.MakeSlice, *ssa.MakeMap, *ssa.MakeChan:
				st.nloc++
				fr.env[x.(ssa.Value)] = Sym{Op: "fresh", Name: fmt.Sprintf("%d", st.nloc)}
			case *ssa.MapUpdate:
				st.Effects = append(st.Effects, Effect{Kind: "mapupdate", What: in.get(fr, x.Map).Key(), Args: []Val{in.get(fr, x.Key), in.get(fr, x.Value)}})
				st.epoch++
			case *ssa.DebugRef:
			case *ssa.Defer:
				var as []Val
				for _, a := range x.Call.Args {
					as = append(as, in.get(fr, a))
				}
				name := "?"
				if sc := x.Call.StaticCallee(); sc != nil {
					name = sc.Name()
				}
				st.Effects = append(st.Effects, Effect{Kind: "defer", What: name, Args: as})
			case *ssa.RunDefers:
			case *ssa.Range:
				fr.env[x] = Sym{Op: "range", Args: []Val{in.get(fr, x.X)}}
			case *ssa.Next:
				fr.env[x] = Sym{Op: "next", Args: []Val{in.get(fr, x.Iter)}, Ep: st.Steps}
			default:
				if v, ok := ins.(ssa.Value); ok {
					fr.env[v] = Sym{Op: "opaque", Name: fmt.Sprintf("%T", ins)}
				}
				st.Effects = append(st.Effects, Effect{Kind: "abort", What: fmt.Sprintf("unhandled %T", ins)})
			}
		}
		return []Outcome{{St: st, Kind: "abort", Val: Sym{Op: "opaque", Name: "fallthrough"}}}
	next:
		start = 0
	}
}

func calleeName(f *ssa.Function) string {
	s := f.String()
	if i := strings.Index(s, "jsight-schema-core/"); i >= 0 {
		s = strings.ReplaceAll(s, "github.com/jsightapi/jsight-schema-core/", "")
	}
	return s
}

func (in *Interp) doCall(fr *frame, cc *ssa.CallCommon, pos token.Pos, st *State, depth int) []Outcome {
	var args []Val
	for _, a := range cc.Args {
		args = append(args, in.get(fr, a))
	}
	ret := func(v Val) []Outcome { return []Outcome{{St: st, Kind: "return", Val: v}} }
	if cc.IsInvoke() {
		recv := in.get(fr, cc.Value)
		if in.Cfg.ResolveInvoke != nil {
			if f := in.Cfg.ResolveInvoke(recv, cc.Method); f != nil {
				return in.callResolved(f, append([]Val{recv}, args...), nil, st, depth)
			}
		}
		st.epoch++
		st.Effects = append(st.Effects, Effect{Kind: "call", What: "invoke " + cc.Method.Name(), Args: append([]Val{recv}, args...)})
		return ret(Sym{Op: "invoke", Name: cc.Method.Name(), Args: append([]Val{recv}, args...), Ep: st.epoch})
	}
	var callee *ssa.Function
	var binds []Val
	switch v := cc.Value.(type) {
	case *ssa.Function:
		callee = v
	case *ssa.Builtin:
		switch v.Name() {
		case "len":
			if c, ok := args[0].(Const); ok && c.V != nil && c.V.Kind() == constant.String {
				return ret(MkInt(int64(len(constant.StringVal(c.V)))))
			}
			return ret(Sym{Op: "len", Args: args, Ep: st.epoch})
		case "recover":
			return ret(Sym{Op: "recover", Ep: st.epoch})
		}
		if v.Name() == "delete" || v.Name() == "copy" || v.Name() == "print" || v.Name() == "println" {
			st.Effects = append(st.Effects, Effect{Kind: "call", What: v.Name(), Args: args})
			st.epoch++
		}
		return ret(Sym{Op: "builtin", Name: v.Name(), Args: args, Ep: st.epoch})
	default:
		fv := in.get(fr, cc.Value)
		if f, ok := fv.(FuncV); ok {
			callee = f.Fn
			binds = f.Binds
		} else {
			st.epoch++
			st.Effects = append(st.Effects, Effect{Kind: "call", What: "dynamic", Args: append([]Val{fv}, args...)})
			return ret(Sym{Op: "dyncall", Args: append([]Val{fv}, args...), Ep: st.epoch})
		}
	}
	return in.callResolved(callee, args, binds, st, depth)
}

func (in *Interp) callResolved(callee *ssa.Function, args []Val, binds []Val, st *State, depth int) []Outcome {
	ret := func(v Val) []Outcome { return []Outcome{{St: st, Kind: "return", Val: v}} }
	name := calleeName(callee)
	if in.Cfg.Pure != nil && in.Cfg.Pure(callee) {
		return ret(Sym{Op: "call", Name: name, Args: args})
	}
	if in.Cfg.Effect != nil && in.Cfg.Effect(callee) {
		st.Effects = append(st.Effects, Effect{Kind: "call", What: name, Args: args})
		return ret(Sym{Op: "call", Name: name, Args: args, Ep: len(st.Effects)})
	}
	opaque := in.Cfg.Opaque != nil && in.Cfg.Opaque(callee)
	if !opaque && in.Cfg.Inline != nil && !in.Cfg.Inline(callee) {
		return ret(Sym{Op: "call", Name: name, Args: args, Ep: st.epoch})
	}
	hasLoop := in.HasLoop(callee) && !(in.Cfg.InlineLoops && in.Cfg.Inline != nil)
	if opaque || callee.Blocks == nil || (in.Cfg.InModule != nil && !in.Cfg.InModule(callee)) || hasLoop || depth >= in.Cfg.MaxDepth {
		if opaque || callee.Blocks == nil || depth >= in.Cfg.MaxDepth || in.HasLoop(callee) && !isPureLooking(callee) {
			st.epoch++
			st.Effects = append(st.Effects, Effect{Kind: "call", What: name, Args: args})
			return ret(Sym{Op: "call", Name: name, Args: args, Ep: st.epoch})
		}
		// external or looping function assumed pure on its arguments (strings.*, strconv.*, bytes.* ...)
		return ret(Sym{Op: "call", Name: name, Args: args, Ep: st.epoch})
	}
	return in.call(callee, args, binds, st, depth+1)
}

// isPureLooking: a function that stores nothing outside its own allocations.
func isPureLooking(f *ssa.Function) bool {
	for _, b := range f.Blocks {
		for _, in := range b.Instrs {
			switch x := in.(type) {
			case *ssa.Store:
				switch a := x.Addr.(type) {
				case *ssa.Alloc:
				case *ssa.IndexAddr:
					if _, ok := a.X.(*ssa.Alloc); !ok {
						if _, ok2 := a.X.(*ssa.MakeSlice); !ok2 {
							return false
						}
					}
				case *ssa.FieldAddr:
					if _, ok := a.X.(*ssa.Alloc); !ok {
						return false
					}
				default:
					return false
				}
			case *ssa.MapUpdate, *ssa.Send, *ssa.Go:
				return false
			case *ssa.Panic:
				return false
			}
		}
	}
	return true
}

// ---------- evaluation of symbolic values under an assignment ----------

// Eval evaluates v under an assignment of atom keys to constants. Returns nil if
// the value cannot be determined.
func Eval(v Val, env map[string]constant.Value) constant.Value {
	if c, ok := v.(Const); ok {
		return c.V
	}
	if val, ok := env[v.Key()]; ok {
		return val
	}
	s, ok := v.(Sym)
	if !ok {
		return nil
	}
	switch s.Op {
	case "un":
		a := Eval(s.Args[0], env)
		if a == nil {
			return nil
		}
		switch s.Name {
		case "!":
			if a.Kind() == constant.Bool {
				return constant.MakeBool(!constant.BoolVal(a))
			}
		case "-":
			return constant.UnaryOp(token.SUB, a, 0)
		}
	case "bin":
		a, b := Eval(s.Args[0], env), Eval(s.Args[1], env)
		if a == nil || b == nil {
			return nil
		}
		var op token.Token
		switch s.Name {
		case "==":
			op = token.EQL
		case "<":
			op = token.LSS
		case "<=":
			op = token.LEQ
		case ">":
			op = token.GTR
		case ">=":
			op = token.GEQ
		case "+":
			return constant.BinaryOp(a, token.ADD, b)
		case "-":
			return constant.BinaryOp(a, token.SUB, b)
		case "*":
			return constant.BinaryOp(a, token.MUL, b)
		default:
			return nil
		}
		if a.Kind() != b.Kind() {
			return nil
		}
		return constant.MakeBool(constant.Compare(a, op, b))
	case "conv":
		return Eval(s.Args[0], env)
	}
	return nil
}

// Leaves collects the keys of the primitive (non-operator) symbols a value is built from.
func Leaves(v Val, out map[string]Val) {
	switch x := v.(type) {
	case Sym:
		switch x.Op {
		case "un", "bin", "conv":
			for _, a := range x.Args {
				Leaves(a, out)
			}
		default:
			out[x.Key()] = x
		}
	case Tuple:
		for _, a := range x.Vs {
			Leaves(a, out)
		}
	}
}

// PathString renders a path for diagnostics.
func PathString(o Outcome) string {
	var as []string
	for _, a := range o.St.Atoms {
		as = append(as, a.String())
	}
	var es []string
	for _, e := range o.St.Effects {
		es = append(es, e.String())
	}
	sort.Strings(as)
	return "[" + strings.Join(as, " && ") + "] => " + strings.Join(es, "; ") + " ; " + o.Kind + " " + o.Val.Key()
}

// Mem returns the value stored at a location key in the final state of a path.
func (s *State) Mem(key string) (Val, bool) {
	v, ok := s.mem[key]
	return v, ok
}

// LastStore returns the value of the last recorded store effect to a location
// ("s.field"), if any.
func (s *State) LastStore(what string) (Val, bool) {
	for i := len(s.Effects) - 1; i >= 0; i-- {
		if s.Effects[i].Kind == "store" && s.Effects[i].What == what {
			return s.Effects[i].Args[0], true
		}
	}
	return nil, false
}

// EvalWith evaluates a symbolic value; leaf is called for every non-operator
// symbol and may return nil for "unknown".
func EvalWith(v Val, leaf func(Sym) constant.Value) constant.Value {
	if c, ok := v.(Const); ok {
		return c.V
	}
	s, ok := v.(Sym)
	if !ok {
		return nil
	}
	switch s.Op {
	case "un", "bin", "conv":
		env := map[string]constant.Value{}
		for _, a := range s.Args {
			if _, isC := a.(Const); isC {
				continue
			}
			r := EvalWith(a, leaf)
			if r == nil {
				return nil
			}
			env[a.Key()] = r
		}
		return Eval(s, env)
	}
	return leaf(s)
}
