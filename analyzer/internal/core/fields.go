package core

import (
	_ "embed"
	"encoding/json"
	"go/types"
	"sort"
	"strings"
)

// Renamed struct fields and unexported struct types: the same idea as anchors.go. fields.json records,
// for every named struct type of the pinned tree, its fields (name, type) in order. A field of the
// current tree whose name the pinned struct did not have is taken to be the renamed pinned field of
// the same type that is gone - when exactly one such pair exists. A struct type that is gone is matched
// to the one new struct type of the package with the same sequence of field types.

//go:embed fields.json
var fieldsJSON []byte

type FieldFP struct {
	Name string `json:"name"`
	Type string `json:"type"`
}

var fieldRef map[string][]FieldFP

func pinnedStructs() map[string][]FieldFP {
	if fieldRef == nil {
		fieldRef = map[string][]FieldFP{}
		_ = json.Unmarshal(fieldsJSON, &fieldRef)
	}
	return fieldRef
}

func structFP(pkgRel string, st *types.Struct) []FieldFP {
	q := func(pk *types.Package) string { return Rel(pk.Path()) }
	var out []FieldFP
	for i := 0; i < st.NumFields(); i++ {
		t := types.TypeString(st.Field(i).Type(), q)
		t = unexportedType(pkgRel).ReplaceAllString(t, pkgRel+".~")
		out = append(out, FieldFP{st.Field(i).Name(), t})
	}
	return out
}

// StructFingerprints: every named struct type of the module packages.
func (p *Program) StructFingerprints() map[string][]FieldFP {
	out := map[string][]FieldFP{}
	for _, pk := range p.Pkgs {
		sc := pk.Types.Scope()
		for _, nm := range sc.Names() {
			tn, ok := sc.Lookup(nm).(*types.TypeName)
			if !ok {
				continue
			}
			if st, ok := tn.Type().Underlying().(*types.Struct); ok {
				out[Rel(pk.PkgPath)+"."+nm] = structFP(Rel(pk.PkgPath), st)
			}
		}
	}
	return out
}

type fieldMaps struct {
	typeCurToPin map[string]string            // "pkg.Cur" -> "pkg.Pinned"
	typePinToCur map[string]string            // reverse
	curToPin     map[string]map[string]string // pinned type -> current field -> pinned field
	pinToCur     map[string]map[string]string // pinned type -> pinned field -> current field
}

func (p *Program) fields() *fieldMaps {
	p.fieldOnce.Do(p.computeFields)
	return p.fieldMaps
}

func (p *Program) computeFields() {
	fm := &fieldMaps{map[string]string{}, map[string]string{}, map[string]map[string]string{}, map[string]map[string]string{}}
	p.fieldMaps = fm
	ref := pinnedStructs()
	cur := p.StructFingerprints()
	// renamed struct types (unexported only)
	byPkgGone := map[string][]string{}
	for name := range ref {
		if _, ok := cur[name]; !ok {
			pk := name[:strings.LastIndex(name, ".")]
			byPkgGone[pk] = append(byPkgGone[pk], name)
		}
	}
	typesOnly := func(ff []FieldFP) string {
		var s []string
		for _, f := range ff {
			s = append(s, f.Type)
		}
		return strings.Join(s, ";")
	}
	for name, ff := range cur {
		if _, ok := ref[name]; ok {
			continue
		}
		pk := name[:strings.LastIndex(name, ".")]
		bare := name[strings.LastIndex(name, ".")+1:]
		if bare == "" || (bare[0] >= 'A' && bare[0] <= 'Z') {
			continue
		}
		var match []string
		for _, g := range byPkgGone[pk] {
			if typesOnly(ref[g]) == typesOnly(ff) {
				match = append(match, g)
			}
		}
		if len(match) == 1 {
			fm.typeCurToPin[name] = match[0]
			fm.typePinToCur[match[0]] = name
		}
	}
	// renamed fields
	var names []string
	for name := range cur {
		names = append(names, name)
	}
	sort.Strings(names)
	for _, name := range names {
		pin := name
		if o, ok := fm.typeCurToPin[name]; ok {
			pin = o
		}
		pf, ok := ref[pin]
		if !ok {
			continue
		}
		cf := cur[name]
		pinNames, curNames := map[string]bool{}, map[string]bool{}
		for _, f := range pf {
			pinNames[f.Name] = true
		}
		for _, f := range cf {
			curNames[f.Name] = true
		}
		c2p, p2c := map[string]string{}, map[string]string{}
		// same position, same type, old name gone, new name unknown: renamed in place
		if len(cf) == len(pf) {
			for i, f := range cf {
				g := pf[i]
				if !pinNames[f.Name] && !curNames[g.Name] && g.Type == f.Type {
					c2p[f.Name] = g.Name
					p2c[g.Name] = f.Name
				}
			}
		}
		for _, f := range cf {
			if pinNames[f.Name] {
				continue
			}
			if _, done := c2p[f.Name]; done {
				continue
			}
			var cand []string
			for _, g := range pf {
				if !curNames[g.Name] && g.Type == f.Type {
					cand = append(cand, g.Name)
				}
			}
			// and f must be the only new field of that type
			n := 0
			for _, f2 := range cf {
				if !pinNames[f2.Name] && f2.Type == f.Type {
					n++
				}
			}
			if len(cand) == 1 && n == 1 {
				c2p[f.Name] = cand[0]
				p2c[cand[0]] = f.Name
			}
		}
		fm.curToPin[pin] = c2p
		fm.pinToCur[pin] = p2c
	}
}

func structKey(t types.Type) string {
	if pt, ok := t.Underlying().(*types.Pointer); ok {
		t = pt.Elem()
	}
	if n, ok := t.(*types.Named); ok && n.Obj().Pkg() != nil {
		return Rel(n.Obj().Pkg().Path()) + "." + n.Obj().Name()
	}
	return ""
}

// PinnedFieldName: the name the pinned tree had for field i of struct type t.
func (p *Program) PinnedFieldName(t types.Type, i int) string {
	tt := t
	if pt, ok := tt.Underlying().(*types.Pointer); ok {
		tt = pt.Elem()
	}
	st, ok := tt.Underlying().(*types.Struct)
	if !ok || i >= st.NumFields() {
		return ""
	}
	name := st.Field(i).Name()
	key := structKey(t)
	if key == "" {
		return name
	}
	fm := p.fields()
	if o, ok := fm.typeCurToPin[key]; ok {
		key = o
	}
	if o, ok := fm.curToPin[key][name]; ok {
		return o
	}
	return name
}

// CurrentField: the current name of a field the pinned tree knew as pkgRel.typeName.field.
func (p *Program) CurrentField(pkgRel, typeName, field string) string {
	if o, ok := p.fields().pinToCur[pkgRel+"."+typeName][field]; ok {
		return o
	}
	return field
}

// CurrentType: the current name of a struct type the pinned tree knew as pkgRel.typeName.
func (p *Program) CurrentType(pkgRel, typeName string) string {
	if o, ok := p.fields().typePinToCur[pkgRel+"."+typeName]; ok {
		return o[strings.LastIndex(o, ".")+1:]
	}
	return typeName
}

// ActivePinnedFieldName is PinnedFieldName on the program loaded last (hook for packages that name fields).
func ActivePinnedFieldName(t types.Type, i int) string {
	if activeProgram == nil {
		return ""
	}
	return activeProgram.PinnedFieldName(t, i)
}
