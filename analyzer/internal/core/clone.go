package core

import (
	"bytes"
	"go/ast"
	"go/printer"
	"go/token"
	"go/types"
	"regexp"
	"strings"

	"golang.org/x/tools/go/packages"
)

// NormFunc renders a function declaration in a normal form for sibling
// comparison (engine E8): comments and positions dropped, the receiver and
// parameters and local variables alpha-renamed in order of first declaration,
// then the substitutions of the rule instance applied (regex -> replacement) to
// abstract the documented differences (type names, accessor spellings).
func NormFunc(pk *packages.Package, fd *ast.FuncDecl, subst [][2]string) string {
	if fd == nil || fd.Body == nil {
		return ""
	}
	// collect local objects in declaration order
	ren := map[types.Object]string{}
	n := 0
	add := func(id *ast.Ident) {
		if id == nil || id.Name == "_" {
			return
		}
		obj := pk.TypesInfo.Defs[id]
		if obj == nil {
			return
		}
		if _, ok := ren[obj]; !ok {
			ren[obj] = "v" + itoa(n)
			n++
		}
	}
	if fd.Recv != nil {
		for _, f := range fd.Recv.List {
			for _, nm := range f.Names {
				add(nm)
			}
		}
	}
	for _, f := range fd.Type.Params.List {
		for _, nm := range f.Names {
			add(nm)
		}
	}
	if fd.Type.Results != nil {
		for _, f := range fd.Type.Results.List {
			for _, nm := range f.Names {
				add(nm)
			}
		}
	}
	ast.Inspect(fd.Body, func(nd ast.Node) bool {
		if id, ok := nd.(*ast.Ident); ok {
			if obj := pk.TypesInfo.Defs[id]; obj != nil {
				if _, isVar := obj.(*types.Var); isVar {
					add(id)
				}
			}
		}
		return true
	})
	// implicit type-switch objects
	ast.Inspect(fd.Body, func(nd ast.Node) bool {
		if cc, ok := nd.(*ast.CaseClause); ok {
			if obj := pk.TypesInfo.Implicits[cc]; obj != nil {
				if _, ok := ren[obj]; !ok {
					// all clauses of one switch share the source name; map by name+switch
					ren[obj] = "ts_" + obj.Name()
				}
			}
		}
		return true
	})
	// Re-print from a comment-free copy: easier to work on the source text directly.
	var buf bytes.Buffer
	cfg := printer.Config{Mode: printer.RawFormat}
	// apply renames on a cloned AST instead of text offsets (positions in the
	// printed text differ from source offsets): clone identifiers in place.
	saved := map[*ast.Ident]string{}
	ast.Inspect(fd.Body, func(nd ast.Node) bool {
		if id, ok := nd.(*ast.Ident); ok {
			if nn, ok := ren[pk.TypesInfo.ObjectOf(id)]; ok {
				saved[id] = id.Name
				id.Name = nn
			}
		}
		return true
	})
	// print without comments: use a FileSet-free print of the node
	cfg.Fprint(&buf, token.NewFileSet(), fd.Body)
	for id, old := range saved {
		id.Name = old
	}
	s := buf.String()
	s = regexp.MustCompile(`\s+`).ReplaceAllString(s, " ")
	for _, sb := range subst {
		s = regexp.MustCompile(sb[0]).ReplaceAllString(s, sb[1])
	}
	return strings.TrimSpace(s)
}

func itoa(n int) string {
	if n == 0 {
		return "0"
	}
	var b []byte
	for n > 0 {
		b = append([]byte{byte('0' + n%10)}, b...)
		n /= 10
	}
	return string(b)
}

// FirstDiff returns a short description of where two normal forms diverge.
func FirstDiff(a, b string) string {
	i := 0
	for i < len(a) && i < len(b) && a[i] == b[i] {
		i++
	}
	lo := i - 30
	if lo < 0 {
		lo = 0
	}
	ha, hb := i+50, i+50
	if ha > len(a) {
		ha = len(a)
	}
	if hb > len(b) {
		hb = len(b)
	}
	return "…" + a[lo:ha] + "…  vs  …" + b[lo:hb] + "…"
}
