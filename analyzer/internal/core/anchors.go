package core

import (
	_ "embed"
	"encoding/json"
	"go/ast"
	"go/types"
	"regexp"
	"sort"
	"strings"
)

// Renamed functions. Rules name the functions they anchor on. When an unexported function has been
// renamed (a clean-up that changes no behaviour) the name no longer resolves; the reference recorded
// from the pinned tree (anchors.json: for every function of the module its package, receiver, signature
// and the set of functions it calls) is then used to find the ONE function of the same package that
// has a name the pinned tree did not know, the same receiver and signature, and the most similar set
// of callees. Nothing is guessed when that is not unique.

//go:embed anchors.json
var anchorsJSON []byte

// AnchorFP is the fingerprint of one function of the pinned tree.
type AnchorFP struct {
	Pkg     string   `json:"pkg"`
	Recv    string   `json:"recv"`
	Sig     string   `json:"sig"`
	Callees []string `json:"callees"`
	Stmts   int      `json:"stmts"`
}

var anchorRef map[string]AnchorFP

func anchors() map[string]AnchorFP {
	if anchorRef == nil {
		anchorRef = map[string]AnchorFP{}
		_ = json.Unmarshal(anchorsJSON, &anchorRef)
	}
	return anchorRef
}

// Fingerprints computes the fingerprint of every function declaration of the loaded program.
func (p *Program) Fingerprints() map[string]AnchorFP {
	out := map[string]AnchorFP{}
	for _, d := range p.FuncDecls() {
		if d.Decl.Body == nil {
			continue
		}
		out[DeclName(d.Pkg, d.Decl)] = p.fingerprint(&d)
	}
	return out
}

func (p *Program) fingerprint(d *DeclSite) AnchorFP {
	fp := AnchorFP{Pkg: Rel(d.Pkg.PkgPath)}
	q := func(pk *types.Package) string { return Rel(pk.Path()) }
	if obj, ok := d.Pkg.TypesInfo.Defs[d.Decl.Name].(*types.Func); ok {
		sig := obj.Type().(*types.Signature)
		if sig.Recv() != nil {
			fp.Recv = types.TypeString(sig.Recv().Type(), q)
		}
		fp.Sig = types.TypeString(types.NewSignatureType(nil, nil, nil, sig.Params(), sig.Results(), sig.Variadic()), q)
		// unexported named types of the function's own package may be renamed together with it
		fp.Sig = unexportedType(fp.Pkg).ReplaceAllString(fp.Sig, fp.Pkg+".~")
		fp.Recv = unexportedType(fp.Pkg).ReplaceAllString(fp.Recv, fp.Pkg+".~")
	}
	seen := map[string]bool{}
	ast.Inspect(d.Decl.Body, func(n ast.Node) bool {
		if call, ok := n.(*ast.CallExpr); ok {
			if f, ok := Callee(d.Pkg, call).(*types.Func); ok {
				seen[Rel(f.FullName())] = true
			}
		}
		return true
	})
	for k := range seen {
		fp.Callees = append(fp.Callees, k)
	}
	sort.Strings(fp.Callees)
	fp.Stmts = len(d.Decl.Body.List)
	return fp
}

// resolveRenamed finds the current declaration of a function the pinned tree knew as `full`.
func (p *Program) resolveRenamed(full string) *DeclSite {
	p.renameMu.Lock()
	defer p.renameMu.Unlock()
	if p.renamed == nil {
		p.renamed = map[string]*DeclSite{}
	}
	if d, ok := p.renamed[full]; ok {
		return d
	}
	p.renamed[full] = nil
	ref, ok := anchors()[full]
	if !ok {
		return nil
	}
	// unexported only: an exported name is API and is looked up as it is
	bare := full
	if i := strings.LastIndex(bare, "."); i >= 0 {
		bare = bare[i+1:]
	}
	if bare == "" || ast.IsExported(bare) {
		return nil
	}
	known := anchors()
	// names of the pinned tree that are gone from the current one (several functions may have been renamed together)
	current := map[string]bool{}
	for _, d := range p.FuncDecls() {
		current[DeclName(d.Pkg, d.Decl)] = true
	}
	alive := func(name string) bool { return current[name] }
	type cand struct {
		d   DeclSite
		sim float64
	}
	var cands []cand
	for _, d := range p.FuncDecls() {
		if d.Decl.Body == nil || Rel(d.Pkg.PkgPath) != ref.Pkg {
			continue
		}
		name := DeclName(d.Pkg, d.Decl)
		if _, was := known[name]; was {
			continue // existed under this name before: not the renamed one
		}
		d := d
		fp := p.fingerprint(&d)
		if fp.Recv != ref.Recv || fp.Sig != ref.Sig {
			continue
		}
		// similarity of the callee sets, over the callees whose names exist on both trees
		a, b := map[string]bool{}, map[string]bool{}
		for _, x := range ref.Callees {
			if _, inMod := known[x]; !inMod || alive(x) {
				a[x] = true
			}
		}
		for _, x := range fp.Callees {
			if _, wasKnown := known[x]; wasKnown || !strings.Contains(x, ref.Pkg) {
				b[x] = true
			}
		}
		inter, union := 0, 0
		for x := range a {
			union++
			if b[x] {
				inter++
			}
		}
		for x := range b {
			if !a[x] {
				union++
			}
		}
		sim := 1.0
		if union > 0 {
			sim = float64(inter) / float64(union)
		}
		cands = append(cands, cand{d, sim})
	}
	if len(cands) == 0 {
		return nil
	}
	sort.Slice(cands, func(i, j int) bool { return cands[i].sim > cands[j].sim })
	if cands[0].sim < 0.5 || (len(cands) > 1 && cands[1].sim == cands[0].sim) {
		return nil
	}
	best := cands[0].d
	p.renamed[full] = &best
	if p.RenamedTo == nil {
		p.RenamedTo = map[string]string{}
	}
	p.RenamedTo[full] = DeclName(best.Pkg, best.Decl)
	return &best
}

// CurrentName returns the bare name under which the function the pinned tree knew as `full` is
// declared now (the same bare name when it was not renamed or cannot be resolved).
func (p *Program) CurrentName(full string) string {
	bare := full
	if i := strings.LastIndex(bare, "."); i >= 0 {
		bare = bare[i+1:]
	}
	if d := p.FindDecl(full); d != nil {
		return d.Decl.Name.Name
	}
	return bare
}

// PinnedName maps the full name of a function of the current tree back to the name the pinned tree
// knew it under (identity when it was not renamed). Tables of reasons are keyed by pinned names.
func (p *Program) PinnedName(current string) string {
	p.pinOnce.Do(func() {
		p.pinnedOf = map[string]string{}
		cur := map[string]bool{}
		for _, d := range p.FuncDecls() {
			cur[DeclName(d.Pkg, d.Decl)] = true
		}
		var gone []string
		for name := range anchors() {
			if !cur[name] {
				gone = append(gone, name)
			}
		}
		sort.Strings(gone)
		for _, name := range gone {
			if d := p.resolveRenamed(name); d != nil {
				p.pinnedOf[DeclName(d.Pkg, d.Decl)] = name
			}
		}
	})
	suffix := ""
	base := current
	if i := strings.Index(base, "$"); i >= 0 {
		base, suffix = current[:i], current[i:]
	}
	if i := strings.Index(base, "#"); i >= 0 {
		base, suffix = base[:i], base[i:]+suffix
	}
	if o, ok := p.pinnedOf[base]; ok {
		return o + suffix
	}
	return current
}

var unexportedTypeRE = map[string]*regexp.Regexp{}

func unexportedType(pkgRel string) *regexp.Regexp {
	if r, ok := unexportedTypeRE[pkgRel]; ok {
		return r
	}
	r := regexp.MustCompile(regexp.QuoteMeta(pkgRel) + `\.[a-z_][A-Za-z0-9_]*`)
	unexportedTypeRE[pkgRel] = r
	return r
}
