package core

import (
	"crypto/sha1"
	"encoding/hex"
	"encoding/json"
	"fmt"
	"os"
	"path/filepath"
	"sort"
	"strings"
	"time"
)

// Status of an obligation.
type Status string

const (
	OK        Status = "ok"        // discharged by the rule
	Tabled    Status = "tabled"    // discharged by a reasoned table entry in the rule file
	Violation Status = "violation" // rule instance fails
	Note      Status = "note"      // informational, never gating
)

// Obligation is one rule instance: a construct the rule was applied to.
type Obligation struct {
	Rule   string `json:"rule"`   // e.g. "C16.fmt"
	Key    string `json:"key"`    // stable key: rule@function:construct
	Pos    string `json:"pos"`    // file:line on this run
	What   string `json:"what"`   // the instance in words
	Status Status `json:"status"` //
	Detail string `json:"detail,omitempty"`
}

// Ctx is handed to every rule.
type Ctx struct {
	P        *Program
	P386     *Program // only in thorough tier (may be nil)
	Tier     string
	Property string
	Obs      []Obligation
	RuleText map[string]string // rule id -> text
	ruleSeq  []string
	Extra    map[string]any
	floors   map[string]int
	Assume   []string
}

func NewCtx(p *Program, property, tier string) *Ctx {
	return &Ctx{P: p, Tier: tier, Property: property, RuleText: map[string]string{}, Extra: map[string]any{}, floors: map[string]int{}}
}

// Rule registers the text of a rule (shown in evidence).
func (c *Ctx) Rule(id, text string) {
	if _, ok := c.RuleText[id]; !ok {
		c.ruleSeq = append(c.ruleSeq, id)
	}
	c.RuleText[id] = text
}

// Floor registers the minimal number of instances (ok+tabled+violation) the rule
// must have matched; fewer means the rule went vacuous.
func (c *Ctx) Floor(rule string, n int) { c.floors[rule] = n }

func (c *Ctx) add(rule, key, pos, what string, st Status, detail string) {
	c.Obs = append(c.Obs, Obligation{Rule: rule, Key: rule + "@" + key, Pos: pos, What: what, Status: st, Detail: detail})
}

func (c *Ctx) OK(rule, key, pos, what string) { c.add(rule, key, pos, what, OK, "") }
func (c *Ctx) OKd(rule, key, pos, what, detail string) {
	c.add(rule, key, pos, what, OK, detail)
}
func (c *Ctx) Tabled(rule, key, pos, what, reason string) {
	c.add(rule, key, pos, what, Tabled, reason)
}
func (c *Ctx) Bad(rule, key, pos, what, detail string) {
	c.add(rule, key, pos, what, Violation, detail)
}
func (c *Ctx) Note(rule, key, pos, what, detail string) {
	c.add(rule, key, pos, what, Note, detail)
}

// Unresolved reports an anchor (function/type/field) a rule instance is keyed on
// that no longer exists: the obligation cannot be discharged.
func (c *Ctx) Unresolved(rule, anchor string) {
	c.add(rule, "anchor:"+anchor, "-", "anchor "+anchor, Violation, "unresolved anchor: the construct this rule instance is keyed on was not found in the current tree")
}

// Check is a convenience: ok ? OK : Bad.
func (c *Ctx) Check(ok bool, rule, key, pos, what, detailIfBad string) bool {
	if ok {
		c.OK(rule, key, pos, what)
	} else {
		c.Bad(rule, key, pos, what, detailIfBad)
	}
	return ok
}

// ---- known findings ----

type KnownFinding struct {
	Property string `json:"property"`
	Key      string `json:"key"`
	What     string `json:"what"`
	Input    string `json:"failing_input,omitempty"`
	Why      string `json:"why_not_fixed,omitempty"`
}

type FixedFinding struct {
	Property string `json:"property"`
	Commit   string `json:"commit"`
	Key      string `json:"key,omitempty"`
	What     string `json:"what"`
}

type KnownFile struct {
	Comment string         `json:"_comment,omitempty"`
	Known   []KnownFinding `json:"known"`
	Fixed   []FixedFinding `json:"fixed"`
}

func LoadKnown(path string) (*KnownFile, error) {
	b, err := os.ReadFile(path)
	if err != nil {
		return nil, err
	}
	var k KnownFile
	if err := json.Unmarshal(b, &k); err != nil {
		return nil, err
	}
	return &k, nil
}

// ---- finishing a check ----

type Result struct {
	Violations int
	Known      int
	Lines      []string
}

func uniqueKeys(obs []Obligation) {
	seen := map[string]int{}
	for i := range obs {
		k := obs[i].Key
		seen[k]++
		if seen[k] > 1 {
			obs[i].Key = fmt.Sprintf("%s#%d", k, seen[k])
		}
	}
}

// Finish applies floors and the known-findings file, writes evidence and
// violation replay files, and returns the lines to print.
func (c *Ctx) Finish(verifDir string, known *KnownFile, seed int64, start time.Time) Result {
	var res Result
	// floors
	counts := map[string]int{}
	for _, o := range c.Obs {
		if o.Status != Note {
			counts[o.Rule]++
		}
	}
	for _, r := range c.ruleSeq {
		if _, ok := c.floors[r]; !ok {
			c.floors[r] = 1
		}
	}
	var fr []string
	for r := range c.floors {
		fr = append(fr, r)
	}
	sort.Strings(fr)
	for _, r := range fr {
		if counts[r] < c.floors[r] {
			c.add(r, "floor", "-", fmt.Sprintf("instance count of %s", r), Violation,
				fmt.Sprintf("rule matched %d instances, fewer than the %d confirmed by hand: the rule went (partly) vacuous - a construct it is keyed on was removed or changed shape", counts[r], c.floors[r]))
		}
	}
	sort.SliceStable(c.Obs, func(i, j int) bool {
		if c.Obs[i].Rule != c.Obs[j].Rule {
			return c.Obs[i].Rule < c.Obs[j].Rule
		}
		return c.Obs[i].Key < c.Obs[j].Key
	})
	uniqueKeys(c.Obs)

	knownSet := map[string]KnownFinding{}
	if known != nil {
		for _, k := range known.Known {
			if k.Property == c.Property {
				knownSet[k.Key] = k
			}
		}
	}
	vdir := filepath.Join(verifDir, "evidence", "violations")
	os.MkdirAll(vdir, 0o755)
	// remove stale replay files of this property
	if ents, err := os.ReadDir(vdir); err == nil {
		for _, e := range ents {
			if strings.HasPrefix(e.Name(), c.Property+"-") {
				os.Remove(filepath.Join(vdir, e.Name()))
			}
		}
	}
	nOK, nTab, nNote := 0, 0, 0
	var knownHit []string
	var viol []Obligation
	for _, o := range c.Obs {
		switch o.Status {
		case OK:
			nOK++
		case Tabled:
			nTab++
		case Note:
			nNote++
		case Violation:
			if k, ok := knownSet[o.Key]; ok {
				res.Known++
				knownHit = append(knownHit, o.Key)
				res.Lines = append(res.Lines, fmt.Sprintf("KNOWN-FINDING: property=%s %s at %s: %s", c.Property, o.Key, o.Pos, k.What))
				continue
			}
			viol = append(viol, o)
		}
	}
	for _, o := range viol {
		h := sha1.Sum([]byte(o.Key))
		name := fmt.Sprintf("%s-%s.json", c.Property, hex.EncodeToString(h[:6]))
		path := filepath.Join(vdir, name)
		b, _ := json.MarshalIndent(map[string]any{"property": c.Property, "obligation": o, "rule_text": c.RuleText[o.Rule]}, "", " ")
		os.WriteFile(path, b, 0o644)
		res.Violations++
		res.Lines = append(res.Lines, fmt.Sprintf("%s: [%s] %s\n    %s\n    key=%s", o.Pos, o.Rule, o.What, o.Detail, o.Key))
		res.Lines = append(res.Lines, fmt.Sprintf("VIOLATION property=%s replay=%s", c.Property, path))
	}

	// evidence
	total := nOK + nTab + len(viol) + res.Known
	distinct := map[string]bool{}
	for _, o := range c.Obs {
		if o.Status != Note {
			distinct[o.Key] = true
		}
	}
	var rules []string
	perRule := map[string]map[string]int{}
	for _, r := range c.ruleSeq {
		rules = append(rules, r+": "+c.RuleText[r])
		perRule[r] = map[string]int{}
	}
	for _, o := range c.Obs {
		if perRule[o.Rule] == nil {
			perRule[o.Rule] = map[string]int{}
		}
		perRule[o.Rule][string(o.Status)]++
	}
	// samples: up to 2 per rule, preferring ok ones with details
	var samples []any
	perRuleSample := map[string]int{}
	for _, o := range c.Obs {
		if o.Status == Note || perRuleSample[o.Rule] >= 2 {
			continue
		}
		perRuleSample[o.Rule]++
		samples = append(samples, o)
	}
	expl, _ := c.Extra["explanation"].(string)
	cov := map[string]any{
		"explanation":         expl,
		"obligations":         total,
		"discharged":          nOK + nTab,
		"tabled_with_reason":  nTab,
		"evaluations":         total,
		"distinct_nontrivial": len(distinct),
		"rule":                strings.Join(rules, " || "),
		"samples":             samples,
		"per_rule":            perRule,
		"notes":               nNote,
		"known_findings":      knownHit,
		"analysed": map[string]any{
			"packages":         len(c.P.Pkgs),
			"files":            c.P.NFiles,
			"ssa_functions":    c.P.NFuncs,
			"ssa_instructions": c.P.NInstr,
			"goarch_extra":     c.P386 != nil,
		},
		"checker_cmd":  fmt.Sprintf("bin/jsv check --property %s --tier %s", c.Property, c.Tier),
		"trusted_base": []string{"go/types", "golang.org/x/tools v0.29.0 go/packages, go/ssa, callgraph/vta", "the rule tables in analyzer/internal/rules (reasoned exceptions listed there)"},
	}
	for k, v := range c.Extra {
		if k != "explanation" {
			cov[k] = v
		}
	}
	assume := append([]string{
		"type-based aliasing; no unsafe / reflection writes in scope (checked by rule base.unsafe)",
		"clause-level claim: decides the structural necessary conditions named in coverage.rule, not the whole behavioural property",
	}, c.Assume...)
	ev := map[string]any{
		"property_id": c.Property,
		"tier":        c.Tier,
		"seed":        seed,
		"level":       "other",
		"coverage":    cov,
		"assumptions": assume,
		"wall_s":      time.Since(start).Seconds(),
		"violations":  res.Violations,
	}
	b, _ := json.MarshalIndent(ev, "", " ")
	os.MkdirAll(filepath.Join(verifDir, "evidence"), 0o755)
	os.WriteFile(filepath.Join(verifDir, "evidence", c.Property+".json"), b, 0o644)
	return res
}
