// Package core holds the loader (engine E0), the obligation/report model and
// the helpers every rule shares.  Nothing in here executes code from /repo:
// the repository is parsed, type-checked and lowered to go/ssa only.
package core

import (
	"sync"
	"fmt"
	"go/ast"
	"go/token"
	"go/types"
	"os"
	"path/filepath"
	"sort"
	"strings"

	"golang.org/x/tools/go/callgraph"
	"golang.org/x/tools/go/callgraph/cha"
	"golang.org/x/tools/go/callgraph/vta"
	"golang.org/x/tools/go/packages"
	"golang.org/x/tools/go/ssa"
	"golang.org/x/tools/go/ssa/ssautil"
)

// Module is the module path of the analysed repository.
const Module = "github.com/jsightapi/jsight-schema-core"

// Program is the resolved program all rules work on.
type Program struct {
	Dir      string
	Fset     *token.FileSet
	Pkgs     []*packages.Package          // module packages only, sorted by path
	ByPath   map[string]*packages.Package // full import path -> package (module pkgs)
	SSA      *ssa.Program
	SSAPkgs  map[string]*ssa.Package
	AllFuncs map[*ssa.Function]bool
	cg       *callgraph.Graph
	chaG     *callgraph.Graph
	GOARCH   string

	succCache  map[*ssa.Function][]*ssa.Function
	succCacheD map[*ssa.Function][]*ssa.Function

	NFiles, NFuncs, NInstr int

	renamed   map[string]*DeclSite
	pinnedOf  map[string]string
	fieldMaps *fieldMaps
	renameMu  sync.Mutex
	pinOnce   sync.Once
	fieldOnce sync.Once
	RenamedTo map[string]string // function of the pinned tree -> its current name, for the renames that were resolved
}

// outOfScope lists packages that are loaded but are not subject to rules:
// tools and test helpers.
var outOfScope = []string{
	Module + "/internal/cmd/generator",
	Module + "/internal/mocks",
	Module + "/notations/jschema/internal/mocks",
	Module + "/test",
}

// InScope reports whether a package path is subject to rules.
func InScope(path string) bool {
	if path != Module && !strings.HasPrefix(path, Module+"/") {
		return false
	}
	for _, o := range outOfScope {
		if path == o || strings.HasPrefix(path, o+"/") {
			return false
		}
	}
	return true
}

// Load loads, type-checks and builds SSA for /repo's current working tree.
func Load(dir, goarch string) (*Program, error) {
	if os.Getenv("GOWORK") != "" && os.Getenv("GOWORK") != "off" {
		return nil, fmt.Errorf("GOWORK must be unset")
	}
	env := append(os.Environ(), "GOFLAGS=-mod=mod", "GOPROXY=off", "GOSUMDB=off", "GOTOOLCHAIN=local", "GOWORK=off")
	if goarch != "" {
		env = append(env, "GOARCH="+goarch)
	}
	cfg := &packages.Config{
		Mode:  packages.LoadAllSyntax,
		Dir:   dir,
		Tests: false,
		Env:   env,
	}
	pkgs, err := packages.Load(cfg, "./...")
	if err != nil {
		return nil, err
	}
	p := &Program{Dir: dir, ByPath: map[string]*packages.Package{}, SSAPkgs: map[string]*ssa.Package{}, GOARCH: goarch}
	var errs []string
	packages.Visit(pkgs, nil, func(pk *packages.Package) {
		for _, e := range pk.Errors {
			errs = append(errs, pk.PkgPath+": "+e.Error())
		}
	})
	if len(errs) > 0 {
		sort.Strings(errs)
		if len(errs) > 10 {
			errs = errs[:10]
		}
		return nil, fmt.Errorf("type-check/load errors:\n  %s", strings.Join(errs, "\n  "))
	}
	for _, pk := range pkgs {
		if pk.PkgPath == Module || strings.HasPrefix(pk.PkgPath, Module+"/") {
			p.Pkgs = append(p.Pkgs, pk)
			p.ByPath[pk.PkgPath] = pk
			p.Fset = pk.Fset
			p.NFiles += len(pk.Syntax)
		}
	}
	sort.Slice(p.Pkgs, func(i, j int) bool { return p.Pkgs[i].PkgPath < p.Pkgs[j].PkgPath })
	if len(p.Pkgs) < 25 {
		return nil, fmt.Errorf("only %d module packages loaded from %s (expected >= 25)", len(p.Pkgs), dir)
	}
	if p.ByPath[Module] == nil {
		return nil, fmt.Errorf("root package %s not found", Module)
	}
	prog, spkgs := ssautil.AllPackages(pkgs, ssa.InstantiateGenerics)
	prog.Build()
	p.SSA = prog
	for i, sp := range spkgs {
		if sp != nil {
			p.SSAPkgs[pkgs[i].PkgPath] = sp
		}
	}
	p.AllFuncs = ssautil.AllFunctions(prog)
	for f := range p.AllFuncs {
		if p.FuncInModule(f) {
			p.NFuncs++
			for _, b := range f.Blocks {
				p.NInstr += len(b.Instrs)
			}
		}
	}
	activeProgram = p
	p.fields()
	p.PinnedName("")
	return p, nil
}

// CallGraph returns the VTA call graph (built lazily).
func (p *Program) CallGraph() *callgraph.Graph {
	if p.cg == nil {
		p.chaG = cha.CallGraph(p.SSA)
		p.cg = vta.CallGraph(p.AllFuncs, p.chaG)
	}
	return p.cg
}

// CHA returns the class-hierarchy call graph.
func (p *Program) CHA() *callgraph.Graph {
	p.CallGraph()
	return p.chaG
}

// FuncPkgPath returns the package path of the package that declares f (through
// generic origins and enclosing functions of closures).
func FuncPkgPath(f *ssa.Function) string {
	for f != nil {
		if f.Pkg != nil {
			return f.Pkg.Pkg.Path()
		}
		if o := f.Origin(); o != nil && o != f {
			f = o
			continue
		}
		if f.Parent() != nil {
			f = f.Parent()
			continue
		}
		if f.Object() != nil && f.Object().Pkg() != nil {
			return f.Object().Pkg().Path()
		}
		return ""
	}
	return ""
}

func (p *Program) FuncInModule(f *ssa.Function) bool {
	pp := FuncPkgPath(f)
	return pp == Module || strings.HasPrefix(pp, Module+"/")
}

func (p *Program) FuncInScope(f *ssa.Function) bool {
	if !InScope(FuncPkgPath(f)) {
		return false
	}
	// synthetic wrappers have no position / syntax of their own
	return true
}

// Rel shortens a package path or qualified name by dropping the module prefix.
func Rel(s string) string {
	s = strings.ReplaceAll(s, Module+"/", "")
	s = strings.ReplaceAll(s, Module+".", "root.")
	s = strings.ReplaceAll(s, Module, "root")
	return s
}

// FuncName is the typed identity of an SSA function, module prefix removed:
// "notations/jschema/checker.(*checkSchema).checkNode", closures as "...$1".
func FuncName(f *ssa.Function) string {
	if f == nil {
		return "<nil>"
	}
	return canonName(Rel(f.String()))
}

// activeProgram: the program whose renamed functions are reported under their pinned names by
// FullName / FuncName, so that rules and tables keep matching after an unexported function was renamed.
var activeProgram *Program

func canonName(name string) string {
	if activeProgram == nil {
		return name
	}
	return activeProgram.PinnedName(name)
}

// Pos renders a position relative to the repository root.
func (p *Program) Pos(pos token.Pos) string {
	if !pos.IsValid() {
		return "-"
	}
	ps := p.Fset.Position(pos)
	rel, err := filepath.Rel(p.Dir, ps.Filename)
	if err != nil || strings.HasPrefix(rel, "..") {
		rel = ps.Filename
	}
	return fmt.Sprintf("%s:%d", rel, ps.Line)
}

// Pkg returns the module package with the given path relative to the module
// ("" = root).
func (p *Program) Pkg(rel string) *packages.Package {
	if rel == "" {
		return p.ByPath[Module]
	}
	return p.ByPath[Module+"/"+rel]
}

// SSAPkg returns the ssa package for a module-relative path.
func (p *Program) SSAPkg(rel string) *ssa.Package {
	if rel == "" {
		return p.SSAPkgs[Module]
	}
	return p.SSAPkgs[Module+"/"+rel]
}

// Func looks up a package-level function by module-relative package path and name.
func (p *Program) Func(pkgRel, name string) *ssa.Function {
	sp := p.SSAPkg(pkgRel)
	if sp == nil {
		return nil
	}
	if f := sp.Func(name); f != nil {
		return f
	}
	// renamed since the pinned tree?
	if d := p.resolveRenamed(pkgRel + "." + name); d != nil {
		return sp.Func(d.Decl.Name.Name)
	}
	return nil
}

// Method looks up a method (pointer or value receiver) on a named type.
func (p *Program) Method(pkgRel, typeName, method string) *ssa.Function {
	if f := p.methodExact(pkgRel, typeName, method); f != nil {
		return f
	}
	// renamed since the pinned tree? (pointer or value receiver)
	for _, full := range []string{"(*" + pkgRel + "." + typeName + ")." + method, "(" + pkgRel + "." + typeName + ")." + method} {
		if d := p.resolveRenamed(full); d != nil {
			return p.methodExact(pkgRel, typeName, d.Decl.Name.Name)
		}
	}
	return nil
}

func (p *Program) methodExact(pkgRel, typeName, method string) *ssa.Function {
	pk := p.Pkg(pkgRel)
	if pk == nil {
		return nil
	}
	obj := pk.Types.Scope().Lookup(typeName)
	if obj == nil {
		return nil
	}
	tn, ok := obj.(*types.TypeName)
	if !ok {
		return nil
	}
	for _, t := range []types.Type{tn.Type(), types.NewPointer(tn.Type())} {
		ms := p.SSA.MethodSets.MethodSet(t)
		for i := 0; i < ms.Len(); i++ {
			if ms.At(i).Obj().Name() == method {
				if f := p.SSA.MethodValue(ms.At(i)); f != nil {
					// unwrap synthetic pointer-receiver wrapper of a value method
					if f.Synthetic != "" {
						if fo, ok := ms.At(i).Obj().(*types.Func); ok {
							if d := p.SSA.FuncValue(fo); d != nil {
								return d
							}
						}
					}
					return f
				}
			}
		}
	}
	return nil
}

// NamedType looks a named type up.
func (p *Program) NamedType(pkgRel, name string) *types.Named {
	pk := p.Pkg(pkgRel)
	if pk == nil {
		return nil
	}
	obj := pk.Types.Scope().Lookup(name)
	if obj == nil {
		return nil
	}
	n, _ := obj.Type().(*types.Named)
	return n
}

// ScopeFuncs returns all in-scope source functions (including closures and
// generic instantiations), sorted by name then position.
func (p *Program) ScopeFuncs() []*ssa.Function {
	var out []*ssa.Function
	for f := range p.AllFuncs {
		// keep generic instances (Synthetic "instance of ..."), drop wrappers/bounds/thunks
		if f.Blocks == nil || (f.Synthetic != "" && !strings.HasPrefix(f.Synthetic, "instance of")) {
			continue
		}
		if !p.FuncInScope(f) {
			continue
		}
		out = append(out, f)
	}
	sort.Slice(out, func(i, j int) bool {
		a, b := out[i].String(), out[j].String()
		if a != b {
			return a < b
		}
		return out[i].Pos() < out[j].Pos()
	})
	return out
}

// ScopePkgs returns in-scope packages.
func (p *Program) ScopePkgs() []*packages.Package {
	var out []*packages.Package
	for _, pk := range p.Pkgs {
		if InScope(pk.PkgPath) {
			out = append(out, pk)
		}
	}
	return out
}

// EnclosingFuncDecl finds the FuncDecl (or FuncLit chain root) enclosing pos.
func (p *Program) EnclosingFuncDecl(pk *packages.Package, pos token.Pos) *ast.FuncDecl {
	for _, f := range pk.Syntax {
		if f.Pos() <= pos && pos < f.End() {
			for _, d := range f.Decls {
				if fd, ok := d.(*ast.FuncDecl); ok && fd.Pos() <= pos && pos < fd.End() {
					return fd
				}
			}
		}
	}
	return nil
}

// DeclName renders a FuncDecl as pkgRel.(Recv).Name
func DeclName(pk *packages.Package, fd *ast.FuncDecl) string {
	if fd == nil {
		return Rel(pk.PkgPath) + ".<init>"
	}
	obj, _ := pk.TypesInfo.Defs[fd.Name].(*types.Func)
	if obj != nil {
		return Rel(obj.FullName())
	}
	return Rel(pk.PkgPath) + "." + fd.Name.Name
}
