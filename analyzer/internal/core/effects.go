package core

import (
	"go/types"
	"sort"

	"golang.org/x/tools/go/callgraph"
	"golang.org/x/tools/go/ssa"
)

// Reach returns the set of functions reachable from roots in the VTA call
// graph (roots included), optionally stopping at functions for which stop
// returns true (those are included but not expanded).
func (p *Program) Reach(roots []*ssa.Function, stop func(*ssa.Function) bool) map[*ssa.Function]bool {
	cg := p.CallGraph()
	seen := map[*ssa.Function]bool{}
	var work []*ssa.Function
	for _, r := range roots {
		if r != nil && !seen[r] {
			seen[r] = true
			work = append(work, r)
		}
	}
	for len(work) > 0 {
		f := work[len(work)-1]
		work = work[:len(work)-1]
		if stop != nil && stop(f) {
			continue
		}
		n := cg.Nodes[f]
		if n == nil {
			continue
		}
		for _, e := range n.Out {
			if g := e.Callee.Func; g != nil && !seen[g] {
				seen[g] = true
				work = append(work, g)
			}
		}
	}
	return seen
}

// Callees returns the resolved callees of a call instruction in the VTA graph.
func (p *Program) Callees(site ssa.CallInstruction) []*ssa.Function {
	cg := p.CallGraph()
	n := cg.Nodes[site.Parent()]
	if n == nil {
		return nil
	}
	var out []*ssa.Function
	for _, e := range n.Out {
		if e.Site == site && e.Callee.Func != nil {
			out = append(out, e.Callee.Func)
		}
	}
	sort.Slice(out, func(i, j int) bool { return out[i].String() < out[j].String() })
	return out
}

// CallersOf returns incoming edges of f.
func (p *Program) CallersOf(f *ssa.Function) []*callgraph.Edge {
	n := p.CallGraph().Nodes[f]
	if n == nil {
		return nil
	}
	return n.In
}

// HasExplicitPanic reports whether f itself contains a panic instruction.
func HasExplicitPanic(f *ssa.Function) bool {
	for _, b := range f.Blocks {
		for _, in := range b.Instrs {
			if _, ok := in.(*ssa.Panic); ok {
				return true
			}
		}
	}
	return false
}

// stdlib functions documented to panic on bad (non-constant) input.
var stdPanickers = map[string]bool{
	"regexp.MustCompile": true, "regexp.MustCompilePOSIX": true, "strings.Repeat": true, "text/template.Must": true,
}

type panicInfo struct {
	memo map[*ssa.Function]bool
}

// MayPanic reports whether f can reach an explicit panic (module code) or a
// stdlib panicker, following the VTA call graph. Runtime panics (index, nil,
// division) are not included: they are the subject of C02/C16 rules.
func (p *Program) MayPanic(f *ssa.Function) (bool, *ssa.Function) {
	reach := p.Reach([]*ssa.Function{f}, func(g *ssa.Function) bool { return !p.FuncInModule(g) })
	var fs []*ssa.Function
	for g := range reach {
		fs = append(fs, g)
	}
	sort.Slice(fs, func(i, j int) bool { return fs[i].String() < fs[j].String() })
	for _, g := range fs {
		if p.FuncInModule(g) {
			if HasExplicitPanic(g) {
				return true, g
			}
		} else if stdPanickers[g.String()] {
			return true, g
		}
	}
	return false, nil
}

// HeapWrite describes a store that is visible outside the function.
type HeapWrite struct {
	Fn    *ssa.Function
	Instr ssa.Instruction
	Kind  string // "field T.f", "global g", "elem", "map"
}

// rootOfAddr walks an address back to what it is derived from.
func rootOfAddr(v ssa.Value) (kind string, root ssa.Value) {
	for {
		switch x := v.(type) {
		case *ssa.FieldAddr:
			st := x.X.Type().Underlying().(*types.Pointer).Elem()
			name := "?"
			if s, ok := st.Underlying().(*types.Struct); ok {
				name = s.Field(x.Field).Name()
			}
			tn := st.String()
			return "field " + Rel(tn) + "." + name, x.X
		case *ssa.IndexAddr:
			return "elem", x.X
		case *ssa.Global:
			return "global " + x.Name(), x
		case *ssa.Alloc:
			if x.Heap {
				return "heapalloc", x
			}
			return "local", x
		case *ssa.Phi:
			if len(x.Edges) > 0 {
				v = x.Edges[0]
				continue
			}
			return "unknown", v
		default:
			return "unknown", v
		}
	}
}

// DirectHeapWrites lists stores in f to fields/globals/elements/maps, excluding
// stores into memory allocated in f itself (fresh objects).
func DirectHeapWrites(f *ssa.Function) []HeapWrite {
	var out []HeapWrite
	fresh := func(v ssa.Value) bool {
		// address derived (through FieldAddr/IndexAddr chains) from an Alloc/MakeMap/MakeSlice in f
		for i := 0; i < 20; i++ {
			switch x := v.(type) {
			case *ssa.Alloc, *ssa.MakeMap, *ssa.MakeSlice:
				return true
			case *ssa.FieldAddr:
				v = x.X
			case *ssa.IndexAddr:
				v = x.X
			default:
				return false
			}
		}
		return false
	}
	for _, b := range f.Blocks {
		for _, in := range b.Instrs {
			switch x := in.(type) {
			case *ssa.Store:
				if fresh(x.Addr) {
					continue
				}
				kind, _ := rootOfAddr(x.Addr)
				if kind == "local" {
					continue
				}
				out = append(out, HeapWrite{f, in, kind})
			case *ssa.MapUpdate:
				if fresh(x.Map) {
					continue
				}
				out = append(out, HeapWrite{f, in, "map"})
			}
		}
	}
	return out
}
