package core

import (
	"go/token"
	"go/types"
	"sort"
	"strings"

	"golang.org/x/tools/go/callgraph"
	"golang.org/x/tools/go/ssa"
)

// Reach returns the set of functions reachable from roots in the VTA call
// graph (roots included), optionally stopping at functions for which stop
// returns true (those are included but not expanded).
func (p *Program) Reach(roots []*ssa.Function, stop func(*ssa.Function) bool) map[*ssa.Function]bool {
	seen := map[*ssa.Function]bool{}
	var work []*ssa.Function
	for _, r := range roots {
		if r != nil && !seen[r] {
			seen[r] = true
			work = append(work, r)
		}
	}
	for len(work) > 0 {
		f := work[len(work)-1]
		work = work[:len(work)-1]
		if stop != nil && stop(f) {
			continue
		}
		for _, g := range p.Succs(f) {
			if !seen[g] {
				seen[g] = true
				work = append(work, g)
			}
		}
	}
	return seen
}

// callThrough lists higher-order wrappers that do nothing but call their
// function argument once (sync.Once.Do and the repository's ErrOnce wrappers).
// At their call sites the successor is the function argument itself; the
// wrapper body is not expanded, which keeps the graph context-sensitive for
// the once-closures (VTA alone merges every closure ever passed to Once.Do).
func isCallThrough(f *ssa.Function) bool {
	n := f.String()
	if o := f.Origin(); o != nil {
		n = o.String()
	}
	switch n {
	case "(*sync.Once).Do", "(*" + Module + "/internal/sync.ErrOnce).Do", "(*" + Module + "/internal/sync.ErrOnceWithValue[T]).Do":
		return true
	}
	return false
}

func funcOfValue(v ssa.Value) *ssa.Function {
	switch x := v.(type) {
	case *ssa.Function:
		return x
	case *ssa.MakeClosure:
		f, _ := x.Fn.(*ssa.Function)
		return f
	case *ssa.ChangeType:
		return funcOfValue(x.X)
	}
	return nil
}

// Succs returns the module functions f may call. Module callees come from the
// VTA graph. Calls that leave the module are not expanded (the standard
// library's internals are irrelevant and VTA merges every closure ever passed
// to e.g. sync.Once.Do); instead the ways the library can call back are
// modelled at the call site: function-typed arguments are successors
// (call-through: Once.Do, sort.Slice, ...), encoding/json marshalling reaches
// every module MarshalJSON method, and fmt formatting reaches the
// String/Error/Format methods of the static argument types.
func (p *Program) Succs(f *ssa.Function) []*ssa.Function { return p.succs(f, true) }

// SuccsDirect is Succs without the reflective callbacks (encoding/json
// marshalling, fmt formatting), which over-approximate heavily; used for the
// recursion classification.
func (p *Program) SuccsDirect(f *ssa.Function) []*ssa.Function { return p.succs(f, false) }

func (p *Program) succs(f *ssa.Function, reflective bool) []*ssa.Function {
	cache := &p.succCache
	if !reflective {
		cache = &p.succCacheD
	}
	if s, ok := (*cache)[f]; ok {
		return s
	}
	if *cache == nil {
		*cache = map[*ssa.Function][]*ssa.Function{}
	}
	if !p.FuncInModule(f) {
		(*cache)[f] = nil
		return nil
	}
	cg := p.CallGraph()
	n := cg.Nodes[f]
	set := map[*ssa.Function]bool{}
	addCallbacks := func(site ssa.CallInstruction, callee *ssa.Function) {
		for _, a := range site.Common().Args {
			if _, isSig := a.Type().Underlying().(*types.Signature); isSig {
				if h := funcOfValue(a); h != nil {
					set[h] = true
				} else {
					// unknown function value: fall back to every module closure/function VTA
					// says the external callee may call
					for _, g := range p.externCallbacks(callee) {
						set[g] = true
					}
				}
			}
		}
		name := callee.String()
		if o := callee.Origin(); o != nil {
			name = o.String()
		}
		switch {
		case !reflective:
		case strings.HasPrefix(name, "encoding/json.Marshal") || name == "(*encoding/json.Encoder).Encode":
			for _, m := range p.moduleMethodsNamed("MarshalJSON") {
				set[m] = true
			}
		case strings.HasPrefix(name, "fmt.") || strings.HasPrefix(name, "(*fmt."):
			for _, a := range site.Common().Args {
				p.addFmtMethods(a, set, 0)
			}
		}
	}
	if n != nil {
		for _, e := range n.Out {
			g := e.Callee.Func
			if g == nil {
				continue
			}
			if isCallThrough(g) && e.Site != nil {
				resolved := false
				for _, a := range e.Site.Common().Args {
					if _, isSig := a.Type().Underlying().(*types.Signature); isSig {
						if h := funcOfValue(a); h != nil {
							set[h] = true
							resolved = true
						}
					}
				}
				if resolved {
					continue
				}
			}
			if !p.FuncInModule(g) {
				if e.Site != nil {
					addCallbacks(e.Site, g)
				}
				continue
			}
			set[g] = true
		}
	}
	var out []*ssa.Function
	for g := range set {
		out = append(out, g)
	}
	sort.Slice(out, func(i, j int) bool { return out[i].String() < out[j].String() })
	(*cache)[f] = out
	return out
}

// externCallbacks: module functions reachable from an external function in the
// raw VTA graph (used only when a function-typed argument cannot be resolved).
func (p *Program) externCallbacks(ext *ssa.Function) []*ssa.Function {
	cg := p.CallGraph()
	seen := map[*ssa.Function]bool{ext: true}
	work := []*ssa.Function{ext}
	var out []*ssa.Function
	for len(work) > 0 && len(seen) < 2000 {
		f := work[len(work)-1]
		work = work[:len(work)-1]
		n := cg.Nodes[f]
		if n == nil {
			continue
		}
		for _, e := range n.Out {
			g := e.Callee.Func
			if g == nil || seen[g] {
				continue
			}
			seen[g] = true
			if p.FuncInModule(g) {
				out = append(out, g)
				continue
			}
			work = append(work, g)
		}
	}
	return out
}

func (p *Program) moduleMethodsNamed(name string) []*ssa.Function {
	var out []*ssa.Function
	for f := range p.AllFuncs {
		if f.Name() == name && f.Signature.Recv() != nil && f.Blocks != nil && f.Synthetic == "" && p.FuncInModule(f) {
			out = append(out, f)
		}
	}
	sort.Slice(out, func(i, j int) bool { return out[i].String() < out[j].String() })
	return out
}

// addFmtMethods adds the String/Error/Format/GoString methods of the static
// type of a fmt argument (looking through MakeInterface and variadic slices).
func (p *Program) addFmtMethods(v ssa.Value, set map[*ssa.Function]bool, depth int) {
	if depth > 4 {
		return
	}
	switch x := v.(type) {
	case *ssa.MakeInterface:
		p.addFmtMethods(x.X, set, depth+1)
		return
	case *ssa.Slice:
		// variadic pack: new [n]any; stores of elements
		if al, ok := x.X.(*ssa.Alloc); ok {
			for _, ref := range *al.Referrers() {
				if ia, ok := ref.(*ssa.IndexAddr); ok {
					for _, r2 := range *ia.Referrers() {
						if st, ok := r2.(*ssa.Store); ok {
							p.addFmtMethods(st.Val, set, depth+1)
						}
					}
				}
			}
		}
		return
	}
	t := v.Type()
	if _, isIface := t.Underlying().(*types.Interface); isIface {
		// dynamic: every module type implementing it with these methods
		for _, name := range []string{"String", "Error"} {
			for _, m := range p.moduleMethodsNamed(name) {
				rt := m.Signature.Recv().Type()
				if types.AssignableTo(rt, t) || types.AssignableTo(types.NewPointer(rt), t) {
					set[m] = true
				}
			}
		}
		return
	}
	for _, tt := range []types.Type{t, types.NewPointer(t)} {
		ms := p.SSA.MethodSets.MethodSet(tt)
		for i := 0; i < ms.Len(); i++ {
			switch ms.At(i).Obj().Name() {
			case "String", "Error", "Format", "GoString":
				if fo, ok := ms.At(i).Obj().(*types.Func); ok {
					if m := p.SSA.FuncValue(fo); m != nil && p.FuncInModule(m) {
						set[m] = true
					}
				}
			}
		}
	}
}

// Callees returns the resolved callees of a call instruction in the VTA graph.
func (p *Program) Callees(site ssa.CallInstruction) []*ssa.Function {
	cg := p.CallGraph()
	n := cg.Nodes[site.Parent()]
	if n == nil {
		return nil
	}
	var out []*ssa.Function
	for _, e := range n.Out {
		if e.Site == site && e.Callee.Func != nil {
			out = append(out, e.Callee.Func)
		}
	}
	sort.Slice(out, func(i, j int) bool { return out[i].String() < out[j].String() })
	return out
}

// CallersOf returns incoming edges of f.
func (p *Program) CallersOf(f *ssa.Function) []*callgraph.Edge {
	n := p.CallGraph().Nodes[f]
	if n == nil {
		return nil
	}
	return n.In
}

// HasExplicitPanic reports whether f itself contains a panic instruction.
func HasExplicitPanic(f *ssa.Function) bool {
	for _, b := range f.Blocks {
		for _, in := range b.Instrs {
			if _, ok := in.(*ssa.Panic); ok {
				return true
			}
		}
	}
	return false
}

// stdlib functions documented to panic on bad (non-constant) input.
var stdPanickers = map[string]bool{
	"regexp.MustCompile": true, "regexp.MustCompilePOSIX": true, "strings.Repeat": true, "text/template.Must": true,
}

type panicInfo struct {
	memo map[*ssa.Function]bool
}

// MayPanic reports whether f can reach an explicit panic (module code) or a
// stdlib panicker, following the VTA call graph. Runtime panics (index, nil,
// division) are not included: they are the subject of C02/C16 rules.
func (p *Program) MayPanic(f *ssa.Function) (bool, *ssa.Function) {
	reach := p.Reach([]*ssa.Function{f}, func(g *ssa.Function) bool { return !p.FuncInModule(g) })
	var fs []*ssa.Function
	for g := range reach {
		fs = append(fs, g)
	}
	sort.Slice(fs, func(i, j int) bool { return fs[i].String() < fs[j].String() })
	for _, g := range fs {
		if p.FuncInModule(g) {
			if HasExplicitPanic(g) {
				return true, g
			}
		} else if stdPanickers[g.String()] {
			return true, g
		}
	}
	return false, nil
}

// HeapWrite describes a store that is visible outside the function.
type HeapWrite struct {
	Fn    *ssa.Function
	Instr ssa.Instruction
	Kind  string // "field T.f", "global g", "elem", "map"
}

// rootOfAddr walks an address back to what it is derived from.
func rootOfAddr(v ssa.Value) (kind string, root ssa.Value) {
	for {
		switch x := v.(type) {
		case *ssa.FieldAddr:
			st := x.X.Type().Underlying().(*types.Pointer).Elem()
			name := "?"
			if s, ok := st.Underlying().(*types.Struct); ok {
				name = s.Field(x.Field).Name()
				if pn := ActivePinnedFieldName(x.X.Type(), x.Field); pn != "" {
					name = pn
				}
			}
			tn := st.String()
			return "field " + Rel(tn) + "." + name, x.X
		case *ssa.IndexAddr:
			return "elem", x.X
		case *ssa.Global:
			return "global " + x.Name(), x
		case *ssa.Alloc:
			if x.Heap {
				return "heapalloc", x
			}
			return "local", x
		case *ssa.Phi:
			if len(x.Edges) > 0 {
				v = x.Edges[0]
				continue
			}
			return "unknown", v
		default:
			return "unknown", v
		}
	}
}

// DirectHeapWrites lists stores in f to fields/globals/elements/maps, excluding
// stores into memory allocated in f itself (fresh objects).
func DirectHeapWrites(f *ssa.Function) []HeapWrite {
	var out []HeapWrite
	var fresh func(v ssa.Value, depth int) bool
	fresh = func(v ssa.Value, depth int) bool {
		// address derived (through FieldAddr/IndexAddr chains) from an Alloc/MakeMap/MakeSlice in f;
		// a variable that is nil on some paths and freshly made on the others is fresh where it can be written
		for i := 0; i < 20; i++ {
			switch x := v.(type) {
			case *ssa.Alloc, *ssa.MakeMap, *ssa.MakeSlice:
				return true
			case *ssa.FieldAddr:
				v = x.X
			case *ssa.IndexAddr:
				v = x.X
			case *ssa.Slice:
				v = x.X
			case *ssa.UnOp:
				// the map / slice held in a field of an object allocated here, when every value this
				// function puts into that field is itself made here
				fa, ok := x.X.(*ssa.FieldAddr)
				if !ok || x.Op != token.MUL || depth > 3 || !fresh(fa.X, depth+1) {
					return false
				}
				n := 0
				for _, b := range f.Blocks {
					for _, in := range b.Instrs {
						st, ok := in.(*ssa.Store)
						if !ok {
							continue
						}
						if fa2, ok := st.Addr.(*ssa.FieldAddr); ok && fa2.X == fa.X && fa2.Field == fa.Field {
							switch st.Val.(type) {
							case *ssa.MakeMap, *ssa.MakeSlice:
								n++
							default:
								return false
							}
						}
					}
				}
				return n > 0
			case *ssa.Phi:
				if depth > 3 {
					return false
				}
				n := 0
				for _, e := range x.Edges {
					if cst, ok := e.(*ssa.Const); ok && cst.Value == nil {
						continue
					}
					if !fresh(e, depth+1) {
						return false
					}
					n++
				}
				return n > 0
			default:
				return false
			}
		}
		return false
	}
	for _, b := range f.Blocks {
		for _, in := range b.Instrs {
			switch x := in.(type) {
			case *ssa.Store:
				if fresh(x.Addr, 0) {
					continue
				}
				kind, _ := rootOfAddr(x.Addr)
				if kind == "local" {
					continue
				}
				out = append(out, HeapWrite{f, in, kind})
			case *ssa.MapUpdate:
				if fresh(x.Map, 0) {
					continue
				}
				out = append(out, HeapWrite{f, in, "map"})
			}
		}
	}
	return out
}
