package core

import (
	"go/token"
	"go/types"
	"sort"

	"golang.org/x/tools/go/ssa"
)

// Engine E1: panic / recover model.

// PanicSite is an explicit panic instruction.
type PanicSite struct {
	Fn    *ssa.Function
	Instr *ssa.Panic
	// ArgType is the static type of the panic operand before conversion to `any`.
	ArgType types.Type
	// Arg is the operand before MakeInterface.
	Arg ssa.Value
}

// PanicSites lists explicit panics in in-scope functions.
func (p *Program) PanicSites() []PanicSite {
	var out []PanicSite
	for _, f := range p.ScopeFuncs() {
		for _, b := range f.Blocks {
			for _, in := range b.Instrs {
				pn, ok := in.(*ssa.Panic)
				if !ok {
					continue
				}
				arg := pn.X
				for {
					if mi, ok := arg.(*ssa.MakeInterface); ok {
						arg = mi.X
						continue
					}
					if ci, ok := arg.(*ssa.ChangeInterface); ok {
						arg = ci.X
						continue
					}
					break
				}
				out = append(out, PanicSite{f, pn, arg.Type(), arg})
			}
		}
	}
	sort.Slice(out, func(i, j int) bool { return out[i].Instr.Pos() < out[j].Instr.Pos() })
	return out
}

// RecoverKind classifies what a deferred function does with a recovered value.
type RecoverKind int

const (
	NoRecover RecoverKind = iota
	Converter             // recovers and re-panics on every non-nil path
	Catcher               // recovers and may return normally with a non-nil value
)

// callsRecover reports whether f calls the recover builtin directly.
func callsRecover(f *ssa.Function) *ssa.Call {
	for _, b := range f.Blocks {
		for _, in := range b.Instrs {
			if c, ok := in.(*ssa.Call); ok {
				if bi, ok := c.Call.Value.(*ssa.Builtin); ok && bi.Name() == "recover" {
					return c
				}
			}
		}
	}
	return nil
}

// ClassifyRecoverFunc classifies a function used as a deferred call.
// A function that calls recover() is a Converter if, once the recovered value
// is known to be non-nil, no return is reachable (all paths panic); otherwise it
// is a Catcher.  A deferred function that does not call recover itself but
// unconditionally forwards to one that does (CatchLexEventErrorWithIncorrectUserType
// calls CatchLexEventError on one branch) is classified by its own recover call.
func (p *Program) ClassifyRecoverFunc(f *ssa.Function) RecoverKind {
	if f == nil || f.Blocks == nil {
		return NoRecover
	}
	rc := callsRecover(f)
	if rc == nil {
		return NoRecover
	}
	// find `recovered == nil` tests and prune their nil edge
	pruned := map[*ssa.BasicBlock]int{} // block -> successor index removed
	for _, b := range f.Blocks {
		if len(b.Instrs) == 0 {
			continue
		}
		ifi, ok := b.Instrs[len(b.Instrs)-1].(*ssa.If)
		if !ok {
			continue
		}
		bo, ok := ifi.Cond.(*ssa.BinOp)
		if !ok {
			continue
		}
		isRec := func(v ssa.Value) bool { return v == ssa.Value(rc) }
		isNil := func(v ssa.Value) bool {
			c, ok := v.(*ssa.Const)
			return ok && c.Value == nil
		}
		if (isRec(bo.X) && isNil(bo.Y)) || (isRec(bo.Y) && isNil(bo.X)) {
			if bo.Op == token.EQL {
				pruned[b] = 0
			} else if bo.Op == token.NEQ {
				pruned[b] = 1
			}
		}
	}
	// reachability of a Return from entry with pruned edges
	seen := map[*ssa.BasicBlock]bool{}
	var work []*ssa.BasicBlock
	work = append(work, f.Blocks[0])
	seen[f.Blocks[0]] = true
	for len(work) > 0 {
		b := work[len(work)-1]
		work = work[:len(work)-1]
		if len(b.Instrs) > 0 {
			if _, ok := b.Instrs[len(b.Instrs)-1].(*ssa.Return); ok {
				// a return reachable with a non-nil recovered value
				// (unless the function returns before calling recover: ignore that subtlety,
				// recover is always the first statement in this code base - checked by rule)
				if len(pruned) > 0 || true {
					// returns on the nil-path were pruned; this one is a real swallow
					return Catcher
				}
			}
		}
		for i, s := range b.Succs {
			if pi, ok := pruned[b]; ok && pi == i {
				continue
			}
			if !seen[s] {
				seen[s] = true
				work = append(work, s)
			}
		}
	}
	return Converter
}

// DeferredFuncs returns the functions deferred by f (static callees or closures).
func DeferredFuncs(f *ssa.Function) []*ssa.Function {
	var out []*ssa.Function
	for _, b := range f.Blocks {
		for _, in := range b.Instrs {
			d, ok := in.(*ssa.Defer)
			if !ok {
				continue
			}
			switch v := d.Call.Value.(type) {
			case *ssa.Function:
				out = append(out, v)
			case *ssa.MakeClosure:
				if fn, ok := v.Fn.(*ssa.Function); ok {
					out = append(out, fn)
				}
			}
		}
	}
	return out
}

// FuncRecoverKind: the strongest recover behaviour among f's defers.
func (p *Program) FuncRecoverKind(f *ssa.Function) RecoverKind {
	best := NoRecover
	for _, d := range DeferredFuncs(f) {
		k := p.ClassifyRecoverFunc(d)
		if k > best {
			best = k
		}
	}
	return best
}

// Unprotected returns U(E): functions reachable from the entry points without
// passing through a function that has a Catcher defer.  If an entry itself is a
// catcher the result is just that entry (everything below is protected).
// Also returns, for diagnosis, a predecessor map (shortest call chain).
func (p *Program) Unprotected(entries []*ssa.Function) (map[*ssa.Function]bool, map[*ssa.Function]*ssa.Function) {
	seen := map[*ssa.Function]bool{}
	pred := map[*ssa.Function]*ssa.Function{}
	var queue []*ssa.Function
	for _, e := range entries {
		if e != nil && !seen[e] {
			seen[e] = true
			queue = append(queue, e)
		}
	}
	for len(queue) > 0 {
		f := queue[0]
		queue = queue[1:]
		if p.FuncRecoverKind(f) == Catcher {
			continue
		}
		for _, g := range p.Succs(f) {
			if !seen[g] {
				seen[g] = true
				pred[g] = f
				queue = append(queue, g)
			}
		}
	}
	return seen, pred
}

// Chain renders the call chain from an entry to f.
func Chain(pred map[*ssa.Function]*ssa.Function, f *ssa.Function) string {
	var parts []string
	for g := f; g != nil; g = pred[g] {
		parts = append([]string{FuncName(g)}, parts...)
		if len(parts) > 12 {
			parts = append([]string{"…"}, parts...)
			break
		}
	}
	s := ""
	for i, p := range parts {
		if i > 0 {
			s += " → "
		}
		s += p
	}
	return s
}
