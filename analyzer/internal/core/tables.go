package core

import (
	"go/ast"
	"go/constant"
	"go/types"

	"golang.org/x/tools/go/packages"
)

// SwitchTable is a decoded `switch tag { case K...: return V }` function:
// a finite map from constant case values to constant results.
type SwitchTable struct {
	Tag           ast.Expr
	Rows          []SwitchRow
	Default       constant.Value // result when no case matches (nil if it panics or is non-constant)
	DefaultPanics bool
	DefaultExpr   ast.Expr
}

type SwitchRow struct {
	Key     constant.Value
	KeyExpr ast.Expr
	Val     constant.Value
	ValExpr ast.Expr // non-nil when the result is not a constant
	Clause  *ast.CaseClause
}

// DecodeSwitchFunc decodes a function whose body is one expression switch over
// constants, each clause ending in `return <expr>`, optionally followed by a
// trailing `return <expr>` / panic. Returns nil and a reason if the shape differs.
func DecodeSwitchFunc(pk *packages.Package, fd *ast.FuncDecl) (*SwitchTable, string) {
	if fd == nil || fd.Body == nil {
		return nil, "no body"
	}
	var sw *ast.SwitchStmt
	var tail []ast.Stmt
	for i, st := range fd.Body.List {
		if s, ok := st.(*ast.SwitchStmt); ok {
			sw = s
			tail = fd.Body.List[i+1:]
			break
		}
		return nil, "statement before the switch"
	}
	if sw == nil || sw.Tag == nil || sw.Init != nil {
		return nil, "no tagged switch"
	}
	t := &SwitchTable{Tag: sw.Tag}
	setDefault := func(stmts []ast.Stmt) string {
		if len(stmts) != 1 {
			return "default/tail is not a single statement"
		}
		switch s := stmts[0].(type) {
		case *ast.ReturnStmt:
			if len(s.Results) != 1 {
				return "tail return has != 1 results"
			}
			t.Default = ConstOf(pk, s.Results[0])
			t.DefaultExpr = s.Results[0]
			return ""
		case *ast.ExprStmt:
			if c, ok := s.X.(*ast.CallExpr); ok {
				if id, ok := c.Fun.(*ast.Ident); ok && id.Name == "panic" {
					t.DefaultPanics = true
					return ""
				}
			}
		}
		return "tail is neither return nor panic"
	}
	sawDefault := false
	for _, cl := range sw.Body.List {
		cc := cl.(*ast.CaseClause)
		if cc.List == nil {
			sawDefault = true
			if r := setDefault(cc.Body); r != "" {
				return nil, r
			}
			continue
		}
		if len(cc.Body) != 1 {
			return nil, "case body is not a single return"
		}
		ret, ok := cc.Body[0].(*ast.ReturnStmt)
		if !ok || len(ret.Results) != 1 {
			return nil, "case body is not a single-value return"
		}
		v := ConstOf(pk, ret.Results[0])
		for _, k := range cc.List {
			kc := ConstOf(pk, k)
			if kc == nil {
				return nil, "non-constant case " + ExprStr(k)
			}
			row := SwitchRow{Key: kc, KeyExpr: k, Val: v, Clause: cc}
			if v == nil {
				row.ValExpr = ret.Results[0]
			}
			t.Rows = append(t.Rows, row)
		}
	}
	if !sawDefault {
		if len(tail) == 0 {
			return nil, "no default and no tail"
		}
		if r := setDefault(tail); r != "" {
			return nil, r
		}
	} else if len(tail) != 0 {
		return nil, "statements after a switch with default"
	}
	return t, ""
}

// Get evaluates the switch on constant k (exact comparison by ExactString+Kind).
func (t *SwitchTable) Get(k constant.Value) (val constant.Value, matched bool, row *SwitchRow) {
	for i := range t.Rows {
		r := &t.Rows[i]
		if r.Key.Kind() == k.Kind() && r.Key.ExactString() == k.ExactString() {
			return r.Val, true, r
		}
	}
	return t.Default, false, nil
}

// ConstName returns the name of the constant object an expression denotes
// (through parens / conversions like string(K) / selector), or "".
func ConstName(pk *packages.Package, e ast.Expr) string {
	e = ast.Unparen(e)
	switch x := e.(type) {
	case *ast.Ident:
		if c, ok := pk.TypesInfo.ObjectOf(x).(*types.Const); ok {
			return c.Name()
		}
	case *ast.SelectorExpr:
		if c, ok := pk.TypesInfo.ObjectOf(x.Sel).(*types.Const); ok {
			return c.Name()
		}
	case *ast.CallExpr:
		// conversion T(K)
		if len(x.Args) == 1 {
			if tv, ok := pk.TypesInfo.Types[x.Fun]; ok && tv.IsType() {
				return ConstName(pk, x.Args[0])
			}
		}
	}
	return ""
}
