package core

import (
	"fmt"
	"go/ast"
	"go/constant"
	"go/printer"
	"go/token"
	"go/types"
	"sort"
	"strings"

	"golang.org/x/tools/go/packages"
	"golang.org/x/tools/go/types/typeutil"
)

// ConstOf returns the constant value of an expression, if any.
func ConstOf(pk *packages.Package, e ast.Expr) constant.Value {
	if tv, ok := pk.TypesInfo.Types[e]; ok {
		return tv.Value
	}
	return nil
}

// TypeOf returns the static type of an expression.
func TypeOf(pk *packages.Package, e ast.Expr) types.Type {
	if tv, ok := pk.TypesInfo.Types[e]; ok {
		return tv.Type
	}
	if id, ok := e.(*ast.Ident); ok {
		if o := pk.TypesInfo.ObjectOf(id); o != nil {
			return o.Type()
		}
	}
	return nil
}

// Callee resolves the static callee of a call (function, method, or nil for
// dynamic calls / conversions / builtins).
func Callee(pk *packages.Package, call *ast.CallExpr) types.Object {
	return typeutil.Callee(pk.TypesInfo, call)
}

// FullName renders a resolved function object with the module prefix removed.
func FullName(o types.Object) string {
	if f, ok := o.(*types.Func); ok {
		return canonName(Rel(f.FullName()))
	}
	if o == nil {
		return ""
	}
	if o.Pkg() != nil {
		return Rel(o.Pkg().Path()) + "." + o.Name()
	}
	return o.Name()
}

// IsFunc reports whether obj is the function/method with the given full name
// ("(errs.Code).F", "(bytes.Bytes).Unquote", "strconv.Quote", ...). Module prefix
// removed for module functions, full import path for others.
func IsFunc(obj types.Object, full string) bool {
	return obj != nil && FullName(obj) == full
}

// CallSite is a call expression with its context.
type CallSite struct {
	Pkg  *packages.Package
	Call *ast.CallExpr
	Decl *ast.FuncDecl // enclosing top-level function (nil: package-level initialiser)
	File *ast.File
	// Stack is the path of AST nodes from the file to the call.
	Stack []ast.Node
}

// ForEachNode walks every in-scope non-test file, calling f with the stack.
func (p *Program) ForEachNode(f func(pk *packages.Package, file *ast.File, stack []ast.Node, n ast.Node) bool) {
	for _, pk := range p.ScopePkgs() {
		for _, file := range pk.Syntax {
			var stack []ast.Node
			ast.Inspect(file, func(n ast.Node) bool {
				if n == nil {
					stack = stack[:len(stack)-1]
					return true
				}
				stack = append(stack, n)
				if !f(pk, file, stack, n) {
					stack = stack[:len(stack)-1]
					return false
				}
				return true
			})
		}
	}
}

// Calls returns every call expression in scope with its enclosing declaration.
func (p *Program) Calls() []CallSite {
	var out []CallSite
	p.ForEachNode(func(pk *packages.Package, file *ast.File, stack []ast.Node, n ast.Node) bool {
		if call, ok := n.(*ast.CallExpr); ok {
			var fd *ast.FuncDecl
			for _, s := range stack {
				if d, ok := s.(*ast.FuncDecl); ok {
					fd = d
				}
			}
			out = append(out, CallSite{Pkg: pk, Call: call, Decl: fd, File: file, Stack: append([]ast.Node(nil), stack...)})
		}
		return true
	})
	return out
}

// FuncDecls returns all in-scope function declarations with bodies.
type DeclSite struct {
	Pkg  *packages.Package
	Decl *ast.FuncDecl
	Obj  *types.Func
}

func (p *Program) FuncDecls() []DeclSite {
	var out []DeclSite
	for _, pk := range p.ScopePkgs() {
		for _, file := range pk.Syntax {
			for _, d := range file.Decls {
				if fd, ok := d.(*ast.FuncDecl); ok && fd.Body != nil {
					obj, _ := pk.TypesInfo.Defs[fd.Name].(*types.Func)
					out = append(out, DeclSite{pk, fd, obj})
				}
			}
		}
	}
	sort.Slice(out, func(i, j int) bool { return DeclName(out[i].Pkg, out[i].Decl) < DeclName(out[j].Pkg, out[j].Decl) })
	return out
}

// FindDecl finds a function declaration by its relative full name, e.g.
// "(*notations/jschema/checker.checkSchema).checkNode" or "errs.f".
func (p *Program) FindDecl(full string) *DeclSite {
	if d := p.findDeclExact(full); d != nil {
		return d
	}
	return p.resolveRenamed(full)
}

func (p *Program) findDeclExact(full string) *DeclSite {
	for _, pk := range p.Pkgs {
		for _, file := range pk.Syntax {
			for _, d := range file.Decls {
				if fd, ok := d.(*ast.FuncDecl); ok {
					if DeclName(pk, fd) == full {
						obj, _ := pk.TypesInfo.Defs[fd.Name].(*types.Func)
						return &DeclSite{pk, fd, obj}
					}
				}
			}
		}
	}
	return nil
}

// MapLitEntry is one key/value pair of a composite literal.
type MapLitEntry struct {
	Key, Val   ast.Expr
	KeyC, ValC constant.Value
}

// PkgVarInit returns the initialiser expression of a package-level variable.
func PkgVarInit(pk *packages.Package, name string) ast.Expr {
	for _, file := range pk.Syntax {
		for _, d := range file.Decls {
			gd, ok := d.(*ast.GenDecl)
			if !ok || gd.Tok != token.VAR {
				continue
			}
			for _, s := range gd.Specs {
				vs := s.(*ast.ValueSpec)
				for i, n := range vs.Names {
					if n.Name == name && i < len(vs.Values) {
						return vs.Values[i]
					}
				}
			}
		}
	}
	return nil
}

// MapLit decodes a map/array/slice composite literal's entries.
func MapLit(pk *packages.Package, e ast.Expr) []MapLitEntry {
	cl, ok := ast.Unparen(e).(*ast.CompositeLit)
	if !ok {
		return nil
	}
	var out []MapLitEntry
	for _, el := range cl.Elts {
		kv, ok := el.(*ast.KeyValueExpr)
		if !ok {
			out = append(out, MapLitEntry{Val: el, ValC: ConstOf(pk, el)})
			continue
		}
		out = append(out, MapLitEntry{Key: kv.Key, Val: kv.Value, KeyC: ConstOf(pk, kv.Key), ValC: ConstOf(pk, kv.Value)})
	}
	return out
}

// ConstsOfType lists package-level constants of a named type, sorted by value then name.
type NamedConst struct {
	Name string
	Obj  *types.Const
	Val  constant.Value
}

func ConstsOfType(pk *packages.Package, t types.Type) []NamedConst {
	var out []NamedConst
	sc := pk.Types.Scope()
	for _, n := range sc.Names() {
		if c, ok := sc.Lookup(n).(*types.Const); ok && types.Identical(c.Type(), t) {
			out = append(out, NamedConst{n, c, c.Val()})
		}
	}
	sort.Slice(out, func(i, j int) bool {
		if constant.Compare(out[i].Val, token.EQL, out[j].Val) {
			return out[i].Name < out[j].Name
		}
		if out[i].Val.Kind() == constant.String {
			return constant.StringVal(out[i].Val) < constant.StringVal(out[j].Val)
		}
		return constant.Compare(out[i].Val, token.LSS, out[j].Val)
	})
	return out
}

// ExprStr renders an expression compactly.
func ExprStr(e ast.Expr) string {
	return types.ExprString(e)
}

// Implements reports whether t (or *t) implements the named interface.
func Implements(t types.Type, iface *types.Interface) bool {
	if t == nil || iface == nil {
		return false
	}
	return types.Implements(t, iface)
}

var errorIface = types.Universe.Lookup("error").Type().Underlying().(*types.Interface)

// IsErrorType reports whether t implements error.
func IsErrorType(t types.Type) bool { return Implements(t, errorIface) }

// HasMethod reports whether t's method set has a method of that name.
func HasMethod(t types.Type, name string) bool {
	ms := types.NewMethodSet(t)
	for i := 0; i < ms.Len(); i++ {
		if ms.At(i).Obj().Name() == name {
			return true
		}
	}
	return false
}

// Verbs parses printf verbs of a format string: returns the verb letters in
// order ("%%" excluded) and the raw count of '%' bytes.
func Verbs(format string) (verbs []byte, percentCount int) {
	percentCount = strings.Count(format, "%")
	for i := 0; i < len(format); i++ {
		if format[i] != '%' {
			continue
		}
		i++
		for i < len(format) && strings.IndexByte("+-# 0123456789.*[]", format[i]) >= 0 {
			i++
		}
		if i >= len(format) {
			verbs = append(verbs, '!')
			break
		}
		if format[i] == '%' {
			continue
		}
		verbs = append(verbs, format[i])
	}
	return
}

// Sprintf-like shorthand used by rules.
func F(format string, a ...any) string { return fmt.Sprintf(format, a...) }

// ExprStr0 renders any AST node (statement, block) on one line.
func ExprStr0(n ast.Node) string {
	var b strings.Builder
	printer.Fprint(&b, token.NewFileSet(), n)
	return strings.Join(strings.Fields(b.String()), " ")
}
