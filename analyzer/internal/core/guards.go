package core

import (
	"go/ast"
	"go/constant"
	"go/token"
	"go/types"
	"strings"

	"golang.org/x/tools/go/packages"
)

// Engine E2: dominating-guard facts for element accesses.
//
// A Fact is a branch condition known to hold (Truth) at a program point,
// collected from enclosing ifs, earlier early-exit ifs, short-circuit
// operands, switch cases and loop headers.  The implication catalogue is
// fixed and small; anything it cannot discharge is reported by the rules.

type Fact struct {
	Cond  ast.Expr
	Truth bool
	Pos   token.Pos
}

// terminates reports whether a block always leaves the enclosing statement
// list (return, panic, continue, break, goto).
func terminates(pk *packages.Package, b *ast.BlockStmt) bool {
	if b == nil || len(b.List) == 0 {
		return false
	}
	return stmtTerminates(pk, b.List[len(b.List)-1])
}

func stmtTerminates(pk *packages.Package, s ast.Stmt) bool {
	switch x := s.(type) {
	case *ast.ReturnStmt:
		return true
	case *ast.BranchStmt:
		return x.Tok == token.BREAK || x.Tok == token.CONTINUE || x.Tok == token.GOTO
	case *ast.ExprStmt:
		if c, ok := x.X.(*ast.CallExpr); ok {
			if id, ok := c.Fun.(*ast.Ident); ok && id.Name == "panic" {
				if _, isB := pk.TypesInfo.Uses[id].(*types.Builtin); isB {
					return true
				}
			}
		}
	case *ast.BlockStmt:
		return terminates(pk, x)
	case *ast.IfStmt:
		if x.Else == nil {
			return false
		}
		return terminates(pk, x.Body) && stmtTerminates(pk, x.Else)
	}
	return false
}

// FactsAt collects the facts that dominate the last node of stack.
func FactsAt(pk *packages.Package, stack []ast.Node) []Fact {
	var facts []Fact
	addEarlier := func(list []ast.Stmt, child ast.Node) {
		for _, s := range list {
			if s == child || s.End() > child.Pos() {
				break
			}
			// `if c {exit}` / `if c {exit} else if d {exit}` chains
			for cur := s; cur != nil; {
				ifs, ok := cur.(*ast.IfStmt)
				if !ok {
					break
				}
				if terminates(pk, ifs.Body) {
					facts = append(facts, Fact{ifs.Cond, false, ifs.Pos()})
				} else {
					break
				}
				if ifs.Else == nil {
					break
				}
				cur = ifs.Else
			}
		}
	}
	for i := 0; i+1 < len(stack); i++ {
		parent, child := stack[i], stack[i+1]
		switch p := parent.(type) {
		case *ast.IfStmt:
			if child == p.Body {
				facts = append(facts, Fact{p.Cond, true, p.Pos()})
			} else if p.Else != nil && child == p.Else {
				facts = append(facts, Fact{p.Cond, false, p.Pos()})
			}
		case *ast.BlockStmt:
			addEarlier(p.List, child)
		case *ast.CaseClause:
			inBody := false
			for _, s := range p.Body {
				if s == child {
					inBody = true
				}
			}
			if inBody {
				addEarlier(p.Body, child)
				// find the switch
				if i >= 2 {
					if sw, ok := stack[i-2].(*ast.SwitchStmt); ok {
						if sw.Tag != nil && len(p.List) == 1 {
							facts = append(facts, Fact{&ast.BinaryExpr{X: sw.Tag, Op: token.EQL, Y: p.List[0]}, true, p.Pos()})
						} else if sw.Tag == nil && len(p.List) == 1 {
							facts = append(facts, Fact{p.List[0], true, p.Pos()})
						}
						if sw.Tag == nil {
							// earlier tagless cases are false
							for _, cl := range sw.Body.List {
								cc := cl.(*ast.CaseClause)
								if cc == p {
									break
								}
								for _, e := range cc.List {
									facts = append(facts, Fact{e, false, cc.Pos()})
								}
							}
						}
					}
				}
			}
		case *ast.BinaryExpr:
			if child == p.Y {
				if p.Op == token.LAND {
					facts = append(facts, Fact{p.X, true, p.Pos()})
				} else if p.Op == token.LOR {
					facts = append(facts, Fact{p.X, false, p.Pos()})
				}
			}
		case *ast.ForStmt:
			if child == p.Body && p.Cond != nil {
				facts = append(facts, Fact{p.Cond, true, p.Pos()})
			}
		case *ast.RangeStmt:
			if child == p.Body && p.Key != nil {
				if id, ok := p.Key.(*ast.Ident); ok && id.Name != "_" {
					// i < len(X)
					facts = append(facts, Fact{&ast.BinaryExpr{X: id, Op: token.LSS, Y: &ast.CallExpr{Fun: ast.NewIdent("len"), Args: []ast.Expr{p.X}}}, true, p.Pos()})
				}
			}
		}
	}
	// decompose
	var out []Fact
	var dec func(f Fact)
	dec = func(f Fact) {
		e := ast.Unparen(f.Cond)
		switch x := e.(type) {
		case *ast.UnaryExpr:
			if x.Op == token.NOT {
				dec(Fact{x.X, !f.Truth, f.Pos})
				return
			}
		case *ast.BinaryExpr:
			if x.Op == token.LAND && f.Truth {
				dec(Fact{x.X, true, f.Pos})
				dec(Fact{x.Y, true, f.Pos})
				return
			}
			if x.Op == token.LOR && !f.Truth {
				dec(Fact{x.X, false, f.Pos})
				dec(Fact{x.Y, false, f.Pos})
				return
			}
		}
		out = append(out, Fact{e, f.Truth, f.Pos})
	}
	for _, f := range facts {
		dec(f)
	}
	return out
}

// LenEnv resolves "length terms": expressions that denote the length of some
// container expression.
type LenEnv struct {
	Pk *packages.Package
	Fd *ast.FuncDecl
	// aliases: local variable object -> container key ("len:<expr>")
	alias    map[types.Object]string
	aliasOff map[types.Object]int64 // alias value = len(container) + off
	// SizeFields: struct field name -> sibling field holding the container,
	// e.g. "dataSize" -> "data" (instance table supplied by the rule).
	SizeFields map[string]string
}

func NewLenEnv(pk *packages.Package, fd *ast.FuncDecl, sizeFields map[string]string) *LenEnv {
	env := &LenEnv{Pk: pk, Fd: fd, alias: map[types.Object]string{}, aliasOff: map[types.Object]int64{}, SizeFields: sizeFields}
	if fd == nil || fd.Body == nil {
		return env
	}
	// single-definition aliases `n := len(x)` / `n := x.Len()`; dropped if reassigned
	defs := map[types.Object]int{}
	ast.Inspect(fd.Body, func(n ast.Node) bool {
		switch as := n.(type) {
		case *ast.AssignStmt:
			for i, l := range as.Lhs {
				id, ok := l.(*ast.Ident)
				if !ok {
					continue
				}
				obj := pk.TypesInfo.ObjectOf(id)
				if obj == nil {
					continue
				}
				defs[obj]++
				if len(as.Lhs) == len(as.Rhs) {
					if k := env.lenKeyNoAlias(as.Rhs[i]); k != "" && defs[obj] == 1 {
						env.alias[obj] = k
						continue
					}
					// n := len(x) - 1
					if be, ok := ast.Unparen(as.Rhs[i]).(*ast.BinaryExpr); ok && (be.Op == token.SUB || be.Op == token.ADD) && defs[obj] == 1 {
						if k := env.lenKeyNoAlias(be.X); k != "" {
							if c, ok := intConst(pk, be.Y); ok {
								if be.Op == token.SUB {
									c = -c
								}
								env.alias[obj] = k
								env.aliasOff[obj] = c
								continue
							}
						}
					}
				}
				delete(env.alias, obj)
			}
		case *ast.IncDecStmt:
			if id, ok := as.X.(*ast.Ident); ok {
				obj := pk.TypesInfo.ObjectOf(id)
				defs[obj]++
				delete(env.alias, obj)
			}
		}
		return true
	})
	for obj, n := range defs {
		if n > 1 {
			delete(env.alias, obj)
		}
	}
	return env
}

func isBytesType(t types.Type) bool {
	if t == nil {
		return false
	}
	if p, ok := t.(*types.Pointer); ok {
		t = p.Elem()
	}
	n, ok := t.(*types.Named)
	return ok && n.Obj().Name() == "Bytes" && n.Obj().Pkg() != nil && n.Obj().Pkg().Path() == Module+"/bytes"
}

// ContainerKey renders the container expression of an access in canonical form.
// For bytes.Bytes values the key is "<expr>.data" so that b.Len() inside the
// bytes package and len(b.data) coincide.
func (env *LenEnv) ContainerKey(e ast.Expr) string {
	e = ast.Unparen(e)
	if isBytesType(TypeOf(env.Pk, e)) {
		return ExprStr(e) + ".data"
	}
	return ExprStr(e)
}

func (env *LenEnv) lenKeyNoAlias(e ast.Expr) string {
	e = ast.Unparen(e)
	switch x := e.(type) {
	case *ast.CallExpr:
		if id, ok := x.Fun.(*ast.Ident); ok && id.Name == "len" && len(x.Args) == 1 {
			return env.ContainerKey(x.Args[0])
		}
		if se, ok := x.Fun.(*ast.SelectorExpr); ok && se.Sel.Name == "Len" && len(x.Args) == 0 && isBytesType(TypeOf(env.Pk, se.X)) {
			return env.ContainerKey(se.X)
		}
		// conversions uint(len(x)), int(...)
		if len(x.Args) == 1 {
			if tv, ok := env.Pk.TypesInfo.Types[x.Fun]; ok && tv.IsType() {
				return env.lenKeyNoAlias(x.Args[0])
			}
		}
	case *ast.SelectorExpr:
		if f, ok := env.SizeFields[x.Sel.Name]; ok {
			if _, isVar := env.Pk.TypesInfo.ObjectOf(x.Sel).(*types.Var); isVar {
				// s.dataSize  ==> len of s.data
				cont := &ast.SelectorExpr{X: x.X, Sel: ast.NewIdent(f)}
				s := ExprStr(cont)
				// the sibling field is a bytes.Bytes in all scanners
				return s + ".data"
			}
		}
	}
	return ""
}

// LenKey returns the container key if e denotes exactly a length, else "".
func (env *LenEnv) LenKey(e ast.Expr) string {
	k, off := env.LenKeyOff(e)
	if off != 0 {
		return ""
	}
	return k
}

// LenKeyOff returns (container, off) if e denotes len(container)+off.
func (env *LenEnv) LenKeyOff(e ast.Expr) (string, int64) {
	e = ast.Unparen(e)
	if id, ok := e.(*ast.Ident); ok {
		obj := env.Pk.TypesInfo.ObjectOf(id)
		if k, ok := env.alias[obj]; ok {
			return k, env.aliasOff[obj]
		}
	}
	if be, ok := e.(*ast.BinaryExpr); ok && (be.Op == token.SUB || be.Op == token.ADD) {
		if c, ok := intConst(env.Pk, be.Y); ok {
			if k, off := env.LenKeyOff(be.X); k != "" {
				if be.Op == token.SUB {
					c = -c
				}
				return k, off + c
			}
		}
	}
	return env.lenKeyNoAlias(e), 0
}

func intConst(pk *packages.Package, e ast.Expr) (int64, bool) {
	v := ConstOf(pk, e)
	if v == nil {
		return 0, false
	}
	v = constant.ToInt(v)
	if v.Kind() != constant.Int {
		return 0, false
	}
	n, ok := constant.Int64Val(v)
	return n, ok
}

// LowerBound computes the largest lower bound on len(container) implied by the
// facts (0 if none). helper(call, truth) may contribute bounds from one-level
// summaries of boolean helpers.
func (env *LenEnv) LowerBound(container string, facts []Fact, helper func(call *ast.CallExpr, truth bool) (string, int64)) (int64, string) {
	best, why := int64(0), ""
	upd := func(n int64, f Fact) {
		if n > best {
			best = n
			why = ExprStr(f.Cond)
			if !f.Truth {
				why = "!(" + why + ")"
			}
		}
	}
	for _, f := range facts {
		switch x := f.Cond.(type) {
		case *ast.BinaryExpr:
			op := x.Op
			l, r := x.X, x.Y
			lk, loff := env.LenKeyOff(l)
			rk, roff := env.LenKeyOff(r)
			// string emptiness: x != "" / x == ""
			if c := ConstOf(env.Pk, r); c != nil && c.Kind() == constant.String && constant.StringVal(c) == "" && env.ContainerKey(l) == container {
				if (op == token.NEQ && f.Truth) || (op == token.EQL && !f.Truth) {
					upd(1, f)
				}
				continue
			}
			if rk == container && lk != container {
				// mirror: K op len  ==> len op' K
				l, r = r, l
				lk, loff = rk, roff
				switch op {
				case token.LSS:
					op = token.GTR
				case token.LEQ:
					op = token.GEQ
				case token.GTR:
					op = token.LSS
				case token.GEQ:
					op = token.LEQ
				}
			}
			if lk != container {
				continue
			}
			k, ok := intConst(env.Pk, r)
			if !ok {
				continue
			}
			k -= loff // len+off op K  ==>  len op K-off
			if !f.Truth {
				switch op {
				case token.LSS:
					op = token.GEQ
				case token.LEQ:
					op = token.GTR
				case token.GTR:
					op = token.LEQ
				case token.GEQ:
					op = token.LSS
				case token.EQL:
					op = token.NEQ
				case token.NEQ:
					op = token.EQL
				}
			}
			switch op {
			case token.GTR:
				upd(k+1, f)
			case token.GEQ:
				upd(k, f)
			case token.EQL:
				upd(k, f)
			case token.NEQ:
				if k == 0 {
					upd(1, f)
				}
			}
		case *ast.CallExpr:
			if helper != nil {
				if cont, n := helper(x, f.Truth); cont == container {
					upd(n, f)
				}
			}
		}
	}
	return best, why
}

// AssignedBetween reports whether the root variable of the container expression
// is assigned between two positions in the function (which would invalidate a
// guard).
func (env *LenEnv) AssignedBetween(containerExpr ast.Expr, from, to token.Pos) bool {
	root := containerExpr
	for {
		switch x := ast.Unparen(root).(type) {
		case *ast.SelectorExpr:
			root = x.X
			continue
		case *ast.IndexExpr:
			root = x.X
			continue
		case *ast.CallExpr:
			if se, ok := x.Fun.(*ast.SelectorExpr); ok {
				root = se.X
				continue
			}
		}
		break
	}
	id, ok := ast.Unparen(root).(*ast.Ident)
	if !ok || env.Fd == nil {
		return false
	}
	obj := env.Pk.TypesInfo.ObjectOf(id)
	full := ExprStr(ast.Unparen(containerExpr))
	found := false
	ast.Inspect(env.Fd.Body, func(n ast.Node) bool {
		as, ok := n.(*ast.AssignStmt)
		if !ok || as.Pos() <= from || as.Pos() >= to {
			return true
		}
		if as.Pos() <= to && to < as.End() {
			return true // the statement performing the access itself (x = x[1:])
		}
		for _, l := range as.Lhs {
			ls := ExprStr(ast.Unparen(l))
			if lid, ok := ast.Unparen(l).(*ast.Ident); ok && env.Pk.TypesInfo.ObjectOf(lid) == obj {
				found = true
			} else if ls == full || strings.HasPrefix(full, ls+".") {
				found = true
			}
		}
		return true
	})
	return found
}
