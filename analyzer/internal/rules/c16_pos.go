package rules

import (
	"go/ast"
	"go/token"
	"go/types"
	"strings"

	"jsverif/internal/core"
)

// posTable: SetIndex arguments that are none of the two scanner idioms, with the reason the
// index lies inside the text. key = function:argument
var posTable = map[string]string{
	"lexeme.NewError:lex.Begin()": "position of an existing lexeme: lexemes are created by the scanners from indexes inside the content (scanner idioms below); lexeme spans themselves are not decided here",
	"(*notations/jschema/checker.checkSchema).checkType$1:bytes.Index(jErr.Index()) + typ.Begin": "re-bases an index inside the type's own text into the root file the type was cut from (typ.Begin is the offset of that text in RootFile); AddType'd types have Begin 0 and their own file",
	"(*notations/regex.RSchema).doCompile:bytes.Index(0)":                                        "reached only after the empty-content guard at the top of doCompile (content.Len() > 0), so index 0 exists",
	"(*notations/regex.RSchema).newJSchemaError:bytes.Index(idx)":                                "both callers pass 0 or content.Len()-1 after the empty-content guard",
	"(*rules/enum.scanner).validateValue:begin":                                                  "Begin() of the literal lexeme on top of the stack: an index the scanner itself produced from index-1",
}

// c16positioned: the index given to a diagnostic lies inside the text.
func c16positioned(c *core.Ctx) {
	const R = "C16.positioned"
	c.Rule(R, "every SetIndex argument is one of the two scanner idioms or a tabled form: (a) `s.index - 1` inside a scanner - the scanning loop runs `for s.index < s.dataSize { c := data[s.index]; s.index++; step(c) }` (shape checked on each scanner's Next), so inside a state function index-1 is the byte just read; (b) `s.dataSize - 1` for end-of-input errors, raised only when the lexeme stack is non-empty (so at least one byte exists). Any other arithmetic on the index (index-2, index, dataSize) is reported: it can point outside the text or to the wrong byte, which makes line/column 0 and the quoted line empty")
	c.Floor(R, 14)
	// shape of Next in the three scanners
	nextOK := map[string]bool{}
	for _, fn := range []string{"(*notations/jschema/scanner.Scanner).Next", "(*formats/json.scanner).Next", "(*rules/enum.scanner).Next"} {
		d := c.P.FindDecl(fn)
		if d == nil {
			c.Unresolved(R, fn)
			continue
		}
		ok := false
		// the loop may live in Next or in a helper of the same package; its bound may be the loop
		// condition or a leading `if s.index >= s.dataSize { return/break }`
		inspectDeep(c, d, 2, func(_ *core.DeclSite, n ast.Node) bool {
			fs, isFor := n.(*ast.ForStmt)
			if !isFor {
				return true
			}
			bound, inc, call := token.NoPos, token.NoPos, token.NoPos
			if fs.Cond != nil {
				switch core.ExprStr(ast.Unparen(fs.Cond)) {
				case "s.index < s.dataSize", "s.dataSize > s.index":
					bound = fs.Cond.Pos()
				}
			}
			ast.Inspect(fs.Body, func(m ast.Node) bool {
				switch y := m.(type) {
				case *ast.IfStmt:
					cond := core.ExprStr(ast.Unparen(y.Cond))
					if bound == token.NoPos && (cond == "s.index >= s.dataSize" || cond == "s.dataSize <= s.index" || cond == "!(s.index < s.dataSize)" || cond == "s.index == s.dataSize") && len(y.Body.List) > 0 {
						switch y.Body.List[len(y.Body.List)-1].(type) {
						case *ast.ReturnStmt, *ast.BranchStmt:
							bound = y.Pos()
						}
					}
				case *ast.IncDecStmt:
					if core.ExprStr(y.X) == "s.index" && y.Tok == token.INC && inc == token.NoPos {
						inc = y.Pos()
					}
				case *ast.AssignStmt:
					if len(y.Lhs) == 1 && core.ExprStr(y.Lhs[0]) == "s.index" && y.Tok == token.ADD_ASSIGN && core.ExprStr(y.Rhs[0]) == "1" && inc == token.NoPos {
						inc = y.Pos()
					}
				case *ast.CallExpr:
					if f := core.ExprStr(y.Fun); (f == "s.step") && call == token.NoPos {
						call = y.Pos()
					}
				}
				return true
			})
			if bound != token.NoPos && inc != token.NoPos && call != token.NoPos && bound < inc && inc < call {
				ok = true
			}
			return true
		})
		pkgRel := strings.TrimPrefix(strings.Split(fn, ").")[0], "(*")
		pkgRel = pkgRel[:strings.LastIndex(pkgRel, ".")]
		nextOK[pkgRel] = ok
		c.Check(ok, R, "loop:"+fn, c.P.Pos(d.Decl.Pos()), "scanning loop of "+fn+": index < dataSize, index++ before the state function runs", "the loop shape that makes `s.index - 1` the byte just read is gone")
	}
	n := 0
	for _, cs := range c.P.Calls() {
		if core.FullName(core.Callee(cs.Pkg, cs.Call)) != "(*kit.JSchemaError).SetIndex" || len(cs.Call.Args) != 1 {
			continue
		}
		n++
		fn := core.DeclName(cs.Pkg, cs.Decl)
		if lit := enclosingFuncLit(cs.Stack); lit {
			fn += "$1"
		}
		arg := core.ExprStr(cs.Call.Args[0])
		key := fn + ":" + arg
		pos := c.P.Pos(cs.Call.Pos())
		what := "SetIndex(" + arg + ") in " + fn
		pkgRel := core.Rel(cs.Pkg.PkgPath)
		switch {
		case arg == "s.index - 1" && nextOK[pkgRel]:
			c.OKd(R, key, pos, what, "scanner idiom (a): the byte just read")
		case arg == "s.dataSize - 1" && nextOK[pkgRel]:
			// must be under a non-empty-stack condition or after a switch on the top of the stack
			underGuard := func(stack []ast.Node) bool {
				for _, a := range stack {
					if ifs, ok := a.(*ast.IfStmt); ok && (strings.Contains(core.ExprStr(ifs.Cond), "stack.Len() != 0") || hasDisjunct(ifs.Cond, "s.slashPending") || hasDisjunct(ifs.Cond, "s.blockCommentOpen")) {
						return true // a non-empty lexeme stack / a pending slash: at least one byte was read
					}
				}
				return false
			}
			// ... or after an early `if s.stack.Len() == 0 { return }` of the same function
			afterEarlyReturn := func(decl *ast.FuncDecl, at token.Pos) bool {
				found := false
				if decl == nil || decl.Body == nil {
					return false
				}
				ast.Inspect(decl.Body, func(m ast.Node) bool {
					if ifs, ok := m.(*ast.IfStmt); ok && ifs.End() < at {
						cond := core.ExprStr(ast.Unparen(ifs.Cond))
						if strings.Contains(cond, "stack.Len() == 0") || strings.Contains(cond, "stack.Len() < 1") {
							for _, st := range ifs.Body.List {
								if _, isRet := st.(*ast.ReturnStmt); isRet {
									found = true
								}
							}
						}
					}
					return true
				})
				return found
			}
			guardedSite := func(stack []ast.Node, decl *ast.FuncDecl, at token.Pos) bool {
				return underGuard(stack) || afterEarlyReturn(decl, at)
			}
			guarded := guardedSite(cs.Stack, cs.Decl, cs.Call.Pos())
			if !guarded && cs.Decl != nil && cs.Decl.Name.Name != "Next" {
				// a helper that builds the end-of-input error: every call of it must sit under the guard
				if self, ok := cs.Pkg.TypesInfo.Defs[cs.Decl.Name].(*types.Func); ok {
					sites, all := 0, true
					for _, cs2 := range c.P.Calls() {
						if core.Callee(cs2.Pkg, cs2.Call) == types.Object(self) {
							sites++
							if !guardedSite(cs2.Stack, cs2.Decl, cs2.Call.Pos()) {
								all = false
							}
						}
					}
					if sites > 0 && all {
						guarded = true
					}
				}
			}
			if guarded {
				c.OKd(R, key, pos, what, "scanner idiom (b): end-of-input error with a non-empty lexeme stack")
			} else {
				c.Bad(R, key, pos, what, "end-of-input position without the non-empty-stack guard: for an empty text dataSize-1 wraps around")
			}
		default:
			if r, ok := tableGetMoved(c, posTable, key); ok {
				c.Tabled(R, key, pos, what, r)
			} else {
				c.Bad(R, key, pos, what, "the index expression is neither `s.index - 1` in a scanner, `s.dataSize - 1` at end of input, nor a tabled form: the diagnostic may point outside the text (line and column 0, empty quoted line) or at the wrong byte")
			}
		}
	}
}

func enclosingFuncLit(stack []ast.Node) bool {
	for _, a := range stack {
		if _, ok := a.(*ast.FuncLit); ok {
			return true
		}
	}
	return false
}
