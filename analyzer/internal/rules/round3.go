package rules

import (
	"go/ast"
	"go/constant"
	"go/token"
	"go/types"
	"sort"
	"strings"

	"golang.org/x/tools/go/ssa"

	"jsverif/internal/absint"
	"jsverif/internal/core"
)

// eofPairsRule: the end-of-input handlers close every open lexeme with its own partner.
func eofPairsRule(R string) RuleFunc {
	return func(c *core.Ctx) {
		c.Rule(R, "in the end-of-input table of each scanner (decoded from Next with its helpers evaluated in place, evaluated once per lexeme type on top of the lexeme stack) every opening type XBegin that the end of the input closes is closed with a type that is paired with XBegin in the package's own pair tables (isScalarPair / isNonScalarPair, extracted from the source). A wrong closer makes the closing step fail with the plain error `incorrect ending of the lexical event` (no code, no position) or with the internal failure code")
		c.Floor(R, 6)
		for _, spec := range []struct{ pkg, recv, fn string }{
			{"rules/enum", "scanner", "(*rules/enum.scanner).processTail"},
			{"notations/jschema/scanner", "Scanner", "(*notations/jschema/scanner.Scanner).Next"},
			{"formats/json", "scanner", "(*formats/json.scanner).Next"},
		} {
			pk := c.P.Pkg(spec.pkg)
			if pk == nil {
				c.Unresolved(R, spec.fn)
				continue
			}
			tab, lt, ok := eofOpeners(c, R, spec.pkg, spec.recv)
			if !ok {
				c.Bad(R, spec.fn+":switch", "-", "end-of-input table of "+spec.fn, "undecided: the end-of-input branch could not be decoded")
				continue
			}
			if len(lt.scalar)+len(lt.nonScalar) == 0 {
				c.Bad(R, spec.fn+":pairs", "-", "pair tables of "+spec.pkg, "undecided: no isScalarPair/isNonScalarPair table found")
				continue
			}
			// lexeme types this scanner ever emits
			emitted := map[string]bool{}
			for _, cs := range c.P.Calls() {
				if cs.Pkg != pk {
					continue
				}
				f := core.ExprStr(cs.Call.Fun)
				if (strings.HasSuffix(f, ".found") || strings.HasSuffix(f, ".processingFoundLexeme")) && len(cs.Call.Args) == 1 {
					emitted[strings.TrimPrefix(core.ExprStr(cs.Call.Args[0]), "lexeme.")] = true
				}
			}
			var openers []string
			for o, act := range tab {
				if strings.HasPrefix(act, "emit:") {
					openers = append(openers, o)
				}
			}
			sort.Strings(openers)
			for _, opener := range openers {
				closer := strings.TrimPrefix(tab[opener], "emit:")
				if !emitted[opener] {
					c.Note(R, spec.fn+":"+opener, "-", "end of input with "+opener+" open", "dead case: this scanner never emits "+opener)
					continue
				}
				pair := [2]string{opener, closer}
				c.Check(lt.scalar[pair] || lt.nonScalar[pair], R, spec.fn+":"+opener, "-", "end of input with "+opener+" open: closed with "+closer, "the pair <"+opener+", "+closer+"> is not in the scanner's pair tables: closing fails with a bare error instead of a diagnostic")
			}
			if len(openers) == 0 {
				c.Bad(R, spec.fn+":switch", "-", "end-of-input table of "+spec.fn, "undecided: the end of the input closes no lexeme")
			}
		}
	}
}

// eofOpeners evaluates the decoded end-of-input table of a scanner once per lexeme type on top of
// the lexeme stack (all other scanner fields at their zero values): opener -> "accept" |
// "reject" | "emit:<closing type>".
func eofOpeners(c *core.Ctx, R, pkgRel, recv string) (map[string]string, *lexTables, bool) {
	m := buildScanModel(c, pkgRel)
	lt := extractLexTables(c, R, pkgRel)
	if lt == nil {
		return nil, nil, false
	}
	eof, ok := extractEOF(c, R, m, pkgRel, recv)
	if !ok {
		return nil, nil, false
	}
	zero := map[string]constant.Value{}
	if nt := c.P.NamedType(pkgRel, recv); nt != nil {
		if st, ok := nt.Underlying().(*types.Struct); ok {
			for i := 0; i < st.NumFields(); i++ {
				if b, ok := st.Field(i).Type().Underlying().(*types.Basic); ok {
					switch {
					case b.Info()&types.IsBoolean != 0:
						zero[c.P.PinnedFieldName(nt, i)] = constant.MakeBool(false)
					case b.Info()&types.IsInteger != 0:
						zero[c.P.PinnedFieldName(nt, i)] = constant.MakeInt64(0)
					}
				}
			}
		}
	}
	im := &implModel{m: m, lt: lt, eof: eof, obs: map[string]bool{}, zero: zero, flags: map[string]constant.Value{}}
	out := map[string]string{}
	for name := range lt.byName {
		cfg := implCfg{stack: []string{name}, fields: map[string]string{}}
		n, act := 0, ""
		for _, r := range eof {
			match := true
			for _, a := range r.atoms {
				v := absint.EvalWith(a.Cond, im.leaf(&cfg, true))
				if v == nil || v.Kind() != constant.Bool || constant.BoolVal(v) != a.Truth {
					match = false
					break
				}
			}
			if match {
				n++
				act = r.action
			}
		}
		if n == 1 {
			out[name] = act
		}
	}
	return out, lt, len(out) > 0
}

// c17rulename: the rule name is recorded whenever a rule value is about to be read.
func c17rulename(c *core.Ctx) {
	const R = "C17.rulename"
	c.Rule(R, "in the annotation rule loader every transition to the state that reads a rule's value (`stateFunc = rl.ruleValueBegin`) records the key lexeme first (`rl.ruleNameLex = lex` in the same statement list): ruleValue() names the rule by that field. The transition after an `enum: @name` value is one of them; if it keeps the stale key the rule that follows is read as another `enum` (`{enum: @e, nullable: true}` fails with Duplicate rule \"enum\" although the inline list is accepted)")
	c.Floor(R, 2)
	n := 0
	for _, d := range c.P.FuncDecls() {
		if core.Rel(d.Pkg.PkgPath) != "notations/jschema/loader" || d.Decl.Body == nil {
			continue
		}
		fn := core.DeclName(d.Pkg, d.Decl)
		var visit func(list []ast.Stmt)
		visit = func(list []ast.Stmt) {
			for i, st := range list {
				if as, ok := st.(*ast.AssignStmt); ok && len(as.Lhs) == 1 && len(as.Rhs) == 1 && strings.HasSuffix(core.ExprStr(as.Lhs[0]), ".stateFunc") && strings.HasSuffix(core.ExprStr(as.Rhs[0]), ".ruleValueBegin") {
					n++
					recv := strings.TrimSuffix(core.ExprStr(as.Lhs[0]), ".stateFunc")
					ok2 := false
					for _, prev := range list[:i] {
						if pa, ok := prev.(*ast.AssignStmt); ok && len(pa.Lhs) == 1 && core.ExprStr(pa.Lhs[0]) == recv+".ruleNameLex" {
							ok2 = true
						}
					}
					c.Check(ok2, R, core.F("%s:to-ruleValueBegin#%d", fn, n), c.P.Pos(as.Pos()), "transition to ruleValueBegin in "+fn+" records the rule name lexeme", "the rule name is not recorded before the value is read: the next rule is attributed to the previous key")
				}
				ast.Inspect(st, func(m ast.Node) bool {
					if m == st {
						return true
					}
					switch b := m.(type) {
					case *ast.BlockStmt:
						visit(b.List)
						return false
					case *ast.CaseClause:
						visit(b.Body)
						return false
					}
					return true
				})
				if cc, ok := st.(*ast.CaseClause); ok {
					visit(cc.Body)
				}
			}
		}
		visit(d.Decl.Body.List)
	}
}

// c18pattern: the pattern of a regex user type comes from Pattern().
func c18pattern(c *core.Ctx) {
	const R = "C18.pattern"
	c.Rule(R, "jschema.FromRSchema (a regex schema registered as a user type) takes the pattern from RSchema.Pattern() - the one place that knows where the delimiters are - and feeds exactly that value to the JSON encoder that writes the `regex` rule; it does not re-derive it from the AST value or the file text (trimming `/` also cuts the slash of a trailing escaped `\\/`)")
	c.Floor(R, 1)
	d := c.P.FindDecl("notations/jschema.FromRSchema")
	if d == nil {
		c.Unresolved(R, "notations/jschema.FromRSchema")
		return
	}
	// value flow on SSA: the result of Pattern() reaches encoding/json.Marshal unchanged - directly or
	// as an argument handed down to helpers of the module; any transformation creates another value
	f := c.P.Func("notations/jschema", "FromRSchema")
	if f == nil {
		c.Unresolved(R, "notations/jschema.FromRSchema (SSA)")
		return
	}
	fromPattern, marshalled := false, false
	var work []ssa.Value
	seen := map[ssa.Value]bool{}
	push := func(v ssa.Value) {
		if v != nil && !seen[v] {
			seen[v] = true
			work = append(work, v)
		}
	}
	for _, b := range f.Blocks {
		for _, in := range b.Instrs {
			if call, ok := in.(*ssa.Call); ok {
				if g := call.Call.StaticCallee(); g != nil && core.FuncName(g) == "(*notations/regex.RSchema).Pattern" {
					fromPattern = true
					push(call)
				}
			}
		}
	}
	// every use of the flowing value is accounted for: the encoder, a helper of the module (followed), a
	// predicate that only looks at it (strings.Contains..., utf8.Valid..., len, comparisons, byte reads).
	// Anything that builds text from it (concatenation, conversion that is stored or returned, a formatter)
	// is a way around the encoder
	leak := ""
	note := func(in ssa.Instruction, what string) {
		if leak == "" {
			leak = what + " at " + c.P.Pos(in.Pos())
		}
	}
	for len(work) > 0 {
		v := work[0]
		work = work[1:]
		if v.Referrers() == nil {
			continue
		}
		for _, ref := range *v.Referrers() {
			switch x := ref.(type) {
			case *ssa.Extract:
				if x.Index == 0 {
					push(x)
				}
			case *ssa.MakeInterface:
				push(x)
			case *ssa.ChangeType:
				push(x)
			case *ssa.Phi:
				push(x)
			case *ssa.Convert:
				// string <-> []byte keeps the bytes
				push(x)
			case *ssa.Store:
				if al, ok := x.Addr.(*ssa.Alloc); ok && x.Val == v {
					for _, r2 := range *al.Referrers() {
						if ld, ok := r2.(*ssa.UnOp); ok && ld.Op == token.MUL {
							push(ld)
						}
					}
				} else if x.Val == v {
					note(x, "the pattern is stored away unencoded")
				}
			case *ssa.BinOp:
				switch x.Op {
				case token.EQL, token.NEQ, token.LSS, token.GTR, token.LEQ, token.GEQ:
				default:
					note(x, "the pattern is concatenated into text without the JSON encoder")
				}
			case *ssa.Lookup, *ssa.Index, *ssa.IndexAddr, *ssa.Range, *ssa.DebugRef, *ssa.Slice, *ssa.If:
				// reads of single bytes / sub-slices for tests
			case *ssa.Return:
				if x.Parent() != f {
					note(x, "a helper returns the pattern itself (or its bytes) unencoded")
				}
			case ssa.CallInstruction:
				com := x.Common()
				g := com.StaticCallee()
				if g == nil {
					if bi, ok := com.Value.(*ssa.Builtin); ok && (bi.Name() == "len" || bi.Name() == "cap") {
						continue
					}
					note(x, "the pattern is handed to a dynamic call")
					continue
				}
				for ai, a := range com.Args {
					if a != v {
						continue
					}
					switch {
					case g.String() == "encoding/json.Marshal":
						marshalled = true
					case c.P.FuncInModule(g) && g.Blocks != nil && ai < len(g.Params):
						push(g.Params[ai])
					default:
						// a library predicate: result is a bool or an int
						res := g.Signature.Results()
						pure := res.Len() == 1
						if pure {
							b, isB := res.At(0).Type().Underlying().(*types.Basic)
							pure = isB && b.Info()&(types.IsBoolean|types.IsInteger) != 0
						}
						if !pure {
							note(x, "the pattern is handed to "+g.String()+", which builds text from it")
						}
					}
				}
			}
		}
	}
	c.Check(fromPattern && marshalled && leak == "", R, "FromRSchema:pattern", c.P.Pos(d.Decl.Pos()), "FromRSchema: the result of s.Pattern() reaches json.Marshal unchanged (directly or through helpers) and is used for nothing else but tests", core.F("the pattern of the derived schema is not the unmodified result of Pattern() put through the JSON encoder (Pattern() called: %v, its result JSON-encoded as is: %v, other use: %s)", fromPattern, marshalled, leak))
}

// c19ctor: the set constructor keeps order and content in step.
func c19ctor(c *core.Ctx) {
	const R = "C19.ctor"
	c.Rule(R, "NewStringSet builds its order list by appending inside the branch that also inserts into the map (the same `first occurrence` condition guards both): no pre-sized slice written by position, which leaves holes (empty strings in Data(), later Adds landing behind them) whenever an argument is skipped as a duplicate")
	c.Floor(R, 1)
	d := c.P.FindDecl("notations/jschema.NewStringSet")
	if d == nil {
		c.Unresolved(R, "notations/jschema.NewStringSet")
		return
	}
	appendOK, indexWrite := false, false
	// in the constructor or in the helper of the set it fills the object with
	inspectDeep(c, d, 1, func(_ *core.DeclSite, n ast.Node) bool {
		as, ok := n.(*ast.AssignStmt)
		if !ok || len(as.Lhs) != 1 || len(as.Rhs) != 1 {
			return true
		}
		l, r := core.ExprStr(as.Lhs[0]), core.ExprStr(as.Rhs[0])
		if (l == "order" || strings.HasSuffix(l, ".order")) && strings.HasPrefix(r, "append("+l+",") {
			appendOK = true
		}
		if ix, ok := as.Lhs[0].(*ast.IndexExpr); ok && (core.ExprStr(ix.X) == "order" || strings.HasSuffix(core.ExprStr(ix.X), ".order")) {
			indexWrite = true
		}
		return true
	})
	c.Check(appendOK && !indexWrite, R, "NewStringSet:order", c.P.Pos(d.Decl.Pos()), "NewStringSet appends to the order list", "the order list is written by position: skipped duplicates leave empty entries, Len() and Data() disagree")
}

// c13parse: the exponent parser refuses nothing but non-digits and overflow.
func c13parse(c *core.Ctx) {
	const R = "C13.parse"
	c.Rule(R, "bytes.Bytes.ParseUint (which reads the exponent of a number through ParseInt) returns an error only under one of three conditions: the text is empty (`len(...) == 0`), a byte is not a digit (`!IsDigit(c)`), or the accumulation would overflow (a comparison against math.MaxUint). Any other rejecting condition - a limit on the number of bytes, say - refuses valid numbers: an exponent may be written with leading zeros (1e000000000000000000002 = 100)")
	c.Floor(R, 3)
	d := c.P.FindDecl("(bytes.Bytes).ParseUint")
	if d == nil {
		c.Unresolved(R, "(bytes.Bytes).ParseUint")
		return
	}
	var stack []ast.Node
	n := 0
	ast.Inspect(d.Decl.Body, func(nd ast.Node) bool {
		if nd == nil {
			stack = stack[:len(stack)-1]
			return true
		}
		stack = append(stack, nd)
		ret, ok := nd.(*ast.ReturnStmt)
		if !ok || len(ret.Results) != 2 || core.ExprStr(ret.Results[1]) == "nil" {
			return true
		}
		n++
		cond := ""
		for i := len(stack) - 2; i >= 0; i-- {
			if ifs, ok := stack[i].(*ast.IfStmt); ok {
				cond = core.ExprStr(ifs.Cond)
				break
			}
		}
		okCond := false
		switch {
		case strings.HasPrefix(cond, "len(") && strings.HasSuffix(cond, " == 0"):
			okCond = true
		case strings.HasPrefix(cond, "!IsDigit("):
			okCond = true
		case strings.Contains(cond, "math.MaxUint"):
			okCond = true
		}
		c.Check(okCond, R, core.F("ParseUint:reject#%d", n), c.P.Pos(ret.Pos()), "error return of ParseUint under `"+cond+"`", "an extra rejecting condition: valid decimal texts (e.g. an exponent with leading zeros) are refused")
		return true
	})
}
