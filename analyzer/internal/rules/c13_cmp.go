package rules

import (
	"go/ast"
	"go/token"
	"go/types"
	"sort"
	"strings"

	"jsverif/internal/core"
)

// splitLoop splits a function body into the statements before its only top-level for loop,
// the loop, and the statements after it.
func splitLoop(body *ast.BlockStmt) (pre []ast.Stmt, loop *ast.ForStmt, post []ast.Stmt, ok bool) {
	for _, st := range body.List {
		if f, isFor := st.(*ast.ForStmt); isFor {
			if loop != nil {
				return nil, nil, nil, false
			}
			loop = f
			continue
		}
		if loop == nil {
			pre = append(pre, st)
		} else {
			post = append(post, st)
		}
	}
	return pre, loop, post, loop != nil
}

func sign(a, b int64) int64 {
	switch {
	case a < b:
		return -1
	case a > b:
		return 1
	}
	return 0
}

// cmpRoles evaluates the magnitude comparison helpers of json.Number by operand role: whatever a
// function reads of the receiver n or of the argument nn (length of the integer / fractional part,
// the byte at the loop index) is looked up under "n" / "nn", so swapped operands show up as a
// wrong sign.
type cmpRoles struct {
	c       *core.Ctx
	d       *core.DeclSite
	recv    string            // name of the receiver
	arg     string            // name of the *Number parameter
	part    string            // "int" or "fra": the accessor this function must use
	bind    map[string]string // local variable -> role
	lenOf   map[string]int64  // role -> length
	byteOf  map[string]int64  // role -> byte at the loop index
	loopVar string
	idx     int64
	misuse  string
}

func (r *cmpRoles) hook(e *miniEval) func(call *ast.CallExpr) (int64, bool) {
	return func(call *ast.CallExpr) (int64, bool) {
		sel, ok := call.Fun.(*ast.SelectorExpr)
		if !ok {
			return 0, false
		}
		recv := core.ExprStr(sel.X)
		switch core.FullName(core.Callee(r.d.Pkg, call)) {
		case "(bytes.Bytes).Len":
			if role, ok := r.bind[recv]; ok {
				return r.lenOf[role], true
			}
		case "(bytes.Bytes).Byte":
			role, ok := r.bind[recv]
			if !ok || len(call.Args) != 1 {
				return 0, false
			}
			if core.ExprStr(call.Args[0]) != r.loopVar {
				r.misuse = "reads " + core.ExprStr(call) + ": not the byte at the loop index"
				return 0, false
			}
			if r.idx >= r.lenOf[role] {
				r.misuse = core.F("reads %s with %s = %d beyond the length %d of that part", core.ExprStr(call), r.loopVar, r.idx, r.lenOf[role])
				return 0, false
			}
			return r.byteOf[role], true
		}
		return 0, false
	}
}

// bindParts handles `x := n.int()` / `y := nn.fra()`: it records the role of the variable.
func (r *cmpRoles) bindParts(stmts []ast.Stmt) (rest []ast.Stmt) {
	for _, st := range stmts {
		as, ok := st.(*ast.AssignStmt)
		if ok && len(as.Lhs) == 1 && len(as.Rhs) == 1 {
			if call, isC := as.Rhs[0].(*ast.CallExpr); isC {
				name := core.FullName(core.Callee(r.d.Pkg, call))
				if name == "(json.Number).int" || name == "(json.Number).fra" {
					sel := call.Fun.(*ast.SelectorExpr)
					who := core.ExprStr(sel.X)
					role := ""
					switch who {
					case r.recv:
						role = "n"
					case r.arg:
						role = "nn"
					}
					if role == "" || !strings.HasSuffix(name, "."+r.part) {
						r.misuse = core.ExprStr0(as) + ": expected the " + r.part + "() part of " + r.recv + " or " + r.arg
					}
					r.bind[core.ExprStr(as.Lhs[0])] = role
					continue
				}
			}
		}
		rest = append(rest, st)
	}
	return rest
}

func namedResult(fd *ast.FuncDecl) string {
	if fd.Type.Results != nil && len(fd.Type.Results.List) == 1 && len(fd.Type.Results.List[0].Names) == 1 {
		return fd.Type.Results.List[0].Names[0].Name
	}
	return ""
}

// c13cmp: the magnitude comparison of two normalised numbers.
func c13cmp(c *core.Ctx) { c13cmpAs(c, "C13.cmp") }

func c13cmpAs(c *core.Ctx, R string) {
	c.Rule(R, "cmpAbs/cmpInt/cmpFra compare magnitudes correctly given normalised operands (C13.norm: no leading zeros in the integer part, no trailing zeros in the fraction, digits only - C13.grammar): int() and fra() split nat at the same point Len()-exp (prefix / suffix); cmpInt answers by the lengths of the integer parts when they differ (or both are empty) and otherwise by the first differing byte from the left; cmpFra pads the shorter fraction with zeros and answers by the first differing digit; cmpAbs = cmpInt unless 0, then cmpFra. Each function is tabulated by operand role (n / nn) over every ordering of the lengths, every loop index and every pair of digit bytes; the lengths and bytes are touched only through comparisons and the digit offset, so the tables are complete, not samples")
	c.Floor(R, 9)

	// int() / fra()
	splitExpr := map[string]string{}
	for _, part := range []struct{ name, sub string }{{"int", "SubHigh"}, {"fra", "SubLow"}} {
		fn := "(json.Number)." + part.name
		d := c.P.FindDecl(fn)
		if d == nil {
			c.Unresolved(R, fn)
			continue
		}
		ok := false
		if len(d.Decl.Body.List) == 1 {
			if ret, isR := d.Decl.Body.List[0].(*ast.ReturnStmt); isR && len(ret.Results) == 1 {
				if call, isC := ret.Results[0].(*ast.CallExpr); isC && core.FullName(core.Callee(d.Pkg, call)) == "(bytes.Bytes)."+part.sub && len(call.Args) == 1 {
					if sel, isS := call.Fun.(*ast.SelectorExpr); isS && core.ExprStr(sel.X) == "n.nat" {
						splitExpr[part.name] = core.ExprStr(call.Args[0])
						ok = true
					}
				}
			}
		}
		c.Check(ok, R, fn+":part", c.P.Pos(d.Decl.Pos()), part.name+"() = n.nat."+part.sub+"("+splitExpr[part.name]+")", part.name+"() is not the "+part.sub+" part of nat")
	}
	same := splitExpr["int"] != "" && splitExpr["int"] == splitExpr["fra"] && strings.Contains(splitExpr["int"], "n.nat.Len() - n.exp")
	c.Check(same, R, "(json.Number).int:split", "json/number.go", "int() and fra() split nat at the same point n.nat.Len() - n.exp", "int() splits at "+splitExpr["int"]+", fra() at "+splitExpr["fra"]+": a digit is lost or counted twice")
	for _, sub := range []struct{ name, want string }{{"SubHigh", "b.data[:i]"}, {"SubLow", "b.data[i:]"}} {
		fn := "(bytes.Bytes)." + sub.name
		d := c.P.FindDecl(fn)
		if d == nil {
			c.Unresolved(R, fn)
			continue
		}
		ok := false
		var idxVar, param string
		if len(d.Decl.Type.Params.List) == 1 && len(d.Decl.Type.Params.List[0].Names) == 1 {
			param = d.Decl.Type.Params.List[0].Names[0].Name
		}
		for _, st := range d.Decl.Body.List {
			switch s := st.(type) {
			case *ast.AssignStmt:
				if len(s.Rhs) == 1 && core.ExprStr(s.Rhs[0]) == "Int("+param+")" {
					idxVar = core.ExprStr(s.Lhs[0])
				}
			case *ast.ReturnStmt:
				if len(s.Results) == 1 {
					got := strings.ReplaceAll(core.ExprStr(s.Results[0]), idxVar, "i")
					ok = idxVar != "" && got == "NewBytes("+sub.want+")"
				}
			}
		}
		c.Check(ok, R, fn+":slice", c.P.Pos(d.Decl.Pos()), sub.name+"(i) = "+sub.want, sub.name+" does not return "+sub.want)
	}

	lens := []int64{0, 1, 2, 3, 5}

	// cmpInt
	if d := c.P.FindDecl("(json.Number).cmpInt"); d == nil {
		c.Unresolved(R, "(json.Number).cmpInt")
	} else {
		cmpLoopFunc(c, R, d, "int", lens, func(ln, lnn int64) (ret int64, reachesLoop bool) {
			if ln != lnn {
				return sign(ln, lnn), false
			}
			if ln == 0 {
				return 0, false
			}
			return 0, true
		}, func(ln, lnn int64) int64 { return ln }, func(r *cmpRoles) (int64, bool) {
			s := sign(r.byteOf["n"], r.byteOf["nn"])
			return s, s != 0
		}, false)
	}
	// cmpFra
	if d := c.P.FindDecl("(json.Number).cmpFra"); d == nil {
		c.Unresolved(R, "(json.Number).cmpFra")
	} else {
		cmpLoopFunc(c, R, d, "fra", lens, func(ln, lnn int64) (int64, bool) { return 0, true },
			func(ln, lnn int64) int64 {
				if ln > lnn {
					return ln
				}
				return lnn
			}, func(r *cmpRoles) (int64, bool) {
				d1, d2 := int64(0), int64(0)
				if r.idx < r.lenOf["n"] {
					d1 = r.byteOf["n"] - '0'
				}
				if r.idx < r.lenOf["nn"] {
					d2 = r.byteOf["nn"] - '0'
				}
				s := sign(d1, d2)
				return s, s != 0
			}, true)
	}
	// cmpAbs
	if d := c.P.FindDecl("(json.Number).cmpAbs"); d == nil {
		c.Unresolved(R, "(json.Number).cmpAbs")
	} else {
		recv, arg := recvAndArg(d.Decl)
		bad := ""
		for ci := int64(-1); ci <= 1 && bad == ""; ci++ {
			for cf := int64(-1); cf <= 1 && bad == ""; cf++ {
				e := &miniEval{pk: d.Pkg, env: map[string]int64{}}
				if nr := namedResult(d.Decl); nr != "" {
					e.env[nr] = 0
				}
				e.call = func(call *ast.CallExpr) (int64, bool) {
					name := core.FullName(core.Callee(d.Pkg, call))
					if name != "(json.Number).cmpInt" && name != "(json.Number).cmpFra" {
						return 0, false
					}
					v := ci
					if strings.HasSuffix(name, "cmpFra") {
						v = cf
					}
					sel, _ := call.Fun.(*ast.SelectorExpr)
					if sel != nil && len(call.Args) == 1 && core.ExprStr(sel.X) == recv && core.ExprStr(call.Args[0]) == arg {
						return v, true
					}
					if sel != nil && len(call.Args) == 1 && core.ExprStr(sel.X) == arg && (core.ExprStr(call.Args[0]) == "&"+recv || core.ExprStr(call.Args[0]) == recv) {
						return -v, true // operands swapped: the sign is the opposite one
					}
					return 0, false
				}
				st, rets := e.run(d.Decl.Body.List)
				want := ci
				if ci == 0 {
					want = cf
				}
				got, okv := retValue(e, d.Decl, st, rets)
				switch {
				case e.unknown != "":
					bad = "undecided: " + e.unknown
				case !okv:
					bad = core.F("cmpInt=%d, cmpFra=%d: no value returned", ci, cf)
				case got != want:
					bad = core.F("cmpInt=%d, cmpFra=%d gives %d, expected %d", ci, cf, got, want)
				}
			}
		}
		c.Check(bad == "", R, "(json.Number).cmpAbs:table", c.P.Pos(d.Decl.Pos()), "cmpAbs = cmpInt unless 0, then cmpFra (9 cells, operands in order)", bad)
	}
}

func recvAndArg(fd *ast.FuncDecl) (recv, arg string) {
	if fd.Recv != nil && len(fd.Recv.List) == 1 && len(fd.Recv.List[0].Names) == 1 {
		recv = fd.Recv.List[0].Names[0].Name
	}
	if len(fd.Type.Params.List) == 1 && len(fd.Type.Params.List[0].Names) == 1 {
		arg = fd.Type.Params.List[0].Names[0].Name
	}
	return
}

func retValue(e *miniEval, fd *ast.FuncDecl, st int, rets []int64) (int64, bool) {
	if st != miniReturn {
		return 0, false
	}
	if len(rets) == 1 {
		return rets[0], true
	}
	if nr := namedResult(fd); nr != "" && len(rets) == 0 {
		return e.env[nr], true
	}
	return 0, false
}

// cmpLoopFunc tabulates `pre; for i := 0; i < bound; i++ { body }; post` of cmpInt / cmpFra.
//   - preWant(ln, lnn): the value returned before the loop, or reachesLoop
//   - boundWant(ln, lnn): the number of iterations
//   - bodyWant(roles): the value an iteration returns, or (0,false) = next iteration
func cmpLoopFunc(c *core.Ctx, R string, d *core.DeclSite, part string, lens []int64,
	preWant func(ln, lnn int64) (int64, bool), boundWant func(ln, lnn int64) int64,
	bodyWant func(r *cmpRoles) (int64, bool), digitsOnly bool) {
	fn := core.DeclName(d.Pkg, d.Decl)
	pos := c.P.Pos(d.Decl.Pos())
	pre, loop, post, ok := splitLoop(d.Decl.Body)
	if !ok {
		c.Bad(R, fn+":shape", pos, fn+" = pre; one loop; post", "not the shape this rule evaluates (exactly one top-level for loop)")
		return
	}
	recv, arg := recvAndArg(d.Decl)
	newRoles := func() *cmpRoles {
		return &cmpRoles{c: c, d: d, recv: recv, arg: arg, part: part, bind: map[string]string{}, lenOf: map[string]int64{}, byteOf: map[string]int64{}}
	}
	// loop header: i := 0; i < bound; i++
	loopVar := ""
	if as, isA := loop.Init.(*ast.AssignStmt); isA && len(as.Lhs) == 1 && len(as.Rhs) == 1 && core.ExprStr(as.Rhs[0]) == "0" {
		loopVar = core.ExprStr(as.Lhs[0])
	}
	inc, isInc := loop.Post.(*ast.IncDecStmt)
	headerOK := loopVar != "" && isInc && inc.Tok == token.INC && core.ExprStr(inc.X) == loopVar && loop.Cond != nil
	c.Check(headerOK, R, fn+":header", c.P.Pos(loop.Pos()), "the loop starts at 0 and advances by one", "the loop does not visit every index from 0 upwards")
	if !headerOK {
		return
	}
	// the lengths are touched only through comparisons (and plain copies)
	lenVars := map[string]bool{}
	cmpOnly := ""
	var markLens func(stmts []ast.Stmt)
	markLens = func(stmts []ast.Stmt) {
		for _, st := range stmts {
			ast.Inspect(st, func(n ast.Node) bool {
				as, isA := n.(*ast.AssignStmt)
				if !isA || len(as.Lhs) != 1 || len(as.Rhs) != 1 {
					return true
				}
				rhs := core.ExprStr(as.Rhs[0])
				if strings.HasSuffix(rhs, ".Len()") || lenVars[rhs] {
					lenVars[core.ExprStr(as.Lhs[0])] = true
				}
				return true
			})
		}
	}
	markLens(pre)
	markLens(pre) // copies of copies
	ast.Inspect(d.Decl.Body, func(n ast.Node) bool {
		be, isB := n.(*ast.BinaryExpr)
		if !isB {
			return true
		}
		for _, op := range []ast.Expr{be.X, be.Y} {
			s := core.ExprStr(ast.Unparen(op))
			if lenVars[s] || strings.HasSuffix(s, ".Len()") {
				switch be.Op {
				case token.LSS, token.GTR, token.LEQ, token.GEQ, token.EQL, token.NEQ:
				default:
					cmpOnly = core.ExprStr(be)
				}
			}
		}
		return true
	})
	c.Check(cmpOnly == "", R, fn+":lens", pos, "the lengths of the two parts are only compared (with each other, the loop index, constants)", "arithmetic on a length ("+cmpOnly+"): the table over orderings is not complete for this code")

	preBad, boundBad, bodyBad, postBad := "", "", "", ""
	cells := 0
	for _, ln := range lens {
		for _, lnn := range lens {
			r := newRoles()
			r.lenOf["n"], r.lenOf["nn"] = ln, lnn
			r.loopVar = loopVar
			e := &miniEval{pk: d.Pkg, env: map[string]int64{}}
			if nr := namedResult(d.Decl); nr != "" {
				e.env[nr] = 0
			}
			e.call = r.hook(e)
			st, rets := e.run(r.bindParts(pre))
			cells++
			wantRet, wantLoop := preWant(ln, lnn)
			got, okv := retValue(e, d.Decl, st, rets)
			switch {
			case r.misuse != "":
				preBad = r.misuse
			case e.unknown != "":
				preBad = "undecided: " + e.unknown
			case wantLoop && st != miniFall:
				preBad = core.F("lengths %d and %d: returns before the bytes are compared", ln, lnn)
			case !wantLoop && st == miniFall:
				// decided by the lengths but not returned before the loop: fine when the loop
				// makes no step for these lengths and the code behind it gives the same answer
				e0 := &miniEval{pk: d.Pkg, env: map[string]int64{}, call: e.call}
				for k, v := range e.env {
					e0.env[k] = v
				}
				e0.env[loopVar] = 0
				r.idx = 0
				cv := e0.expr(loop.Cond)
				st0, rets0 := e0.run(post)
				got0, ok0 := retValue(e0, d.Decl, st0, rets0)
				switch {
				case e0.unknown != "":
					preBad = "undecided: " + e0.unknown
				case cv != 0:
					preBad = core.F("lengths %d and %d: the bytes are compared although the lengths decide (%d expected)", ln, lnn, wantRet)
				case !ok0 || got0 != wantRet:
					preBad = core.F("lengths %d and %d: gives %d (returned=%v), expected %d", ln, lnn, got0, ok0, wantRet)
				}
			case !wantLoop && (!okv || got != wantRet):
				preBad = core.F("lengths %d and %d: gives %d (returned=%v), expected %d", ln, lnn, got, okv, wantRet)
			}
			if !wantLoop || st != miniFall || preBad != "" {
				continue
			}
			// the loop condition holds exactly for 0 <= i < bound
			bound := boundWant(ln, lnn)
			base := map[string]int64{}
			for k, v := range e.env {
				base[k] = v
			}
			for i := int64(0); i <= bound; i++ {
				e2 := &miniEval{pk: d.Pkg, env: map[string]int64{}, call: e.call}
				for k, v := range base {
					e2.env[k] = v
				}
				e2.env[loopVar] = i
				r.idx = i
				cv := e2.expr(loop.Cond)
				if e2.unknown != "" {
					boundBad = "undecided: " + e2.unknown
				} else if (cv != 0) != (i < bound) {
					boundBad = core.F("lengths %d and %d: the loop condition is %v at index %d, the parts need %d steps", ln, lnn, cv != 0, i, bound)
				}
			}
			// one iteration at every index, for every pair of bytes
			lo, hi := int64(0), int64(3)
			if digitsOnly {
				lo, hi = '0', '9'
			}
			for i := int64(0); i < bound; i++ {
				for bn := lo; bn <= hi; bn++ {
					for bnn := lo; bnn <= hi; bnn++ {
						e3 := &miniEval{pk: d.Pkg, env: map[string]int64{}}
						for k, v := range base {
							e3.env[k] = v
						}
						e3.env[loopVar] = i
						r.idx, r.byteOf["n"], r.byteOf["nn"], r.misuse = i, bn, bnn, ""
						e3.call = r.hook(e3)
						st3, rets3 := e3.run(loop.Body.List)
						cells++
						want, wantReturn := bodyWant(r)
						got3, ok3 := retValue(e3, d.Decl, st3, rets3)
						switch {
						case r.misuse != "":
							bodyBad = r.misuse
						case e3.unknown != "":
							bodyBad = "undecided: " + e3.unknown
						case len(e3.effects) != 0:
							bodyBad = "the comparison loop has a side effect: " + e3.effects[0]
						case wantReturn && (!ok3 || got3 != want):
							bodyBad = core.F("lengths %d/%d, index %d, bytes %q and %q: gives %d (returned=%v), expected %d", ln, lnn, i, rune(bn), rune(bnn), got3, ok3, want)
						case !wantReturn && st3 != miniFall && st3 != miniContinue:
							bodyBad = core.F("lengths %d/%d, index %d, equal digits %q and %q: the loop stops (status %d, value %d) instead of going on", ln, lnn, i, rune(bn), rune(bnn), st3, got3)
						}
					}
				}
			}
			// after the loop
			e4 := &miniEval{pk: d.Pkg, env: map[string]int64{}, call: e.call}
			for k, v := range base {
				e4.env[k] = v
			}
			e4.env[loopVar] = bound
			st4, rets4 := e4.run(post)
			got4, ok4 := retValue(e4, d.Decl, st4, rets4)
			if e4.unknown != "" {
				postBad = "undecided: " + e4.unknown
			} else if !ok4 || got4 != 0 {
				postBad = core.F("all bytes equal: gives %d (returned=%v), expected 0", got4, ok4)
			}
		}
	}
	c.Extra[R+":"+part+":cells"] = cells
	c.Check(preBad == "", R, fn+":lengths", pos, "before the loop: decided by the lengths exactly when they decide", preBad)
	c.Check(boundBad == "", R, fn+":bound", c.P.Pos(loop.Pos()), "the loop visits every index of the longer/common part", boundBad)
	c.Check(bodyBad == "", R, fn+":digit", c.P.Pos(loop.Body.Pos()), "an iteration answers by the first differing digit (n before nn), equal digits go on", bodyBad)
	c.Check(postBad == "", R, fn+":equal", pos, "equal parts compare as 0", postBad)
}

// c13count: the recogniser counts the digits it reads into the right part, and the exponent moves the point.
func c13count(c *core.Ctx) {
	const R = "C13.count"
	c.Rule(R, "the number recogniser (json/scanner.go) builds the value from three counters: every digit of the integer part adds one to intLen and nothing else, every digit of the fraction adds one to fraLen, the exponent starts (expBegin = index, once) at its first digit or at a minus sign - not at a plus sign -, and only a leading '-' sets negative (each state function tabulated over all 256 bytes); setExp adds the exponent to intLen and subtracts it from fraLen; getNatural (tabulated over the signs of the two counters) writes -intLen zeros before the digits when the point moves left of them, -fraLen zeros behind them (and then sets fraLen to 0) when it moves right of them, and the digits alone otherwise; Scan reads fraLen into Number.exp after getNatural has run")
	c.Floor(R, 12)
	type want struct{ digit, minus, plus string }
	states := map[string]want{
		"stateOnSearchStart":         {digit: "s.intLen += 1", minus: "s.negative = true"},
		"stateMinusFound":            {digit: "s.intLen += 1"},
		"stateFirstZeroFound":        {},
		"stateIntegerNumberFound":    {digit: "s.intLen += 1"},
		"statePointFound":            {digit: "s.fraLen += 1"},
		"stateFractionalNumberFound": {digit: "s.fraLen += 1"},
		"stateExpFound":              {digit: "s.expBegin = s.index", minus: "s.expBegin = s.index"},
		"stateExpSignFound":          {digit: "s.expBegin = s.index"},
		"stateExpNumberFound":        {},
	}
	// "the exponent has begun" may be kept in expBegin alone (0 = not yet) or also in boolean fields of
	// the scanner next to it: every boolean field other than the sign and the finished flag is set
	// together with expBegin
	var flags []string
	if nt := c.P.NamedType("json", "scanner"); nt != nil {
		if st, ok := nt.Underlying().(*types.Struct); ok {
			for i := 0; i < st.NumFields(); i++ {
				f := st.Field(i)
				if b, isB := f.Type().Underlying().(*types.Basic); isB && b.Kind() == types.Bool && f.Name() != "negative" && f.Name() != "finished" {
					flags = append(flags, "s."+f.Name())
				}
			}
		}
	}
	begunEnv := func(env map[string]int64, begun int64) {
		env["s.expBegin"] = begun
		for _, f := range flags {
			env[f] = b2i(begun != 0)
		}
	}
	isFlagSet := func(effect string) bool {
		for _, f := range flags {
			if effect == f+" = true" {
				return true
			}
		}
		return false
	}
	var names []string
	for n := range states {
		names = append(names, n)
	}
	sort.Strings(names)
	for _, n := range names {
		fn := "(*json.scanner)." + n
		d := c.P.FindDecl(fn)
		if d == nil {
			c.Unresolved(R, fn)
			continue
		}
		param := ""
		if len(d.Decl.Type.Params.List) == 1 && len(d.Decl.Type.Params.List[0].Names) == 1 {
			param = d.Decl.Type.Params.List[0].Names[0].Name
		}
		w := states[n]
		bad := ""
		for b := int64(0); b < 256 && bad == ""; b++ {
			for _, begun := range []int64{0, 7} {
				e := &miniEval{pk: d.Pkg, env: map[string]int64{param: b, "s.index": 9}}
				begunEnv(e.env, begun)
				st, rets := e.run(d.Decl.Body.List)
				if e.unknown != "" {
					bad = "undecided: " + e.unknown
					break
				}
				accepted := st == miniReturn && len(rets) == 1 && rets[0] != 0
				// the counting effects (state transitions and the finished flag are C13.grammar's business)
				var eff []string
				for _, x := range e.effects {
					if strings.HasPrefix(x, "s.stateFn") || strings.HasPrefix(x, "s.finished") {
						continue
					}
					if isFlagSet(x) && begun == 0 {
						continue // the flag that goes with expBegin
					}
					eff = append(eff, x)
				}
				exp := ""
				switch {
				case b >= '0' && b <= '9':
					exp = w.digit
				case b == '-':
					exp = w.minus
				case b == '+':
					exp = w.plus
				}
				if exp == "s.expBegin = s.index" && begun != 0 {
					exp = "" // only the first character of the exponent is recorded
				}
				got := strings.Join(eff, "; ")
				if !accepted {
					exp = got // a refused byte: whatever happened is discarded with the scanner
				}
				if got != exp {
					bad = core.F("byte %q (exponent begun: %v): effects [%s], expected [%s]", rune(b), begun != 0, got, exp)
				}
			}
		}
		c.Check(bad == "", R, fn+":count", c.P.Pos(d.Decl.Pos()), n+": counters per byte (256 cells x exponent begun/not)", bad)
	}
	// setExp
	if d := c.P.FindDecl("(*json.scanner).setExp"); d == nil {
		c.Unresolved(R, "(*json.scanner).setExp")
	} else {
		bad := ""
		for _, begin := range []int64{0, 3} {
			for _, exp := range []int64{-5, 0, 7} {
				e := &miniEval{pk: d.Pkg, env: map[string]int64{"nil": 0}}
				begunEnv(e.env, begin)
				e.hook = func(x ast.Expr) (int64, bool) {
					switch y := x.(type) {
					case *ast.Ident:
						if y.Name == "nil" {
							return 0, true
						}
					case *ast.CallExpr:
						if t := core.TypeOf(d.Pkg, y); t != nil && core.IsErrorType(t) {
							return 1, true
						}
					}
					return 0, false
				}
				// `exp, err := value.SubLow(s.expBegin).ParseInt()`: bind by hand
				var stmts []ast.Stmt
				for _, st := range d.Decl.Body.List {
					if as, ok := st.(*ast.AssignStmt); ok && len(as.Lhs) == 2 && len(as.Rhs) == 1 {
						if call, ok := as.Rhs[0].(*ast.CallExpr); ok && strings.HasSuffix(core.FullName(core.Callee(d.Pkg, call)), ".ParseInt") {
							if !strings.Contains(core.ExprStr(call), "SubLow(s.expBegin)") {
								bad = "the exponent is not parsed from value.SubLow(s.expBegin): " + core.ExprStr(call)
							}
							e.env[core.ExprStr(as.Lhs[0])] = exp
							e.env[core.ExprStr(as.Lhs[1])] = 0
							continue
						}
					}
					stmts = append(stmts, st)
				}
				st, rets := e.run(stmts)
				got := strings.Join(e.effects, "; ")
				want := "s.intLen += exp; s.fraLen -= exp"
				if begin == 0 {
					want = ""
				}
				switch {
				case bad != "":
				case e.unknown != "":
					bad = "undecided: " + e.unknown
				case st != miniReturn || len(rets) != 1 || rets[0] != 0:
					bad = core.F("expBegin=%d, exponent %d: does not return nil", begin, exp)
				case got != want:
					bad = core.F("expBegin=%d, exponent %d: effects [%s], expected [%s]", begin, exp, got, want)
				}
			}
		}
		c.Check(bad == "", R, "(*json.scanner).setExp:shift", c.P.Pos(d.Decl.Pos()), "setExp: intLen += exp, fraLen -= exp when there is an exponent, nothing otherwise", bad)
	}
	// getNatural
	if d := c.P.FindDecl("(*json.scanner).getNatural"); d == nil {
		c.Unresolved(R, "(*json.scanner).getNatural")
	} else {
		bad := ""
		for _, il := range []int64{-2, 0, 3, 9} {
			for _, fl := range []int64{-4, 0, 5, 9} {
				if il+fl <= 0 {
					continue // the two counters add up to the number of digits
				}
				var trace []string
				e := &miniEval{pk: d.Pkg, env: map[string]int64{"s.intLen": il, "s.fraLen": fl}}
				e.call = func(call *ast.CallExpr) (int64, bool) {
					switch name := core.FullName(core.Callee(d.Pkg, call)); name {
					case "json.appendZeros":
						trace = append(trace, core.F("zeros(%d)", e.expr(call.Args[1])))
						return 0, true
					case "json.appendDigits":
						trace = append(trace, "digits")
						return 0, true
					case "bytes.MakeBytes":
						return 0, true
					}
					return 0, false
				}
				e.hook = func(x ast.Expr) (int64, bool) {
					if id, ok := x.(*ast.Ident); ok && id.Name == "natural" {
						return 0, true
					}
					return 0, false
				}
				e.run(d.Decl.Body.List)
				want, wantEff := "digits", ""
				switch {
				case il < 0:
					want = core.F("zeros(%d), digits", -il)
				case fl < 0:
					want, wantEff = core.F("digits, zeros(%d)", -fl), "s.fraLen = 0"
				}
				got, gotEff := strings.Join(trace, ", "), strings.Join(e.effects, "; ")
				switch {
				case e.unknown != "":
					bad = "undecided: " + e.unknown
				case got != want || gotEff != wantEff:
					bad = core.F("intLen=%d, fraLen=%d: writes [%s] with effects [%s], expected [%s] with [%s]", il, fl, got, gotEff, want, wantEff)
				}
			}
		}
		c.Check(bad == "", R, "(*json.scanner).getNatural:digits", c.P.Pos(d.Decl.Pos()), "getNatural: zeros before / behind the digits by the signs of the counters", bad)
	}
	// Scan: exp is read after getNatural
	if d := c.P.FindDecl("(*json.scanner).Scan"); d == nil {
		c.Unresolved(R, "(*json.scanner).Scan")
	} else {
		ok, detail := false, "no Number literal with nat and exp found"
		inspectDeep(c, d, 2, func(_ *core.DeclSite, n ast.Node) bool {
			cl, isCL := n.(*ast.CompositeLit)
			if !isCL || core.ExprStr(cl.Type) != "Number" {
				return true
			}
			natAt, expAt, negOK := -1, -1, false
			for i, el := range cl.Elts {
				kv, isKV := el.(*ast.KeyValueExpr)
				if !isKV {
					continue
				}
				switch core.ExprStr(kv.Key) {
				case "nat":
					if strings.Contains(core.ExprStr(kv.Value), c.P.CurrentName("(*json.scanner).getNatural")+"(") {
						natAt = i
					}
				case "exp":
					if core.ExprStr(kv.Value) == "s.fraLen" {
						expAt = i
					}
				case "neg":
					negOK = core.ExprStr(kv.Value) == "s.negative"
				}
			}
			switch {
			case natAt < 0 || expAt < 0 || !negOK:
				detail = "Number{neg: s.negative, nat: s.getNatural(value), exp: s.fraLen} expected"
			case expAt < natAt:
				detail = "exp: s.fraLen is evaluated before getNatural has reset fraLen for numbers whose point moves right of the digits (1.2E+2): the exponent is negative"
			default:
				ok = true
			}
			return true
		})
		c.Check(ok, R, "(*json.scanner).Scan:literal", c.P.Pos(d.Decl.Pos()), "Number{neg, nat: getNatural(...), exp: fraLen} with exp read after getNatural", detail)
	}
}
