package rules

import (
	"go/ast"
	"go/token"
	"go/types"
	"os"
	"sort"
	"strings"

	"jsverif/internal/core"
)

// varIdxTable: variable-index accesses that are neither loop-bounded nor guarded, with the reason
// the index is in range. key = function:expression
var varIdxTable = map[string]string{
	// --- accessor primitives: the obligation is carried by their call sites, which this rule lists one by one
	"(bytes.Bytes).Byte:b.data[Int(i)]": "primitive accessor; every Byte(e) call site with a non-constant e is its own obligation in this rule",
	"(bytes.Bytes).Sub:b.data[l:h]":     "primitive accessor; every Sub(a, b) call site is its own obligation",
	"(bytes.Bytes).SubHigh:b.data[:i]":  "primitive accessor; every SubHigh(e) call site is its own obligation",
	"(bytes.Bytes).SubLow:b.data[i:]":   "primitive accessor; every SubLow(e) call site is its own obligation",
	// --- bytes helpers
	"(bytes.Bytes).TrimSpaces:b.data[right]":                 "right starts at Len()-1 and only decreases while right > 0; reached only when left < Len() (some non-blank byte exists), so Len() >= 1",
	"(bytes.Bytes).TrimSpaces:b.data[left:right + 1]":        "left < Len() (checked just above) and left <= right because data[left] is non-blank and the right scan stops at a non-blank byte or at 0",
	"(bytes.Bytes).TrimSquareBrackets:b.data[lastCharIndex]": "lastCharIndex = len-1 under lastCharIndex > 0 in the same && chain",
	"bytes.unquoteBytes:s[0:r]":                              "copy of encoding/json.unquoteBytes: r is the scan position of the preceding loop, r <= len(s)",
	"bytes.unquoteBytes:b[0:w]":                              "copy of encoding/json.unquoteBytes: w <= len(b) by construction (b has len(s)+2*utf8.UTFMax bytes, every step writes at most UTFMax bytes per input byte)",
	"bytes.unquoteBytes:b[w:]":                               "see b[0:w]",
	"bytes.unquoteBytes:b[w]":                                "see b[0:w]",
	// --- decimal numbers: invariant 0 <= exp <= len(nat), established by trimTrailingZerosInTheFractionalPart's own check and kept by its loop (one byte and one exp per step)
	"(*json.Number).trimTrailingZerosInTheFractionalPart:n.nat.Byte(i)":                 "i = Len()-1 inside a loop that runs only while exp != 0, and exp <= Len() was checked at the top and both shrink together, so Len() >= 1",
	"(*json.Number).trimTrailingZerosInTheFractionalPart:n.nat.SubHigh(bytes.Index(i))": "same i = Len()-1 >= 0",
	"(json.Number).int:n.nat.SubHigh(bytes.Index(n.nat.Len() - n.exp))":                 "0 <= exp <= Len() for every Number built by NewNumber (and the zero Number): both trims check/keep it; C13.norm shows every Number passes through them",
	"(json.Number).fra:n.nat.SubLow(bytes.Index(n.nat.Len() - n.exp))":                  "see int()",
	"(json.Number).cmpInt:y.Byte(i)":                                                    "loop runs for i < xLen and is reached only when xLen == yLen (the unequal-length case returned above)",
	"(*json.scanner).setExp:value.SubLow(s.expBegin)":                                   "expBegin is the index of the byte after `e`/`E` recorded by the state machine while scanning this very value, so expBegin <= len(value)",
	// --- diagnostics rendering
	"(kit.JSchemaError).lineBeginning:content.Byte(i)":                     "guarded at entry by LenIndex() <= i => return; afterwards i only decreases and the loop leaves at i == 0 before decrementing",
	"(kit.JSchemaError).lineEnd:content.Byte(i)":                           "loop condition i < e.length with e.length = content length (preparation)",
	"(kit.JSchemaError).lineEnd:content.Byte(i - 1)":                       "under i > 0, and i <= length after the loop",
	"(*kit.JSchemaError).SourceSubString:content.Sub(begin, end)":          "begin = lineBeginning() <= index <= lineEnd()+1 and end <= length; for an index outside the text both are 0",
	"(*kit.JSchemaError).pointerToTheErrorCharacter:content.SubLow(begin)": "begin = lineBeginning() <= length",
	// --- scanners
	"(*internal/ds.Stack[T]).Peek:s.vals[l - 1]":                                                 "l = Len() and l == 0 panics (with an error value) just above",
	"(*internal/ds.Stack[T]).Get:s.vals[i]":                                                      "i < 0 || i > Len()-1 panics (with an error value) just above",
	"(*internal/ds.Stack[T]).Pop:s.vals[:s.Len() - 1]":                                           "Peek() on the line above panics when the stack is empty",
	"(*formats/json.scanner).Length:s.data.Byte(length - 1)":                                     "under length != 0; length <= dataSize because formats/json closes at most one lexeme at end of input (a literal, scalar pair: End = index-2 = dataSize-1) and EndTop lies on a real byte",
	"(*notations/jschema/scanner.Scanner).Length:s.data.Byte(length - 1)":                        "under length > 0; length <= dataSize: the schema scanner closes at most two lexemes at end of input in a successful run (inline annotation text, then the inline annotation: scalar pair, End = index-2 = dataSize), which the `== dataSize` correction handles; any further open lexeme makes Next() raise ErrUnexpectedEOF instead",
	"(*formats/json.scanner).newJSchemaErrorAtCharacter:s.data.SubLow(s.index - 1)":              "called from state functions only, which run after index++ under index < dataSize (loop shape checked by C16.positioned)",
	"(*notations/jschema/scanner.Scanner).newJSchemaErrorAtCharacter:s.data.SubLow(s.index - 1)": "see formats/json",
	"(*rules/enum.scanner).newJSchemaErrorAtCharacter:s.data.SubLow(s.index - 1)":                "see formats/json",
	"(*notations/jschema/scanner.Scanner).processingFoundLexemeClosingTag:s.data.Byte(i - 1)":    "only for MixedValueEnd, whose opener MixedValueBegin was pushed at an earlier byte, so i = index-1 >= 1; at end of input i-1 <= dataSize-1 because the shortcut is the first lexeme closed there",
	"(*rules/enum.scanner).processingFoundLexemeClosingTag:s.data.Byte(i - 1)":                   "see the schema scanner",
	"(*rules/enum.scanner).validateValue:s.file.Content().Sub(begin, s.index - 1)":               "begin is the Begin() of the literal on top of the stack (an earlier index), index-1 <= dataSize; called from literal-ending state functions",
	"(*notations/regex.RSchema).doCompile:content.Byte(idx)":                                     "idx = content.Len()-1 after the empty-content guard at the top of doCompile",
	"(*notations/regex.RSchema).doCompile:content.Sub(1, i + 1)":                                 "i is the range index of the closing delimiter found in content[1:], so i+1 <= Len()-1",
	"(lexeme.LexEvent).Value:lex.file.Content().Sub(lex.begin, lex.end + 1)":                     "lexeme positions are produced by the scanners from index-1 / index-2 of bytes they read; Value() is taken from closing lexemes of literals, keys, shortcuts and annotation texts, whose end lies inside the content (lexeme spans themselves are not decided statically; C12 names this limit)",
	// --- model containers
	"(*notations/jschema/ischema.ObjectNode).Child:n.children[i.Index]":                "i comes from n.keys.Get(); keys and children are appended together in AddChild (same length, Index = position at insertion)",
	"(*notations/jschema/ischema.ObjectNode).collectASTProperties:n.children[v.Index]": "v ranges over n.keys.Data, appended together with children in AddChild",
	"(notations/jschema/ischema.ObjectNodeKeys).Get:k.Data[i]":                         "i is a value of k.index, which Set fills with len(Data) at the moment of appending",
	"(notations/jschema/ischema.ArrayNode).Child:n.children[i]":                        "exported accessor by position; its callers inside the module pass indexes below Len() (validator walks children by position)",
	"(*notations/jschema/ischema/constraint.Enum).SetComment:c.items[idx]":             "panics by contract on a wrong index (pinned by TestEnum_SetComment/negative); every call site is checked by this rule to sit under `idx < Len()` (fix c4a57a8)",
	"(*notations/jschema/checker.recursionChecker).leave:c.path[:len(c.path) - 1]":     "under len(c.path) > 0 in the enclosing if",
	"(openapi.ObjectInfo).PropertiesInfos:result[i]":                                   "result := make(.., len(props)) and i ranges over props",
	// --- copied UUID parser (google/uuid)
	"notations/jschema/ischema/constraint.parseBytes:b[x]":     "x ranges over the constant offsets {0,2,4,6,9,11,14,16,19,21,24,26,28,30,32,34} and len(b) == 36 on this path",
	"notations/jschema/ischema/constraint.parseBytes:b[x + 1]": "see b[x]",
	"notations/jschema/ischema/constraint.parseBytes:b[i]":     "copied from google/uuid.ParseBytes: i ranges over a constant offset table below 36",
	"notations/jschema/ischema/constraint.parseBytes:b[i + 1]": "see b[i]",
	"notations/jschema/ischema/constraint.xtob:xvalues[x1]":    "xvalues is a [256]byte table indexed by a byte",
	"notations/jschema/ischema/constraint.xtob:xvalues[x2]":    "xvalues is a [256]byte table indexed by a byte",
}

type varIdxSite struct {
	fn, text, pos, key string
	status, why        string
}

// c02varidx: every element access with a NON-constant index.
func c02varidx(c *core.Ctx) { c02varidxAs(c, "C02.varidx") }

func c02varidxAs(c *core.Ctx, R string) {
	c.Rule(R, "every index / slice expression on a slice, array or string and every Bytes.Byte/Sub/SubLow/SubHigh call whose index is not a constant is (a) indexed by the key of a `range` over the same container or by a counter of a `for` loop whose condition bounds it by the container's length / size field, (b) dominated by a guard that bounds the index by the container's length (idx < len, idx+k <= len, len > idx), (c) one of the lookahead / last-element forms decided by C02.elem, or (d) tabled with the invariant. Anything else is an index the analysis cannot bound: a runtime error instead of a diagnostic (the enum rule `[]/*{` made Len() panic this way)")
	var sites []varIdxSite
	reach := c.P.Reach(entryPoints(c), nil)
	reachable := func(pk *packagesPackage, fd *ast.FuncDecl) bool {
		obj, _ := pk.TypesInfo.Defs[fd.Name].(*types.Func)
		if obj == nil {
			return true
		}
		sf := c.P.SSA.FuncValue(obj)
		if sf == nil {
			return true
		}
		if reach[sf] {
			return true
		}
		// generic functions: any instantiation reachable
		for f := range reach {
			if f.Origin() == sf {
				return true
			}
		}
		return false
	}
	elemKeys := map[string]bool{}
	for _, s := range elemSites(c) {
		elemKeys[c.P.Pos(s.node.Pos())+"|"+s.text] = true
	}
	c.P.ForEachNode(func(pk *packagesPackage, file *ast.File, stack []ast.Node, n ast.Node) bool {
		fd := enclosingDecl(stack)
		if fd == nil {
			return true
		}
		type acc struct {
			cont  ast.Expr
			idx   []ast.Expr
			slice bool
		}
		var a *acc
		switch x := n.(type) {
		case *ast.IndexExpr:
			t := core.TypeOf(pk, x.X)
			if t == nil {
				return true
			}
			u := deref(t).Underlying()
			if _, isArr := u.(*types.Array); !isArr && !isSliceOrString(deref(t)) {
				return true
			}
			if _, ok := constInt(pk, x.Index); ok {
				return true
			}
			// a generic instantiation / type expression, not an access
			if tv, ok := pk.TypesInfo.Types[x.X]; ok && (tv.IsType() || !tv.IsValue()) {
				return true
			}
			a = &acc{cont: x.X, idx: []ast.Expr{x.Index}}
		case *ast.SliceExpr:
			t := core.TypeOf(pk, x.X)
			if t == nil || !isSliceOrString(deref(t)) {
				if _, isArr := deref(t).Underlying().(*types.Array); !isArr {
					return true
				}
			}
			var idx []ast.Expr
			for _, b := range []ast.Expr{x.Low, x.High, x.Max} {
				if b == nil {
					continue
				}
				if _, ok := constInt(pk, b); !ok {
					idx = append(idx, b)
				}
			}
			if len(idx) == 0 {
				return true
			}
			a = &acc{cont: x.X, idx: idx, slice: true}
		case *ast.CallExpr:
			se, ok := x.Fun.(*ast.SelectorExpr)
			if !ok {
				return true
			}
			obj, _ := core.Callee(pk, x).(*types.Func)
			if obj == nil {
				return true
			}
			switch core.FullName(obj) {
			case "(bytes.Bytes).Byte", "(bytes.Bytes).Sub", "(bytes.Bytes).SubLow", "(bytes.Bytes).SubHigh", "(bytes.Bytes).SubToEndOfLine":
				var idx []ast.Expr
				for _, b := range x.Args {
					if _, ok := constInt(pk, b); !ok {
						idx = append(idx, b)
					}
				}
				if len(idx) == 0 {
					return true
				}
				a = &acc{cont: se.X, idx: idx, slice: core.FullName(obj) != "(bytes.Bytes).Byte"}
			}
		}
		if a == nil {
			return true
		}
		text := core.ExprStr(n.(ast.Expr))
		pos := c.P.Pos(n.Pos())
		fn := core.DeclName(pk, fd)
		site := varIdxSite{fn: fn, text: text, pos: pos, key: fn + ":" + text}
		if elemKeys[pos+"|"+text] {
			site.status, site.why = "elem", "decided by C02.elem"
			sites = append(sites, site)
			return true
		}
		if fname := c.P.Fset.Position(n.Pos()).Filename; strings.HasSuffix(fname, "_string.go") {
			site.status, site.why = "generated", "stringer-generated String(): guarded by the generated range test; the index table is decoded and checked by C02.ptype"
			sites = append(sites, site)
			return true
		}
		if t := core.TypeOf(pk, a.cont); t != nil {
			if arr, ok := deref(t).Underlying().(*types.Array); ok && arr.Len() == 256 && len(a.idx) == 1 {
				if it := core.TypeOf(pk, a.idx[0]); it != nil {
					if b, ok := it.Underlying().(*types.Basic); ok && (b.Kind() == types.Uint8) {
						site.status, site.why = "bounded", "[256] table indexed by a byte"
						sites = append(sites, site)
						return true
					}
				}
			}
		}
		env := core.NewLenEnv(pk, fd, sizeFields)
		contKey := env.ContainerKey(a.cont)
		allOK := true
		var whys []string
		for _, ix := range a.idx {
			ok, why := idxBounded(c, pk, env, stack, a.cont, contKey, ix, a.slice)
			if !ok {
				allOK = false
			}
			whys = append(whys, why)
		}
		if !allOK && len(a.idx) == 1 {
			if ok, why := clampedCounter(pk, fd, stack, a.idx[0]); ok {
				allOK, whys = true, []string{why}
			}
		}
		if allOK {
			site.status, site.why = "bounded", strings.Join(whys, "; ")
		} else if !reachable(pk, fd) {
			site.status, site.why = "unreachable", "exported helper that no public operation of the API packages reaches (call graph from the C02 entry points)"
		} else if r, ok := tableGetMoved(c, varIdxTable, site.key); ok && r != "" {
			site.status, site.why = "table", r
		} else {
			site.status, site.why = "open", strings.Join(whys, "; ")
		}
		sites = append(sites, site)
		return true
	})
	// callee contracts: accessors that panic on a wrong index by contract (pinned by their unit
	// tests) - every call site inside the module must sit under the guard `idx < recv.Len()`.
	for _, cs := range c.P.Calls() {
		if core.FullName(core.Callee(cs.Pkg, cs.Call)) != "(*notations/jschema/ischema/constraint.Enum).SetComment" || len(cs.Call.Args) != 2 {
			continue
		}
		se, _ := cs.Call.Fun.(*ast.SelectorExpr)
		if se == nil {
			continue
		}
		fn := core.DeclName(cs.Pkg, cs.Decl)
		idx, recv := core.ExprStr(cs.Call.Args[0]), core.ExprStr(se.X)
		guarded := false
		for _, f := range core.FactsAt(cs.Pkg, cs.Stack) {
			be, ok := f.Cond.(*ast.BinaryExpr)
			if !ok {
				continue
			}
			l, r := core.ExprStr(be.X), core.ExprStr(be.Y)
			if (be.Op == token.LSS && f.Truth && l == idx && r == recv+".Len()") || (be.Op == token.GEQ && !f.Truth && l == idx && r == recv+".Len()") {
				guarded = true
			}
		}
		site := varIdxSite{fn: fn, text: core.ExprStr(cs.Call), pos: c.P.Pos(cs.Call.Pos()), key: fn + ":" + core.ExprStr(cs.Call)}
		if guarded {
			site.status, site.why = "bounded", "call under the guard "+idx+" < "+recv+".Len()"
		} else {
			site.status, site.why = "open", "SetComment panics on an index without a value (by contract); this call is not under `"+idx+" < "+recv+".Len()`"
		}
		sites = append(sites, site)
	}
	sort.Slice(sites, func(i, j int) bool { return sites[i].key < sites[j].key })
	n := map[string]int{}
	for _, s := range sites {
		n[s.key]++
		key := s.key
		if n[s.key] > 1 {
			key = core.F("%s#%d", s.key, n[s.key])
		}
		what := "variable-index access " + s.text + " in " + s.fn
		switch s.status {
		case "elem", "bounded", "generated":
			c.OKd(R, key, s.pos, what, s.why)
		case "table":
			c.Tabled(R, key, s.pos, what, s.why)
		case "unreachable":
			c.Note(R, key, s.pos, what, s.why)
		default:
			c.Bad(R, key, s.pos, what, "the index is not bounded by a loop over the container, a dominating guard or a tabled invariant ("+s.why+")")
		}
	}
}

// idxBounded: is index expression ix provably inside container cont at this point?
func idxBounded(c *core.Ctx, pk *packagesPackage, env *core.LenEnv, stack []ast.Node, cont ast.Expr, contKey string, ix ast.Expr, sliceBound bool) (bool, string) {
	ix = ast.Unparen(ix)
	// conversions are transparent
	for {
		call, ok := ix.(*ast.CallExpr)
		if !ok || len(call.Args) != 1 {
			break
		}
		if tv, isT := pk.TypesInfo.Types[call.Fun]; isT && tv.IsType() {
			ix = ast.Unparen(call.Args[0])
			continue
		}
		break
	}
	// len(cont) / cont.Len() as a slice bound
	if k := env.LenKey(ix); k != "" && k == contKey && sliceBound {
		return true, "bound is the container's own length"
	}
	// len(cont) - k : needs len >= k (and, as an index, k >= 1)
	if k, off := env.LenKeyOff(ix); k != "" && k == contKey && off < 0 {
		lb, why := env.LowerBound(contKey, core.FactsAt(pk, stack), helperSummary(c, env))
		if lb >= -off {
			return true, "len - " + core.F("%d", -off) + " with guard " + why
		}
	}
	base, _, off, okSplit := splitOffsetE(pk, ix)
	if !okSplit {
		base, off = ix, 0
	}
	id, isID := ast.Unparen(base).(*ast.Ident)
	// (a) loop variable
	if isID {
		obj := pk.TypesInfo.ObjectOf(id)
		for i := len(stack) - 1; i >= 0; i-- {
			switch l := stack[i].(type) {
			case *ast.RangeStmt:
				if k, ok := l.Key.(*ast.Ident); ok && pk.TypesInfo.ObjectOf(k) == obj && off <= 0 {
					if env.ContainerKey(l.X) == contKey || core.ExprStr(l.X) == core.ExprStr(cont) {
						if !assignedIn(pk, l.Body, obj) {
							return true, "range key of the same container"
						}
					}
					// the container was made with the length of the ranged collection
					if off == 0 && !assignedIn(pk, l.Body, obj) && madeWithLenOf(pk, stack, cont, l.X, l.Pos(), l.End()) {
						return true, "range key of " + core.ExprStr(l.X) + "; the container is make(..., len(" + core.ExprStr(l.X) + ")) and not reassigned"
					}
				}
			case *ast.ForStmt:
				// for i := len(cont) - 1; i >= 0; i--
				if off == 0 && l.Init != nil && l.Cond != nil && l.Post != nil && !assignedIn(pk, l.Body, obj) {
					if as, ok := l.Init.(*ast.AssignStmt); ok && len(as.Lhs) == 1 && len(as.Rhs) == 1 {
						if ii, ok := as.Lhs[0].(*ast.Ident); ok && pk.TypesInfo.ObjectOf(ii) == obj {
							if k, o := env.LenKeyOff(as.Rhs[0]); k != "" && k == contKey && o == -1 {
								cond, isB := ast.Unparen(l.Cond).(*ast.BinaryExpr)
								post, isP := l.Post.(*ast.IncDecStmt)
								if isB && isP && post.Tok == token.DEC && core.ExprStr(post.X) == id.Name &&
									((cond.Op == token.GEQ && core.ExprStr(cond.X) == id.Name && core.ExprStr(cond.Y) == "0") || (cond.Op == token.GTR && core.ExprStr(cond.X) == id.Name && core.ExprStr(cond.Y) == "-1")) {
									return true, "countdown from len - 1 to 0 over the same container"
								}
							}
						}
					}
				}
				if be, ok := l.Cond.(*ast.BinaryExpr); ok && (be.Op == token.LSS || be.Op == token.LEQ) {
					if ci, ok := ast.Unparen(be.X).(*ast.Ident); ok && pk.TypesInfo.ObjectOf(ci) == obj {
						if k := env.LenKey(be.Y); k != "" && k == contKey && be.Op == token.LSS && off <= 0 {
							return true, "for-loop counter bounded by the container's length"
						}
						// i < Y where Y itself is a valid index of the container at the loop
						if be.Op == token.LSS && off <= 0 && !assignedIn(pk, l.Body, obj) {
							if _, isLit := ast.Unparen(be.Y).(*ast.BasicLit); !isLit {
								if ok2, why2 := idxBounded(c, pk, env, stack[:i+1], cont, contKey, be.Y, false); ok2 {
									return true, "for-loop counter below " + core.ExprStr(be.Y) + ", which is a valid index (" + why2 + ")"
								}
							}
						}
					}
				}
			}
		}
	}
	// (a') fill counter: `kept := 0; for ... range S { ... cont[kept] = v; kept++ ... }` with cont made
	// with len(S): the counter is incremented at most once per iteration, so it stays below len(S)
	if isID && off == 0 {
		if ok, why := fillCounter(pk, stack, cont, id, sliceBound); ok {
			return true, why
		}
	}
	// (b) dominating guard: base+j < len(cont) with j >= off, or len(cont) > base+j
	for _, f := range core.FactsAt(pk, stack) {
		be, ok := f.Cond.(*ast.BinaryExpr)
		if !ok {
			continue
		}
		op, l, r := be.Op, be.X, be.Y
		if env.LenKey(l) == contKey && env.LenKey(r) != contKey {
			l, r = r, l
			switch op {
			case token.GTR:
				op = token.LSS
			case token.LEQ:
				op = token.GEQ
			case token.LSS:
				op = token.GTR
			case token.GEQ:
				op = token.LEQ
			}
		}
		if env.LenKey(r) != contKey {
			continue
		}
		lb, _, loff, ok2 := splitOffsetE(pk, l)
		if !ok2 {
			lb, loff = l, 0
		}
		if core.ExprStr(stripConv(pk, lb)) != core.ExprStr(stripConv(pk, base)) {
			continue
		}
		slack := int64(0)
		if sliceBound {
			slack = 1 // a slice bound may equal the length
		}
		if (op == token.LSS && f.Truth && loff >= off-slack) || (op == token.GEQ && !f.Truth && loff >= off-slack) ||
			(op == token.LEQ && f.Truth && loff >= off+1-slack) || (op == token.GTR && !f.Truth && loff >= off+1-slack) {
			return true, "guard " + condStr(f)
		}
	}
	return false, "index " + core.ExprStr(ix) + " unbounded"
}

func assignedIn(pk *packagesPackage, body ast.Node, obj types.Object) bool {
	found := false
	ast.Inspect(body, func(n ast.Node) bool {
		switch x := n.(type) {
		case *ast.AssignStmt:
			for _, l := range x.Lhs {
				if id, ok := l.(*ast.Ident); ok && pk.TypesInfo.ObjectOf(id) == obj {
					found = true
				}
			}
		case *ast.IncDecStmt:
			if id, ok := x.X.(*ast.Ident); ok && pk.TypesInfo.ObjectOf(id) == obj {
				found = true
			}
		}
		return true
	})
	return found
}

// clampedCounter: the index is `V - 1` for a local unsigned counter V such that, in this function,
// (1) the access sits in a loop / if that guarantees V > 0 (`for ; V > 0; ...`, `if V == 0 { break }`),
// (2) V is otherwise only decremented, and (3) every assignment `V = e` is either immediately followed by
// the saturating clamp `if V > S { V = S }` with S the size field of the indexed container, or assigns
// `End() - k` (k >= 0) of the EndTop lexeme, which lies on a byte that was read.
func clampedCounter(pk *packagesPackage, fd *ast.FuncDecl, stack []ast.Node, ix ast.Expr) (bool, string) {
	be, ok := ast.Unparen(ix).(*ast.BinaryExpr)
	if !ok || be.Op != token.SUB || core.ExprStr(be.Y) != "1" {
		return false, ""
	}
	id, ok := ast.Unparen(be.X).(*ast.Ident)
	if !ok {
		return false, ""
	}
	obj := pk.TypesInfo.ObjectOf(id)
	// (1) positivity
	pos := false
	for i := len(stack) - 1; i >= 0; i-- {
		if fs, ok := stack[i].(*ast.ForStmt); ok {
			if fs.Cond != nil && core.ExprStr(fs.Cond) == id.Name+" > 0" {
				pos = true
			}
			for _, st := range fs.Body.List {
				if ifs, ok := st.(*ast.IfStmt); ok && core.ExprStr(ifs.Cond) == id.Name+" == 0" && len(ifs.Body.List) == 1 {
					if b, ok := ifs.Body.List[0].(*ast.BranchStmt); ok && b.Tok == token.BREAK && ifs.End() < ix.Pos() {
						pos = true
					}
				}
			}
		}
	}
	if !pos {
		if os.Getenv("JSV_DEBUG") != "" {
			println("clampedCounter: no positivity", core.ExprStr(ix))
		}
		return false, ""
	}
	// a parameter comes with whatever the callers computed: no clamp of this function covers it
	if fd.Type.Params != nil {
		for _, fl := range fd.Type.Params.List {
			for _, nm := range fl.Names {
				if pk.TypesInfo.ObjectOf(nm) == obj {
					return false, ""
				}
			}
		}
	}
	// (2)+(3)
	okAll := true
	var visitBlock func(list []ast.Stmt)
	check := func(list []ast.Stmt, i int, as *ast.AssignStmt) {
		rhs := core.ExprStr(as.Rhs[0])
		if rhs == "uint(s.dataSize)" || rhs == "s.dataSize" {
			return // the size itself
		}
		// EndTop position minus k
		if a, k, ok := linEnd(pk, as.Rhs[0]); ok && a == 1 && k <= 0 {
			// only accepted inside the EndTop branch
			return
		}
		// followed by the clamp
		if i+1 < len(list) {
			if ifs, ok := list[i+1].(*ast.IfStmt); ok && ifs.Else == nil && len(ifs.Body.List) >= 1 {
				cond := core.ExprStr(ifs.Cond)
				if strings.HasPrefix(cond, id.Name+" > ") {
					bound := strings.TrimPrefix(cond, id.Name+" > ")
					for _, st := range ifs.Body.List {
						if as2, ok := st.(*ast.AssignStmt); ok && len(as2.Lhs) == 1 && core.ExprStr(as2.Lhs[0]) == id.Name && core.ExprStr(as2.Rhs[0]) == bound && strings.Contains(bound, "dataSize") {
							return
						}
					}
				}
			}
		}
		if os.Getenv("JSV_DEBUG") != "" {
			println("clampedCounter: unclamped assignment", rhs)
		}
		okAll = false
	}
	visitBlock = func(list []ast.Stmt) {
		for i, st := range list {
			if as, ok := st.(*ast.AssignStmt); ok && len(as.Lhs) == 1 && len(as.Rhs) == 1 && as.Tok == token.ASSIGN {
				if l, ok := as.Lhs[0].(*ast.Ident); ok && pk.TypesInfo.ObjectOf(l) == obj {
					check(list, i, as)
				}
			}
			ast.Inspect(st, func(n ast.Node) bool {
				if n == st {
					return true
				}
				if b, ok := n.(*ast.BlockStmt); ok {
					visitBlock(b.List)
					return false
				}
				return true
			})
		}
	}
	visitBlock(fd.Body.List)
	if !okAll {
		return false, ""
	}
	return true, "counter " + id.Name + " > 0 here, only decremented, and every assignment is clamped to the size field (or is the EndTop position)"
}

// enclosingFuncBody: the body of the innermost function declaration or literal on the stack.
func enclosingFuncBody(stack []ast.Node) *ast.BlockStmt {
	for i := len(stack) - 1; i >= 0; i-- {
		switch f := stack[i].(type) {
		case *ast.FuncLit:
			return f.Body
		case *ast.FuncDecl:
			return f.Body
		}
	}
	return nil
}

// madeWithLenOf: in the enclosing function, cont is assigned exactly once, before `before`, by
// `make(T, len(S))` (any capacity), and is otherwise only written element-wise.
func madeWithLenOf(pk *packagesPackage, stack []ast.Node, cont, S ast.Expr, before, until token.Pos) bool {
	body := enclosingFuncBody(stack)
	if body == nil {
		return false
	}
	cs, ss := core.ExprStr(ast.Unparen(cont)), core.ExprStr(ast.Unparen(S))
	// locals that hold len(S): `l := len(S)`, assigned once
	lenAlias := map[string]bool{"len(" + ss + ")": true, ss + ".Len()": true}
	assigns := map[string]int{}
	ast.Inspect(body, func(n ast.Node) bool {
		if as, ok := n.(*ast.AssignStmt); ok {
			for _, lhs := range as.Lhs {
				if id, ok := lhs.(*ast.Ident); ok {
					assigns[id.Name]++
				}
			}
		}
		return true
	})
	ast.Inspect(body, func(n ast.Node) bool {
		if as, ok := n.(*ast.AssignStmt); ok && as.Tok == token.DEFINE && len(as.Lhs) == 1 && len(as.Rhs) == 1 {
			if id, ok := as.Lhs[0].(*ast.Ident); ok && assigns[id.Name] == 1 && lenAlias[core.ExprStr(ast.Unparen(as.Rhs[0]))] {
				lenAlias[id.Name] = true
			}
		}
		return true
	})
	made, other := false, false
	// the make may sit under `if len(S) > 0` / `!= 0` (an empty S makes no iteration), nothing else
	// a make that stands in a block which also encloses the use is unconditional for that use
	onStack := func(list []ast.Stmt) bool {
		for _, a := range stack {
			if blk, ok := a.(*ast.BlockStmt); ok && len(blk.List) > 0 && len(list) > 0 && blk.List[0] == list[0] {
				return true
			}
		}
		return false
	}
	var visit func(list []ast.Stmt, conditional bool)
	visit = func(list []ast.Stmt, conditional bool) {
		if conditional && onStack(list) {
			conditional = false
		}
		for _, st := range list {
			switch x := st.(type) {
			case *ast.AssignStmt:
				for i, lhs := range x.Lhs {
					if core.ExprStr(ast.Unparen(lhs)) != cs {
						continue
					}
					if len(x.Rhs) != len(x.Lhs) {
						other = true
						continue
					}
					call, isCall := ast.Unparen(x.Rhs[i]).(*ast.CallExpr)
					if isCall && core.ExprStr(call.Fun) == "make" && len(call.Args) >= 2 && x.Pos() < before && !made && !conditional && lenAlias[core.ExprStr(ast.Unparen(call.Args[1]))] {
						made = true
						continue
					}
					other = true
				}
			case *ast.IfStmt:
				posLen := false
				if be, ok := ast.Unparen(x.Cond).(*ast.BinaryExpr); ok && x.Init == nil && x.Else == nil {
					l, r := core.ExprStr(ast.Unparen(be.X)), core.ExprStr(ast.Unparen(be.Y))
					if lenAlias[l] && ((be.Op == token.GTR && r == "0") || (be.Op == token.NEQ && r == "0") || (be.Op == token.GEQ && r == "1")) {
						posLen = true
					}
				}
				visit(x.Body.List, conditional || !posLen)
				if x.Else != nil {
					switch e := x.Else.(type) {
					case *ast.BlockStmt:
						visit(e.List, true)
					case *ast.IfStmt:
						visit([]ast.Stmt{e}, true)
					}
				}
			case *ast.BlockStmt:
				visit(x.List, conditional)
			case *ast.ForStmt:
				visit(x.Body.List, true)
			case *ast.RangeStmt:
				visit(x.Body.List, true)
			case *ast.SwitchStmt:
				for _, cl := range x.Body.List {
					visit(cl.(*ast.CaseClause).Body, true)
				}
			case *ast.TypeSwitchStmt:
				for _, cl := range x.Body.List {
					visit(cl.(*ast.CaseClause).Body, true)
				}
			}
		}
	}
	visit(body.List, false)
	// S must not change between the make and the loop: it is only read in this function
	if made && !other {
		changed := false
		ast.Inspect(body, func(n ast.Node) bool {
			if as, ok := n.(*ast.AssignStmt); ok {
				for _, lhs := range as.Lhs {
					if core.ExprStr(ast.Unparen(lhs)) == ss && as.Pos() < until {
						changed = true
					}
				}
			}
			return true
		})
		return !changed
	}
	return false
}

// fillCounter: see (a') in idxBounded.
func fillCounter(pk *packagesPackage, stack []ast.Node, cont ast.Expr, id *ast.Ident, sliceBound bool) (bool, string) {
	body := enclosingFuncBody(stack)
	obj := pk.TypesInfo.ObjectOf(id)
	if body == nil || obj == nil {
		return false, ""
	}
	// every write of the counter: one `:= 0` / `= 0` / `var k int` and increments by one
	var incs []ast.Node
	bad := false
	ast.Inspect(body, func(n ast.Node) bool {
		switch x := n.(type) {
		case *ast.AssignStmt:
			for i, lhs := range x.Lhs {
				if li, ok := lhs.(*ast.Ident); ok && pk.TypesInfo.ObjectOf(li) == obj {
					switch {
					case (x.Tok == token.DEFINE || x.Tok == token.ASSIGN) && len(x.Rhs) == len(x.Lhs) && core.ExprStr(x.Rhs[i]) == "0":
					case x.Tok == token.ADD_ASSIGN && core.ExprStr(x.Rhs[0]) == "1":
						incs = append(incs, x)
					default:
						bad = true
					}
				}
			}
		case *ast.IncDecStmt:
			if li, ok := x.X.(*ast.Ident); ok && pk.TypesInfo.ObjectOf(li) == obj {
				if x.Tok == token.INC {
					incs = append(incs, x)
				} else {
					bad = true
				}
			}
		case *ast.UnaryExpr:
			if x.Op == token.AND {
				if li, ok := ast.Unparen(x.X).(*ast.Ident); ok && pk.TypesInfo.ObjectOf(li) == obj {
					bad = true
				}
			}
		}
		return true
	})
	if bad || len(incs) != 1 {
		return false, ""
	}
	// the increment sits directly in (an if/else of) exactly one range loop over S, not in a nested loop
	var loop *ast.RangeStmt
	nested := false
	var walk func(n ast.Node, cur *ast.RangeStmt, depth int)
	walk = func(n ast.Node, cur *ast.RangeStmt, depth int) {
		ast.Inspect(n, func(m ast.Node) bool {
			if m == nil || m == n {
				return true
			}
			switch y := m.(type) {
			case *ast.RangeStmt:
				walk(y.Body, y, depth+1)
				return false
			case *ast.ForStmt:
				walk(y.Body, nil, depth+1)
				return false
			case *ast.FuncLit:
				walk(y.Body, nil, depth+1)
				return false
			}
			if m == incs[0] {
				if cur != nil && depth == 1 {
					loop = cur
				} else {
					nested = true
				}
			}
			return true
		})
	}
	walk(body, nil, 0)
	if loop == nil || nested {
		return false, ""
	}
	if !madeWithLenOf(pk, stack, cont, loop.X, loop.Pos(), loop.End()) {
		return false, ""
	}
	// the use: inside the loop (an index below the number of completed iterations) or, as a slice
	// bound, anywhere after the make
	inLoop := false
	for _, a := range stack {
		if a == ast.Node(loop) {
			inLoop = true
		}
	}
	if inLoop || sliceBound {
		return true, "fill counter " + id.Name + ": incremented once per iteration of the range over " + core.ExprStr(loop.X) + ", the container is make(..., len(" + core.ExprStr(loop.X) + "))"
	}
	return false, ""
}

// stripConv removes type conversions around an expression (`int(t)` -> `t`).
func stripConv(pk *packagesPackage, e ast.Expr) ast.Expr {
	for {
		e = ast.Unparen(e)
		call, ok := e.(*ast.CallExpr)
		if !ok || len(call.Args) != 1 {
			return e
		}
		if tv, isT := pk.TypesInfo.Types[call.Fun]; isT && tv.IsType() {
			// not out of a wide unsigned type: int(u) of a huge u is negative and slips under a `< len` guard
			if at := pk.TypesInfo.TypeOf(call.Args[0]); at != nil {
				if b, isB := at.Underlying().(*types.Basic); isB {
					switch b.Kind() {
					case types.Uint, types.Uint64, types.Uintptr:
						return e
					}
				}
			}
			e = call.Args[0]
			continue
		}
		return e
	}
}
