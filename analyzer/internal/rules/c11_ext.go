package rules

import (
	"go/types"
	"sort"
	"strings"

	"golang.org/x/tools/go/ssa"

	"jsverif/internal/core"
)

// extReadOnly: methods of out-of-module types that may be called on an object shared between
// calls (loaded from a field, cached by a once, passed in): they do not modify the receiver.
var extReadOnly = map[string]string{
	"(*regexp.Regexp).Match":       "documented safe for concurrent use; does not modify the Regexp",
	"(*regexp.Regexp).MatchString": "see Match",
	"(*regexp.Regexp).String":      "read-only",
	"(*sync.Pool).Get":             "synchronised by design; the pool discipline is rule C10.pool/C11.pool",
	"(*sync.Pool).Put":             "see Get",
	"(*sync.Once).Do":              "synchronised by design; once discipline is rule C11.once",
	"(*sync.Mutex).Lock":           "lock discipline is rule C11.lock",
	"(*sync.Mutex).Unlock":         "see Lock",
	"(*sync.RWMutex).Lock":         "see Mutex",
	"(*sync.RWMutex).Unlock":       "see Mutex",
	"(*sync.RWMutex).RLock":        "see Mutex",
	"(*sync.RWMutex).RUnlock":      "see Mutex",
	"(*bytes.Buffer).Bytes":        "read-only",
	"(*bytes.Buffer).Len":          "read-only",
	"(*bytes.Buffer).String":       "read-only",
	"(*strings.Builder).String":    "read-only",
	"(*strings.Builder).Len":       "read-only",
	"(time.Time).Format":           "value receiver",
}

// extSharedTable: calls that mutate an out-of-module object which is NOT created in the calling function, accepted with a reason.
var extSharedTable = map[string]string{}

// c11ext: the read-only API does not drive a stateful third-party object that outlives the call.
func c11extAs(R string) RuleFunc {
	return func(c *core.Ctx) {
		c.Rule(R, "in the functions reachable from the read-only API (Check, Len, Example, GetAST, UsedUserTypes, Pattern, Values, OpenAPI conversion) outside once closures and locked container methods: every call of a pointer-receiver method of an OUT-OF-MODULE type either has a receiver created in the same function (allocation, or the result of an out-of-module constructor call - a fresh object per call), or is a read-only / synchronised method on the allow-list, or is tabled. A stateful helper object (a random generator, a decoder, a builder) that is cached in a schema and driven by Example() makes the result depend on earlier calls and races under concurrent use; the module's own write-effect rule cannot see inside such objects")
		c.Floor(R, 5)
		oc := onceClosures(c)
		var roots []*ssa.Function
		for _, name := range roEntries {
			if f := findFunc(c, name); f != nil {
				roots = append(roots, f)
			}
		}
		for _, f := range entryPoints(c) {
			if strings.HasPrefix(core.FuncName(f), "(openapi.") || strings.HasPrefix(core.FuncName(f), "(*openapi.") {
				roots = append(roots, f)
			}
		}
		isLocked := map[*ssa.Function]bool{}
		for _, ct := range containers(c, R) {
			for _, m := range ct.methods {
				isLocked[m] = true
			}
		}
		reach := c.P.Reach(roots, func(f *ssa.Function) bool {
			_, isOnce := oc[f]
			return isOnce
		})
		var fs []*ssa.Function
		for f := range reach {
			if _, isOnce := oc[f]; isOnce || !c.P.FuncInScope(f) || f.Blocks == nil || strings.Contains(core.FuncName(f), "internal/sync.") {
				continue // once closures; the pool / once wrappers themselves
			}
			fs = append(fs, f)
		}
		sort.Slice(fs, func(i, j int) bool { return fs[i].String() < fs[j].String() })
		var fresh func(v ssa.Value, depth int) bool
		fresh = func(v ssa.Value, depth int) bool {
			if depth > 8 {
				return false
			}
			switch x := v.(type) {
			case *ssa.Alloc:
				return true
			case *ssa.Call:
				if sc := x.Call.StaticCallee(); sc != nil && !c.P.FuncInModule(sc) {
					return true // out-of-module constructor / function result created for this call
				}
				if sc := x.Call.StaticCallee(); sc != nil && strings.HasSuffix(core.FuncName(sc), "internal/sync.BufferPool).Get") {
					return true // exclusively owned between Get and Put (pool discipline: rule C11.pool)
				}
				return false
			case *ssa.Extract:
				return fresh(x.Tuple, depth+1)
			case *ssa.Phi:
				for _, e := range x.Edges {
					if !fresh(e, depth+1) {
						return false
					}
				}
				return true
			case *ssa.MakeInterface:
				return fresh(x.X, depth+1)
			case *ssa.ChangeType:
				return fresh(x.X, depth+1)
			case *ssa.UnOp:
				// load of a local variable that was stored a fresh value: only direct allocs
				if a, ok := x.X.(*ssa.Alloc); ok {
					ok2 := true
					n := 0
					for _, ref := range *a.Referrers() {
						if st, isSt := ref.(*ssa.Store); isSt && st.Addr == a {
							n++
							if !fresh(st.Val, depth+1) {
								ok2 = false
							}
						}
					}
					return ok2 && n > 0
				}
				return false
			case *ssa.FieldAddr:
				return fresh(x.X, depth+1)
			case *ssa.Parameter:
				// handed in by the callers: fresh when every caller in the module hands in a fresh one
				// (a helper that writes into the buffer its caller created)
				f := x.Parent()
				if f == nil || depth > 4 {
					return false
				}
				idx := -1
				for i, p := range f.Params {
					if p == x {
						idx = i
					}
				}
				if idx < 0 {
					return false
				}
				edges := c.P.CallersOf(f)
				if len(edges) == 0 {
					return false
				}
				for _, e := range edges {
					if e.Site == nil {
						return false
					}
					args := e.Site.Common().Args
					if e.Site.Common().IsInvoke() || idx >= len(args) {
						return false
					}
					if !fresh(args[idx], depth+2) {
						return false
					}
				}
				return true
			}
			return false
		}
		n := 0
		for _, f := range fs {
			for _, b := range f.Blocks {
				for _, in := range b.Instrs {
					call, ok := in.(ssa.CallInstruction)
					if !ok {
						continue
					}
					cc := call.Common()
					sc := cc.StaticCallee()
					if sc == nil || c.P.FuncInModule(sc) || sc.Signature.Recv() == nil {
						continue
					}
					if _, isPtr := sc.Signature.Recv().Type().(*types.Pointer); !isPtr {
						continue
					}
					if len(cc.Args) == 0 {
						continue
					}
					name := sc.String()
					n++
					key := core.FuncName(f) + ":" + name
					pos := c.P.Pos(in.Pos())
					what := "call of " + name + " in " + core.FuncName(f)
					switch {
					case fresh(cc.Args[0], 0):
						c.OKd(R, key, pos, what, "receiver created in this function (fresh per call)")
					case extReadOnly[name] != "":
						c.OKd(R, key, pos, what, "allow-listed: "+extReadOnly[name])
					case extSharedTable[key] != "":
						c.Tabled(R, key, pos, what, extSharedTable[key])
					default:
						c.Bad(R, key, pos, what, "a method of an out-of-module object that was not created in this function (cached in a field, returned by a once, or passed in) is called from the read-only API and is not known to be read-only: the object's hidden state makes results depend on earlier calls and is shared by concurrent callers")
					}
				}
			}
		}
	}
}

// c02extpanic: calls into third-party code run under a recover.
func c02extpanic(c *core.Ctx) { extPanicAs(c, "C02.extpanic") }

func extPanicAs(c *core.Ctx, R string) {
	c.Rule(R, "every call from the module into a third-party package (neither the module nor the standard library: today github.com/lucasjones/reggen, the regex example generator) sits in a function that installs a deferred recover that swallows EVERY value (it does not re-panic and does not go through panics.Handle, which re-panics non-error values), so a panic raised inside that code (reggen panics with `invalid argument to Intn` on a character class without ASCII members) comes back as an error value. The module's own panic analysis cannot look inside such code")
	c.Floor(R, 1)
	isStd := func(path string) bool {
		first := strings.Split(path, "/")[0]
		return !strings.Contains(first, ".")
	}
	n := 0
	var fs []*ssa.Function
	for f := range c.P.AllFuncs {
		if c.P.FuncInScope(f) && f.Blocks != nil {
			fs = append(fs, f)
		}
	}
	sort.Slice(fs, func(i, j int) bool { return fs[i].String() < fs[j].String() })
	for _, f := range fs {
		// a TOTAL catcher: a deferred function that calls recover() and can neither re-panic itself nor
		// hand the value to panics.Handle (which re-panics every value that is not an error - third-party
		// code panics with strings)
		hasRecover := false
		for _, df := range core.DeferredFuncs(f) {
			if df.Blocks == nil {
				continue
			}
			rec, repanic := false, core.HasExplicitPanic(df)
			for _, bb := range df.Blocks {
				for _, i2 := range bb.Instrs {
					if call, ok := i2.(*ssa.Call); ok {
						if bi, ok := call.Call.Value.(*ssa.Builtin); ok && bi.Name() == "recover" {
							rec = true
						}
						if sc := call.Call.StaticCallee(); sc != nil && strings.HasSuffix(core.FuncName(sc), "panics.Handle") {
							repanic = true
						}
					}
				}
			}
			if rec && !repanic {
				hasRecover = true
			}
		}
		seen := map[string]bool{}
		for _, b := range f.Blocks {
			for _, in := range b.Instrs {
				call, ok := in.(ssa.CallInstruction)
				if !ok {
					continue
				}
				sc := call.Common().StaticCallee()
				if sc == nil || sc.Pkg == nil || c.P.FuncInModule(sc) {
					continue
				}
				path := sc.Pkg.Pkg.Path()
				if sc.Name() == "init" || f.Name() == "init" {
					continue // package initialisation chain
				}
				if isStd(path) || strings.HasPrefix(path, "golang.org/x/") {
					continue
				}
				key := core.FuncName(f) + ":" + sc.String()
				if seen[key] {
					continue
				}
				seen[key] = true
				n++
				c.Check(hasRecover, R, key, c.P.Pos(in.Pos()), "call of third-party "+sc.String()+" in "+core.FuncName(f), "a panic raised inside the third-party code escapes to the caller of the public API (no deferred recover in this function)")
			}
		}
	}
}
