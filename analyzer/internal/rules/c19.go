package rules

import (
	"go/ast"
	"go/constant"
	"go/token"
	"go/types"
	"regexp"
	"sort"
	"strings"

	"golang.org/x/tools/go/ssa"

	"jsverif/internal/core"
)

func init() {
	Register("C19", "Decides structural necessary conditions of 'the ordered containers behave like insertion-ordered maps': (del) removal from the order list is control-dependent on the key having been found; (iter) no method mutates the order list while ranging over it; (set) every write that may introduce a key appends it to the order list exactly when it is new, and constructors cannot create duplicates; (sib) the three generated map instances are identical modulo key/value types; (lock) every exported method takes the container's RWMutex in the right mode and releases it by defer; (sep) JSON separators. Does NOT decide full equivalence with a reference dictionary over operation histories.",
		c19del, c19iter, c19set, c19sib, c11lockRule("C19.lock"), c19sep, c19ctor, mapStoreRule("C19.mapstore"), c19leak, presizeRule("C19.presize"), c19jsonenc)
}

// container: a struct with fields data (map), order (slice), mx (sync.RWMutex).
type container struct {
	named           *types.Named
	pk              *packagesPackage
	data, order, mx int // field indices
	methods         []*ssa.Function
	decls           map[string]*core.DeclSite
	name            string
}

func containers(c *core.Ctx, rule string) []*container {
	var out []*container
	for _, pk := range c.P.ScopePkgs() {
		sc := pk.Types.Scope()
		for _, nm := range sc.Names() {
			tn, ok := sc.Lookup(nm).(*types.TypeName)
			if !ok {
				continue
			}
			named, ok := tn.Type().(*types.Named)
			if !ok {
				continue
			}
			st, ok := named.Underlying().(*types.Struct)
			if !ok {
				continue
			}
			ct := &container{named: named, pk: pk, data: -1, order: -1, mx: -1, decls: map[string]*core.DeclSite{}, name: core.Rel(pk.PkgPath) + "." + nm}
			for i := 0; i < st.NumFields(); i++ {
				f := st.Field(i)
				switch f.Name() {
				case "data":
					if _, ok := f.Type().Underlying().(*types.Map); ok {
						ct.data = i
					}
				case "order":
					if _, ok := f.Type().Underlying().(*types.Slice); ok {
						ct.order = i
					}
				case "mx":
					if strings.HasSuffix(f.Type().String(), "sync.RWMutex") {
						ct.mx = i
					}
				}
			}
			if ct.data < 0 || ct.order < 0 || ct.mx < 0 {
				continue
			}
			ms := c.P.SSA.MethodSets.MethodSet(types.NewPointer(named))
			for i := 0; i < ms.Len(); i++ {
				fo, _ := ms.At(i).Obj().(*types.Func)
				if f := c.P.SSA.FuncValue(fo); f != nil && f.Blocks != nil {
					ct.methods = append(ct.methods, f)
					if d := c.P.FindDecl(core.Rel(fo.FullName())); d != nil {
						ct.decls[fo.Name()] = d
					}
				}
			}
			sort.Slice(ct.methods, func(i, j int) bool { return ct.methods[i].Name() < ct.methods[j].Name() })
			out = append(out, ct)
		}
	}
	sort.Slice(out, func(i, j int) bool { return out[i].name < out[j].name })
	if len(out) < 4 {
		c.Unresolved(rule, core.F("ordered containers (struct{data map; order slice; mx RWMutex}): found %d, expected 4", len(out)))
	}
	return out
}

// fieldOf: is addr a FieldAddr of container field idx?
func (ct *container) fieldAddr(v ssa.Value, idx int) bool {
	fa, ok := v.(*ssa.FieldAddr)
	if !ok || fa.Field != idx {
		return false
	}
	p, ok := fa.X.Type().Underlying().(*types.Pointer)
	return ok && types.Identical(p.Elem(), ct.named)
}

// writesField: direct stores to the field in f.
func (ct *container) storesTo(f *ssa.Function, idx int) []*ssa.Store {
	var out []*ssa.Store
	for _, b := range f.Blocks {
		for _, in := range b.Instrs {
			if st, ok := in.(*ssa.Store); ok && ct.fieldAddr(st.Addr, idx) {
				out = append(out, st)
			}
		}
	}
	return out
}

func c19del(c *core.Ctx) {
	const R = "C19.del"
	c.Rule(R, "in every container method that removes an element from the order list (a store to `order` that is not an append of a new key), the store is dominated by the true edge of an equality test between an element of `order` and the key: removal happens only if the key was found (deleting an absent key must not drop another key)")
	c.Floor(R, 3)
	for _, ct := range containers(c, R) {
		for _, f := range ct.methods {
			for _, st := range ct.storesTo(f, ct.order) {
				// is this a removal? value = append(order[:i], order[i+1:]...) -> Call append whose first arg is a Slice of order
				call, ok := st.Val.(*ssa.Call)
				if !ok {
					continue
				}
				bi, ok := call.Call.Value.(*ssa.Builtin)
				if !ok || bi.Name() != "append" || len(call.Call.Args) != 2 {
					continue
				}
				if _, isSlice := call.Call.Args[0].(*ssa.Slice); !isSlice {
					continue // append(order, k): insertion
				}
				key := ct.name + "." + f.Name() + ":order-removal"
				what := "removal from order in " + core.FuncName(f)
				// find an If on `elem == k` whose true successor dominates the store
				ok2 := false
				for _, b := range f.Blocks {
					if len(b.Instrs) == 0 {
						continue
					}
					ifi, isIf := b.Instrs[len(b.Instrs)-1].(*ssa.If)
					if !isIf {
						continue
					}
					cmp, isCmp := ifi.Cond.(*ssa.BinOp)
					if !isCmp || (cmp.Op != token.EQL && cmp.Op != token.NEQ) {
						continue
					}
					isParam := func(v ssa.Value) bool { _, ok := v.(*ssa.Parameter); return ok }
					if !(isParam(cmp.X) || isParam(cmp.Y)) {
						continue
					}
					succ := b.Succs[0]
					if cmp.Op == token.NEQ {
						succ = b.Succs[1]
					}
					// the found-edge must lead only to code where the key was found: succ has b as single pred and dominates the store
					if len(succ.Preds) == 1 && (succ == st.Block() || succ.Dominates(st.Block())) {
						ok2 = true
					}
				}
				c.Check(ok2, R, key, c.P.Pos(st.Pos()), what, "the removal from `order` is not control-dependent on the key having been found: when the key is absent the loop index still points at the last element, which is then dropped from the iteration order (Len/Has still see it, Each/MarshalJSON do not)")
			}
		}
	}
}

func c19iter(c *core.Ctx) {
	const R = "C19.iter"
	c.Rule(R, "no container method ranges over its `order` list while the loop body (through resolved callees) stores to `order` of the same container: removing elements from the slice being ranged over skips the element that follows each removal")
	c.Floor(R, 20)
	for _, ct := range containers(c, R) {
		// which methods (transitively within the container) store to order?
		writes := map[*ssa.Function]bool{}
		for _, f := range ct.methods {
			if len(ct.storesTo(f, ct.order)) > 0 {
				writes[f] = true
			}
		}
		for name, d := range ct.decls {
			ast.Inspect(d.Decl.Body, func(n ast.Node) bool {
				rs, ok := n.(*ast.RangeStmt)
				if !ok {
					return true
				}
				se, ok := ast.Unparen(rs.X).(*ast.SelectorExpr)
				if !ok || se.Sel.Name != "order" {
					return true
				}
				key := ct.name + "." + name + ":range-order"
				what := "range over order in " + ct.name + "." + name
				bad := ""
				// a mutation is harmless if the loop is left right after it
				// (`m.order = append(...); break`): find the statement list the
				// mutating statement sits in and require it to end in break/return,
				// with no inner loop/switch capturing the break.
				var stack []ast.Node
				leaves := func() bool {
					var lastList []ast.Stmt
					var mut ast.Node
					for i := len(stack) - 1; i >= 0; i-- {
						switch x := stack[i].(type) {
						case *ast.ForStmt, *ast.RangeStmt, *ast.SwitchStmt, *ast.TypeSwitchStmt, *ast.SelectStmt, *ast.FuncLit:
							if x != ast.Node(rs) {
								return false
							}
						case *ast.BlockStmt:
							if lastList == nil {
								lastList = x.List
								if i+1 < len(stack) {
									mut = stack[i+1]
								}
							}
						}
					}
					if lastList == nil || mut == nil {
						return false
					}
					last := lastList[len(lastList)-1]
					switch l := last.(type) {
					case *ast.ReturnStmt:
						return true
					case *ast.BranchStmt:
						return l.Tok == token.BREAK && l.Label == nil
					}
					return false
				}
				stack = append(stack, rs)
				ast.Inspect(rs.Body, func(m ast.Node) bool {
					if m == nil {
						stack = stack[:len(stack)-1]
						return true
					}
					stack = append(stack, m)
					switch x := m.(type) {
					case *ast.AssignStmt:
						for _, l := range x.Lhs {
							if ls, ok := ast.Unparen(l).(*ast.SelectorExpr); ok && ls.Sel.Name == "order" && !leaves() {
								bad = "assigns m.order inside the loop"
							}
						}
					case *ast.CallExpr:
						if fo, ok := core.Callee(d.Pkg, x).(*types.Func); ok {
							if sf := c.P.SSA.FuncValue(fo); sf != nil && writes[sf] && !leaves() {
								bad = "calls " + core.FuncName(sf) + ", which rewrites `order`"
							}
						}
					}
					return true
				})
				c.Check(bad == "", R, key, c.P.Pos(rs.Pos()), what, "the loop "+bad+" while ranging over it: after each removal the next element is skipped (and the tail of the stale slice header is visited), so Filter keeps elements it should drop")
				return true
			})
		}
	}
}

func c19set(c *core.Ctx) {
	const R = "C19.set"
	c.Rule(R, "data/order stay in bijection: a method that stores data[k] either (new) appends k to order exactly under a failed membership test that precedes the store, or (existing) is dominated by a successful membership test, or (existing) takes k from ranging over order; constructors that build `data` themselves must not take `order` verbatim from a parameter (duplicates); Len reads len(data)")
	c.Floor(R, 10)
	for _, ct := range containers(c, R) {
		for _, f := range ct.methods {
			var updates []*ssa.MapUpdate
			for _, b := range f.Blocks {
				for _, in := range b.Instrs {
					if mu, ok := in.(*ssa.MapUpdate); ok {
						if lo, ok := mu.Map.(*ssa.UnOp); ok && ct.fieldAddr(lo.X, ct.data) {
							updates = append(updates, mu)
						}
					}
				}
			}
			for i, mu := range updates {
				key := core.F("%s.%s:data-store#%d", ct.name, f.Name(), i+1)
				what := "store data[k] in " + core.FuncName(f)
				pos := c.P.Pos(mu.Pos())
				// case: key from ranging order (IndexAddr on loaded order)
				if derivesFromOrderElem(ct, mu.Key) {
					c.OKd(R, key, pos, what, "key is an element of `order` (existing key)")
					continue
				}
				// membership tests on the same key in this function
				type test struct {
					blk     *ssa.BasicBlock
					present *ssa.BasicBlock // successor when key present
					absent  *ssa.BasicBlock
				}
				var tests []test
				for _, b := range f.Blocks {
					if len(b.Instrs) == 0 {
						continue
					}
					ifi, ok := b.Instrs[len(b.Instrs)-1].(*ssa.If)
					if !ok {
						continue
					}
					v := ifi.Cond
					neg := false
					if u, ok := v.(*ssa.UnOp); ok && u.Op == token.NOT {
						v = u.X
						neg = true
					}
					isHas := false
					switch x := v.(type) {
					case *ssa.Call:
						if sc := x.Call.StaticCallee(); sc != nil && pinnedBare(sc) == "has" && len(x.Call.Args) == 2 && x.Call.Args[1] == mu.Key {
							isHas = true
						}
					case *ssa.Extract:
						if lk, ok := x.Tuple.(*ssa.Lookup); ok && x.Index == 1 && lk.Index == mu.Key {
							if lo, ok := lk.X.(*ssa.UnOp); ok && ct.fieldAddr(lo.X, ct.data) {
								isHas = true
							}
						}
					}
					if !isHas {
						continue
					}
					t := test{blk: b, present: b.Succs[0], absent: b.Succs[1]}
					if neg {
						t.present, t.absent = t.absent, t.present
					}
					tests = append(tests, t)
				}
				okSet := false
				why := ""
				for _, t := range tests {
					dom := func(a, b *ssa.BasicBlock) bool { return a == b || a.Dominates(b) }
					// existing: store dominated by the present edge (single pred)
					if len(t.present.Preds) == 1 && dom(t.present, mu.Block()) {
						okSet, why = true, "store dominated by a successful membership test (existing key)"
						break
					}
					// new: absent branch appends to order (single pred) and the test dominates the store
					if len(t.absent.Preds) == 1 && dom(t.blk, mu.Block()) {
						appended := false
						for _, st := range ct.storesTo(f, ct.order) {
							if dom(t.absent, st.Block()) {
								if call, ok := st.Val.(*ssa.Call); ok {
									if bi, ok := call.Call.Value.(*ssa.Builtin); ok && bi.Name() == "append" {
										appended = true
									}
								}
							}
						}
						if appended {
							okSet, why = true, "key appended to order exactly when the membership test fails"
							break
						}
					}
				}
				if okSet {
					c.OKd(R, key, pos, what, why)
				} else {
					c.Bad(R, key, pos, what, "data[k] may introduce a key that is not appended to `order` (or append it twice): Len/Has and iteration/JSON disagree")
				}
			}
			if f.Name() == "Len" {
				// must be len(data)
				okLen := false
				for _, b := range f.Blocks {
					for _, in := range b.Instrs {
						if call, ok := in.(*ssa.Call); ok {
							if bi, ok := call.Call.Value.(*ssa.Builtin); ok && bi.Name() == "len" {
								if lo, ok := call.Call.Args[0].(*ssa.UnOp); ok && (ct.fieldAddr(lo.X, ct.data) || ct.fieldAddr(lo.X, ct.order)) {
									okLen = true
								}
							}
						}
					}
				}
				c.Check(okLen, R, ct.name+".Len", c.P.Pos(f.Pos()), "Len of "+ct.name+" reads len(data)/len(order)", "Len does not read the container's own length")
			}
		}
		// constructors: package-level functions returning *container
		sp := c.P.SSAPkgs[ct.pk.PkgPath]
		for _, m := range sp.Members {
			f, ok := m.(*ssa.Function)
			if !ok || f.Blocks == nil || f.Signature.Results().Len() != 1 {
				continue
			}
			p, ok := f.Signature.Results().At(0).Type().(*types.Pointer)
			if !ok || !types.Identical(p.Elem(), ct.named) {
				continue
			}
			key := ct.name + ":ctor:" + f.Name()
			what := "constructor " + core.FuncName(f)
			var orderSrc, dataSrc ssa.Value
			for _, st := range ct.storesTo(f, ct.order) {
				orderSrc = st.Val
			}
			for _, st := range ct.storesTo(f, ct.data) {
				dataSrc = st.Val
			}
			_, orderIsParam := orderSrc.(*ssa.Parameter)
			_, dataIsParam := dataSrc.(*ssa.Parameter)
			if orderIsParam && dataSrc != nil && !dataIsParam {
				c.Bad(R, key, c.P.Pos(f.Pos()), what, "`order` is taken verbatim from parameter "+orderSrc.Name()+" while `data` is built by the constructor: repeated values appear twice in the iteration order although the set holds them once (Len() != len(Data()))")
			} else {
				c.OK(R, key, c.P.Pos(f.Pos()), what)
			}
		}
	}
}

func derivesFromOrderElem(ct *container, v ssa.Value) bool {
	for i := 0; i < 6; i++ {
		switch x := v.(type) {
		case *ssa.UnOp:
			v = x.X
		case *ssa.IndexAddr:
			if lo, ok := x.X.(*ssa.UnOp); ok && ct.fieldAddr(lo.X, ct.order) {
				return true
			}
			return false
		case *ssa.Index:
			if lo, ok := x.X.(*ssa.UnOp); ok && ct.fieldAddr(lo.X, ct.order) {
				return true
			}
			return false
		default:
			return false
		}
	}
	return false
}

func c19sib(c *core.Ctx) {
	const R = "C19.sib"
	c.Rule(R, "the generated ordered-map instances (RuleASTNodes, ASTNodes, Constraints) have pairwise identical method bodies after abstracting key/value/type names: a change applied to one copy only is a disagreement")
	c.Floor(R, 20)
	cts := containers(c, R)
	var maps []*container
	for _, ct := range cts {
		if _, ok := ct.decls["Set"]; ok {
			maps = append(maps, ct)
		}
	}
	if len(maps) < 3 {
		c.Unresolved(R, "three ordered-map instances with a Set method")
		return
	}
	norm := func(ct *container, d *core.DeclSite) string {
		short := ct.named.Obj().Name()
		st := ct.named.Underlying().(*types.Struct)
		mt := st.Field(ct.data).Type().Underlying().(*types.Map)
		q := func(p *types.Package) string {
			if p == ct.pk.Types {
				return ""
			}
			return p.Name()
		}
		subst := [][2]string{
			{regexp.QuoteMeta(short) + "Item", "ITEM"},
			{`\b` + regexp.QuoteMeta(short) + `\b`, "MAP"},
			{`\b` + regexp.QuoteMeta(types.TypeString(mt.Elem(), q)) + `\b`, "VAL"},
			{`\b` + regexp.QuoteMeta(types.TypeString(mt.Key(), q)) + `\b`, "KEY"},
			{`\bstring\b`, "KEY"},
		}
		return core.NormFunc(d.Pkg, d.Decl, subst)
	}
	ref := maps[0]
	var names []string
	for n := range ref.decls {
		names = append(names, n)
	}
	sort.Strings(names)
	for _, other := range maps[1:] {
		for _, n := range names {
			key := core.F("%s~%s:%s", ref.name, other.name, n)
			od, ok := other.decls[n]
			if !ok {
				c.Bad(R, key, c.P.Pos(ref.decls[n].Decl.Pos()), "method "+n+" exists in both instances", "method missing in "+other.name)
				continue
			}
			a, b := norm(ref, ref.decls[n]), norm(other, od)
			if a == b {
				c.OK(R, key, c.P.Pos(od.Decl.Pos()), core.F("%s.%s ≡ %s.%s", ref.name, n, other.name, n))
			} else {
				c.Bad(R, key, c.P.Pos(od.Decl.Pos()), core.F("%s.%s ≡ %s.%s", ref.name, n, other.name, n), "generated siblings diverge: "+core.FirstDiff(a, b))
			}
		}
		for n := range other.decls {
			if _, ok := ref.decls[n]; !ok {
				c.Bad(R, core.F("%s~%s:%s", ref.name, other.name, n), c.P.Pos(other.decls[n].Decl.Pos()), "method "+n+" exists in both instances", "method missing in "+ref.name)
			}
		}
	}
}

// c19sep: JSON-emitting loops of the containers' MarshalJSON: separator written
// at the loop head under `i != 0`, and no `continue` can skip an element.
func c19sep(c *core.Ctx) {
	const R = "C19.sep"
	c.Rule(R, "in every container MarshalJSON the comma is written at the top of the loop body under `index != 0` and no path skips an element after the separator decision (no continue), so the output is `{k:v,k:v}` for every length")
	c.Floor(R, 3)
	for _, ct := range containers(c, R) {
		d, ok := ct.decls["MarshalJSON"]
		if !ok {
			continue
		}
		key := ct.name + ".MarshalJSON:separator"
		ok2, why := false, "no range over order found"
		ast.Inspect(d.Decl.Body, func(n ast.Node) bool {
			rs, isR := n.(*ast.RangeStmt)
			if !isR {
				return true
			}
			why = ""
			if rs.Key == nil || len(rs.Body.List) == 0 {
				why = "loop has no index variable"
				return false
			}
			ifs, isIf := rs.Body.List[0].(*ast.IfStmt)
			if !isIf {
				why = "first statement of the loop is not the separator test"
				return false
			}
			be, isB := ast.Unparen(ifs.Cond).(*ast.BinaryExpr)
			if !isB || !(be.Op == token.NEQ || be.Op == token.GTR) || core.ExprStr(be.X) != core.ExprStr(rs.Key) || core.ExprStr(be.Y) != "0" {
				why = "separator test is not `" + core.ExprStr(rs.Key) + " != 0`"
				return false
			}
			hasContinue := false
			ast.Inspect(rs.Body, func(m ast.Node) bool {
				if br, ok := m.(*ast.BranchStmt); ok && br.Tok == token.CONTINUE {
					hasContinue = true
				}
				return true
			})
			if hasContinue {
				why = "an element can be skipped with `continue` after the separator was written"
				return false
			}
			ok2 = true
			return false
		})
		c.Check(ok2, R, key, c.P.Pos(d.Decl.Pos()), "separator discipline of "+ct.name+".MarshalJSON", why)
	}
}

// c19leak: the containers keep their storage to themselves.
func c19leak(c *core.Ctx) {
	const R = "C19.leak"
	c.Rule(R, "no method of an ordered container (map or set) returns its `order` slice or `data` map itself (or a re-slice of it): the caller could sort, append to or overwrite the storage without the lock, after which iteration order, Has and Len no longer describe one insertion-ordered dictionary. Returned element lists are copies")
	c.Floor(R, 4)
	for _, ct := range containers(c, R) {
		n := 0
		for _, f := range ct.methods {
			var strip func(v ssa.Value, depth int) ssa.Value
			strip = func(v ssa.Value, depth int) ssa.Value {
				if depth > 4 {
					return v
				}
				switch x := v.(type) {
				case *ssa.Slice:
					return strip(x.X, depth+1)
				case *ssa.ChangeType:
					return strip(x.X, depth+1)
				case *ssa.Phi:
					for _, e := range x.Edges {
						if s := strip(e, depth+1); isStorageLoad(ct, s) {
							return s
						}
					}
				}
				return v
			}
			leak := ""
			pos := f.Pos()
			for _, b := range f.Blocks {
				for _, in := range b.Instrs {
					// results spilled by a deferred unlock are stored to the named/anonymous result slot first
					var vals []ssa.Value
					switch x := in.(type) {
					case *ssa.Return:
						vals = x.Results
					case *ssa.Store:
						if al, ok := x.Addr.(*ssa.Alloc); ok && !al.Heap && isResultSlot(f, al) {
							vals = []ssa.Value{x.Val}
						}
					}
					for _, v := range vals {
						if s := strip(v, 0); isStorageLoad(ct, s) {
							leak = "returns " + s.(*ssa.UnOp).X.(*ssa.FieldAddr).X.Name() + "." + storageName(ct, s)
							pos = in.Pos()
						}
					}
				}
			}
			n++
			key := ct.name + ":" + f.Name()
			if leak != "" {
				c.Bad(R, key, c.P.Pos(pos), ct.name+"."+f.Name(), leak+" itself: the caller shares the container's storage")
			}
		}
		c.OKd(R, ct.name+":methods", "", ct.name, core.F("%d methods, none returns the storage", n))
	}
}

func isStorageLoad(ct *container, v ssa.Value) bool {
	u, ok := v.(*ssa.UnOp)
	return ok && u.Op == token.MUL && (ct.fieldAddr(u.X, ct.order) || ct.fieldAddr(u.X, ct.data))
}

func storageName(ct *container, v ssa.Value) string {
	if ct.fieldAddr(v.(*ssa.UnOp).X, ct.order) {
		return "order"
	}
	return "data"
}

// isResultSlot: go/ssa spills the results of a function with defers into local slots that are
// loaded again in the return block.
func isResultSlot(f *ssa.Function, al *ssa.Alloc) bool {
	for _, b := range f.Blocks {
		for _, in := range b.Instrs {
			if r, ok := in.(*ssa.Return); ok {
				for _, v := range r.Results {
					if u, ok := v.(*ssa.UnOp); ok && u.X == al {
						return true
					}
				}
			}
		}
	}
	return false
}

// c19jsonenc: what the containers' MarshalJSON writes into the output buffer is either structural
// punctuation or the output of a JSON encoder.
func c19jsonenc(c *core.Ctx) {
	const R = "C19.jsonenc"
	c.Rule(R, "every write into the output buffer of a container's MarshalJSON (the method and the module helpers it calls) is either a constant made of JSON punctuation (`{ } [ ] , :`) or a JSON literal, or the bytes returned by encoding/json.Marshal / a MarshalJSON method; the buffer is not handed to any other formatter. Keys and values quoted by hand (strconv.Quote, fmt %q, `\"`+k+`\"`) are not JSON for control characters, DEL and invalid UTF-8")
	c.Floor(R, 6)
	for _, ct := range containers(c, R) {
		var root *ssa.Function
		for _, f := range ct.methods {
			if f.Name() == "MarshalJSON" {
				root = f
			}
		}
		if root == nil {
			continue
		}
		seen := map[*ssa.Function]bool{}
		var fns []*ssa.Function
		var add func(f *ssa.Function, d int)
		add = func(f *ssa.Function, d int) {
			if f == nil || seen[f] || f.Blocks == nil || d > 3 {
				return
			}
			seen[f] = true
			fns = append(fns, f)
			for _, b := range f.Blocks {
				for _, in := range b.Instrs {
					if cc, ok := in.(ssa.CallInstruction); ok {
						if g := cc.Common().StaticCallee(); g != nil && c.P.FuncInModule(g) {
							add(g, d+1)
						}
					}
				}
			}
			for _, an := range f.AnonFuncs {
				add(an, d+1)
			}
		}
		add(root, 0)
		isBuf := func(v ssa.Value) bool {
			t := v.Type()
			if p, ok := t.Underlying().(*types.Pointer); ok {
				t = p.Elem()
			}
			return t.String() == "bytes.Buffer"
		}
		var fromEncoder func(v ssa.Value, d int) bool
		fromEncoder = func(v ssa.Value, d int) bool {
			if d > 6 {
				return false
			}
			switch x := v.(type) {
			case *ssa.Extract:
				if call, ok := x.Tuple.(*ssa.Call); ok && x.Index == 0 {
					if g := call.Call.StaticCallee(); g != nil {
						fn := g.String()
						return fn == "encoding/json.Marshal" || g.Name() == "MarshalJSON"
					}
					return call.Call.IsInvoke() && call.Call.Method.Name() == "MarshalJSON"
				}
			case *ssa.Phi:
				for _, e := range x.Edges {
					if !fromEncoder(e, d+1) {
						return false
					}
				}
				return len(x.Edges) > 0
			case *ssa.ChangeType:
				return fromEncoder(x.X, d+1)
			case *ssa.UnOp:
				// a local slot written only with encoder results
				if al, ok := x.X.(*ssa.Alloc); ok && x.Op == token.MUL {
					n := 0
					for _, r := range *al.Referrers() {
						if st, ok := r.(*ssa.Store); ok && st.Addr == al {
							if !fromEncoder(st.Val, d+1) {
								return false
							}
							n++
						}
					}
					return n > 0
				}
			}
			return false
		}
		punct := func(s string) bool {
			switch s {
			case "null", "true", "false":
				return true
			}
			for _, r := range s {
				if !strings.ContainsRune("{}[],:", r) {
					return false
				}
			}
			return true
		}
		enc, n := 0, 0
		for _, f := range fns {
			for _, b := range f.Blocks {
				for _, in := range b.Instrs {
					cc, ok := in.(ssa.CallInstruction)
					if !ok {
						continue
					}
					com := cc.Common()
					g := com.StaticCallee()
					key := core.F("%s.MarshalJSON:%s:write#%d", ct.name, f.Name(), n)
					if g != nil && g.Signature.Recv() != nil && len(com.Args) == 2 && isBuf(com.Args[0]) && strings.HasPrefix(g.Name(), "Write") {
						n++
						arg := com.Args[1]
						if k, ok := arg.(*ssa.Const); ok && k.Value != nil {
							s := ""
							switch k.Value.Kind() {
							case constant.String:
								s = constant.StringVal(k.Value)
							case constant.Int:
								if v, ok := constant.Int64Val(k.Value); ok {
									s = string(rune(v))
								}
							}
							if !punct(s) {
								c.Bad(R, key, c.P.Pos(in.Pos()), ct.name+".MarshalJSON", core.F("writes the constant %q, which is neither JSON punctuation nor a JSON literal: hand-made quoting", s))
							}
							continue
						}
						if conv, ok := arg.(*ssa.Convert); ok {
							arg = conv.X
						}
						if fromEncoder(arg, 0) {
							enc++
							continue
						}
						c.Bad(R, key, c.P.Pos(in.Pos()), ct.name+".MarshalJSON", "writes bytes that do not come from encoding/json.Marshal or a MarshalJSON method ("+arg.String()+"): not valid JSON for every key/value")
						continue
					}
					if g != nil && !c.P.FuncInModule(g) {
						for _, a := range com.Args {
							if isBuf(a) && !(g.Signature.Recv() != nil && len(com.Args) > 0 && com.Args[0] == a) {
								c.Bad(R, key, c.P.Pos(in.Pos()), ct.name+".MarshalJSON", "hands the output buffer to "+g.String()+": the bytes it writes are not checked JSON")
							}
						}
					}
				}
			}
		}
		for i := 0; i < enc; i++ {
			c.OKd(R, core.F("%s.MarshalJSON:encoded#%d", ct.name, i), "", ct.name, "bytes written come from a JSON encoder")
		}
		if enc < 2 {
			c.Bad(R, ct.name+".MarshalJSON:encoded", c.P.Pos(root.Pos()), ct.name+".MarshalJSON", core.F("only %d of the key and value writes come from a JSON encoder", enc))
		}
	}
}
