package rules

import (
	"go/ast"
	"go/constant"
	"go/token"
	"go/types"
	"sort"
	"strings"

	"golang.org/x/tools/go/packages"
	"golang.org/x/tools/go/ssa"

	"jsverif/internal/core"
)

func init() {
	Register("C05", "Decides structural necessary conditions of 'type references resolve exactly; UsedUserTypes() lists exactly the names used': (agree) every reference position the resolvers (checker, compiler, example builder, OpenAPI) read is also read by the collector behind UsedUserTypes(); (walk) the collector descends into every node kind that has children; (dedupe) a name is appended only when it is new; (miss) every failed lookup in a type table raises ErrUserTypeNotFound with the name (the one deviant site is the recursion checker, reported under C06). Does NOT decide the iff over all reference graphs nor that unused valid types never change a result.",
		registerRule("C05.register"), c05agree, c05walk, c05descend, c05record, c05unnamed, compileOrderRule("C05.order"), c05dedupe, c05miss, c05rawkey, func(c *core.Ctx) { c07walkAs(c, "C05.allofwalk") }, walkKindsRule("C05.walkkinds"), unnamedOnlyRule("C05.unnamedonly"), unnamedNameRule("C05.unnamedname"), pipeSplitRule("C05.pipe"), func(c *core.Ctx) { c11onceAs(c, "C05.once") })
}

// reference accessors: methods through which a type name stored in the model is read.
var refAccessors = map[string]string{
	"(notations/jschema/ischema/constraint.TypesList).Names":               "names in `or` / `@a | @b` / generated type lists",
	"(notations/jschema/ischema/constraint.TypeConstraint).Bytes":          "`type` rule value",
	"(notations/jschema/ischema/constraint.AllOf).SchemaNames":             "`allOf` rule values",
	"(notations/jschema/ischema/constraint.AdditionalProperties).TypeName": "`additionalProperties: @type`",
	"(*notations/jschema/ischema.MixedValueNode).GetTypes":                 "value shortcut `@a | @b`",
}

func c05agree(c *core.Ctx) {
	const R = "C05.agree"
	c.Rule(R, "sibling agreement between resolvers and the collector: each accessor through which the checker, the compilers, the example builder or the OpenAPI converter read a stored type name (TypesList.Names, TypeConstraint.Bytes, AllOf.SchemaNames, AdditionalProperties.TypeName, MixedValueNode.GetTypes/Value, ObjectNodeKey.Key under IsShortcut) must also be read in the collector package (user_types_collector.go / types.go): a reference position known to the resolvers but not to the collector is missing from UsedUserTypes()")
	c.Floor(R, 6)
	resolverPkgs := []string{"notations/jschema/checker", "notations/jschema/loader", "openapi"}
	usedBy := map[string][]string{}
	collected := map[string]bool{}
	shortcutKeyResolved, shortcutKeyCollected := false, false
	mixedValueCollected := false
	for _, d := range c.P.FuncDecls() {
		rel := core.Rel(d.Pkg.PkgPath)
		fn := core.DeclName(d.Pkg, d.Decl)
		isResolver := false
		for _, p := range resolverPkgs {
			if strings.HasPrefix(rel, p) {
				isResolver = true
			}
		}
		isExample := rel == "notations/jschema" && strings.Contains(fn, "exampleBuilder")
		isCollector := rel == "notations/jschema" && !isExample
		ast.Inspect(d.Decl.Body, func(n ast.Node) bool {
			switch x := n.(type) {
			case *ast.CallExpr:
				name := core.FullName(core.Callee(d.Pkg, x))
				if _, ok := refAccessors[name]; ok {
					if isResolver || isExample {
						usedBy[name] = append(usedBy[name], fn)
					}
					if isCollector {
						collected[name] = true
					}
				}
				if name == "(*notations/jschema/ischema.MixedValueNode).Value" && isCollector {
					mixedValueCollected = true
				}
			case *ast.SelectorExpr:
				if x.Sel.Name == "IsShortcut" {
					if isResolver || isExample {
						shortcutKeyResolved = true
					}
					if isCollector {
						shortcutKeyCollected = true
					}
				}
			}
			return true
		})
	}
	var names []string
	for n := range refAccessors {
		names = append(names, n)
	}
	sort.Strings(names)
	for _, n := range names {
		users := usedBy[n]
		if len(users) == 0 {
			c.Note(R, n, "-", "accessor "+n+" is not used by any resolver", "")
			continue
		}
		ok := collected[n]
		if n == "(*notations/jschema/ischema.MixedValueNode).GetTypes" && mixedValueCollected {
			ok = true // the collector splits Value() on '|' itself
		}
		c.Check(ok, R, n, "-", core.F("%s (%s) is read by resolvers %v and by the collector", n, refAccessors[n], uniq(users)),
			"the resolvers follow this reference position but the collector does not read it: such references are resolved (and can fail with 'type not found') without being listed by UsedUserTypes()")
	}
	c.Check(!shortcutKeyResolved || shortcutKeyCollected, R, "ObjectNodeKey.IsShortcut", "-", "key shortcuts (`@type: value`) are read by resolvers and by the collector", "key shortcuts are resolved but not collected")
}

func uniq(s []string) []string {
	m := map[string]bool{}
	var out []string
	for _, x := range s {
		if !m[x] {
			m[x] = true
			out = append(out, x)
		}
	}
	sort.Strings(out)
	return out
}

func c05walk(c *core.Ctx) {
	const R = "C05.walk"
	c.Rule(R, "userTypesCollector.collect has a case for every node type that implements ischema.BranchNode (node kinds with children) and each such case reaches a recursive collect() on the children; and it runs the three constraint collectors (types list, type, allOf) for every node")
	c.Floor(R, 3)
	d := c.P.FindDecl("(*notations/jschema.userTypesCollector).collect")
	if d == nil {
		c.Unresolved(R, "(*notations/jschema.userTypesCollector).collect")
		return
	}
	pk := c.P.Pkg("notations/jschema/ischema")
	bn, _ := pk.Types.Scope().Lookup("BranchNode").Type().Underlying().(*types.Interface)
	var branchTypes []string
	for _, nm := range pk.Types.Scope().Names() {
		tn, ok := pk.Types.Scope().Lookup(nm).(*types.TypeName)
		if !ok {
			continue
		}
		if _, isI := tn.Type().Underlying().(*types.Interface); isI {
			continue
		}
		if types.Implements(types.NewPointer(tn.Type()), bn) {
			branchTypes = append(branchTypes, nm)
		}
	}
	cases := map[string]*ast.CaseClause{}
	ast.Inspect(d.Decl.Body, func(n ast.Node) bool {
		if cc, ok := n.(*ast.CaseClause); ok {
			for _, e := range cc.List {
				s := core.ExprStr(e)
				cases[s[strings.LastIndex(s, ".")+1:]] = cc
			}
		}
		return true
	})
	// does a function (transitively within the collector type) call collect?
	reachesCollect := func(cc *ast.CaseClause) bool {
		found := false
		ast.Inspect(cc, func(n ast.Node) bool {
			call, ok := n.(*ast.CallExpr)
			if !ok {
				return true
			}
			name := core.FullName(core.Callee(d.Pkg, call))
			if name == "(*notations/jschema.userTypesCollector).collect" {
				found = true
			}
			if strings.HasPrefix(name, "(*notations/jschema.userTypesCollector).") {
				if d2 := c.P.FindDecl(name); d2 != nil {
					ast.Inspect(d2.Decl.Body, func(m ast.Node) bool {
						if c2, ok := m.(*ast.CallExpr); ok && core.FullName(core.Callee(d2.Pkg, c2)) == "(*notations/jschema.userTypesCollector).collect" {
							found = true
						}
						return true
					})
				}
			}
			return true
		})
		return found
	}
	for _, bt := range branchTypes {
		cc, ok := cases[bt]
		c.Check(ok && reachesCollect(cc), R, "case:"+bt, c.P.Pos(d.Decl.Pos()), "collector descends into the children of "+bt, "the collector has no recursive case for this node kind: type names used below such a node are missing from UsedUserTypes()")
	}
	// constraint kinds read on the unconditional path of collect(): in its top-level statements
	// (for an `if`, in the init and the condition only) and in the helpers those statements call
	read := map[string]bool{}
	var refs func(pk *packages.Package, n ast.Node, depth int)
	refs = func(pk *packages.Package, n ast.Node, depth int) {
		if n == nil {
			return
		}
		ast.Inspect(n, func(m ast.Node) bool {
			switch x := m.(type) {
			case *ast.SelectorExpr:
				if strings.HasSuffix(x.Sel.Name, "ConstraintType") {
					read[x.Sel.Name] = true
				}
			case *ast.Ident:
				if strings.HasSuffix(x.Name, "ConstraintType") {
					read[x.Name] = true
				}
			case *ast.CallExpr:
				if depth < 2 {
					if f, ok := core.Callee(pk, x).(*types.Func); ok && f.Pkg() != nil && core.InScope(f.Pkg().Path()) && f.Name() != "collect" {
						if hd := c.P.FindDecl(core.Rel(f.FullName())); hd != nil && hd.Decl.Body != nil {
							refs(hd.Pkg, hd.Decl.Body, depth+1)
						}
					}
				}
			}
			return true
		})
	}
	for _, st := range d.Decl.Body.List {
		switch x := st.(type) {
		case *ast.TypeSwitchStmt, *ast.SwitchStmt:
		case *ast.IfStmt:
			if x.Init != nil {
				refs(d.Pkg, x.Init, 0)
			}
			refs(d.Pkg, x.Cond, 0)
		case *ast.RangeStmt:
			refs(d.Pkg, x.X, 0)
		case *ast.ForStmt:
		default:
			refs(d.Pkg, st, 0)
		}
	}
	var missing []string
	for _, k := range []string{"TypesListConstraintType", "TypeConstraintType", "AllOfConstraintType"} {
		if !read[k] {
			missing = append(missing, k)
		}
	}
	c.Check(len(missing) == 0, R, "constraint-collectors", c.P.Pos(d.Decl.Pos()), "collect() reads the types-list, type and allOf constraints unconditionally for every node", "not read on the unconditional path of collect(): "+strings.Join(missing, ", ")+" - the collector for it was removed or made conditional")
}

func c05dedupe(c *core.Ctx) {
	const R = "C05.dedupe"
	c.Rule(R, "userTypesCollector.addType appends a name only after a failed membership test in alreadyProcessed and records it there (no duplicates in UsedUserTypes())")
	c.Floor(R, 1)
	f := c.P.Method("notations/jschema", "userTypesCollector", "addType")
	if f == nil {
		c.Unresolved(R, "(*notations/jschema.userTypesCollector).addType")
		return
	}
	// SSA: a Lookup commaok on alreadyProcessed; the append-store to userTypes is dominated by the !ok edge; a MapUpdate on the same map too
	var lk *ssa.Lookup
	var upd *ssa.MapUpdate
	var app *ssa.Store
	for _, b := range f.Blocks {
		for _, in := range b.Instrs {
			switch x := in.(type) {
			case *ssa.Lookup:
				if strings.Contains(mapIdentity(x.X), "userTypesCollector") {
					if x.CommaOk {
						lk = x
					} else if mt, isMap := x.X.Type().Underlying().(*types.Map); isMap {
						// a set kept as map[K]bool: the value IS the membership flag
						if b, isB := mt.Elem().Underlying().(*types.Basic); isB && b.Kind() == types.Bool {
							lk = x
						}
					}
				}
			case *ssa.MapUpdate:
				upd = x
			case *ssa.Store:
				if fa, ok := x.Addr.(*ssa.FieldAddr); ok && absintFieldName(fa) == "userTypes" {
					app = x
				}
			}
		}
	}
	ok := false
	if lk != nil && upd != nil && app != nil {
		// find the If on the ok flag
		for _, b := range f.Blocks {
			if ifi, isIf := b.Instrs[len(b.Instrs)-1].(*ssa.If); isIf {
				cond, absentIdx := ifi.Cond, 1
				if u, isU := cond.(*ssa.UnOp); isU && u.Op == token.NOT {
					cond, absentIdx = u.X, 0
				}
				isFlag := false
				if ex, isEx := cond.(*ssa.Extract); isEx && ex.Tuple == ssa.Value(lk) && ex.Index == 1 {
					isFlag = true
				}
				if !lk.CommaOk && cond == ssa.Value(lk) {
					isFlag = true
				}
				if isFlag {
					absent := b.Succs[absentIdx]
					if len(absent.Preds) == 1 && (absent == app.Block() || absent.Dominates(app.Block())) && (absent == upd.Block() || absent.Dominates(upd.Block())) {
						ok = true
					}
				}
			}
		}
	}
	c.Check(ok, R, "addType", c.P.Pos(f.Pos()), "addType: append and set-insert happen only on the not-yet-seen edge", "a type name can be appended without the membership test (duplicates) or is never recorded as seen")
}

func c05miss(c *core.Ctx) {
	const R = "C05.miss"
	c.Rule(R, "every failed lookup of a name in a type table (`v, ok := table[name]` on a map[string]ischema.Type / map[string]schema.Schema, in scope) leads, on its !ok edge, to an ErrUserTypeNotFound error built with that name; deviant sites are tabled with a reason")
	c.Floor(R, 5)
	table := map[string]string{
		"notations/jschema/checker.CheckRootSchema":               "the key is taken from the sorted key list of the very same map, so the entry exists",
		"(*notations/jschema.JSchema).CollectUserTypes":           "the key is taken from the sorted list of the very same map's `#` keys (fix b5152aa), so the entry exists; this is not a reference resolution",
		"notations/jschema/loader.AddUnnamedTypes":                "both lookups use keys taken from the sorted key lists of the very same maps (the deterministic work list of fix 8863d18), so the entries exist",
		"(*notations/jschema/checker.recursionChecker).checkType": "missing type is treated as `nothing to check` by the recursion checker: reported as the known finding C06.table (the table passed down lacks the named types)",
	}
	n := map[string]int{}
	for _, f := range c.P.ScopeFuncs() {
		fn := core.FuncName(f)
		for _, b := range f.Blocks {
			for _, in := range b.Instrs {
				lk, ok := in.(*ssa.Lookup)
				if !ok || !isTypeTable(lk.X.Type()) {
					continue
				}
				// a presence-only test (value unused) is a registration check, not a reference lookup
				valueUsed := !lk.CommaOk
				for _, ref := range *lk.Referrers() {
					if ex, isEx := ref.(*ssa.Extract); isEx && ex.Index == 0 && len(*ex.Referrers()) > 0 {
						valueUsed = true
					}
				}
				if !valueUsed {
					continue
				}
				n[fn]++
				key := core.F("%s:lookup#%d", fn, n[fn])
				pos := c.P.Pos(lk.Pos())
				what := "type-table lookup in " + fn
				if r, ok := table[c.P.PinnedName(fn)]; ok {
					c.Tabled(R, key, pos, what, r)
					continue
				}
				// the lookup of a tabled function after it moved into a helper the function calls
				if r := movedFromTabled(c, f, table); r != "" {
					c.Tabled(R, key, pos, what, r)
					continue
				}
				if !lk.CommaOk {
					c.Bad(R, key, pos, what, "the lookup does not test for presence: a missing type yields a zero Type (nil schema) instead of a 'type not found' diagnostic")
					continue
				}
				// find the !ok successor and look for a call to ErrUserTypeNotFound.F / a call chain raising it
				raised := false
				for _, ref := range *lk.Referrers() {
					ex, isEx := ref.(*ssa.Extract)
					if !isEx || ex.Index != 1 {
						continue
					}
					for _, r2 := range *ex.Referrers() {
						ifi, isIf := r2.(*ssa.If)
						if !isIf {
							continue
						}
						absent := ifi.Block().Succs[1]
						raised = raised || raisesNotFound(absent, 3)
					}
					// a helper that hands (value, ok) to its callers: every caller raises on !ok
					if !raised {
						raised = callersRaiseOnAbsent(c, f, ex, 0)
					}
				}
				c.Check(raised, R, key, pos, what, "the !ok edge of the lookup does not raise ErrUserTypeNotFound: a reference to an unregistered type is silently accepted or fails with another diagnostic")
			}
		}
	}
}

// raisesNotFound: within `depth` blocks from b there is a call (errs.Code).F on the ErrUserTypeNotFound constant.
func raisesNotFound(b *ssa.BasicBlock, depth int) bool {
	seen := map[*ssa.BasicBlock]bool{}
	var walk func(b *ssa.BasicBlock, d int) bool
	walk = func(b *ssa.BasicBlock, d int) bool {
		if seen[b] || d < 0 {
			return false
		}
		seen[b] = true
		for _, in := range b.Instrs {
			if call, ok := in.(*ssa.Call); ok {
				if sc := call.Call.StaticCallee(); sc != nil && sc.Name() == "F" && len(call.Call.Args) > 0 {
					if cst, ok := call.Call.Args[0].(*ssa.Const); ok && cst.Value != nil && cst.Value.ExactString() == "1302" {
						return true
					}
				}
				// a `Must...` accessor of the module that raises the error itself on every path that does not return
				if sc := call.Call.StaticCallee(); sc != nil && sc.Blocks != nil && strings.HasPrefix(sc.Name(), "Must") && d == depth {
					for _, cb := range sc.Blocks {
						for _, cin := range cb.Instrs {
							if c2, ok := cin.(*ssa.Call); ok {
								if g := c2.Call.StaticCallee(); g != nil && g.Name() == "F" && len(c2.Call.Args) > 0 {
									if cst, ok := c2.Call.Args[0].(*ssa.Const); ok && cst.Value != nil && cst.Value.ExactString() == "1302" {
										return true
									}
								}
							}
						}
					}
				}
			}
		}
		for _, s := range b.Succs {
			if walk(s, d-1) {
				return true
			}
		}
		return false
	}
	return walk(b, depth)
}

// c05rawkey: decoded keys must not be re-interpreted as raw key text.
func c05rawkey(c *core.Ctx) {
	const R = "C05.rawkey"
	c.Rule(R, "functions that interpret RAW key/type text (ObjectNode.ChildByRawKey decides `is this a key shortcut` from the text and unquotes it) are never called with an already decoded string (taint: result of Unquote and every field/parameter that stores it, e.g. ObjectNodeKey.Key): a decoded key such as \"@id\" would be taken for a shortcut and the wrong child (or none) is followed; children are looked up with Child(key, isShortcut) using the key's own flag")
	c.Floor(R, 1)
	t := computeTaint(c)
	n := 0
	for _, cs := range c.P.Calls() {
		name := core.FullName(core.Callee(cs.Pkg, cs.Call))
		switch name {
		case "(*notations/jschema/ischema.ObjectNode).ChildByRawKey":
			n++
			fn := core.DeclName(cs.Pkg, cs.Decl)
			w := ""
			if len(cs.Call.Args) == 1 {
				w = t.exprTainted(cs.Pkg, cs.Call.Args[0])
			}
			c.Check(w == "", R, core.F("%s:ChildByRawKey#%d", fn, n), c.P.Pos(cs.Call.Pos()), "ChildByRawKey("+core.ExprStr(cs.Call.Args[0])+") in "+fn, "a decoded key ("+w+") is passed as raw key text: an ordinary property whose name starts with `@` is mistaken for a key shortcut and its value is not followed")
		case "(*notations/jschema/ischema.ObjectNode).Child":
			// the shortcut flag must come from the same key record as the key
			if len(cs.Call.Args) == 2 {
				n++
				fn := core.DeclName(cs.Pkg, cs.Decl)
				k, f := core.ExprStr(cs.Call.Args[0]), core.ExprStr(cs.Call.Args[1])
				ok := true
				if strings.HasSuffix(f, ".IsShortcut") {
					base := strings.TrimSuffix(f, ".IsShortcut")
					ok = k == base+".Key" || keyDefinedFrom(cs, cs.Call.Args[0], base+".Key")
				}
				c.Check(ok, R, core.F("%s:Child#%d", fn, n), c.P.Pos(cs.Call.Pos()), "Child("+k+", "+f+") in "+fn, "the key and the shortcut flag do not come from the same key record")
			}
		}
	}
}

func keyDefinedFrom(cs core.CallSite, e ast.Expr, want string) bool {
	id, ok := ast.Unparen(e).(*ast.Ident)
	if !ok {
		return false
	}
	def := findDef(cs.Pkg, cs.Pkg.TypesInfo.ObjectOf(id))
	return def != nil && core.ExprStr(def) == want
}

// c05descend: the collector's loops visit every child.
func c05descend(c *core.Ctx) {
	const R = "C05.descend"
	c.Rule(R, "in every method of userTypesCollector, a loop over children / keys that contains the recursive collect() call visits every element: the loop body has no continue/break/return/goto, and the only conditions the recursive call may sit under are the success flag of the child lookup (`ok`) or a nil test - never a property of the key (shortcut or not), which would leave the types referenced below some keys out of UsedUserTypes()")
	c.Floor(R, 2)
	n := 0
	for _, d := range c.P.FuncDecls() {
		name := core.DeclName(d.Pkg, d.Decl)
		if !strings.HasPrefix(name, "(*notations/jschema.userTypesCollector).") || d.Decl.Body == nil {
			continue
		}
		ast.Inspect(d.Decl.Body, func(nd ast.Node) bool {
			var body *ast.BlockStmt
			switch x := nd.(type) {
			case *ast.RangeStmt:
				body = x.Body
			case *ast.ForStmt:
				body = x.Body
			default:
				return true
			}
			// does the body hold a recursive collector call?
			var rec *ast.CallExpr
			var stack []ast.Node
			var recStack []ast.Node
			ast.Inspect(body, func(m ast.Node) bool {
				if m == nil {
					stack = stack[:len(stack)-1]
					return true
				}
				stack = append(stack, m)
				if call, ok := m.(*ast.CallExpr); ok && rec == nil {
					if strings.HasPrefix(core.FullName(core.Callee(d.Pkg, call)), "(*notations/jschema.userTypesCollector).collect") {
						rec = call
						recStack = append([]ast.Node(nil), stack...)
					}
				}
				return true
			})
			if rec == nil {
				return true
			}
			n++
			key := core.F("%s:loop#%d", name, n)
			pos := c.P.Pos(nd.Pos())
			bad := ""
			ast.Inspect(body, func(m ast.Node) bool {
				switch y := m.(type) {
				case *ast.FuncLit:
					return false
				case *ast.BranchStmt:
					bad = y.Tok.String() + " at " + c.P.Pos(y.Pos())
				case *ast.ReturnStmt:
					bad = "return at " + c.P.Pos(y.Pos())
				}
				return true
			})
			if bad == "" {
				for _, anc := range recStack {
					ifs, ok := anc.(*ast.IfStmt)
					if !ok {
						continue
					}
					cond := ast.Unparen(ifs.Cond)
					okCond := false
					if id, isID := cond.(*ast.Ident); isID {
						// second result of a tuple assignment (comma-ok)
						if def := commaOKDef(d.Pkg, d.Decl, id); def {
							okCond = true
						}
					}
					if be, isBin := cond.(*ast.BinaryExpr); isBin && be.Op == token.NEQ && core.ExprStr(be.Y) == "nil" {
						okCond = true
					}
					if !okCond {
						bad = "the recursive call is conditional on `" + core.ExprStr(ifs.Cond) + "`"
					}
				}
			}
			c.Check(bad == "", R, key, pos, "loop in "+name+" descends into every element", "some elements are skipped ("+bad+"): type names used below them are missing from UsedUserTypes()")
			return true
		})
	}
}

// commaOKDef: id is defined as the second left-hand side of `a, id := f(...)` in fn.
func commaOKDef(pk *packagesPackage, fn *ast.FuncDecl, id *ast.Ident) bool {
	obj := pk.TypesInfo.ObjectOf(id)
	found := false
	ast.Inspect(fn.Body, func(n ast.Node) bool {
		as, ok := n.(*ast.AssignStmt)
		if !ok || len(as.Lhs) != 2 || len(as.Rhs) != 1 {
			return true
		}
		if l, ok := as.Lhs[1].(*ast.Ident); ok && pk.TypesInfo.ObjectOf(l) == obj {
			if _, isCall := ast.Unparen(as.Rhs[0]).(*ast.CallExpr); isCall {
				found = true
			}
		}
		return true
	})
	return found
}

// c05record: every alternative written in the schema is recorded.
func c05record(c *core.Ctx) {
	const R = "C05.record"
	c.Rule(R, "the recorders of type names (TypesList.AddName, TypesList.AddNameWithASTNode) append unconditionally: no return statement and no condition around the appends. Every `@a | @b` alternative and every `or` item written in the schema must reach the list the resolvers and the collector read - a de-duplication or filter there silently drops a reference (and its `type not found` diagnostic)")
	c.Floor(R, 2)
	for _, fn := range []string{"(*notations/jschema/ischema/constraint.TypesList).AddName", "(*notations/jschema/ischema/constraint.TypesList).AddNameWithASTNode"} {
		d := c.P.FindDecl(fn)
		if d == nil {
			c.Unresolved(R, fn)
			continue
		}
		bad := ""
		appends := 0
		for _, st := range d.Decl.Body.List {
			switch x := st.(type) {
			case *ast.AssignStmt:
				if len(x.Rhs) == 1 && strings.HasPrefix(core.ExprStr(x.Rhs[0]), "append(") {
					appends++
				}
			case *ast.ExprStmt:
				// delegation to the sibling recorder
				if call, ok := x.X.(*ast.CallExpr); ok && strings.Contains(core.ExprStr(call.Fun), ".AddName") {
					appends++
				}
			case *ast.IfStmt, *ast.ReturnStmt, *ast.SwitchStmt, *ast.ForStmt, *ast.RangeStmt:
				bad = "control flow (" + core.ExprStr0(st) + ")"
			}
		}
		if appends == 0 && bad == "" {
			bad = "no append at the top level of the function"
		}
		c.Check(bad == "", R, fn, c.P.Pos(d.Decl.Pos()), fn+" records every name it is given", "a name can be dropped: "+clip(bad, 160))
	}
}

// c05unnamed: the collector also looks into the unnamed types of the schema.
func c05unnamed(c *core.Ctx) {
	const R = "C05.unnamed"
	c.Rule(R, "JSchema.CollectUserTypes collects from the root node AND from the root node of every unnamed type of the schema (a loop over s.Inner.TypesList() that calls collectUserTypes): a rule-set item of an `or` rule that carries more than `type` is stored as an unnamed type, and the type names written inside it are part of the schema text. The names found there are sorted before they are added (unnamed types are keyed by an address-based name, so map order must not decide the order of the result)")
	c.Floor(R, 1)
	d := c.P.FindDecl("(*notations/jschema.JSchema).CollectUserTypes")
	if d == nil {
		c.Unresolved(R, "(*notations/jschema.JSchema).CollectUserTypes")
		return
	}
	loop, sorted := false, false
	inspectDeep(c, d, 1, func(hd *core.DeclSite, n ast.Node) bool {
		var body *ast.BlockStmt
		switch x := n.(type) {
		case *ast.RangeStmt:
			body = x.Body
		case *ast.ForStmt:
			body = x.Body
		case *ast.CallExpr:
			if f := core.ExprStr(x.Fun); f == "sort.Strings" || f == "sort.Slice" || f == "sort.SliceStable" || f == "slices.Sort" {
				sorted = true
			}
		}
		if body != nil {
			// a loop (over the types of the schema) whose body collects from a type's root node
			ast.Inspect(body, func(m ast.Node) bool {
				if call, ok := m.(*ast.CallExpr); ok && core.ExprStr(call.Fun) == "collectUserTypes" {
					loop = true
				}
				return true
			})
		}
		return true
	})
	c.Check(loop && sorted, R, "CollectUserTypes:unnamed", c.P.Pos(d.Decl.Pos()), "CollectUserTypes walks the unnamed types and sorts what it finds there", core.F("type names used inside `or` rule-sets are missing from UsedUserTypes(), or come in map order (walks unnamed types: %v, sorted: %v)", loop, sorted))
}

// callersRaiseOnAbsent: the presence flag `okv` of a lookup is a result of f; every static caller of f
// in scope tests that result and raises ErrUserTypeNotFound on its false edge (or hands it up once more).
func callersRaiseOnAbsent(c *core.Ctx, f *ssa.Function, okv ssa.Value, depth int) bool {
	if depth > 1 {
		return false
	}
	resIdx := -1
	// `if !ok { return ..., false }`: the flag is handed on as a constant
	for _, ref := range *okv.Referrers() {
		ifi, isIf := ref.(*ssa.If)
		if !isIf {
			continue
		}
		absent := ifi.Block().Succs[1]
		for i := 0; i < 3 && absent != nil; i++ {
			last := absent.Instrs[len(absent.Instrs)-1]
			if r, ok := last.(*ssa.Return); ok {
				for k, v := range r.Results {
					if cst, ok := v.(*ssa.Const); ok && cst.Value != nil && cst.Value.Kind() == constant.Bool && !constant.BoolVal(cst.Value) {
						resIdx = k
					}
				}
				break
			}
			if _, ok := last.(*ssa.Jump); ok {
				absent = absent.Succs[0]
				continue
			}
			break
		}
	}
	for _, b := range f.Blocks {
		if r, ok := b.Instrs[len(b.Instrs)-1].(*ssa.Return); ok {
			for i, v := range r.Results {
				if v == okv {
					resIdx = i
				}
				if ph, isPhi := v.(*ssa.Phi); isPhi {
					for _, e := range ph.Edges {
						if e == okv {
							resIdx = i
						}
					}
				}
			}
		}
	}
	if resIdx < 0 {
		return false
	}
	sites := 0
	for _, g := range c.P.ScopeFuncs() {
		for _, b := range g.Blocks {
			for _, in := range b.Instrs {
				call, ok := in.(*ssa.Call)
				if !ok || call.Call.StaticCallee() != f {
					continue
				}
				sites++
				raised := false
				for _, ref := range *call.Referrers() {
					ex, isEx := ref.(*ssa.Extract)
					if !isEx || ex.Index != resIdx {
						continue
					}
					for _, r2 := range *ex.Referrers() {
						if ifi, isIf := r2.(*ssa.If); isIf {
							raised = raised || raisesNotFound(ifi.Block().Succs[1], 6)
						}
					}
					if !raised {
						raised = callersRaiseOnAbsent(c, g, ex, depth+1)
					}
				}
				if !raised {
					return false
				}
			}
		}
	}
	return sites > 0
}

// movedFromTabled: f is called by a tabled function of the same package that no longer looks up a type
// table itself - the tabled lookup was extracted into f. Returns the reason, or "".
func movedFromTabled(c *core.Ctx, f *ssa.Function, table map[string]string) string {
	for _, g := range c.P.ScopeFuncs() {
		r, ok := table[core.FuncName(g)]
		if !ok || g.Pkg != f.Pkg {
			continue
		}
		calls, own := false, false
		for _, b := range g.Blocks {
			for _, in := range b.Instrs {
				switch x := in.(type) {
				case *ssa.Call:
					if x.Call.StaticCallee() == f {
						calls = true
					}
				case *ssa.Lookup:
					if isTypeTable(x.X.Type()) {
						own = true
					}
				}
			}
		}
		if calls && !own {
			return r + " [lookup moved from " + core.FuncName(g) + " into its helper]"
		}
	}
	return ""
}
