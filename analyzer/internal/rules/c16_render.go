package rules

import (
	"go/ast"
	"go/token"
	"strings"

	"jsverif/internal/core"
)

// stdPanicTable: call sites of standard-library functions that panic on bad (non-constant)
// arguments, and why each is safe / where the panic is converted.
var stdPanicTable = map[string]string{
	"notations/jschema/ischema/constraint.NewRegex:regexp.MustCompile": "the string panic of MustCompile is raised under the loader's CatchLexEventError converter (both rule loaders call NewConstraintFromRule under it) and is turned into a positioned ErrGeneric diagnostic",
	"(*kit.JSchemaError).pointerToTheErrorCharacter:strings.Repeat":   "count = index - lineBegin - leadingBlanks; an error index never lies inside the leading blanks of a line that has a non-blank byte, and for an all-blank line CountSpacesFromLeft returns 0 (contract checked below), so the count is >= 0",
}

// c16render: rendering a diagnostic never panics.
func c16render(c *core.Ctx) { c16renderAs(c, "C16.render") }

func c16renderAs(c *core.Ctx, R string) {
	c.Rule(R, "(a) every call of a standard-library function that panics on a bad non-constant argument (strings.Repeat with a negative count, regexp.MustCompile, template.Must) is guarded or tabled with the invariant that makes it safe; (b) the callee side of the tabled invariant for JSchemaError.String(): bytes.Bytes.CountSpacesFromLeft returns the loop index at the first non-blank byte and the constant 0 when there is none - the pointer line `--^` is built with strings.Repeat(\"-\", index - lineBegin - spaces), which panics with a raw runtime error if the blanks of an all-blank last line were counted")
	c.Floor(R, 3)
	n := 0
	for _, cs := range c.P.Calls() {
		name := core.FullName(core.Callee(cs.Pkg, cs.Call))
		switch name {
		case "strings.Repeat", "regexp.MustCompile", "regexp.MustCompilePOSIX", "text/template.Must":
		default:
			continue
		}
		// constant arguments are decided at compile time
		allConst := true
		for _, a := range cs.Call.Args {
			if core.ConstOf(cs.Pkg, a) == nil {
				allConst = false
			}
		}
		fn := core.DeclName(cs.Pkg, cs.Decl)
		n++
		key := fn + ":" + name
		pos := c.P.Pos(cs.Call.Pos())
		what := name + "(" + core.ExprStr(cs.Call.Args[len(cs.Call.Args)-1]) + ") in " + fn
		if allConst {
			c.OKd(R, key, pos, what, "constant arguments")
			continue
		}
		if name == "strings.Repeat" {
			// a dominating non-negativity guard on the count
			facts := core.FactsAt(cs.Pkg, cs.Stack)
			cnt := core.ExprStr(cs.Call.Args[1])
			guarded := false
			for _, f := range facts {
				if be, ok := f.Cond.(*ast.BinaryExpr); ok && core.ExprStr(be.X) == cnt && core.ExprStr(be.Y) == "0" {
					if (f.Truth && (be.Op == token.GEQ || be.Op == token.GTR)) || (!f.Truth && be.Op == token.LSS) {
						guarded = true
					}
				}
			}
			if guarded {
				c.OKd(R, key, pos, what, "count guarded non-negative")
				continue
			}
		}
		if r, ok := stdPanicTable[key]; ok {
			c.Tabled(R, key, pos, what, r)
		} else {
			c.Bad(R, key, pos, what, "the standard-library call panics (with a non-error value or a raw runtime error) on a bad argument and neither a guard nor a reasoned table entry covers it")
		}
	}
	// (b) contract of CountSpacesFromLeft
	d := c.P.FindDecl("(bytes.Bytes).CountSpacesFromLeft")
	if d == nil {
		c.Unresolved(R, "(bytes.Bytes).CountSpacesFromLeft")
		return
	}
	okLoop, okTail := false, false
	for _, st := range d.Decl.Body.List {
		switch x := st.(type) {
		case *ast.RangeStmt:
			idx := ""
			if x.Key != nil {
				idx = core.ExprStr(x.Key)
			}
			ast.Inspect(x.Body, func(nd ast.Node) bool {
				if ifs, ok := nd.(*ast.IfStmt); ok && strings.Contains(core.ExprStr(ifs.Cond), "IsBlank(") && strings.HasPrefix(core.ExprStr(ifs.Cond), "!") {
					for _, s2 := range ifs.Body.List {
						if r, ok := s2.(*ast.ReturnStmt); ok && len(r.Results) == 1 && core.ExprStr(r.Results[0]) == idx && idx != "" {
							okLoop = true
						}
					}
				}
				return true
			})
		case *ast.ReturnStmt:
			if len(x.Results) == 1 {
				if v := core.ConstOf(d.Pkg, x.Results[0]); v != nil && v.ExactString() == "0" {
					okTail = true
				}
			}
		}
	}
	c.Check(okLoop && okTail, R, "CountSpacesFromLeft:contract", c.P.Pos(d.Decl.Pos()), "CountSpacesFromLeft = index of the first non-blank byte, 0 if there is none", core.F("the contract the diagnostic renderer relies on is broken (first-non-blank index returned: %v, constant 0 for all-blank input: %v): String() of an error positioned on an all-blank last line panics with `strings: negative Repeat count`", okLoop, okTail))
}
