package rules

import (
	"go/ast"
	"go/token"
	"sort"
	"strings"

	"jsverif/internal/core"
)

// stdPanicTable: call sites of standard-library functions that panic on bad (non-constant)
// arguments, and why each is safe / where the panic is converted.
var stdPanicTable = map[string]string{
	"notations/jschema/ischema/constraint.NewRegex:regexp.MustCompile": "the string panic of MustCompile is raised under the loader's CatchLexEventError converter (both rule loaders call NewConstraintFromRule under it) and is turned into a positioned ErrGeneric diagnostic",
}

// c16render: rendering a diagnostic never panics.
func c16render(c *core.Ctx) { c16renderAs(c, "C16.render") }

func c16renderAs(c *core.Ctx, R string) {
	c.Rule(R, "every call of a standard-library function that panics on a bad non-constant argument (strings.Repeat with a negative count, regexp.MustCompile, template.Must) is guarded or tabled with the invariant that makes it safe. The pointer line `--^` of JSchemaError.String() is built with strings.Repeat(\"-\", index - lineBegin - leadingBlanks): the count must be clamped (or proven) non-negative at the call, no invariant about where error indexes lie is trusted")
	c.Floor(R, 2)
	n := 0
	for _, cs := range c.P.Calls() {
		name := core.FullName(core.Callee(cs.Pkg, cs.Call))
		switch name {
		case "strings.Repeat", "regexp.MustCompile", "regexp.MustCompilePOSIX", "text/template.Must":
		default:
			continue
		}
		// constant arguments are decided at compile time
		allConst := true
		for _, a := range cs.Call.Args {
			if core.ConstOf(cs.Pkg, a) == nil {
				allConst = false
			}
		}
		fn := core.DeclName(cs.Pkg, cs.Decl)
		n++
		key := fn + ":" + name
		pos := c.P.Pos(cs.Call.Pos())
		what := name + "(" + core.ExprStr(cs.Call.Args[len(cs.Call.Args)-1]) + ") in " + fn
		if allConst {
			c.OKd(R, key, pos, what, "constant arguments")
			continue
		}
		if name == "strings.Repeat" {
			// a dominating non-negativity guard on the count
			facts := core.FactsAt(cs.Pkg, cs.Stack)
			cnt := core.ExprStr(cs.Call.Args[1])
			guarded := false
			for _, f := range facts {
				if be, ok := f.Cond.(*ast.BinaryExpr); ok && core.ExprStr(be.X) == cnt && core.ExprStr(be.Y) == "0" {
					if (f.Truth && (be.Op == token.GEQ || be.Op == token.GTR)) || (!f.Truth && be.Op == token.LSS) {
						guarded = true
					}
				}
			}
			// clamp idiom: `if cnt < 0 { cnt = 0 }` is the statement right before the one holding the call
			if !guarded {
				guarded = clampedBefore(cs.Stack, cnt)
			}
			if guarded {
				c.OKd(R, key, pos, what, "count guarded non-negative")
				continue
			}
		}
		if r, ok := stdPanicTable[key]; ok {
			c.Tabled(R, key, pos, what, r)
		} else {
			c.Bad(R, key, pos, what, "the standard-library call panics (with a non-error value or a raw runtime error) on a bad argument and neither a guard nor a reasoned table entry covers it")
		}
	}
}

// clampedBefore: in the innermost block holding the call, the statement just before the one
// containing the call is `if <cnt> < 0 { <cnt> = 0 }` (or <= -1 / assigns a non-negative constant).
func clampedBefore(stack []ast.Node, cnt string) bool {
	for i := len(stack) - 1; i > 0; i-- {
		blk, ok := stack[i-1].(*ast.BlockStmt)
		if !ok {
			continue
		}
		for j, st := range blk.List {
			if st != stack[i] || j == 0 {
				continue
			}
			ifs, ok := blk.List[j-1].(*ast.IfStmt)
			if !ok || ifs.Init != nil || ifs.Else != nil {
				return false
			}
			be, ok := ifs.Cond.(*ast.BinaryExpr)
			if !ok || be.Op != token.LSS || core.ExprStr(be.X) != cnt || core.ExprStr(be.Y) != "0" {
				return false
			}
			for _, s2 := range ifs.Body.List {
				if as, ok := s2.(*ast.AssignStmt); ok && len(as.Lhs) == 1 && len(as.Rhs) == 1 && core.ExprStr(as.Lhs[0]) == cnt && core.ExprStr(as.Rhs[0]) == "0" {
					return true
				}
			}
			return false
		}
		return false
	}
	return false
}

// c16stale: the values cached by JSchemaError.preparation() are dropped when their source changes.
func c16stale(c *core.Ctx) {
	const R = "C16.stale"
	c.Rule(R, "JSchemaError.preparation() caches values computed from e.file (every field it stores besides `prepared`) and is skipped while e.prepared is set; every method that assigns e.file therefore also resets e.prepared. Otherwise the renderer walks the new text with the length and newline symbol of the old one (String() after SetFile: index out of range)")
	c.Floor(R, 2)
	prep := c.P.FindDecl("(*kit.JSchemaError).preparation")
	if prep == nil {
		c.Unresolved(R, "(*kit.JSchemaError).preparation")
		return
	}
	// the cached fields and their sources
	cached := map[string]bool{}
	fromFile := true
	early := false
	ast.Inspect(prep.Decl.Body, func(n ast.Node) bool {
		switch n := n.(type) {
		case *ast.IfStmt:
			if core.ExprStr(n.Cond) == "e.prepared" && len(n.Body.List) == 1 {
				if _, isRet := n.Body.List[0].(*ast.ReturnStmt); isRet {
					early = true
				}
			}
		case *ast.AssignStmt:
			for i, l := range n.Lhs {
				ls := core.ExprStr(l)
				if strings.HasPrefix(ls, "e.") && ls != "e.prepared" {
					cached[ls] = true
					if i < len(n.Rhs) && !strings.Contains(core.ExprStr(n.Rhs[i]), "e.file") {
						fromFile = false
					}
				}
			}
		}
		return true
	})
	names := make([]string, 0, len(cached))
	for k := range cached {
		names = append(names, k)
	}
	sort.Strings(names)
	c.Check(early && fromFile && len(cached) > 0, R, "(*kit.JSchemaError).preparation:cache", c.P.Pos(prep.Decl.Pos()),
		"preparation() caches "+strings.Join(names, ", ")+" computed from e.file and returns early while e.prepared", "the cache protocol of preparation() is not the one this rule knows (prepared flag + values computed from e.file)")
	for _, d := range c.P.FuncDecls() {
		if core.Rel(d.Pkg.PkgPath) != "kit" || d.Decl.Recv == nil || d.Decl.Body == nil {
			continue
		}
		if !strings.Contains(core.ExprStr(d.Decl.Recv.List[0].Type), "JSchemaError") || len(d.Decl.Recv.List[0].Names) == 0 {
			continue
		}
		recv := d.Decl.Recv.List[0].Names[0].Name
		setsFile, resets := false, false
		var at ast.Node
		ast.Inspect(d.Decl.Body, func(n ast.Node) bool {
			if as, ok := n.(*ast.AssignStmt); ok {
				for i, l := range as.Lhs {
					switch core.ExprStr(l) {
					case recv + ".file":
						setsFile, at = true, as
					case recv + ".prepared":
						if i < len(as.Rhs) && core.ExprStr(as.Rhs[i]) == "false" {
							resets = true
						}
					}
				}
			}
			return true
		})
		if !setsFile {
			continue
		}
		fn := core.DeclName(d.Pkg, d.Decl)
		_, ptr := d.Decl.Recv.List[0].Type.(*ast.StarExpr)
		c.Check(resets || !ptr, R, fn+":file", c.P.Pos(at.Pos()), fn+" replaces the file and resets the prepared flag", "the file is replaced while the cached "+strings.Join(names, ", ")+" of the previous file stay valid (prepared is not reset)")
	}
}
