package rules

import (
	"go/constant"
	"go/types"
	"strings"

	"golang.org/x/tools/go/ssa"

	"jsverif/internal/absint"
	"jsverif/internal/core"
)

// C03.subset: every RFC 8259 text without exponent numbers is accepted by the
// schema scanner. One-directional lock-step simulation: the reference JSON
// recogniser (minus exponents) drives the exploration; wherever the reference
// accepts a byte the extracted model of notations/jschema/scanner must accept
// it too, and wherever the reference accepts end of input the model must as
// well. Bytes the reference rejects are not explored (the schema language is a
// superset: annotations, comments, shortcuts).

// maxRTS bounds the return-to-step stack in the product explorations: on inputs of bounded nesting a
// correct scanner keeps it at depth <= 2 (escape / comment / annotation return points).
const maxRTS = 6

// jsCfg extends implCfg with the scanner's context and context stack.
type jsCfg struct {
	implCfg
	ctxStack []string // "Type,ArrayHasItem"
}

func (c jsCfg) key() string { return c.implCfg.key() + "|" + strings.Join(c.ctxStack, ";") }

type jsModel struct {
	*implModel
}

func (jm *jsModel) ctxOf(c *jsCfg) string {
	return c.fields["context.Type"] + "," + c.fields["context.ArrayHasItem"]
}

func (jm *jsModel) setCtx(c *jsCfg, s string) {
	parts := strings.SplitN(s, ",", 2)
	c.fields["context.Type"] = parts[0]
	c.fields["context.ArrayHasItem"] = parts[1]
}

// leafJS adds the context-related symbols to the base leaf evaluator.
func (jm *jsModel) leafJS(c *jsCfg, atEOF bool) func(absint.Sym) constant.Value {
	base := jm.leaf(&c.implCfg, atEOF)
	var leaf func(s absint.Sym) constant.Value
	leaf = func(s absint.Sym) constant.Value {
		if v := base(s); v != nil {
			return v
		}
		switch s.Op {
		case "call":
			if strings.Contains(s.Name, "Stack[") && strings.Contains(s.Name, ").Len") && len(s.Args) == 1 && s.Args[0].Key() == "load:&s.prevContextsStack" {
				return constant.MakeInt64(int64(len(c.ctxStack)))
			}
		}
		return nil
	}
	return leaf
}

func (jm *jsModel) selectPathJS(paths []scanPath, c *jsCfg) (*scanPath, string) {
	var sel *scanPath
	for i := range paths {
		p := &paths[i]
		ok := true
		for _, a := range p.atoms {
			v := absint.EvalWith(a.Cond, jm.leafJS(c, false))
			if v == nil || v.Kind() != constant.Bool {
				return nil, "guard `" + clip(a.Cond.Key(), 200) + "` is not determined by the modelled scanner state"
			}
			if constant.BoolVal(v) != a.Truth {
				ok = false
				break
			}
		}
		if ok {
			if sel != nil {
				return nil, "two paths match one configuration"
			}
			sel = p
		}
	}
	if sel == nil {
		return nil, "no path matches the configuration"
	}
	return sel, ""
}

// stepJS applies the ordered effects of the selected path.
func (jm *jsModel) stepJS(c jsCfg, b int) (jsCfg, bool, string) {
	rows := jm.m.rows[c.step]
	if rows == nil {
		return c, false, "unknown state " + c.step
	}
	p, why := jm.selectPathJS(rows[b].paths, &c)
	if p == nil {
		return c, false, why
	}
	switch p.kind {
	case "abort":
		return c, false, "aborted path: " + p.errCtx
	case "panic", "error":
		return c, false, ""
	}
	n := jsCfg{implCfg: implCfg{step: c.step, unfinished: c.unfinished, saw: c.saw}}
	n.stack = append([]string(nil), c.stack...)
	n.rts = append([]string(nil), c.rts...)
	n.ctxStack = append([]string(nil), c.ctxStack...)
	n.fields = map[string]string{}
	for k, v := range c.fields {
		n.fields[k] = v
	}
	var finds []string
	for _, op := range p.ops {
		switch op.kind {
		case "found":
			finds = append(finds, op.name)
		case "push":
			switch {
			case strings.Contains(op.name, "returnToStep"):
				n.rts = append(n.rts, stateNameOf(op.val))
			case strings.Contains(op.name, "prevContextsStack"):
				n.ctxStack = append(n.ctxStack, jm.ctxOf(&n))
			default:
				return c, false, "push on an unmodelled stack " + op.name
			}
		case "pop":
			// the popped value is used by a later store (step / context); the pop itself happens there
		case "store":
			switch op.name {
			case "step":
				nm := stateNameOf(op.val)
				switch nm {
				case "<pop>":
					if len(n.rts) == 0 {
						return c, false, ""
					}
					n.step = n.rts[len(n.rts)-1]
					n.rts = n.rts[:len(n.rts)-1]
				case "<dyn>":
					return c, false, "next state is not a constant"
				default:
					n.step = nm
				}
			case "unfinishedLiteral":
				cst, ok := op.val.(absint.Const)
				if !ok || cst.V == nil {
					return c, false, "unfinishedLiteral set to a non-constant"
				}
				n.unfinished = constant.BoolVal(cst.V)
			case "context":
				// whole-struct store: a fresh struct (newContext) or the value popped from prevContextsStack
				switch v := op.val.(type) {
				case absint.Sym:
					switch {
					case v.Op == "struct":
						typ, has := "0", "false"
						for _, fa := range v.Args {
							fs := fa.(absint.Sym)
							if cst, ok := fs.Args[0].(absint.Const); ok && cst.V != nil {
								switch fs.Name {
								case ".Type":
									typ = cst.V.ExactString()
								case ".ArrayHasItem":
									has = cst.V.ExactString()
								}
							}
						}
						jm.setCtx(&n, typ+","+has)
					case v.Op == "call" && strings.Contains(v.Name, ").Pop"):
						if len(n.ctxStack) == 0 {
							return c, false, ""
						}
						jm.setCtx(&n, n.ctxStack[len(n.ctxStack)-1])
						n.ctxStack = n.ctxStack[:len(n.ctxStack)-1]
					default:
						return c, false, "context set to an unmodelled value " + clip(v.Key(), 80)
					}
				default:
					return c, false, "context set to an unmodelled value"
				}
			default:
				if cst, ok := op.val.(absint.Const); ok {
					if cst.V == nil {
						n.fields[op.name] = "nil"
					} else {
						n.fields[op.name] = cst.V.ExactString()
					}
				} else {
					// a value computed from modelled state (e.g. allowAnnotation = !context.ArrayHasItem)
					v := absint.EvalWith(op.val, jm.leafJS(&c, false))
					if v == nil {
						n.fields[op.name] = "?"
					} else {
						n.fields[op.name] = v.ExactString()
					}
				}
			}
		}
	}
	if !jm.applyFinds(&n.implCfg, finds) {
		return n, false, ""
	}
	return n, true, ""
}

func (jm *jsModel) acceptsEOFJS(c jsCfg) (bool, string) {
	cfg := c
	for i := 0; i < 8; i++ {
		var act string
		var queued []string
		n := 0
		for _, r := range jm.eof {
			ok := true
			for _, a := range r.atoms {
				v := absint.EvalWith(a.Cond, jm.leafJS(&cfg, true))
				if v == nil || v.Kind() != constant.Bool {
					return false, "end-of-input guard `" + clip(a.Cond.Key(), 160) + "` not determined"
				}
				if constant.BoolVal(v) != a.Truth {
					ok = false
					break
				}
			}
			if ok {
				act = r.action
				queued = r.queued
				n++
			}
		}
		if n != 1 {
			return false, core.F("%d end-of-input rules match", n)
		}
		switch {
		case act == "accept":
			return true, ""
		case act == "reject":
			return false, ""
		case strings.HasPrefix(act, "emit:"):
			if !jm.applyFinds(&cfg.implCfg, append([]string{strings.TrimPrefix(act, "emit:")}, queued...)) {
				return false, ""
			}
		}
	}
	return false, "end-of-input procedure does not terminate"
}

// refJSONNoExp: RFC 8259 without exponent numbers.
func refJSONNoExp(r refCfg, b byte) (refCfg, bool) {
	n, ok := refStep(r, b, false)
	if !ok || n.st == jNumExp {
		return n, false
	}
	return n, true
}

func c03subset(c *core.Ctx) {
	const R = "C03.subset"
	c.Rule(R, "every RFC 8259 text without exponent numbers is accepted by the schema scanner: one-directional lock-step simulation of the reference JSON recogniser by the pushdown model extracted from notations/jschema/scanner (per-byte summaries of its 62 state functions, end-of-input table from Next, pair tables, context stack, annotation mode and the other constant fields tracked in the configuration), over every byte the reference accepts, all configurations up to nesting depth 3 - each configuration where the reference accepts a byte or end of input and the scanner model rejects is reported with a shortest witness")
	c.Floor(R, 20)
	jm, m, initial, fields, ok := newJSModel(c, R)
	if !ok {
		return
	}
	type item struct {
		ic jsCfg
		rc refCfg
		w  string
	}
	start := item{jsCfg{implCfg: implCfg{step: initial, fields: fields}}, refCfg{st: jV}, ""}
	seen := map[string]bool{start.ic.key() + "#" + start.rc.key(): true}
	queue := []item{start}
	reported := map[string]bool{}
	report := func(key, pos, what, detail string) {
		if !reported[key] {
			reported[key] = true
			c.Bad(R, key, pos, what, detail)
		}
	}
	reached := map[string]bool{}
	trans := 0
	for len(queue) > 0 {
		it := queue[0]
		queue = queue[1:]
		reached[it.ic.step] = true
		fpos := c.P.Pos(m.states[it.ic.step].Pos())
		if refAcceptsEOF(it.rc) {
			ia, why := jm.acceptsEOFJS(it.ic)
			if why != "" {
				report("eof-undecided:"+it.ic.step, fpos, "end of input in "+it.ic.step, "undecided: "+why)
			} else if !ia {
				report(core.F("eof:%s/stack=%s", it.ic.step, strings.Join(topN(it.ic.stack, 2), ",")), fpos,
					core.F("end of input in state %s (stack %v)", it.ic.step, it.ic.stack),
					core.F("the JSON text %q is valid RFC 8259 (no exponent) but the schema scanner rejects it at end of input", it.w))
			}
		}
		for b := 0; b < 256; b++ {
			nr, rok := refJSONNoExp(it.rc, byte(b))
			if !rok || len(nr.stack) > maxNesting {
				continue
			}
			trans++
			ni, iok, why := jm.stepJS(it.ic, b)
			if why != "" {
				report(core.F("undecided:%s:%q", it.ic.step, rune(b)), fpos, core.F("state %s on byte %q", it.ic.step, rune(b)), "undecided: "+why)
				continue
			}
			if !iok {
				report(core.F("step:%s:%q/stack=%s", it.ic.step, rune(b), strings.Join(topN(it.ic.stack, 2), ",")), fpos,
					core.F("state %s on byte %q (top of stack %v)", it.ic.step, rune(b), topN(it.ic.stack, 2)),
					core.F("byte %q continues a valid JSON text after %q but the schema scanner rejects it", string(rune(b)), it.w))
				continue
			}
			if len(ni.rts) > maxRTS || len(ni.stack) > 4*maxNesting+8 || len(ni.ctxStack) > maxNesting+2 {
				report(core.F("growth:%s:%q", it.ic.step, rune(b)), fpos, core.F("state %s on byte %q", it.ic.step, rune(b)),
					core.F("a stack of the scanner grows without bound on input whose nesting is bounded (return stack %d, lexeme stack %d, context stack %d after %q): a state is entered by a push that is never popped, so the scanner returns to the wrong state later", len(ni.rts), len(ni.stack), len(ni.ctxStack), it.w+string(rune(b))))
				continue
			}
			k := ni.key() + "#" + nr.key()
			if !seen[k] {
				seen[k] = true
				queue = append(queue, item{ni, nr, it.w + string(rune(b))})
			}
		}
	}
	if len(reported) == 0 {
		c.OKd(R, "simulates", "-", "the schema scanner model simulates the RFC 8259 reference (without exponents)", core.F("%d product configurations, %d reference-accepted transitions", len(seen), trans))
	}
	for _, n := range m.names {
		if reached[n] {
			c.OK(R, "state:"+n, c.P.Pos(m.states[n].Pos()), "state function "+n+" reached on JSON input and summarised for all bytes")
		}
	}
	c.Extra["C03.subset.product_states"] = len(seen)
	c.Extra["C03.subset.transitions"] = trans
	c.Extra["exhaustive"] = true
}

// newJSModel builds the pushdown model of the schema scanner and its initial configuration.
func newJSModel(c *core.Ctx, R string) (jm *jsModel, m *scanModel, initial string, fields map[string]string, ok bool) {
	m = buildScanModel(c, "notations/jschema/scanner")
	if len(m.names) < 50 {
		c.Unresolved(R, core.F("state functions of notations/jschema/scanner (found %d)", len(m.names)))
		return nil, nil, "", nil, false
	}
	lt := extractLexTables(c, R, "notations/jschema/scanner")
	if lt == nil {
		return nil, nil, "", nil, false
	}
	eof, okE := extractEOF(c, R, m, "notations/jschema/scanner", "Scanner")
	if !okE {
		c.Bad(R, "eof-table", "-", "end-of-input table of (*Scanner).Next", "undecided: could not decode the end-of-input branch of Next")
		return nil, nil, "", nil, false
	}
	zero := map[string]constant.Value{}
	if nt := c.P.NamedType("notations/jschema/scanner", "Scanner"); nt != nil {
		st := nt.Underlying().(*types.Struct)
		for i := 0; i < st.NumFields(); i++ {
			if b, ok := st.Field(i).Type().Underlying().(*types.Basic); ok {
				switch {
				case b.Info()&types.IsBoolean != 0:
					zero[c.P.PinnedFieldName(nt, i)] = constant.MakeBool(false)
				case b.Info()&types.IsInteger != 0:
					zero[c.P.PinnedFieldName(nt, i)] = constant.MakeInt64(0)
				}
			}
		}
	}
	// initial configuration from scanner.New
	initial = ""
	fields = map[string]string{"context.Type": "0", "context.ArrayHasItem": "false"}
	if ns := c.P.Func("notations/jschema/scanner", "New"); ns != nil {
		in := absint.New(absint.Config{InModule: c.P.FuncInModule, Inline: func(f *ssa.Function) bool { return pinnedBare(f) == "newContext" }})
		for _, o := range in.Run(ns, []absint.Val{absint.Param("file"), absint.Const{}}, nil) {
			if p, ok := o.Val.(absint.Ptr); ok {
				if v, ok := o.St.Mem(absint.Ptr{Base: p.Base, Path: ".step"}.Key()); ok {
					initial = stateNameOf(v)
				}
				if v, ok := o.St.Mem(absint.Ptr{Base: p.Base, Path: ".allowAnnotation"}.Key()); ok {
					if cst, ok := v.(absint.Const); ok && cst.V != nil {
						fields["allowAnnotation"] = cst.V.ExactString()
					}
				}
			}
		}
	}
	if m.states[initial] == nil {
		c.Bad(R, "initial-state", "-", "initial step of scanner.New", "undecided: New does not store a state function in step (got "+initial+")")
		return nil, nil, "", nil, false
	}
	obsAll := map[string]bool{}
	jm = &jsModel{&implModel{m: m, lt: lt, eof: eof, obs: obsAll, zero: zero, flags: map[string]constant.Value{"lengthComputing": constant.MakeBool(false)}}}
	return jm, m, initial, fields, true
}
