package rules

import (
	"go/ast"
	"go/constant"
	"go/token"
	"go/types"

	"golang.org/x/tools/go/ssa"

	"jsverif/internal/absint"
	"jsverif/internal/core"
)

// byteBody: a tiny evaluator for statement lists that classify / transform one
// byte variable: `switch { case 'a' <= c && c <= 'f': c = c - 'a' + 10 ... default: return -1 }`.
// Everything is evaluated for one concrete byte; calls to loop-free module
// predicates of a byte (bytes.IsDigit, ...) are decided by the abstract
// interpreter on the callee. Unknown constructs make the cell undecided.

type byteBodyResult struct {
	val     int64  // value of the byte variable after the statements
	ret     string // "" = fell through, else the constant returned
	unknown string
}

type byteBodyEval struct {
	c  *core.Ctx
	pk *packagesPackage
	v  string // name of the byte variable
	in *absint.Interp
}

func newByteBodyEval(c *core.Ctx, pk *packagesPackage, v string) *byteBodyEval {
	return &byteBodyEval{c: c, pk: pk, v: v, in: absint.New(absint.Config{InModule: c.P.FuncInModule})}
}

func (e *byteBodyEval) intExpr(x ast.Expr, cur int64) (int64, bool) {
	x = ast.Unparen(x)
	if id, ok := x.(*ast.Ident); ok && id.Name == e.v {
		return cur, true
	}
	if v := core.ConstOf(e.pk, x); v != nil {
		n, ok := constantInt64(v)
		return n, ok
	}
	switch y := x.(type) {
	case *ast.BinaryExpr:
		a, ok1 := e.intExpr(y.X, cur)
		b, ok2 := e.intExpr(y.Y, cur)
		if !ok1 || !ok2 {
			return 0, false
		}
		switch y.Op {
		case token.ADD:
			return (a + b) & 0xff, true
		case token.SUB:
			return (a - b) & 0xff, true
		}
	case *ast.CallExpr:
		// conversion
		if tv, ok := e.pk.TypesInfo.Types[y.Fun]; ok && tv.IsType() && len(y.Args) == 1 {
			return e.intExpr(y.Args[0], cur)
		}
	}
	return 0, false
}

func (e *byteBodyEval) boolExpr(x ast.Expr, cur int64) (bool, bool) {
	x = ast.Unparen(x)
	switch y := x.(type) {
	case *ast.BinaryExpr:
		switch y.Op {
		case token.LAND, token.LOR:
			a, ok1 := e.boolExpr(y.X, cur)
			b, ok2 := e.boolExpr(y.Y, cur)
			if y.Op == token.LAND {
				return a && b, ok1 && ok2
			}
			return a || b, ok1 && ok2
		case token.EQL, token.NEQ, token.LSS, token.LEQ, token.GTR, token.GEQ:
			a, ok1 := e.intExpr(y.X, cur)
			b, ok2 := e.intExpr(y.Y, cur)
			if !ok1 || !ok2 {
				return false, false
			}
			switch y.Op {
			case token.EQL:
				return a == b, true
			case token.NEQ:
				return a != b, true
			case token.LSS:
				return a < b, true
			case token.LEQ:
				return a <= b, true
			case token.GTR:
				return a > b, true
			case token.GEQ:
				return a >= b, true
			}
		}
	case *ast.UnaryExpr:
		if y.Op == token.NOT {
			v, ok := e.boolExpr(y.X, cur)
			return !v, ok
		}
	case *ast.CallExpr:
		// module predicate of one byte
		if len(y.Args) == 1 {
			arg, ok := e.intExpr(y.Args[0], cur)
			fo, isF := core.Callee(e.pk, y).(*types.Func)
			if ok && isF {
				if sf := e.c.P.SSA.FuncValue(fo); sf != nil && sf.Blocks != nil && e.c.P.FuncInModule(sf) && len(sf.Params) == 1 {
					outs := e.in.Run(sf, []absint.Val{absint.MkInt(arg)}, nil)
					if len(outs) == 1 && outs[0].Kind == "return" {
						if cst, ok := outs[0].Val.(absint.Const); ok && cst.V != nil && cst.V.Kind() == constant.Bool {
							return constant.BoolVal(cst.V), true
						}
					}
				}
			}
		}
	}
	return false, false
}

var _ = ssa.Function{}

// run executes stmts for byte b.
func (e *byteBodyEval) run(stmts []ast.Stmt, b int64) byteBodyResult {
	res := byteBodyResult{val: b}
	var exec func(list []ast.Stmt) bool // true = stop (return / break)
	exec = func(list []ast.Stmt) bool {
		for _, s := range list {
			switch x := s.(type) {
			case *ast.AssignStmt:
				if len(x.Lhs) != 1 || len(x.Rhs) != 1 {
					continue
				}
				id, ok := x.Lhs[0].(*ast.Ident)
				if !ok || id.Name != e.v {
					continue // other variables do not affect the table
				}
				rhs, ok := e.intExpr(x.Rhs[0], res.val)
				if !ok {
					res.unknown = "assignment " + core.ExprStr0(x)
					return true
				}
				switch x.Tok {
				case token.ASSIGN:
					res.val = rhs
				case token.SUB_ASSIGN:
					res.val = (res.val - rhs) & 0xff
				case token.ADD_ASSIGN:
					res.val = (res.val + rhs) & 0xff
				default:
					res.unknown = "assignment operator " + x.Tok.String()
					return true
				}
			case *ast.SwitchStmt:
				var def *ast.CaseClause
				matched := false
				for _, cl := range x.Body.List {
					cc := cl.(*ast.CaseClause)
					if cc.List == nil {
						def = cc
						continue
					}
					for _, ce := range cc.List {
						var hit, ok bool
						if x.Tag == nil {
							hit, ok = e.boolExpr(ce, res.val)
						} else {
							tv, ok1 := e.intExpr(x.Tag, res.val)
							cv, ok2 := e.intExpr(ce, res.val)
							hit, ok = tv == cv, ok1 && ok2
						}
						if !ok {
							res.unknown = "case " + core.ExprStr(ce)
							return true
						}
						if hit && !matched {
							matched = true
							if exec(cc.Body) {
								return true
							}
						}
					}
					if matched {
						break
					}
				}
				if !matched && def != nil {
					if exec(def.Body) {
						return true
					}
				}
			case *ast.IfStmt:
				v, ok := e.boolExpr(x.Cond, res.val)
				if !ok {
					res.unknown = "condition " + core.ExprStr(x.Cond)
					return true
				}
				if v {
					if exec(x.Body.List) {
						return true
					}
				} else if x.Else != nil {
					if blk, ok := x.Else.(*ast.BlockStmt); ok {
						if exec(blk.List) {
							return true
						}
					} else if exec([]ast.Stmt{x.Else}) {
						return true
					}
				}
			case *ast.ReturnStmt:
				res.ret = "return"
				for _, r := range x.Results {
					if v := core.ConstOf(e.pk, r); v != nil {
						res.ret += " " + v.ExactString()
					} else {
						res.ret += " " + core.ExprStr(r)
					}
				}
				return true
			case *ast.BranchStmt:
				if x.Tok == token.BREAK {
					return false // leaves the switch; handled by caller structure
				}
			case *ast.ExprStmt, *ast.IncDecStmt, *ast.DeclStmt:
			default:
				res.unknown = "statement " + core.ExprStr0(s)
				return true
			}
		}
		return false
	}
	exec(stmts)
	return res
}
