package rules

import (
	"go/ast"
	"go/token"
	"strings"

	"jsverif/internal/core"
)

var emptyTypeTable = map[string]string{
	"(*notations/jschema.JSchema).AddType:typSc.Inner": "typSc is built by FromRSchema from a JSON string literal (the regex example, quoted by encoding/json), so it always has a literal root node",
}

// c16emptytype: no registered user type is empty.
func c16emptytype(c *core.Ctx) {
	const R = "C16.emptytype"
	c.Rule(R, "every call of ISchema.AddNamedType in the public API is dominated by a test that the schema being registered has a root node (`X.RootNode() == nil` => return an error) or is tabled with the reason it cannot be empty. The checker, the compiler and the example builder call RootNode() of registered types and use the result without a nil test (a dozen sites); under the type checker's recover a nil dereference there is turned into the internal `Runtime Failure` code instead of a diagnostic")
	c.Floor(R, 2)
	c.Rule("C16.typefile", "ISchema.AddNamedType(name, X.Inner, F, 0) in the public API passes F = X.File: the model of a schema object is registered together with that object's own text, because the type checker re-bases an error found inside the type onto the registered file (checkType: SetFile(typ.RootFile), index + typ.Begin)")
	c.Floor("C16.typefile", 1)
	n := 0
	for _, cs := range c.P.Calls() {
		if core.FullName(core.Callee(cs.Pkg, cs.Call)) != "(*notations/jschema/ischema.ISchema).AddNamedType" || len(cs.Call.Args) < 2 {
			continue
		}
		if core.Rel(cs.Pkg.PkgPath) != "notations/jschema" {
			continue
		}
		n++
		fn := core.DeclName(cs.Pkg, cs.Decl)
		arg := core.ExprStr(cs.Call.Args[1])
		key := fn + ":" + arg
		pos := c.P.Pos(cs.Call.Pos())
		what := "AddNamedType(..., " + arg + ", ...) in " + fn
		guarded := false
		for _, f := range core.FactsAt(cs.Pkg, cs.Stack) {
			be, ok := f.Cond.(*ast.BinaryExpr)
			if !ok {
				continue
			}
			if core.ExprStr(be.X) == arg+".RootNode()" && core.ExprStr(be.Y) == "nil" && ((be.Op == token.EQL && !f.Truth) || (be.Op == token.NEQ && f.Truth)) {
				guarded = true
			}
		}
		// the file registered with the model must be the file of the same schema object
		if strings.HasSuffix(arg, ".Inner") && len(cs.Call.Args) >= 3 {
			base := strings.TrimSuffix(arg, ".Inner")
			fileArg := core.ExprStr(cs.Call.Args[2])
			if r, ok := emptyTypeTable[key]; ok && fileArg != base+".File" {
				c.Tabled("C16.typefile", key, pos, "file registered with "+arg+": "+fileArg, "generated schema text of a regex type (FromRSchema): "+r)
			} else {
				c.Check(fileArg == base+".File", "C16.typefile", key, pos, "the model "+arg+" is registered with its own file ("+fileArg+")", "the type's model is registered with another schema's file: errors found inside the type carry an index into the type's text but are resolved (line, column, quoted line) against that other text")
			}
		}
		switch {
		case guarded:
			c.OKd(R, key, pos, what, "dominated by "+arg+".RootNode() != nil")
		case emptyTypeTable[key] != "":
			c.Tabled(R, key, pos, what, emptyTypeTable[key])
		default:
			c.Bad(R, key, pos, what, "an empty schema (no root node) can be registered as a type: every later Check()/Example() of a schema that refers to it fails with the internal `Runtime Failure` code"+strings.Repeat("", 0))
		}
	}
}
