package rules

import (
	"golang.org/x/tools/go/packages"

	"go/ast"
	"go/token"
	"strings"

	"jsverif/internal/core"
)

var emptyTypeTable = map[string]string{
	"(*notations/jschema.JSchema).AddType:typSc.Inner": "typSc is built by FromRSchema from a JSON string literal (the regex example, quoted by encoding/json), so it always has a literal root node",
}

// c16emptytype: no registered user type is empty.
func c16emptytype(c *core.Ctx) {
	const R = "C16.emptytype"
	c.Rule(R, "every call of ISchema.AddNamedType in the public API is dominated by a test that the schema being registered has a root node (`X.RootNode() == nil` => return an error) or is tabled with the reason it cannot be empty. The checker, the compiler and the example builder call RootNode() of registered types and use the result without a nil test (a dozen sites); under the type checker's recover a nil dereference there is turned into the internal `Runtime Failure` code instead of a diagnostic")
	c.Floor(R, 2)
	c.Rule("C16.typefile", "ISchema.AddNamedType(name, X.Inner, F, 0) in the public API passes F = X.File: the model of a schema object is registered together with that object's own text, because the type checker re-bases an error found inside the type onto the registered file (checkType: SetFile(typ.RootFile), index + typ.Begin)")
	c.Floor("C16.typefile", 1)
	n := 0
	for _, cs := range c.P.Calls() {
		if core.FullName(core.Callee(cs.Pkg, cs.Call)) != "(*notations/jschema/ischema.ISchema).AddNamedType" || len(cs.Call.Args) < 2 {
			continue
		}
		if core.Rel(cs.Pkg.PkgPath) != "notations/jschema" {
			continue
		}
		n++
		fn := core.DeclName(cs.Pkg, cs.Decl)
		arg := core.ExprStr(cs.Call.Args[1])
		key := fn + ":" + arg
		pos := c.P.Pos(cs.Call.Pos())
		what := "AddNamedType(..., " + arg + ", ...) in " + fn
		guarded := false
		for _, f := range core.FactsAt(cs.Pkg, cs.Stack) {
			be, ok := f.Cond.(*ast.BinaryExpr)
			if !ok {
				continue
			}
			if core.ExprStr(be.X) == arg+".RootNode()" && core.ExprStr(be.Y) == "nil" && ((be.Op == token.EQL && !f.Truth) || (be.Op == token.NEQ && f.Truth)) {
				guarded = true
			}
		}
		// the file registered with the model must be the file of the same schema object
		if strings.HasSuffix(arg, ".Inner") && len(cs.Call.Args) >= 3 {
			base := strings.TrimSuffix(arg, ".Inner")
			fileArg := core.ExprStr(cs.Call.Args[2])
			if r, ok := emptyTypeTable[key]; ok && fileArg != base+".File" {
				c.Tabled("C16.typefile", key, pos, "file registered with "+arg+": "+fileArg, "generated schema text of a regex type (FromRSchema): "+r)
			} else {
				c.Check(fileArg == base+".File", "C16.typefile", key, pos, "the model "+arg+" is registered with its own file ("+fileArg+")", "the type's model is registered with another schema's file: errors found inside the type carry an index into the type's text but are resolved (line, column, quoted line) against that other text")
			}
		}
		switch {
		case guarded:
			c.OKd(R, key, pos, what, "dominated by "+arg+".RootNode() != nil")
		case emptyTypeTable[key] != "":
			c.Tabled(R, key, pos, what, emptyTypeTable[key])
		default:
			c.Bad(R, key, pos, what, "an empty schema (no root node) can be registered as a type: every later Check()/Example() of a schema that refers to it fails with the internal `Runtime Failure` code"+strings.Repeat("", 0))
		}
	}
}

// c16rebase: the offset a type is registered with agrees with the origin of its lexemes.
func c16rebase(c *core.Ctx) {
	const R = "C16.rebase"
	c.Rule(R, "the type checker re-bases an error found inside a type: index + Type.Begin (checkType). Every schema model of this module is loaded by a scanner that starts at byte 0 of the registered file, so the lexemes of its nodes are positions in that file already; every registration (AddNamedType, AddUnnamedType, addType, Type literals) therefore passes the constant offset 0 or forwards its own offset parameter. An offset taken from a lexeme (lex.Begin()) is added to an index that contains it already: the reported index is doubled and leaves the text")
	c.Floor(R, 5)
	reg := map[string]int{
		"(*notations/jschema/ischema.ISchema).AddNamedType":   3,
		"(*notations/jschema/ischema.ISchema).AddUnnamedType": 2,
		"(*notations/jschema/ischema.ISchema).addType":        3,
	}
	for _, cs := range c.P.Calls() {
		idx, ok := reg[core.FullName(core.Callee(cs.Pkg, cs.Call))]
		if !ok || len(cs.Call.Args) <= idx {
			continue
		}
		arg := cs.Call.Args[idx]
		fn := core.DeclName(cs.Pkg, cs.Decl)
		key := fn + ":" + core.ExprStr(cs.Call.Fun)
		pos := c.P.Pos(cs.Call.Pos())
		what := core.ExprStr(cs.Call.Fun) + "(..., " + core.ExprStr(arg) + ") in " + fn
		if cv := core.ConstOf(cs.Pkg, arg); cv != nil {
			c.Check(cv.ExactString() == "0", R, key, pos, what, "a constant offset other than 0")
			continue
		}
		// a forwarded parameter of the enclosing function
		forwarded := false
		if id, isID := arg.(*ast.Ident); isID && cs.Decl != nil {
			for _, f := range cs.Decl.Type.Params.List {
				for _, n := range f.Names {
					if n.Name == id.Name {
						forwarded = true
					}
				}
			}
		}
		if forwarded {
			c.OKd(R, key, pos, what, "forwards the offset parameter of "+fn)
			continue
		}
		c.Bad(R, key, pos, what, "the offset is computed ("+core.ExprStr(arg)+"): the lexemes of the registered model are positions in the registered file already, checkType adds the offset to them a second time")
	}
	// Type composite literals
	c.P.ForEachNode(func(pk *packages.Package, file *ast.File, stack []ast.Node, n ast.Node) bool {
		cl, ok := n.(*ast.CompositeLit)
		if !ok {
			return true
		}
		t := core.TypeOf(pk, cl)
		if t == nil || core.Rel(t.String()) != "notations/jschema/ischema.Type" {
			return true
		}
		var begin ast.Expr
		for i, e := range cl.Elts {
			if kv, isKV := e.(*ast.KeyValueExpr); isKV {
				if core.ExprStr(kv.Key) == "Begin" {
					begin = kv.Value
				}
			} else if i == 2 {
				begin = e
			}
		}
		fd := c.P.EnclosingFuncDecl(pk, cl.Pos())
		fn := "package " + core.Rel(pk.PkgPath)
		if fd != nil {
			fn = core.DeclName(pk, fd)
		}
		key := fn + ":Type{}"
		pos := c.P.Pos(cl.Pos())
		switch {
		case begin == nil:
			c.OKd(R, key, pos, "Type literal in "+fn, "no offset (zero value)")
		case core.ConstOf(pk, begin) != nil:
			c.Check(core.ConstOf(pk, begin).ExactString() == "0", R, key, pos, "Type literal in "+fn, "a constant offset other than 0")
		default:
			forwarded := false
			if id, isID := begin.(*ast.Ident); isID && fd != nil {
				for _, f := range fd.Type.Params.List {
					for _, nm := range f.Names {
						if nm.Name == id.Name {
							forwarded = true
						}
					}
				}
			}
			c.Check(forwarded, R, key, pos, "Type literal in "+fn+" with offset "+core.ExprStr(begin), "the offset is computed: it is added to lexeme positions that contain it already")
		}
		return true
	})
}
