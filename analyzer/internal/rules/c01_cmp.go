package rules

import (
	"go/constant"
	"sort"
	"strings"

	"golang.org/x/tools/go/ssa"

	"jsverif/internal/absint"
	"jsverif/internal/core"
)

// C01.cmp: guard->outcome tables of the value validators and of the compile-time
// pair checks, compared with the documented semantics over all orderings of the
// two operands (<, =, >) and all values of the boolean switches.

type cmpInstance struct {
	fn     string   // full function name
	a, b   []string // substrings identifying operand A (value / min side) and B (bound / max side) in a symbolic key
	bools  map[string]string
	fixed  map[string]bool // atom substring -> assumed truth (preconditions: rule present, number parsed)
	reject func(ord int, v map[string]bool) bool
	doc    string
}

func constraintTypeIndex(c *core.Ctx, name string) string {
	nt := c.P.NamedType("notations/jschema/ischema/constraint", "Type")
	if nt == nil {
		return "?"
	}
	for _, k := range core.ConstsOfType(c.P.Pkg("notations/jschema/ischema/constraint"), nt) {
		if k.Name == name {
			return k.Val.ExactString()
		}
	}
	return "?"
}

func cmpInstances(c *core.Ctx) []cmpInstance {
	K := "notations/jschema/ischema/constraint"
	val := []string{"param:value", "param:numberOfChildren"}
	recv := []string{"param:c"}
	nodeC := func(name string) []string {
		return []string{"invoke:Constraint(param:node," + constraintTypeIndex(c, name) + ")"}
	}
	parseOK := map[string]bool{"extract:#1(call:json.NewNumber": true} // `err == nil` is true
	present := func(names ...string) map[string]bool {
		m := map[string]bool{}
		for _, n := range names {
			m["bin:==(invoke:Constraint(param:node,"+constraintTypeIndex(c, n)+")"] = false // `== nil` is false
		}
		return m
	}
	excl := map[string]string{"excl": "sel:.exclusive(param:c)"}
	return []cmpInstance{
		{fn: "(" + K + ".Min).Validate", a: val, b: recv, bools: excl, fixed: parseOK,
			reject: func(o int, v map[string]bool) bool { return o < 0 || (v["excl"] && o == 0) }, doc: "min: reject iff value < min, or value == min when exclusive"},
		{fn: "(" + K + ".Max).Validate", a: val, b: recv, bools: excl, fixed: parseOK,
			reject: func(o int, v map[string]bool) bool { return o > 0 || (v["excl"] && o == 0) }, doc: "max: reject iff value > max, or value == max when exclusive"},
		{fn: "(" + K + ".MinLength).Validate", a: val, b: recv,
			reject: func(o int, v map[string]bool) bool { return o < 0 }, doc: "minLength: reject iff length < n"},
		{fn: "(" + K + ".MaxLength).Validate", a: val, b: recv,
			reject: func(o int, v map[string]bool) bool { return o > 0 }, doc: "maxLength: reject iff length > n"},
		{fn: "(" + K + ".MinItems).ValidateTheArray", a: val, b: recv,
			reject: func(o int, v map[string]bool) bool { return o < 0 }, doc: "minItems: reject iff items < n"},
		{fn: "(" + K + ".MaxItems).ValidateTheArray", a: val, b: recv,
			reject: func(o int, v map[string]bool) bool { return o > 0 }, doc: "maxItems: reject iff items > n"},
		{fn: "(" + K + ".Precision).Validate", a: val, b: recv, fixed: parseOK,
			reject: func(o int, v map[string]bool) bool { return o > 0 }, doc: "precision: reject iff fraction digits > p"},
		{fn: "(notations/jschema/loader.schemaCompiler).checkMinAndMax", a: nodeC("MinConstraintType"), b: nodeC("MaxConstraintType"),
			bools: map[string]string{"minEx": ".Min).Exclusive(", "maxEx": ".Max).Exclusive("}, fixed: present("MinConstraintType", "MaxConstraintType"),
			reject: func(o int, v map[string]bool) bool {
				if v["minEx"] || v["maxEx"] {
					return o >= 0
				}
				return o > 0
			}, doc: "min/max pair: reject iff min > max, or min >= max when either bound is exclusive"},
		{fn: "(notations/jschema/loader.schemaCompiler).checkMinLengthAndMaxLength", a: nodeC("MinLengthConstraintType"), b: nodeC("MaxLengthConstraintType"),
			fixed:  present("MinLengthConstraintType", "MaxLengthConstraintType"),
			reject: func(o int, v map[string]bool) bool { return o > 0 }, doc: "minLength/maxLength pair: reject iff minLength > maxLength"},
		{fn: "(notations/jschema/loader.schemaCompiler).checkMinItemsAndMaxItems", a: nodeC("MinItemsConstraintType"), b: nodeC("MaxItemsConstraintType"),
			fixed:  present("MinItemsConstraintType", "MaxItemsConstraintType"),
			reject: func(o int, v map[string]bool) bool { return o > 0 }, doc: "minItems/maxItems pair: reject iff minItems > maxItems"},
	}
}

func findFunc(c *core.Ctx, full string) *ssa.Function {
	for f := range c.P.AllFuncs {
		if f.Synthetic == "" && core.FuncName(f) == full {
			return f
		}
	}
	return nil
}

func hasAny(s string, subs []string) bool {
	for _, x := range subs {
		if strings.Contains(s, x) {
			return true
		}
	}
	return false
}

func c01cmp(c *core.Ctx) {
	const R = "C01.cmp"
	c.Rule(R, "each value validator (Min, Max, MinLength, MaxLength, MinItems, MaxItems, Precision) and each compile-time pair check (min/max, minLength/maxLength, minItems/maxItems) is extracted as a guard->outcome table by symbolic evaluation and compared with the documented rule semantics for every ordering of the two operands (<, =, >) and every value of the exclusivity flags; operands are identified by data flow (value = derived from the value parameter, bound = derived from the receiver / the fetched constraint), comparison predicates on decimal numbers are interpreted through their own extracted tables (C13.pred)")
	c.Floor(R, 10)
	preds := numberPredicates(c, R, false)
	for _, inst := range cmpInstances(c) {
		f := findFunc(c, inst.fn)
		if f == nil {
			c.Unresolved(R, inst.fn)
			continue
		}
		in := absint.New(absint.Config{InModule: c.P.FuncInModule, Inline: func(*ssa.Function) bool { return false }})
		var args []absint.Val
		for _, p := range f.Params {
			args = append(args, absint.Param(p.Name()))
		}
		outs := in.Run(f, args, nil)
		pos := c.P.Pos(f.Pos())
		var boolNames []string
		for n := range inst.bools {
			boolNames = append(boolNames, n)
		}
		sort.Strings(boolNames)
		bad := ""
		cells := 0
		role := func(v absint.Val) string {
			k := v.Key()
			ia, ib := hasAny(k, inst.a), hasAny(k, inst.b)
			switch {
			case ia && !ib:
				return "A"
			case ib && !ia:
				return "B"
			}
			return "?"
		}
		// evaluate one atom under (ord, bools); returns (value, known)
		var evalAtom func(v absint.Val, ord int, bv map[string]bool) (bool, bool)
		evalAtom = func(v absint.Val, ord int, bv map[string]bool) (bool, bool) {
			k := v.Key()
			for sub, truth := range inst.fixed {
				if strings.Contains(k, sub) {
					return truth, true
				}
			}
			s, ok := v.(absint.Sym)
			if !ok {
				return false, false
			}
			for name, sub := range inst.bools {
				if strings.Contains(k, sub) && (s.Op == "sel" || s.Op == "call" || s.Op == "load") {
					return bv[name], true
				}
			}
			cmpOf := func(x, y absint.Val) (int, bool) {
				rx, ry := role(x), role(y)
				switch {
				case rx == "A" && ry == "B":
					return ord, true
				case rx == "B" && ry == "A":
					return -ord, true
				}
				return 0, false
			}
			switch {
			case s.Op == "call" && strings.HasPrefix(s.Name, "(json.Number).") && len(s.Args) == 2:
				p, okp := preds[strings.TrimPrefix(s.Name, "(json.Number).")]
				cv, okc := cmpOf(s.Args[0], s.Args[1])
				if !okp || !okc {
					return false, false
				}
				return p[cv+1], true
			case s.Op == "bin" && len(s.Args) == 2:
				cv, okc := cmpOf(s.Args[0], s.Args[1])
				if !okc {
					return false, false
				}
				switch s.Name {
				case "<":
					return cv < 0, true
				case "<=":
					return cv <= 0, true
				case ">":
					return cv > 0, true
				case ">=":
					return cv >= 0, true
				case "==":
					return cv == 0, true
				}
			}
			return false, false
		}
		nb := len(boolNames)
		for ord := -1; ord <= 1; ord++ {
			for mask := 0; mask < 1<<nb; mask++ {
				bv := map[string]bool{}
				for i, n := range boolNames {
					bv[n] = mask&(1<<i) != 0
				}
				cells++
				var match *absint.Outcome
				n := 0
				for oi := range outs {
					o := &outs[oi]
					ok := true
					for _, a := range o.St.Atoms {
						val, known := evalAtom(a.Cond, ord, bv)
						if !known {
							if bad == "" {
								bad = "undecided: guard `" + clip(a.Cond.Key(), 160) + "` is not a comparison of the two operands nor a known flag"
							}
							ok = false
							break
						}
						if val != a.Truth {
							ok = false
							break
						}
					}
					if ok {
						match = o
						n++
					}
				}
				if n != 1 {
					if bad == "" {
						bad = core.F("undecided: %d paths match ordering %d flags %v", n, ord, bv)
					}
					continue
				}
				rejected := match.Kind == "panic"
				if match.Kind == "return" {
					if cst, ok := match.Val.(absint.Const); ok {
						rejected = cst.V != nil && !(cst.V.Kind() == constant.Bool)
					} else {
						rejected = true // returns a constructed error
					}
				}
				if want := inst.reject(ord, bv); want != rejected && bad == "" {
					rel := map[int]string{-1: "A < B", 0: "A == B", 1: "A > B"}[ord]
					bad = core.F("for %s with %v the code %s but the rule semantics say %s", rel, bv, map[bool]string{true: "rejects", false: "accepts"}[rejected], map[bool]string{true: "reject", false: "accept"}[want])
				}
			}
		}
		what := core.F("%s - %d cells (orderings x flags)", inst.doc, cells)
		if bad == "" {
			c.OK(R, inst.fn, pos, what)
		} else {
			c.Bad(R, inst.fn, pos, what, bad+" (A = value/min side, B = bound/max side)")
		}
	}
	c.Extra["exhaustive"] = true
}
