package rules

import (
	"go/ast"
	"go/constant"
	"go/types"
	"strings"

	"jsverif/internal/core"
)

func init() {
	Register("C18", "Decides structural necessary conditions for regex schemas: (empty) the first/last-byte reads of RSchema.doCompile are guarded, so empty and one-byte texts get a diagnostic; (parity) the delimiter scan is the right table over <escaped, byte class>; (quote) schema text built from a regex schema is quoted by JSON rules, not Go rules; (carry) AST value, Len and the OpenAPI pattern add/strip exactly one pair of delimiters; (once) compiled state is written only under the compile once. Does NOT decide that the pattern is a valid regular expression (delegated to regexp.Compile) nor that the example matches it.",
		registerRule("C18.register"), c18empty, c18parity, c18quote, c18carry, inQuotesRule("C18.inquotes"), func(c *core.Ctx) { c03unquoteAs(c, "C18.unquote") }, decodedRule("C18.decoded"), poolRule("C18.pool"), c18pattern, func(c *core.Ctx) { extPanicAs(c, "C18.extpanic") })
}

func c18empty(c *core.Ctx) {
	const R = "C18.empty"
	c.Rule(R, "every constant-index byte read in RSchema.doCompile (content.Byte(0), the last byte) is dominated by a guard on the content length; the regex notation has no recover, so an unguarded read of an empty text escapes as a panic")
	c.Floor(R, 1)
	for _, s := range elemSites(c) {
		if !strings.Contains(s.fn, "notations/regex.RSchema") {
			continue
		}
		pos := c.P.Pos(s.node.Pos())
		what := core.F("%s %s needs len(%s) >= %d", s.kind, s.text, s.container, s.need)
		switch s.status {
		case "guard":
			c.OKd(R, s.key(), pos, what, "guard: "+s.why)
		case "table":
			c.Tabled(R, s.key(), pos, what, s.why)
		default:
			c.Bad(R, s.key(), pos, what, s.why)
		}
	}
}

// c18parity: mini evaluator of the delimiter loop body.
func c18parity(c *core.Ctx) {
	const R = "C18.parity"
	c.Rule(R, "the body of the delimiter loop in RSchema.doCompile, evaluated for byte class in {backslash, slash, other} x escaped in {false, true}, is the table: backslash flips `escaped`; slash ends the pattern iff not escaped, else clears `escaped`; any other byte clears `escaped` (6 cells, exhaustive)")
	c.Floor(R, 6)
	d := c.P.FindDecl("(*notations/regex.RSchema).doCompile")
	if d == nil {
		c.Unresolved(R, "(*notations/regex.RSchema).doCompile")
		return
	}
	// the loop over the content bytes: in doCompile itself or in a helper of the package it calls
	var loop *ast.RangeStmt
	lpk := d.Pkg
	findLoop := func(body *ast.BlockStmt) *ast.RangeStmt {
		var out *ast.RangeStmt
		ast.Inspect(body, func(n ast.Node) bool {
			if rs, ok := n.(*ast.RangeStmt); ok && out == nil && rs.Value != nil {
				if t := core.TypeOf(lpk, rs.Value); t != nil && t.String() == "byte" || t != nil && t.String() == "uint8" {
					out = rs
				}
			}
			return true
		})
		return out
	}
	loop = findLoop(d.Decl.Body)
	if loop == nil {
		ast.Inspect(d.Decl.Body, func(n ast.Node) bool {
			call, ok := n.(*ast.CallExpr)
			if !ok || loop != nil {
				return true
			}
			if f, ok := core.Callee(d.Pkg, call).(*types.Func); ok && f.Pkg() != nil && f.Pkg().Path() == d.Pkg.PkgPath {
				if hd := c.P.FindDecl(core.Rel(f.FullName())); hd != nil && hd.Decl.Body != nil {
					lpk = hd.Pkg
					loop = findLoop(hd.Decl.Body)
				}
			}
			return true
		})
	}
	if loop == nil {
		c.Bad(R, "doCompile:loop", c.P.Pos(d.Decl.Pos()), "delimiter loop", "undecided: no range loop over the content bytes in doCompile or a helper it calls")
		return
	}
	cvar := core.ExprStr(loop.Value)
	// the boolean state variable: the only bool variable assigned in the loop
	escVar := ""
	ast.Inspect(loop.Body, func(n ast.Node) bool {
		if as, ok := n.(*ast.AssignStmt); ok && len(as.Lhs) == 1 {
			if id, ok := as.Lhs[0].(*ast.Ident); ok {
				if t := core.TypeOf(lpk, id); t != nil && t.String() == "bool" {
					escVar = id.Name
				}
			}
		}
		return true
	})
	if escVar == "" {
		c.Bad(R, "doCompile:state", c.P.Pos(loop.Pos()), "escape-state variable", "undecided: no boolean state variable assigned in the loop")
		return
	}
	classes := []struct {
		name string
		b    byte
	}{{"backslash", '\\'}, {"slash", '/'}, {"other", 'a'}}
	for _, cl := range classes {
		for _, esc := range []bool{false, true} {
			e := &miniEval{pk: lpk, env: map[string]int64{cvar: int64(cl.b), escVar: b2i(esc)}}
			if id, ok := loop.Key.(*ast.Ident); ok && id.Name != "_" {
				e.env[id.Name] = 3
			}
			// whatever is computed when the delimiter is found (the pattern, the index) is not part of the table
			e.hook = func(x ast.Expr) (int64, bool) {
				if _, ok := x.(*ast.CallExpr); ok {
					return 0, true
				}
				return 0, false
			}
			st, _ := e.run(loop.Body.List)
			stop := st == miniBreak || st == miniLabelBreak || st == miniReturn
			gotEsc := e.env[escVar] != 0
			wantEsc, wantStop := false, false
			switch cl.name {
			case "backslash":
				wantEsc = !esc
			case "slash":
				wantStop = !esc
			}
			key := core.F("doCompile:%s/escaped=%v", cl.name, esc)
			what := core.F("byte %s with escaped=%v -> escaped=%v stop=%v", cl.name, esc, gotEsc, stop)
			switch {
			case e.unknown != "":
				c.Bad(R, key, c.P.Pos(loop.Pos()), what, "undecided: "+e.unknown)
			case stop != wantStop || (!stop && gotEsc != wantEsc):
				c.Bad(R, key, c.P.Pos(loop.Pos()), what, core.F("expected escaped=%v stop=%v: the closing delimiter is found at the wrong place (an escaped `\\/` ends the pattern, or an unescaped `/` after `\\\\` does not)", wantEsc, wantStop))
			default:
				c.OK(R, key, c.P.Pos(loop.Pos()), what)
			}
		}
	}
	c.Extra["exhaustive"] = true
}

// c18quote: schema text must not be built with Go-syntax quoting.
func c18quote(c *core.Ctx) {
	const R = "C18.quote"
	c.Rule(R, "text handed to a schema/document/rule constructor (jschema.New, regex.New, enum.New, formats/json.New, fs.NewFile) is never produced by fmt.Sprintf with %q/%#v or by strconv.Quote: Go quoting (\\x01, \\U0001F600) is not JSON/JSight quoting")
	c.Floor(R, 1)
	ctors := map[string]bool{"notations/jschema.New": true, "notations/regex.New": true, "rules/enum.New": true, "formats/json.New": true, "fs.NewFile": true}
	n := 0
	for _, cs := range c.P.Calls() {
		name := core.FullName(core.Callee(cs.Pkg, cs.Call))
		if i := strings.Index(name, "["); i > 0 {
			name = name[:i]
		}
		if !ctors[name] || len(cs.Call.Args) < 2 {
			continue
		}
		fn := core.DeclName(cs.Pkg, cs.Decl)
		content := cs.Call.Args[1]
		// resolve a local variable to its definition
		if id, ok := ast.Unparen(content).(*ast.Ident); ok {
			if def := findDef(cs.Pkg, cs.Pkg.TypesInfo.ObjectOf(id)); def != nil {
				content = def
			}
		}
		call, ok := ast.Unparen(content).(*ast.CallExpr)
		if !ok {
			continue
		}
		cpk := cs.Pkg
		cn := core.FullName(core.Callee(cpk, call))
		// a helper of the module that builds the text: look at what it returns
		for depth := 0; depth < 2 && cn != "fmt.Sprintf" && !strings.HasPrefix(cn, "strconv.Quote"); depth++ {
			hf, isF := core.Callee(cpk, call).(*types.Func)
			if !isF || hf.Pkg() == nil || !core.InScope(hf.Pkg().Path()) {
				break
			}
			hd := c.P.FindDecl(core.Rel(hf.FullName()))
			if hd == nil || hd.Decl.Body == nil {
				break
			}
			var inner *ast.CallExpr
			ast.Inspect(hd.Decl.Body, func(n ast.Node) bool {
				if r, isR := n.(*ast.ReturnStmt); isR && len(r.Results) >= 1 {
					if ic, isC := ast.Unparen(r.Results[0]).(*ast.CallExpr); isC {
						if nm := core.FullName(core.Callee(hd.Pkg, ic)); nm == "fmt.Sprintf" || strings.HasPrefix(nm, "strconv.Quote") {
							inner = ic
						}
					}
				}
				return true
			})
			if inner == nil {
				break
			}
			call, cpk = inner, hd.Pkg
			cn = core.FullName(core.Callee(cpk, call))
		}
		if cn != "fmt.Sprintf" && !strings.HasPrefix(cn, "strconv.Quote") {
			continue
		}
		n++
		key := core.F("%s:%s#%d", fn, name, n)
		bad := strings.HasPrefix(cn, "strconv.Quote")
		if cn == "fmt.Sprintf" && len(call.Args) > 0 {
			if v := core.ConstOf(cpk, call.Args[0]); v != nil && v.Kind() == constant.String {
				f := constant.StringVal(v)
				if strings.Contains(f, "%q") || strings.Contains(f, "%#v") || strings.Contains(f, "%+q") {
					bad = true
				}
			} else {
				bad = true
			}
		}
		c.Check(!bad, R, key, c.P.Pos(cs.Call.Pos()), core.F("schema text for %s built in %s", name, fn), "the text is quoted with Go syntax (%q / strconv.Quote): a control character or DEL in the value becomes \\x.., which the JSight/JSON scanner rejects - e.g. the valid regex schema /\\x01/ cannot be registered as a user type")
	}
}

func c18carry(c *core.Ctx) {
	const R = "C18.carry"
	c.Rule(R, "RSchema.GetAST reports \"/\" + pattern + \"/\", RSchema.Len returns len(pattern) + 2, and the OpenAPI pattern strips exactly one trailing and one leading \"/\" (TrimSuffix + TrimPrefix, never Trim/TrimLeft/TrimRight which strip repeated slashes of the pattern itself) and JSON-encodes the result")
	c.Floor(R, 3)
	g := c.P.FindDecl("(*notations/regex.RSchema).GetAST")
	l := c.P.FindDecl("(*notations/regex.RSchema).Len")
	j := c.P.FindDecl("(openapi/internal/rsoac.Pattern).jsonValue")
	if g == nil || l == nil || j == nil {
		c.Unresolved(R, "RSchema.GetAST / RSchema.Len / rsoac.Pattern.jsonValue")
		return
	}
	okAST := false
	ast.Inspect(g.Decl.Body, func(n ast.Node) bool {
		if kv, ok := n.(*ast.KeyValueExpr); ok && core.ExprStr(kv.Key) == "Value" {
			s := strings.ReplaceAll(core.ExprStr(kv.Value), " ", "")
			if s == `"/"+s.pattern+"/"` {
				okAST = true
			}
		}
		return true
	})
	c.Check(okAST, R, "GetAST:value", c.P.Pos(g.Decl.Pos()), "AST value is \"/\" + pattern + \"/\"", "the AST no longer carries the delimited pattern exactly")
	okLen := false
	ast.Inspect(l.Decl.Body, func(n ast.Node) bool {
		if r, ok := n.(*ast.ReturnStmt); ok && len(r.Results) == 2 {
			s := strings.ReplaceAll(core.ExprStr(r.Results[0]), " ", "")
			if s == "uint(len(s.pattern))+2" || s == "uint(len(s.pattern)+2)" {
				okLen = true
			}
		}
		return true
	})
	c.Check(okLen, R, "Len:value", c.P.Pos(l.Decl.Pos()), "Len is len(pattern) + 2", "Len() is no longer the delimited length of the pattern")
	// the stripping may sit where the value is rendered (jsonValue) or where it is stored (newPattern):
	// counted over both and the helpers of the package they call
	calls := map[string]int{}
	seenDecl := map[*ast.FuncDecl]bool{}
	roots := []*core.DeclSite{j}
	if np := c.P.FindDecl("openapi/internal/rsoac.newPattern"); np != nil {
		roots = append(roots, np)
	}
	for _, root := range roots {
		for _, hd := range helperBodies(c, root, 2) {
			if seenDecl[hd.Decl] {
				continue
			}
			seenDecl[hd.Decl] = true
			hd := hd
			ast.Inspect(hd.Decl.Body, func(n ast.Node) bool {
				if call, ok := n.(*ast.CallExpr); ok {
					calls[core.FullName(core.Callee(hd.Pkg, call))]++
				}
				return true
			})
		}
	}
	okStrip := calls["strings.TrimSuffix"] == 1 && calls["strings.TrimPrefix"] == 1 && calls["strings.Trim"]+calls["strings.TrimLeft"]+calls["strings.TrimRight"] == 0 && calls["openapi/internal.ToJSONString"] == 1
	c.Check(okStrip, R, "rsoac.Pattern.jsonValue", c.P.Pos(j.Decl.Pos()), "OpenAPI pattern = ToJSONString(TrimPrefix(TrimSuffix(value, \"/\"), \"/\"))", core.F("delimiters are not stripped exactly once / result not JSON-encoded (calls: %v)", calls))
}
