package rules

import (
	"go/ast"
	"go/constant"
	"sort"
	"strings"

	"jsverif/internal/core"
)

func init() {
	Register("C08", "Decides wiring-level necessary conditions of 'the example validates against the generated OpenAPI schema': (wire) every OpenAPI keyword is fed from the rule of the documented name, and every rule name used by the OpenAPI package is a real rule name; (escape) decoded schema text reaches OpenAPI JSON only through a JSON string encoder; (sep) JSON separators in the hand-written marshalers. Does NOT decide that an instance validates (that needs a JSON-Schema evaluator, runtime by nature).",
		c08wire,
		jsonSinkRule("C08.escape", "OpenAPI JSON (hand-written marshalers of openapi/internal)", func(pkgRel, fn string) bool {
			return strings.HasPrefix(pkgRel, "openapi")
		}, 10),
		jsonSinkRule("C08.example", "an example (exampleBuilder): an example that is not JSON is not an instance of any schema", func(pkgRel, fn string) bool {
			return pkgRel == "notations/jschema" && strings.Contains(fn, "exampleBuilder")
		}, 2),
		tokenAgreeRule("C08.tokenagree"), c08jsonValue, c08props, c08nofloat, trimQuoteRule("C08.trimquote"), keyEncoderRule("C08.keyencoder"), c10share("C08.share"), strClassRule("C08.strclass"), enumMemberRule("C08.enummember"), keyTypeRule("C08.keytype"), sepRule("C08.sep", []string{"openapi"}, 4))
}

// c08wire: rule-name constants used in openapi/** must be rule names; keyword<-rule table.
func c08wire(c *core.Ctx) {
	const R = "C08.wire"
	c.Rule(R, "every string constant with which the OpenAPI package looks a rule up (Rules.Get/Has/GetValue(\"name\")) is a member of the decoded constraint-type name table (no typo, no drift), and the keyword<-rule wiring table extracted from the jsoac constructors equals the documented one (minimum<-min, maximum<-max, exclusiveMinimum/Maximum, minLength, maxLength, multipleOf<-precision, pattern<-regex, minItems, maxItems, nullable, enum, const, additionalProperties, allOf, or, type, optional)")
	c.Floor(R, 12)
	names := decodeStringer(c, "notations/jschema/ischema/constraint", "Type")
	if names == nil {
		c.Unresolved(R, "stringer tables of constraint.Type")
		return
	}
	valid := map[string]bool{}
	for _, n := range names {
		valid[n] = true
	}
	used := map[string][]string{} // rule name -> functions
	for _, d := range c.P.FuncDecls() {
		rel := core.Rel(d.Pkg.PkgPath)
		if !strings.HasPrefix(rel, "openapi") {
			continue
		}
		fn := core.DeclName(d.Pkg, d.Decl)
		ast.Inspect(d.Decl.Body, func(n ast.Node) bool {
			call, ok := n.(*ast.CallExpr)
			if !ok || len(call.Args) < 1 {
				return true
			}
			name := core.FullName(core.Callee(d.Pkg, call))
			switch name {
			case "(*root.RuleASTNodes).Get", "(*root.RuleASTNodes).Has", "(*root.RuleASTNodes).GetValue":
			default:
				return true
			}
			v := core.ConstOf(d.Pkg, call.Args[0])
			if v == nil || v.Kind() != constant.String {
				return true
			}
			s := constant.StringVal(v)
			used[s] = append(used[s], fn)
			key := fn + ":rule:" + s
			c.Check(valid[s], R, key, c.P.Pos(call.Pos()), core.F("rule lookup %q in %s", s, fn), "the OpenAPI converter looks up a rule name that no constraint has: the keyword it feeds is never emitted")
			return true
		})
	}
	var us []string
	for u := range used {
		us = append(us, u)
	}
	sort.Strings(us)
	// keyword wiring: the function that reads rule X must be the constructor of keyword Y
	want := map[string]string{ // rule name -> substring of a function that must read it
		"min": "newMinimum", "max": "newMaximum", "exclusiveMinimum": "newExclusiveMinimum", "exclusiveMaximum": "newExclusiveMaximum",
		"minLength": "newMinLength", "maxLength": "newMaxLength", "precision": "newMultipleOf", "regex": "newPattern",
		"minItems": "newMinItems", "maxItems": "newMaxItems", "nullable": "newNullable", "enum": "newEnum", "const": "newConst",
		"additionalProperties": "newAdditionalProperties", "allOf": "newAllOf",
	}
	var ws []string
	for w := range want {
		ws = append(ws, w)
	}
	sort.Strings(ws)
	for _, rule := range ws {
		fnSub := want[rule]
		ok := false
		for _, fn := range used[rule] {
			if strings.Contains(strings.ToLower(fn), strings.ToLower(fnSub)) {
				ok = true
			}
		}
		c.Check(ok, R, "wire:"+rule, "-", core.F("keyword constructor %s* reads rule %q (readers: %v)", fnSub, rule, used[rule]), "the OpenAPI keyword is not fed from the rule of that name: the generated schema constrains instances differently from the JSight rule")
	}
	c.Extra["C08.wire.rules_used"] = us
}

// c08jsonValue: the one guarded encoder the taint rule trusts.
func c08jsonValue(c *core.Ctx) {
	const R = "C08.escape"
	d := c.P.FindDecl("(openapi/internal/jsoac.Example).jsonValue")
	if d == nil {
		c.Unresolved(R, "(openapi/internal/jsoac.Example).jsonValue")
		return
	}
	ok := false
	if len(d.Decl.Body.List) == 2 {
		ifs, ok1 := d.Decl.Body.List[0].(*ast.IfStmt)
		_, ok2 := d.Decl.Body.List[1].(*ast.ReturnStmt)
		if ok1 && ok2 && strings.HasSuffix(core.ExprStr(ifs.Cond), ".isString") && len(ifs.Body.List) == 1 {
			if r, isR := ifs.Body.List[0].(*ast.ReturnStmt); isR && len(r.Results) == 1 {
				if call, isC := r.Results[0].(*ast.CallExpr); isC && core.FullName(core.Callee(d.Pkg, call)) == "openapi/internal.ToJSONString" {
					ok = true
				}
			}
		}
	}
	// ToJSONString itself must be encoding/json.Marshal of its argument
	if td := c.P.FindDecl("openapi/internal.ToJSONString"); td != nil {
		marshal := false
		param := ""
		if ps := td.Decl.Type.Params.List; len(ps) == 1 && len(ps[0].Names) == 1 {
			param = ps[0].Names[0].Name
		}
		var other []string
		ast.Inspect(td.Decl.Body, func(n ast.Node) bool {
			if call, isC := n.(*ast.CallExpr); isC {
				name := core.FullName(core.Callee(td.Pkg, call))
				switch {
				case name == "encoding/json.Marshal" && len(call.Args) == 1 && core.ExprStr(call.Args[0]) == param:
					marshal = true
				case strings.HasPrefix(name, "strconv.") || strings.HasPrefix(name, "fmt."):
					other = append(other, name)
				}
			}
			return true
		})
		c.Check(marshal && len(other) == 0, R, "ToJSONString:shape", c.P.Pos(td.Decl.Pos()), "ToJSONString is encoding/json.Marshal of its argument", core.F("the JSON string encoder every example/enum/const/pattern goes through is no longer encoding/json.Marshal (other quoting calls: %v): Go-syntax quoting emits \\a, \\x01, \\U000e0001, which are not JSON", other))
	} else {
		c.Unresolved(R, "openapi/internal.ToJSONString")
	}
	// no Go-syntax quoting anywhere in the OpenAPI packages
	nq := 0
	for _, cs := range c.P.Calls() {
		if !strings.HasPrefix(core.Rel(cs.Pkg.PkgPath), "openapi") {
			continue
		}
		name := core.FullName(core.Callee(cs.Pkg, cs.Call))
		bad := strings.HasPrefix(name, "strconv.Quote") || strings.HasPrefix(name, "strconv.AppendQuote")
		if (name == "fmt.Sprintf" || name == "fmt.Fprintf" || name == "fmt.Sprint") && len(cs.Call.Args) > 0 {
			if v := core.ConstOf(cs.Pkg, cs.Call.Args[0]); v != nil && (strings.Contains(v.ExactString(), "%q") || strings.Contains(v.ExactString(), "%#v")) {
				bad = true
			}
		}
		if bad {
			nq++
			c.Bad(R, core.F("%s:goquote#%d", core.DeclName(cs.Pkg, cs.Decl), nq), c.P.Pos(cs.Call.Pos()), "Go-syntax quoting ("+name+") in the OpenAPI converter", "Go quoting is not JSON quoting (control characters, DEL and non-printable runes get \\a / \\x.. / \\U........ escapes)")
		}
	}
	c.Check(ok, R, "jsonValue:shape", c.P.Pos(d.Decl.Pos()), "Example.jsonValue encodes string values with ToJSONString and copies other literals verbatim", "the example/enum value encoder no longer JSON-encodes strings: a string value containing a quote or backslash breaks the generated OpenAPI document")
}

// c08props: which children become OpenAPI properties is decided by the shortcut flag only.
func c08props(c *core.Ctx) {
	const R = "C08.props"
	c.Rule(R, "jsoac.newObject turns every child of the AST node into a property (and a `required` entry) except key shortcuts, and what is a key shortcut is read from the child's IsKeyShortcut flag - never from the text of the key: an ordinary quoted property named \"@id\" stays a property. With additionalProperties:false generated for the object, a dropped property makes the schema's own example an invalid instance")
	c.Floor(R, 1)
	d := c.P.FindDecl("openapi/internal/jsoac.newObject")
	if d == nil {
		c.Unresolved(R, "openapi/internal/jsoac.newObject")
		return
	}
	found := false
	ast.Inspect(d.Decl.Body, func(n ast.Node) bool {
		rs, ok := n.(*ast.RangeStmt)
		if !ok || !strings.HasSuffix(core.ExprStr(rs.X), ".Children") {
			return true
		}
		var stack []ast.Node
		var conds []string
		appended := false
		ast.Inspect(rs.Body, func(m ast.Node) bool {
			if m == nil {
				stack = stack[:len(stack)-1]
				return true
			}
			stack = append(stack, m)
			record := func() {
				for _, a := range stack {
					if ifs, ok := a.(*ast.IfStmt); ok {
						conds = append(conds, core.ExprStr(ifs.Cond))
					}
				}
			}
			switch y := m.(type) {
			case *ast.CallExpr:
				if f := core.ExprStr(y.Fun); strings.HasSuffix(f, ".appendProperty") || strings.HasSuffix(f, ".Properties.append") {
					appended = true
					record()
				}
			case *ast.BranchStmt, *ast.ReturnStmt:
				record()
			}
			return true
		})
		if !appended {
			return true
		}
		found = true
		bad := ""
		for _, cnd := range conds {
			t := strings.TrimPrefix(strings.TrimSpace(cnd), "!")
			if !strings.HasSuffix(t, ".IsKeyShortcut") || strings.ContainsAny(t, " &|=[") {
				bad = cnd
			}
		}
		c.Check(bad == "", R, "newObject:children", c.P.Pos(rs.Pos()), "children become properties unless IsKeyShortcut", "whether a child becomes a property depends on `"+bad+"`: an ordinary property can be dropped from `properties`/`required`")
		return false
	})
	if !found {
		c.Bad(R, "newObject:children", c.P.Pos(d.Decl.Pos()), "loop over the children in newObject", "undecided: no loop over .Children calling appendProperty")
	}
}
