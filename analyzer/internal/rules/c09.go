package rules

func init() {
	Register("C09", "Decides structural necessary conditions of determinism: (maprange) no observable result depends on map iteration order; (addr) no address or pointer-bearing struct is rendered into text; (src) no clock/random/environment/goroutine source is reachable from the entry points. Does NOT decide equality of results across processes in general.",
		c09maprange, c11extAs("C09.ext"), c10share("C09.share"))
}
