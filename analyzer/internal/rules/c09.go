package rules

import (
	"go/constant"
	"strings"

	"jsverif/internal/core"
)

func init() {
	Register("C09", "Decides structural necessary conditions of determinism: (maprange) no observable result depends on map iteration order; (addr) no address or pointer-bearing struct is rendered into text; (src) no clock/random/environment/goroutine source is reachable from the entry points. Does NOT decide equality of results across processes in general.",
		addrOrderRule("C09.addrorder"), c09maprange, c09addr, c11extAs("C09.ext"), c10share("C09.share"), oncePanicRule("C09.oncepanic"), ctorOrderRule("C09.ctor"))
}

// c09addr: no heap address in anything observable.
func c09addr(c *core.Ctx) {
	const R = "C09.addr"
	c.Rule(R, "no formatting call in scope uses the verb %p (or prints a pointer with %v/%d through an `unsafe`/uintptr conversion): a heap address differs in every run and for every object, so any name, message or key derived from it makes the observable result differ between repetitions of the same input")
	c.Floor(R, 1)
	n := 0
	for _, cs := range c.P.Calls() {
		name := core.FullName(core.Callee(cs.Pkg, cs.Call))
		if !strings.HasPrefix(name, "fmt.") {
			continue
		}
		for _, a := range cs.Call.Args {
			v := core.ConstOf(cs.Pkg, a)
			if v == nil || v.Kind() != constant.String {
				continue
			}
			f := constant.StringVal(v)
			if !strings.Contains(f, "%p") {
				continue
			}
			n++
			fn := core.DeclName(cs.Pkg, cs.Decl)
			c.Bad(R, fn+":%p", c.P.Pos(cs.Call.Pos()), name+"("+core.ExprStr(a)+", ...) in "+fn, "a heap address is formatted into a string")
		}
	}
	if n == 0 {
		c.OK(R, "no-%p", "-", "no %p verb in any constant format string in scope")
	}
}
