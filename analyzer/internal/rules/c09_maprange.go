package rules

import (
	"go/ast"
	"go/token"
	"go/types"
	"strings"

	"golang.org/x/tools/go/ssa"

	"jsverif/internal/core"
)

// mapRangeTable: order-sensitive map ranges that are safe for a reason that is
// not visible in the loop itself. Key: enclosing function + "|" + ranged expression.
var mapRangeTable = map[string]string{
	"notations/jschema/checker.checkJsonType|stringBasedTypes":                           "keys are the format constraints created from the single `type` rule of a node; a node carries at most one of them (duplicate rules are rejected with ErrDuplicateRule), so at most one iteration can match",
	"(notations/jschema/ischema.baseNode).SchemaType|constraintToSchemaTypeMap":          "keys are type-derived constraints; a node carries at most one of them (single `type` rule; `enum`/`any`/`or` are mutually exclusive by the compiler's checks), so at most one iteration can match",
	"(notations/jschema/loader.schemaCompiler).allowedConstraintCheck|bannedConstraints": "outer keys are the format/any constraints of which a node has at most one; the inner loop ranges over a slice (ordered), so the reported pair is unique",
}

type mapRangeSite struct {
	pk    *packagesPackage
	rs    *ast.RangeStmt
	fd    *ast.FuncDecl
	fn    string
	key   string
	class string // "insensitive" or reason for sensitivity
}

// calleeFuncs resolves an AST call to the ssa functions it may invoke
// (static callee, or all module implementations of an interface method).
func calleeFuncs(c *core.Ctx, pk *packagesPackage, call *ast.CallExpr) (fns []*ssa.Function, resolved bool) {
	obj := core.Callee(pk, call)
	f, ok := obj.(*types.Func)
	if !ok {
		return nil, false
	}
	sig := f.Type().(*types.Signature)
	if sig.Recv() != nil {
		if _, isIface := sig.Recv().Type().Underlying().(*types.Interface); isIface {
			// all implementations in the program
			for g := range c.P.AllFuncs {
				if g.Signature.Recv() == nil || g.Name() != f.Name() || g.Synthetic != "" {
					continue
				}
				if types.Implements(g.Signature.Recv().Type(), sig.Recv().Type().Underlying().(*types.Interface)) ||
					types.Implements(types.NewPointer(g.Signature.Recv().Type()), sig.Recv().Type().Underlying().(*types.Interface)) {
					fns = append(fns, g)
				}
			}
			return fns, true
		}
	}
	if sf := c.P.SSA.FuncValue(f); sf != nil {
		return []*ssa.Function{sf}, true
	}
	return nil, true // e.g. external function without body
}

type mrClassifier struct {
	c        *core.Ctx
	pk       *packagesPackage
	fd       *ast.FuncDecl
	rs       *ast.RangeStmt
	loopVars map[types.Object]bool
	effects  int // number of side-effecting statements seen
	reasons  []string
}

func (m *mrClassifier) usesLoopVar(e ast.Node) bool {
	used := false
	ast.Inspect(e, func(n ast.Node) bool {
		if id, ok := n.(*ast.Ident); ok && m.loopVars[m.pk.TypesInfo.ObjectOf(id)] {
			used = true
		}
		return true
	})
	return used
}

func (m *mrClassifier) sens(why string) { m.reasons = append(m.reasons, why) }

// exprCalls checks the calls inside an expression: each must resolve and must
// not be able to panic nor write shared state.
func (m *mrClassifier) exprCalls(e ast.Node) {
	ast.Inspect(e, func(n ast.Node) bool {
		call, ok := n.(*ast.CallExpr)
		if !ok {
			return true
		}
		if tv, ok := m.pk.TypesInfo.Types[call.Fun]; ok && tv.IsType() {
			return true // conversion
		}
		if id, ok := call.Fun.(*ast.Ident); ok {
			if _, isB := m.pk.TypesInfo.Uses[id].(*types.Builtin); isB {
				switch id.Name {
				case "len", "cap", "append", "make", "new", "string", "min", "max":
					return true
				case "delete":
					m.effects++
					return true
				case "panic":
					m.sens("panics inside the loop: which element raises first depends on iteration order")
					return true
				}
			}
		}
		fns, resolved := calleeFuncs(m.c, m.pk, call)
		if !resolved {
			m.sens("dynamic call " + core.ExprStr(call.Fun) + " cannot be resolved")
			return true
		}
		for _, f := range fns {
			if !m.c.P.FuncInModule(f) {
				continue
			}
			if mp, where := m.c.P.MayPanic(f); mp {
				m.sens("calls " + core.FuncName(f) + " which can panic (via " + core.FuncName(where) + "): the first failing element depends on iteration order")
				return true
			}
			// shared-state writes other than map inserts
			for g := range m.c.P.Reach([]*ssa.Function{f}, func(h *ssa.Function) bool { return !m.c.P.FuncInModule(h) }) {
				if !m.c.P.FuncInModule(g) {
					continue
				}
				for _, w := range core.DirectHeapWrites(g) {
					if w.Kind != "map" {
						m.sens("calls " + core.FuncName(f) + " which writes " + w.Kind + " (last writer wins depends on order)")
						return true
					}
					// a map store inside the callee: only harmless when it is keyed by THIS loop's key
					// (distinct keys cannot collide) - the key must be handed to the call
					keyed := false
					if m.rs.Key != nil {
						for _, a := range call.Args {
							if core.ExprStr(a) == core.ExprStr(m.rs.Key) && core.ExprStr(m.rs.Key) != "_" {
								keyed = true
							}
						}
					}
					if !keyed {
						m.sens("calls " + core.FuncName(f) + " which stores into a map under a key that is not this loop's key: colliding keys make the last writer depend on iteration order (and a map that is ranged over while it grows visits the new entries or not at random)")
						return true
					}
					m.effects++
				}
			}
		}
		return true
	})
}

func (m *mrClassifier) stmts(list []ast.Stmt) {
	for _, s := range list {
		m.stmt(s)
	}
}

func (m *mrClassifier) sortedLater(obj types.Object) bool {
	found := false
	ast.Inspect(m.fd.Body, func(n ast.Node) bool {
		call, ok := n.(*ast.CallExpr)
		if !ok || call.Pos() < m.rs.End() || len(call.Args) == 0 {
			return true
		}
		id, ok := ast.Unparen(call.Args[0]).(*ast.Ident)
		if !ok || m.pk.TypesInfo.ObjectOf(id) != obj {
			return true
		}
		callee := core.FullName(core.Callee(m.pk, call))
		switch callee {
		case "sort.Strings", "sort.Ints", "sort.Float64s", "slices.Sort":
			// natural total order on the (unique) collected keys
			found = true
		case "sort.Slice", "sort.SliceStable", "slices.SortFunc", "slices.SortStableFunc":
			// only a comparator on the elements themselves is a total order on unique keys;
			// sorting by a derived attribute leaves ties in map order
			if len(call.Args) == 2 {
				if fl, ok := call.Args[1].(*ast.FuncLit); ok && len(fl.Body.List) == 1 {
					if ret, ok := fl.Body.List[0].(*ast.ReturnStmt); ok && len(ret.Results) == 1 {
						if be, ok := ast.Unparen(ret.Results[0]).(*ast.BinaryExpr); ok && (be.Op == token.LSS || be.Op == token.GTR) {
							isElem := func(e ast.Expr) bool {
								switch x := ast.Unparen(e).(type) {
								case *ast.IndexExpr:
									xi, ok := ast.Unparen(x.X).(*ast.Ident)
									return ok && m.pk.TypesInfo.ObjectOf(xi) == obj
								case *ast.Ident:
									// slices.SortFunc(a, b) parameters
									for _, f := range fl.Type.Params.List {
										for _, nm := range f.Names {
											if nm.Name == x.Name {
												return true
											}
										}
									}
								}
								return false
							}
							if isElem(be.X) && isElem(be.Y) {
								found = true
							}
						}
					}
				}
			}
		}
		return true
	})
	return found
}

func (m *mrClassifier) stmt(s ast.Stmt) {
	switch x := s.(type) {
	case *ast.ExprStmt:
		m.exprCalls(x.X)
	case *ast.IncDecStmt:
		m.effects++
	case *ast.AssignStmt:
		for _, r := range x.Rhs {
			m.exprCalls(r)
		}
		for i, l := range x.Lhs {
			l = ast.Unparen(l)
			if ix, ok := l.(*ast.IndexExpr); ok {
				if _, isMap := core.TypeOf(m.pk, ix.X).Underlying().(*types.Map); isMap {
					m.effects++
					if id, ok := ast.Unparen(ix.Index).(*ast.Ident); ok && m.loopVars[m.pk.TypesInfo.ObjectOf(id)] && m.rs.Key != nil && core.ExprStr(m.rs.Key) == id.Name {
						continue // insert under the (unique) loop key
					}
					m.sens("map store under a key other than the loop key (collisions make the last writer order-dependent)")
					continue
				}
			}
			if id, ok := l.(*ast.Ident); ok {
				obj := m.pk.TypesInfo.ObjectOf(id)
				if x.Tok == token.DEFINE {
					m.loopVars[obj] = m.loopVars[obj] || (i < len(x.Rhs) && m.usesLoopVar(x.Rhs[i]))
					continue
				}
				// append accumulation
				if i < len(x.Rhs) {
					if call, ok := ast.Unparen(x.Rhs[i]).(*ast.CallExpr); ok {
						if fid, ok := call.Fun.(*ast.Ident); ok && fid.Name == "append" {
							m.effects++
							if m.sortedLater(obj) {
								continue
							}
							m.sens("appends to " + id.Name + " in map order and the slice is not sorted afterwards")
							continue
						}
					}
				}
				switch x.Tok {
				case token.ADD_ASSIGN, token.OR_ASSIGN, token.AND_ASSIGN, token.XOR_ASSIGN, token.MUL_ASSIGN:
					if b, ok := obj.Type().Underlying().(*types.Basic); ok && b.Info()&(types.IsInteger|types.IsBoolean) != 0 {
						m.effects++
						continue
					}
				}
				if m.usesLoopVar(x.Rhs[min(i, len(x.Rhs)-1)]) {
					m.effects++
					m.sens("assigns an element-dependent value to " + id.Name + " (last writer depends on order)")
				}
				continue
			}
			m.effects++
			m.sens("store to " + core.ExprStr(l) + " inside a map range")
		}
	case *ast.IfStmt:
		if x.Init != nil {
			m.stmt(x.Init)
		}
		m.exprCalls(x.Cond)
		m.stmts(x.Body.List)
		if x.Else != nil {
			m.stmt(x.Else)
		}
	case *ast.BlockStmt:
		m.stmts(x.List)
	case *ast.RangeStmt:
		if x.Key != nil {
			if id, ok := x.Key.(*ast.Ident); ok {
				m.loopVars[m.pk.TypesInfo.ObjectOf(id)] = m.usesLoopVar(x.X)
			}
		}
		if x.Value != nil {
			if id, ok := x.Value.(*ast.Ident); ok {
				m.loopVars[m.pk.TypesInfo.ObjectOf(id)] = m.usesLoopVar(x.X)
			}
		}
		m.exprCalls(x.X)
		m.stmts(x.Body.List)
	case *ast.ReturnStmt:
		for _, r := range x.Results {
			m.exprCalls(r)
			if m.usesLoopVar(r) {
				m.sens("returns an element-dependent value from inside the loop (`" + core.ExprStr(r) + "`): the result depends on which matching element is visited first")
			}
		}
	case *ast.BranchStmt:
		if x.Tok == token.BREAK || x.Tok == token.GOTO {
			m.sens("leaves the loop early (break/goto)")
		}
	case *ast.SwitchStmt, *ast.TypeSwitchStmt, *ast.ForStmt, *ast.SelectStmt, *ast.GoStmt, *ast.DeferStmt, *ast.SendStmt:
		m.sens("statement kind not classified: " + strings.TrimPrefix(core.F("%T", s), "*ast."))
	case *ast.DeclStmt, *ast.EmptyStmt:
	default:
		m.sens("statement kind not classified: " + core.F("%T", s))
	}
}

func mapRangeSites(c *core.Ctx) []mapRangeSite {
	var out []mapRangeSite
	c.P.ForEachNode(func(pk *packagesPackage, file *ast.File, stack []ast.Node, n ast.Node) bool {
		rs, ok := n.(*ast.RangeStmt)
		if !ok {
			return true
		}
		t := core.TypeOf(pk, rs.X)
		if t == nil {
			return true
		}
		if _, ok := t.Underlying().(*types.Map); !ok {
			return true
		}
		fd := enclosingDecl(stack)
		if fd == nil {
			return true
		}
		m := &mrClassifier{c: c, pk: pk, fd: fd, rs: rs, loopVars: map[types.Object]bool{}}
		for _, e := range []ast.Expr{rs.Key, rs.Value} {
			if id, ok := e.(*ast.Ident); ok && id.Name != "_" {
				m.loopVars[pk.TypesInfo.ObjectOf(id)] = true
			}
		}
		m.stmts(rs.Body.List)
		site := mapRangeSite{pk: pk, rs: rs, fd: fd, fn: core.DeclName(pk, fd)}
		site.key = site.fn + "|" + core.ExprStr(rs.X)
		if len(m.reasons) == 0 {
			site.class = "insensitive"
		} else {
			site.class = m.reasons[0]
		}
		out = append(out, site)
		return true
	})
	return out
}

// c09maprange runs the classifier; `only` restricts to sites whose enclosing
// function name contains one of the substrings (used by C17/C20/C07 to claim
// just their own instances); rule is the reporting id.
func runMapRange(c *core.Ctx, R string, only []string, floor int) {
	c.Rule(R, "every `range` over a map is order-insensitive by construction (body only deletes, inserts under the loop key, accumulates commutatively, collects keys that are sorted before use, or returns constants; no callee can panic or overwrite shared fields), or is listed in the reasoned table (at most one element can match); anything else makes the observable result depend on Go's randomised map iteration order")
	c.Floor(R, floor)
	for _, s := range mapRangeSites(c) {
		if only != nil {
			hit := false
			for _, o := range only {
				if strings.Contains(s.fn, o) {
					hit = true
				}
			}
			if !hit {
				continue
			}
		}
		pos := c.P.Pos(s.rs.Pos())
		what := "range over map " + core.ExprStr(s.rs.X) + " in " + s.fn
		if s.class == "insensitive" {
			c.OKd(R, s.key, pos, what, "order-insensitive body")
			continue
		}
		if reason, ok := mapRangeTable[s.key]; ok {
			c.Tabled(R, s.key, pos, what, "order-sensitive ("+s.class+") but: "+reason)
			continue
		}
		c.Bad(R, s.key, pos, what, s.class)
	}
}

func c09maprange(c *core.Ctx) { runMapRange(c, "C09.maprange", nil, 10) }
