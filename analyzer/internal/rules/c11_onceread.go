package rules

import (
	"go/types"
	"sort"
	"strings"

	"golang.org/x/tools/go/ssa"

	"jsverif/internal/core"
)

var onceReadTable = map[string]string{
	"(*notations/jschema.JSchema).CollectUserTypes": "exported for internal use: its only caller is the closure of LoadOnce inside load() (it fills UserTypesNamesUsed as part of loading)",
	"(*notations/jschema.JSchema).BuildASTNode":     "exported for internal use: its only caller is the closure of LoadOnce inside load()",
	"(*notations/jschema.JSchema).AddRule":          "configuration call (`rules must be added before the schema is loaded`), not one of the operations the property lists for concurrent use on one object; it only tests whether loading has happened",
	"(*notations/jschema.JSchema).InnerTypesList":   "plain accessor for use after Check()/Compile() (OpenAPI converter, tests); not one of the listed concurrent operations and returns the map built by the once",
}

// c11onceread: lazily built fields are read only after their once has run.
func c11onceread(c *core.Ctx) {
	const R = "C11.onceread"
	c.Rule(R, "in every exported method of JSchema / RSchema / Enum, a read of a lazily built field (JSchema.Inner, ASTNode, UserTypesNamesUsed; RSchema.pattern, RE; Enum.values) is dominated by a call - on the same receiver - of a method that runs the corresponding once (directly, or as its first dominating step). A fast path that looks at the field first (`if s.Inner == nil { load() }`) reads it unsynchronised while another goroutine is still inside the once, and returns a half-built result without error")
	c.Floor(R, 5)
	lazy := []struct {
		pkg, typ string
		fields   map[string]bool
	}{
		{"notations/jschema", "JSchema", map[string]bool{"Inner": true, "ASTNode": true, "UserTypesNamesUsed": true}},
		{"notations/regex", "RSchema", map[string]bool{"pattern": true, "RE": true}},
		{"rules/enum", "Enum", map[string]bool{"values": true}},
	}
	oc := onceClosures(c)
	callsOnceDo := func(f *ssa.Function) bool {
		for _, b := range f.Blocks {
			for _, in := range b.Instrs {
				if call, ok := in.(ssa.CallInstruction); ok {
					if sc := call.Common().StaticCallee(); sc != nil && strings.Contains(sc.String(), "internal/sync.ErrOnce") && strings.HasSuffix(strings.Split(sc.String(), "[")[0], ".Do") {
						return true
					}
				}
			}
		}
		return false
	}
	for _, lz := range lazy {
		nt := c.P.NamedType(lz.pkg, lz.typ)
		if nt == nil {
			c.Unresolved(R, lz.pkg+"."+lz.typ)
			continue
		}
		// methods of the type
		var methods []*ssa.Function
		for f := range c.P.AllFuncs {
			if f.Signature.Recv() == nil || f.Blocks == nil || f.Synthetic != "" {
				continue
			}
			rt := f.Signature.Recv().Type()
			if p, ok := rt.(*types.Pointer); ok {
				rt = p.Elem()
			}
			if n, ok := rt.(*types.Named); ok && n.Obj() == nt.Obj() {
				methods = append(methods, f)
			}
		}
		sort.Slice(methods, func(i, j int) bool { return methods[i].String() < methods[j].String() })
		runner := map[*ssa.Function]bool{}
		for _, m := range methods {
			if callsOnceDo(m) {
				runner[m] = true
			}
		}
		// one more level: a method whose entry block calls a runner on its own receiver
		for i := 0; i < 2; i++ {
			for _, m := range methods {
				if runner[m] || len(m.Blocks) == 0 {
					continue
				}
				for _, in := range m.Blocks[0].Instrs {
					if call, ok := in.(ssa.CallInstruction); ok {
						if sc := call.Common().StaticCallee(); sc != nil && runner[sc] && len(call.Common().Args) > 0 && call.Common().Args[0] == ssa.Value(m.Params[0]) {
							runner[m] = true
						}
					}
				}
			}
		}
		st := nt.Underlying().(*types.Struct)
		for _, m := range methods {
			if !m.Object().Exported() {
				continue
			}
			if _, isOnce := oc[m]; isOnce {
				continue
			}
			recv := m.Params[0]
			// runner calls in this method
			var runs []ssa.Instruction
			for _, b := range m.Blocks {
				for _, in := range b.Instrs {
					if call, ok := in.(ssa.CallInstruction); ok {
						if sc := call.Common().StaticCallee(); sc != nil && runner[sc] && len(call.Common().Args) > 0 && call.Common().Args[0] == ssa.Value(recv) {
							runs = append(runs, in)
						}
					}
				}
			}
			n := 0
			for _, b := range m.Blocks {
				for idx, in := range b.Instrs {
					fa, ok := in.(*ssa.FieldAddr)
					if !ok || fa.X != ssa.Value(recv) {
						continue
					}
					fname := st.Field(fa.Field).Name()
					if !lz.fields[fname] {
						continue
					}
					// only reads: a FieldAddr used solely as the address of stores is a write (checked by C11.once)
					read := false
					for _, ref := range *fa.Referrers() {
						if s, isStore := ref.(*ssa.Store); isStore && s.Addr == ssa.Value(fa) {
							continue
						}
						read = true
					}
					if !read {
						continue
					}
					n++
					dominated := false
					for _, r := range runs {
						rb := r.Block()
						if rb == b {
							for j := 0; j < idx; j++ {
								if b.Instrs[j] == r {
									dominated = true
								}
							}
						} else if rb.Dominates(b) {
							dominated = true
						}
					}
					key := core.F("%s:%s#%d", core.FuncName(m), fname, n)
					if r, ok := onceReadTable[core.FuncName(m)]; ok && !dominated {
						c.Tabled(R, key, c.P.Pos(fa.Pos()), core.F("read of %s.%s in %s", lz.typ, fname, core.FuncName(m)), r)
						continue
					}
					c.Check(dominated, R, key, c.P.Pos(fa.Pos()), core.F("read of %s.%s in %s after its once", lz.typ, fname, core.FuncName(m)), "the lazily built field is read on a path on which the once has not been run by this call: a concurrent first load is observed half-way (or not at all) and a partial result is returned without error")
				}
			}
		}
	}
}
