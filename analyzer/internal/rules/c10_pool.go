package rules

import (
	"go/ast"
	"go/types"

	"jsverif/internal/core"
)

// poolRule: engine E5, intra-procedural, on the typed AST (go/ssa spills the
// results of functions with defers into shared slots, which loses which return
// statement returns what). In a function that takes a buffer from a pool and
// gives it back, nothing that aliases the buffer's memory may outlive the call.
func poolRule(R string) RuleFunc {
	return func(c *core.Ctx) {
		c.Rule(R, "in every function that obtains a buffer from a BufferPool / sync.Pool and puts it back (directly or by defer), no expression aliasing the buffer's storage (buf.Bytes(), a slice or trim of it, a variable assigned from it, the buffer itself) is returned or assigned to a field/global, unless it passed a copying operation first (append to nil/fresh slice, bytes.Clone, slices.Clone, string conversion): the pool hands the same memory to the next user, which overwrites - and across goroutines races with - the result the caller still holds")
		c.Floor(R, 8)
		for _, d := range c.P.FuncDecls() {
			pk := d.Pkg
			fn := core.DeclName(pk, d.Decl)
			if core.Rel(pk.PkgPath) == "internal/sync" {
				continue // the pool wrapper itself
			}
			pooled := map[types.Object]bool{}
			put := false
			ast.Inspect(d.Decl.Body, func(n ast.Node) bool {
				switch x := n.(type) {
				case *ast.AssignStmt:
					for i, r := range x.Rhs {
						if isPoolGet(pk, r) && i < len(x.Lhs) {
							if id, ok := x.Lhs[i].(*ast.Ident); ok {
								pooled[pk.TypesInfo.ObjectOf(id)] = true
							}
						}
					}
				case *ast.CallExpr:
					switch core.FullName(core.Callee(pk, x)) {
					case "(*internal/sync.BufferPool).Put", "(*sync.Pool).Put":
						put = true
					}
				}
				return true
			})
			if len(pooled) == 0 {
				continue
			}
			if !put {
				c.Note(R, fn+":noput", c.P.Pos(d.Decl.Pos()), "pool user "+fn+" never puts the value back", "")
				continue
			}
			// alias variables (flow-insensitive over assignments)
			aliasVar := map[types.Object]bool{}
			var isAlias func(e ast.Expr) bool
			isAlias = func(e ast.Expr) bool {
				e = ast.Unparen(e)
				switch x := e.(type) {
				case *ast.Ident:
					o := pk.TypesInfo.ObjectOf(x)
					return pooled[o] || aliasVar[o]
				case *ast.SliceExpr:
					return isAlias(x.X)
				case *ast.TypeAssertExpr:
					return isAlias(x.X)
				case *ast.CallExpr:
					if tv, ok := pk.TypesInfo.Types[x.Fun]; ok && tv.IsType() {
						// conversion: string(b) copies, []byte(s) copies; named byte-slice conversions alias
						if len(x.Args) == 1 && isAlias(x.Args[0]) {
							if _, isSlice := tv.Type.Underlying().(*types.Slice); isSlice {
								if at := core.TypeOf(pk, x.Args[0]); at != nil {
									if _, argSlice := at.Underlying().(*types.Slice); argSlice {
										return true
									}
								}
							}
						}
						return false
					}
					callee := core.FullName(core.Callee(pk, x))
					if se, ok := x.Fun.(*ast.SelectorExpr); ok {
						switch callee {
						case "(*bytes.Buffer).Bytes", "(*bytes.Buffer).Next", "(*bytes.Buffer).AvailableBuffer":
							return isAlias(se.X)
						}
					}
					switch callee {
					case "bytes.Trim", "bytes.TrimSpace", "bytes.TrimLeft", "bytes.TrimRight", "bytes.TrimPrefix", "bytes.TrimSuffix", "bytes.TrimFunc":
						return len(x.Args) > 0 && isAlias(x.Args[0])
					}
					if id, ok := x.Fun.(*ast.Ident); ok && id.Name == "append" && len(x.Args) > 0 {
						return isAlias(x.Args[0]) // append(dst, ...) aliases dst only
					}
				}
				return false
			}
			for changed := true; changed; {
				changed = false
				ast.Inspect(d.Decl.Body, func(n ast.Node) bool {
					as, ok := n.(*ast.AssignStmt)
					if !ok || len(as.Lhs) != len(as.Rhs) {
						return true
					}
					for i, l := range as.Lhs {
						if id, ok := l.(*ast.Ident); ok && isAlias(as.Rhs[i]) {
							o := pk.TypesInfo.ObjectOf(id)
							if o != nil && !aliasVar[o] && !pooled[o] {
								aliasVar[o] = true
								changed = true
							}
						}
					}
					return true
				})
			}
			n := 0
			var lits int
			ast.Inspect(d.Decl.Body, func(nd ast.Node) bool {
				switch x := nd.(type) {
				case *ast.FuncLit:
					lits++
					return false
				case *ast.ReturnStmt:
					for _, r := range x.Results {
						t := core.TypeOf(pk, r)
						if t == nil || !isByteSliceOrBuf(t) {
							continue
						}
						if v := core.ConstOf(pk, r); v != nil {
							continue
						}
						if id, ok := ast.Unparen(r).(*ast.Ident); ok && id.Name == "nil" {
							continue
						}
						n++
						key := core.F("%s:return#%d", fn, n)
						c.Check(!isAlias(r), R, key, c.P.Pos(x.Pos()), "`return "+core.ExprStr(r)+"` in pool user "+fn,
							"returns memory of the pooled buffer while Put recycles it: the bytes the caller holds are overwritten by the next user of the pool (Example()/MarshalJSON results change after the next call)")
					}
				case *ast.AssignStmt:
					if len(x.Lhs) == len(x.Rhs) {
						for i, l := range x.Lhs {
							if _, isSel := ast.Unparen(l).(*ast.SelectorExpr); isSel && isAlias(x.Rhs[i]) {
								n++
								c.Bad(R, core.F("%s:store#%d", fn, n), c.P.Pos(x.Pos()), "assignment "+core.ExprStr(l)+" = … in pool user "+fn, "stores memory of the pooled buffer in a field")
							}
						}
					}
				}
				return true
			})
			if n == 0 {
				c.OK(R, fn+":nosink", c.P.Pos(d.Decl.Pos()), "pool user "+fn+" returns/stores no byte slice")
			}
		}
	}
}

func isPoolGet(pk *packagesPackage, e ast.Expr) bool {
	e = ast.Unparen(e)
	if ta, ok := e.(*ast.TypeAssertExpr); ok {
		e = ast.Unparen(ta.X)
	}
	call, ok := e.(*ast.CallExpr)
	if !ok {
		return false
	}
	switch core.FullName(core.Callee(pk, call)) {
	case "(*internal/sync.BufferPool).Get", "(*sync.Pool).Get":
		return true
	}
	return false
}

func isByteSliceOrBuf(t types.Type) bool {
	if s, ok := t.Underlying().(*types.Slice); ok {
		if b, ok := s.Elem().Underlying().(*types.Basic); ok && b.Kind() == types.Uint8 {
			return true
		}
	}
	if p, ok := t.Underlying().(*types.Pointer); ok {
		return p.Elem().String() == "bytes.Buffer"
	}
	return false
}
