package rules

import (
	"go/ast"
	"go/types"
	"strings"

	"jsverif/internal/core"
)

// guessRules: determinism and sibling agreement of the two literal classifiers
// (root.typeGuesser used by GuessSchemaType / enum rules, json.GuessData used by
// the schema loader). Shared by C17.kind and C20.guess.
func guessRules(R string) RuleFunc {
	return func(c *core.Ctx) {
		c.Rule(R, "the literal classifiers never iterate a map (no order dependence); both test `string` before the number predicates (a quoted string may look like a number); and root.typeGuesser.isInteger/isFloat are clones of json.GuessData.IsInteger/IsFloat modulo the accessor spelling, and isString/isBoolean/isNull/isObject/isArray accept under exactly the same symbolic conditions as their json.GuessData counterparts")
		c.Floor(R, 13)
		// 1. no map range in the classifier functions
		n := 0
		for _, d := range c.P.FuncDecls() {
			name := core.DeclName(d.Pkg, d.Decl)
			if !(hasPrefix(name, "(*root.typeGuesser).") || name == "root.GuessSchemaType" || hasPrefix(name, "(json.GuessData).") || hasPrefix(name, "(*json.GuessData).") || name == "json.Guess") {
				continue
			}
			n++
			bad := false
			ast.Inspect(d.Decl.Body, func(nd ast.Node) bool {
				if rs, ok := nd.(*ast.RangeStmt); ok {
					if _, isMap := core.TypeOf(d.Pkg, rs.X).Underlying().(*types.Map); isMap {
						bad = true
						c.Bad(R, name+":maprange", c.P.Pos(rs.Pos()), "classifier "+name+" ranges over a map", "the predicates are tried in randomised order: inputs satisfying two predicates get different answers on different runs")
					}
				}
				return true
			})
			if !bad {
				c.OK(R, name+":nomaprange", c.P.Pos(d.Decl.Pos()), "classifier function "+name+" has no map iteration")
			}
		}
		if n < 10 {
			c.Unresolved(R, "classifier functions (root.typeGuesser.*, json.GuessData.*)")
		}
		// 2. order of predicate references
		order := func(full string, first string, later []string) {
			d := c.P.FindDecl(full)
			if d == nil {
				c.Unresolved(R, full)
				return
			}
			posOf := map[string]int{}
			i := 0
			// references in program order; a helper of the same type that is called is read at the call
			var walk func(hd *core.DeclSite, depth int)
			walk = func(hd *core.DeclSite, depth int) {
				ast.Inspect(hd.Decl.Body, func(nd ast.Node) bool {
					se, ok := nd.(*ast.SelectorExpr)
					if !ok {
						return true
					}
					fo, isF := hd.Pkg.TypesInfo.ObjectOf(se.Sel).(*types.Func)
					if !isF {
						return true
					}
					i++
					if _, seen := posOf[se.Sel.Name]; !seen {
						posOf[se.Sel.Name] = i
					}
					if depth < 2 && se.Sel.Name != first && fo.Pkg() != nil && fo.Pkg().Path() == hd.Pkg.PkgPath {
						isLater := false
						for _, l := range later {
							if l == se.Sel.Name {
								isLater = true
							}
						}
						if !isLater {
							if sub := c.P.FindDecl(core.Rel(fo.FullName())); sub != nil && sub.Decl.Body != nil && sub.Decl != hd.Decl {
								walk(sub, depth+1)
							}
						}
					}
					return true
				})
			}
			walk(d, 0)
			pf, ok := posOf[first]
			if !ok {
				c.Bad(R, full+":order", c.P.Pos(d.Decl.Pos()), "predicate order in "+full, "predicate "+first+" is no longer referenced")
				return
			}
			for _, l := range later {
				pl, ok := posOf[l]
				if !ok {
					c.Bad(R, full+":order:"+l, c.P.Pos(d.Decl.Pos()), "predicate order in "+full, "predicate "+l+" is no longer referenced")
					continue
				}
				c.Check(pf < pl, R, full+":order:"+first+"<"+l, c.P.Pos(d.Decl.Pos()), core.F("%s tests %s before %s", full, first, l),
					"a quoted string that looks like a number would be classified as a number")
			}
		}
		order("(*root.typeGuesser).Guess", "isString", []string{"isInteger", "isFloat"})
		order("(json.GuessData).LiteralJsonType", "IsString", []string{"IsInteger", "IsFloat"})
		// 3. clones
		subst := [][2]string{{`v0\.bytes\.Data\(\)`, `v0.data`}, {`v0\.Number\(\)`, `v0.parseNumber()`}}
		for _, pair := range [][2]string{{"(*root.typeGuesser).isInteger", "(*json.GuessData).IsInteger"}, {"(*root.typeGuesser).isFloat", "(*json.GuessData).IsFloat"}} {
			a, b := c.P.FindDecl(pair[0]), c.P.FindDecl(pair[1])
			if a == nil || b == nil {
				c.Unresolved(R, pair[0]+" / "+pair[1])
				continue
			}
			na, nb := core.NormFunc(a.Pkg, a.Decl, subst), core.NormFunc(b.Pkg, b.Decl, subst)
			if na == nb {
				c.OK(R, "clone:"+pair[0]+"="+pair[1], c.P.Pos(a.Decl.Pos()), pair[0]+" ≡ "+pair[1]+" (normalised bodies equal)")
			} else if why, decided := classifierEquiv(c, a, b); decided && why == "" {
				c.OKd(R, "clone:"+pair[0]+"="+pair[1], c.P.Pos(a.Decl.Pos()), pair[0]+" ≡ "+pair[1], "the bodies differ in spelling; both evaluated on every byte-class sequence up to length 6 x every outcome of the number parser: equal answers")
			} else if decided {
				c.Bad(R, "clone:"+pair[0]+"="+pair[1], c.P.Pos(a.Decl.Pos()), pair[0]+" ≡ "+pair[1], "the two classifiers diverge: "+why)
			} else {
				c.Bad(R, "clone:"+pair[0]+"="+pair[1], c.P.Pos(a.Decl.Pos()), pair[0]+" ≡ "+pair[1], "the two classifiers diverge: "+core.FirstDiff(na, nb)+" ("+why+")")
			}
		}
		// 4. the small predicates: same accept sets
		norm := func(s string) string {
			s = strings.ReplaceAll(s, "sel:.data(sel:.bytes(param:g))", "DATA")
			s = strings.ReplaceAll(s, "load:&g.data", "DATA")
			return s
		}
		inl := []string{"(bytes.Bytes).Len", "(bytes.Bytes).FirstByte", "(bytes.Bytes).LastByte", "(bytes.Bytes).String"}
		for _, pair := range [][2]string{{"isString", "IsString"}, {"isBoolean", "IsBoolean"}, {"isNull", "IsNull"}, {"isObject", "IsObject"}, {"isArray", "IsArray"}} {
			predEquiv(c, R, "(*root.typeGuesser)."+pair[0], "(json.GuessData)."+pair[1], inl, norm, "GuessSchemaType and the scanner-side classifier json.Guess disagree on some literal")
		}
	}
}

func hasPrefix(s, p string) bool { return len(s) >= len(p) && s[:len(p)] == p }

// classifierEquiv compares two number classifiers (isInteger / IsInteger ...) by evaluation. Each
// scans the literal's bytes, touching them only through comparisons with '.', 'e', 'E', keeps at most
// two boolean flags, then asks the number parser (error? fractional length?). Two such machines with
// at most 4 states each agree on all inputs iff they agree on all byte-class sequences up to length
// 4+4-2 = 6, for every outcome of the parser. decided=false: a function keeps other state - the
// argument does not apply.
func classifierEquiv(c *core.Ctx, a, b *core.DeclSite) (why string, decided bool) {
	stateOK := func(d *core.DeclSite) bool {
		ok := true
		n := map[string]bool{}
		for _, hd := range helperBodies(c, d, 1) {
			ast.Inspect(hd.Decl.Body, func(m ast.Node) bool {
				var body *ast.BlockStmt
				switch l := m.(type) {
				case *ast.RangeStmt:
					body = l.Body
				case *ast.ForStmt:
					body = l.Body
				}
				if body == nil {
					return true
				}
				ast.Inspect(body, func(k ast.Node) bool {
					switch as := k.(type) {
					case *ast.AssignStmt:
						for _, l := range as.Lhs {
							id, isID := l.(*ast.Ident)
							if !isID {
								ok = false
								continue
							}
							if t := core.TypeOf(hd.Pkg, id); t == nil || t.String() != "bool" {
								ok = false
							}
							n[id.Name] = true
						}
					case *ast.IncDecStmt:
						ok = false
					}
					return true
				})
				return true
			})
		}
		return ok && len(n) <= 2
	}
	if !stateOK(a) || !stateOK(b) {
		return "a classifier keeps more state in its loop than two flags; not decided by evaluation", false
	}
	classes := []int64{'.', 'e', 'E', 'x'}
	run := func(d *core.DeclSite, seq []int64, perr, frac int64) (int64, string) {
		e := &miniEval{pk: d.Pkg, env: map[string]int64{"nil": 0}, ctx: c, methods: true}
		e.rng = func(x ast.Expr) ([]int64, bool) {
			if t := core.TypeOf(e.pk, x); t != nil {
				if sl, ok := t.Underlying().(*types.Slice); ok {
					if bt, ok := sl.Elem().Underlying().(*types.Basic); ok && bt.Kind() == types.Uint8 {
						return seq, true
					}
				}
			}
			return nil, false
		}
		e.tuple = func(call *ast.CallExpr) ([]int64, bool) {
			// (number, error) of the parser; other two-valued helpers are evaluated in place
			if t, ok := core.TypeOf(e.pk, call).(*types.Tuple); ok && t.Len() == 2 && core.IsErrorType(t.At(1).Type()) {
				return []int64{1, perr}, true
			}
			return nil, false
		}
		e.hook = func(x ast.Expr) (int64, bool) {
			switch y := x.(type) {
			case *ast.Ident:
				if y.Name == "nil" {
					return 0, true
				}
			case *ast.CallExpr:
				if strings.HasSuffix(core.ExprStr(y.Fun), ".LengthOfFractionalPart") {
					return frac, true
				}
			}
			return 0, false
		}
		st, rets := e.run(d.Decl.Body.List)
		if e.unknown != "" {
			return 0, e.unknown
		}
		if st != miniReturn || len(rets) != 1 {
			return 0, "no value returned"
		}
		return rets[0], ""
	}
	var seqs [][]int64
	var gen func(cur []int64, depth int)
	gen = func(cur []int64, depth int) {
		seqs = append(seqs, append([]int64(nil), cur...))
		if depth == 6 {
			return
		}
		for _, cl := range classes {
			gen(append(cur, cl), depth+1)
		}
	}
	gen(nil, 0)
	for _, seq := range seqs {
		for _, oc := range [][2]int64{{1, 0}, {0, 0}, {0, 1}} {
			ra, ua := run(a, seq, oc[0], oc[1])
			rb, ub := run(b, seq, oc[0], oc[1])
			if ua != "" || ub != "" {
				return "undecided: " + ua + ub, false
			}
			if ra != rb {
				var sb strings.Builder
				for _, ch := range seq {
					sb.WriteByte(byte(ch))
				}
				return core.F("on a literal with the byte classes %q (parser error: %v, fractional digits: %v) one answers %v, the other %v", sb.String(), oc[0] != 0, oc[1] != 0, ra != 0, rb != 0), true
			}
		}
	}
	return "", true
}
