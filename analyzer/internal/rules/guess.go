package rules

import (
	"go/ast"
	"go/types"
	"strings"

	"jsverif/internal/core"
)

// guessRules: determinism and sibling agreement of the two literal classifiers
// (root.typeGuesser used by GuessSchemaType / enum rules, json.GuessData used by
// the schema loader). Shared by C17.kind and C20.guess.
func guessRules(R string) RuleFunc {
	return func(c *core.Ctx) {
		c.Rule(R, "the literal classifiers never iterate a map (no order dependence); both test `string` before the number predicates (a quoted string may look like a number); and root.typeGuesser.isInteger/isFloat are clones of json.GuessData.IsInteger/IsFloat modulo the accessor spelling, and isString/isBoolean/isNull/isObject/isArray accept under exactly the same symbolic conditions as their json.GuessData counterparts")
		c.Floor(R, 13)
		// 1. no map range in the classifier functions
		n := 0
		for _, d := range c.P.FuncDecls() {
			name := core.DeclName(d.Pkg, d.Decl)
			if !(hasPrefix(name, "(*root.typeGuesser).") || name == "root.GuessSchemaType" || hasPrefix(name, "(json.GuessData).") || hasPrefix(name, "(*json.GuessData).") || name == "json.Guess") {
				continue
			}
			n++
			bad := false
			ast.Inspect(d.Decl.Body, func(nd ast.Node) bool {
				if rs, ok := nd.(*ast.RangeStmt); ok {
					if _, isMap := core.TypeOf(d.Pkg, rs.X).Underlying().(*types.Map); isMap {
						bad = true
						c.Bad(R, name+":maprange", c.P.Pos(rs.Pos()), "classifier "+name+" ranges over a map", "the predicates are tried in randomised order: inputs satisfying two predicates get different answers on different runs")
					}
				}
				return true
			})
			if !bad {
				c.OK(R, name+":nomaprange", c.P.Pos(d.Decl.Pos()), "classifier function "+name+" has no map iteration")
			}
		}
		if n < 10 {
			c.Unresolved(R, "classifier functions (root.typeGuesser.*, json.GuessData.*)")
		}
		// 2. order of predicate references
		order := func(full string, first string, later []string) {
			d := c.P.FindDecl(full)
			if d == nil {
				c.Unresolved(R, full)
				return
			}
			posOf := map[string]int{}
			i := 0
			ast.Inspect(d.Decl.Body, func(nd ast.Node) bool {
				if se, ok := nd.(*ast.SelectorExpr); ok {
					if _, isF := d.Pkg.TypesInfo.ObjectOf(se.Sel).(*types.Func); isF {
						i++
						if _, seen := posOf[se.Sel.Name]; !seen {
							posOf[se.Sel.Name] = i
						}
					}
				}
				return true
			})
			pf, ok := posOf[first]
			if !ok {
				c.Bad(R, full+":order", c.P.Pos(d.Decl.Pos()), "predicate order in "+full, "predicate "+first+" is no longer referenced")
				return
			}
			for _, l := range later {
				pl, ok := posOf[l]
				if !ok {
					c.Bad(R, full+":order:"+l, c.P.Pos(d.Decl.Pos()), "predicate order in "+full, "predicate "+l+" is no longer referenced")
					continue
				}
				c.Check(pf < pl, R, full+":order:"+first+"<"+l, c.P.Pos(d.Decl.Pos()), core.F("%s tests %s before %s", full, first, l),
					"a quoted string that looks like a number would be classified as a number")
			}
		}
		order("(*root.typeGuesser).Guess", "isString", []string{"isInteger", "isFloat"})
		order("(json.GuessData).LiteralJsonType", "IsString", []string{"IsInteger", "IsFloat"})
		// 3. clones
		subst := [][2]string{{`v0\.bytes\.Data\(\)`, `v0.data`}, {`v0\.Number\(\)`, `v0.parseNumber()`}}
		for _, pair := range [][2]string{{"(*root.typeGuesser).isInteger", "(*json.GuessData).IsInteger"}, {"(*root.typeGuesser).isFloat", "(*json.GuessData).IsFloat"}} {
			a, b := c.P.FindDecl(pair[0]), c.P.FindDecl(pair[1])
			if a == nil || b == nil {
				c.Unresolved(R, pair[0]+" / "+pair[1])
				continue
			}
			na, nb := core.NormFunc(a.Pkg, a.Decl, subst), core.NormFunc(b.Pkg, b.Decl, subst)
			if na == nb {
				c.OK(R, "clone:"+pair[0]+"="+pair[1], c.P.Pos(a.Decl.Pos()), pair[0]+" ≡ "+pair[1]+" (normalised bodies equal)")
			} else {
				c.Bad(R, "clone:"+pair[0]+"="+pair[1], c.P.Pos(a.Decl.Pos()), pair[0]+" ≡ "+pair[1], "the two classifiers diverge: "+core.FirstDiff(na, nb))
			}
		}
		// 4. the small predicates: same accept sets
		norm := func(s string) string {
			s = strings.ReplaceAll(s, "sel:.data(sel:.bytes(param:g))", "DATA")
			s = strings.ReplaceAll(s, "load:&g.data", "DATA")
			return s
		}
		inl := []string{"(bytes.Bytes).Len", "(bytes.Bytes).FirstByte", "(bytes.Bytes).LastByte", "(bytes.Bytes).String"}
		for _, pair := range [][2]string{{"isString", "IsString"}, {"isBoolean", "IsBoolean"}, {"isNull", "IsNull"}, {"isObject", "IsObject"}, {"isArray", "IsArray"}} {
			predEquiv(c, R, "(*root.typeGuesser)."+pair[0], "(json.GuessData)."+pair[1], inl, norm, "GuessSchemaType and the scanner-side classifier json.Guess disagree on some literal")
		}
	}
}

func hasPrefix(s, p string) bool { return len(s) >= len(p) && s[:len(p)] == p }
