package rules

import (
	"go/token"
	"go/types"

	"golang.org/x/tools/go/ssa"

	"jsverif/internal/core"
)

// c02ovf: (acc) decimal accumulation `u = u*K + d` over input bytes must be
// guarded against wrap-around; (alloc) a slice capacity must be bounded by a
// length of existing data or a constant, not by a number parsed from the input.
func c02ovf(c *core.Ctx) {
	const R = "C02.ovf"
	c.Rule(R, "(acc) every loop-carried accumulation u = u*K + d is dominated, inside the loop, by a comparison on u (overflow guard), otherwise long digit strings silently wrap; (alloc) every make/MakeBytes capacity is a constant, a len()/cap() of existing data or arithmetic over those - a capacity computed from a number parsed out of the input lets a short text demand an arbitrary allocation (makeslice panic / exhaustion)")
	c.Floor(R, 10)
	nAcc := 0
	for _, f := range c.P.ScopeFuncs() {
		fn := core.FuncName(f)
		dom := func(a, b *ssa.BasicBlock) bool { return a == b || a.Dominates(b) }
		for _, b := range f.Blocks {
			for _, in := range b.Instrs {
				switch x := in.(type) {
				case *ssa.Phi:
					bt, ok := x.Type().Underlying().(*types.Basic)
					if !ok || bt.Info()&types.IsInteger == 0 {
						continue
					}
					for _, e := range x.Edges {
						add, ok := e.(*ssa.BinOp)
						if !ok || add.Op != token.ADD {
							continue
						}
						var mul *ssa.BinOp
						for _, o := range []ssa.Value{add.X, add.Y} {
							if m, ok := o.(*ssa.BinOp); ok && m.Op == token.MUL {
								_, cx := m.X.(*ssa.Const)
								_, cy := m.Y.(*ssa.Const)
								if (m.X == ssa.Value(x) && cy) || (m.Y == ssa.Value(x) && cx) {
									mul = m
								}
							}
						}
						if mul == nil {
							continue
						}
						nAcc++
						// guard: an If in a block between phi and the accumulation whose condition compares the phi
						guarded := false
						for _, gb := range f.Blocks {
							if !dom(x.Block(), gb) || !dom(gb, add.Block()) || len(gb.Instrs) == 0 {
								continue
							}
							ifi, ok := gb.Instrs[len(gb.Instrs)-1].(*ssa.If)
							if !ok {
								continue
							}
							if cmp, ok := ifi.Cond.(*ssa.BinOp); ok {
								switch cmp.Op {
								case token.GTR, token.GEQ, token.LSS, token.LEQ:
									if usesValue(cmp.X, x, 3) || usesValue(cmp.Y, x, 3) {
										guarded = true
									}
								}
							}
						}
						key := fn + ":acc:" + x.Comment
						if r, ok := ovfTable[key]; ok {
							c.Tabled(R, key, c.P.Pos(add.Pos()), core.F("accumulation %s = %s*K + d in %s", x.Comment, x.Comment, fn), r)
							continue
						}
						what := core.F("accumulation %s = %s*K + d in %s", x.Comment, x.Comment, fn)
						c.Check(guarded, R, key, c.P.Pos(add.Pos()), what, "no overflow guard on the accumulator inside the loop: a digit string longer than the integer's range wraps around silently (the value reported/used differs from the source text)")
					}
				}
			}
		}
	}
	// allocations
	// rangeChecked: v is compared against a constant by an If that dominates the use block
	rangeChecked := func(v ssa.Value, use *ssa.BasicBlock) bool {
		if use == nil {
			return false
		}
		for _, gb := range use.Parent().Blocks {
			if gb == use || !gb.Dominates(use) || len(gb.Instrs) == 0 {
				continue
			}
			ifi, ok := gb.Instrs[len(gb.Instrs)-1].(*ssa.If)
			if !ok {
				continue
			}
			cmp, ok := ifi.Cond.(*ssa.BinOp)
			if !ok {
				continue
			}
			_, cx := cmp.X.(*ssa.Const)
			_, cy := cmp.Y.(*ssa.Const)
			if (cmp.Op == token.GTR || cmp.Op == token.GEQ) && cmp.X == v && cy {
				return true
			}
			if (cmp.Op == token.LSS || cmp.Op == token.LEQ) && cmp.Y == v && cx {
				return true
			}
		}
		return false
	}
	inProgress := map[string]bool{}
	var useBlock *ssa.BasicBlock
	var bounded func(v ssa.Value, depth int) bool
	bounded = func(v ssa.Value, depth int) bool {
		if depth > 12 {
			return false
		}
		if rangeChecked(v, useBlock) {
			return true
		}
		switch x := v.(type) {
		case *ssa.Const:
			return true
		case *ssa.Call:
			if b, ok := x.Call.Value.(*ssa.Builtin); ok && (b.Name() == "len" || b.Name() == "cap" || b.Name() == "min") {
				return true
			}
			if sc := x.Call.StaticCallee(); sc != nil {
				switch sc.Name() {
				case "Len", "Size", "len", "RuneCount", "RuneCountInString":
					return true
				}
			}
			return false
		case *ssa.BinOp:
			switch x.Op {
			case token.ADD, token.SUB, token.MUL, token.QUO, token.REM, token.SHR:
				return bounded(x.X, depth+1) && bounded(x.Y, depth+1)
			}
			return false
		case *ssa.Convert:
			return bounded(x.X, depth+1)
		case *ssa.ChangeType:
			return bounded(x.X, depth+1)
		case *ssa.Phi:
			for _, e := range x.Edges {
				if e == v {
					continue
				}
				if !bounded(e, depth+1) {
					return false
				}
			}
			return true
		case *ssa.FreeVar:
			fn := x.Parent()
			idx := -1
			for i, fv := range fn.FreeVars {
				if fv == x {
					idx = i
				}
			}
			if par := fn.Parent(); par != nil && idx >= 0 {
				for _, pb := range par.Blocks {
					for _, pin := range pb.Instrs {
						if mc, ok := pin.(*ssa.MakeClosure); ok && mc.Fn == ssa.Value(fn) && idx < len(mc.Bindings) {
							return bounded(mc.Bindings[idx], depth+1)
						}
					}
				}
			}
			return false
		case *ssa.UnOp:
			if x.Op != token.MUL {
				return false
			}
			if al, ok := x.X.(*ssa.Alloc); ok {
				n := 0
				for _, r := range *al.Referrers() {
					if sto, ok := r.(*ssa.Store); ok && sto.Addr == ssa.Value(al) {
						n++
						if !bounded(sto.Val, depth+1) {
							return false
						}
					}
				}
				return n > 0
			}
			if fv, ok := x.X.(*ssa.FreeVar); ok {
				fn := fv.Parent()
				for i, f2 := range fn.FreeVars {
					if f2 != fv || fn.Parent() == nil {
						continue
					}
					for _, pb := range fn.Parent().Blocks {
						for _, pin := range pb.Instrs {
							if mc, ok := pin.(*ssa.MakeClosure); ok && mc.Fn == ssa.Value(fn) && i < len(mc.Bindings) {
								// binding is the address of the captured variable
								return bounded(&ssa.UnOp{Op: token.MUL, X: mc.Bindings[i]}, depth+1)
							}
						}
					}
				}
				return false
			}
			fa, ok := x.X.(*ssa.FieldAddr)
			if !ok {
				return false
			}
			// field-based: every store to this field anywhere must store a bounded value
			st := fa.X.Type().Underlying().(*types.Pointer).Elem()
			fkey := core.F("%s#%d", st.String(), fa.Field)
			if inProgress[fkey] {
				return true // the field's own previous value (x.f = x.f + k): decided by the other operands
			}
			inProgress[fkey] = true
			defer delete(inProgress, fkey)
			saved := useBlock
			defer func() { useBlock = saved }()
			stores := 0
			for g := range c.P.AllFuncs {
				if !c.P.FuncInModule(g) {
					continue
				}
				for _, gb := range g.Blocks {
					for _, gin := range gb.Instrs {
						sto, ok := gin.(*ssa.Store)
						if !ok {
							continue
						}
						fa2, ok := sto.Addr.(*ssa.FieldAddr)
						if !ok || fa2.Field != fa.Field {
							continue
						}
						if !types.Identical(fa2.X.Type().Underlying().(*types.Pointer).Elem(), st) {
							continue
						}
						stores++
						useBlock = sto.Block()
						if !bounded(sto.Val, depth+1) {
							return false
						}
					}
				}
			}
			return stores > 0
		case *ssa.Parameter:
			// one level: all callers must pass bounded values
			fn := x.Parent()
			idx := -1
			for i, p := range fn.Params {
				if p == x {
					idx = i
				}
			}
			edges := c.P.CallersOf(fn)
			if idx < 0 || len(edges) == 0 {
				return false
			}
			for _, e := range edges {
				if e.Site == nil {
					return false
				}
				args := e.Site.Common().Args
				ai := idx
				if e.Site.Common().IsInvoke() {
					ai = idx - 1
				}
				if ai < 0 || ai >= len(args) || !bounded(args[ai], depth+1) {
					return false
				}
			}
			return true
		}
		return false
	}
	n := map[string]int{}
	for _, f := range c.P.ScopeFuncs() {
		fn := core.FuncName(f)
		for _, b := range f.Blocks {
			for _, in := range b.Instrs {
				ms, ok := in.(*ssa.MakeSlice)
				if !ok {
					continue
				}
				n[fn]++
				key := core.F("%s:make#%d", fn, n[fn])
				what := core.F("make(%s, len=%s, cap=%s) in %s", core.Rel(ms.Type().String()), ms.Len.Name(), ms.Cap.Name(), fn)
				if par, isPar := ms.Cap.(*ssa.Parameter); isPar && bounded(ms.Len, 0) {
					// move the obligation to the call sites of this allocator
					idx := -1
					for i, pp := range f.Params {
						if pp == par {
							idx = i
						}
					}
					m := map[string]int{}
					for _, e := range c.P.CallersOf(f) {
						if e.Site == nil || !c.P.FuncInScope(e.Caller.Func) {
							continue
						}
						args := e.Site.Common().Args
						if idx < 0 || idx >= len(args) {
							continue
						}
						cfn := core.FuncName(e.Caller.Func)
						m[cfn]++
						c.Check(bounded(args[idx], 0), R, core.F("%s:%s(size)#%d", cfn, f.Name(), m[cfn]), c.P.Pos(e.Site.Pos()),
							core.F("%s(%s) called from %s", f.Name(), args[idx].Name(), cfn),
							"requested capacity is not bounded by a constant or a length of existing data (it flows from a parsed number or a field written from one): a short input can request an arbitrary allocation (makeslice panic / memory exhaustion)")
					}
					continue
				}
				okb := bounded(ms.Len, 0) && bounded(ms.Cap, 0)
				c.Check(okb, R, key, c.P.Pos(ms.Pos()), what, "slice size is not bounded by a constant or a length of existing data (it flows from a parsed number or an unknown field): a short input can request an arbitrary allocation")
			}
		}
	}
	c.Extra["C02.ovf.accumulations"] = nAcc
}

var ovfTable = map[string]string{
	"bytes.getu4:acc:r": "the loop ranges over s[2:6], exactly four hex digits, so r < 16^4 fits a rune",
}

func usesValue(v ssa.Value, target ssa.Value, depth int) bool {
	if v == target {
		return true
	}
	if depth == 0 {
		return false
	}
	switch x := v.(type) {
	case *ssa.Convert:
		return usesValue(x.X, target, depth-1)
	case *ssa.BinOp:
		return usesValue(x.X, target, depth-1) || usesValue(x.Y, target, depth-1)
	case *ssa.UnOp:
		return usesValue(x.X, target, depth-1)
	}
	return false
}
