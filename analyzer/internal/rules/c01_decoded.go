package rules

import (
	"go/ast"
	"go/token"
	"go/types"
	"strings"

	"golang.org/x/tools/go/packages"

	"jsverif/internal/core"
)

// decodedTable: uses of a validator's raw `value` parameter other than value.Unquote() / json.NewNumber(value).
var decodedTable = map[string]string{
	"(notations/jschema/ischema/constraint.Enum).Validate:NewEnumItem(value)": "NewEnumItem trims and unquotes strings itself and keeps the JSON kind (C17.clone checks that function)",
}

// decodedRule: validators of string rules look at the decoded string.
func decodedRule(R string) RuleFunc {
	return func(c *core.Ctx) {
		c.Rule(R, "in every Validate(value bytes.Bytes) method of the constraint package the raw literal bytes of the example are used only through value.Unquote() (decoded JSON string), json.NewNumber(value) (numeric rules) or a tabled helper that decodes itself: a validator that looks at the bytes between the quotes counts escape sequences as characters and matches patterns against `\\\\n` instead of a newline, so examples with escapes get a wrong verdict")
		c.Floor(R, 8)
		for _, d := range c.P.FuncDecls() {
			if core.Rel(d.Pkg.PkgPath) != "notations/jschema/ischema/constraint" || d.Decl.Name.Name != "Validate" || d.Decl.Body == nil {
				continue
			}
			ps := d.Decl.Type.Params.List
			if len(ps) != 1 || len(ps[0].Names) != 1 || core.ExprStr(ps[0].Type) != "bytes.Bytes" {
				continue
			}
			pname := ps[0].Names[0].Name
			pobj := d.Pkg.TypesInfo.ObjectOf(ps[0].Names[0])
			fn := core.DeclName(d.Pkg, d.Decl)
			// `value = value.Unquote()` as a top-level statement: later uses see the decoded string
			decodedFrom := token.NoPos
			for _, st := range d.Decl.Body.List {
				if as, ok := st.(*ast.AssignStmt); ok && len(as.Lhs) == 1 && len(as.Rhs) == 1 && core.ExprStr(as.Lhs[0]) == pname && core.ExprStr(as.Rhs[0]) == pname+".Unquote()" {
					decodedFrom = as.End()
					break
				}
			}
			var stack []ast.Node
			uses, bad := 0, ""
			ast.Inspect(d.Decl.Body, func(n ast.Node) bool {
				if n == nil {
					stack = stack[:len(stack)-1]
					return true
				}
				stack = append(stack, n)
				id, ok := n.(*ast.Ident)
				if !ok || d.Pkg.TypesInfo.ObjectOf(id) != pobj {
					return true
				}
				uses++
				if decodedFrom != token.NoPos && id.Pos() >= decodedFrom {
					return true
				}
				if len(stack) < 2 {
					return true
				}
				parent := stack[len(stack)-2]
				if as, ok := parent.(*ast.AssignStmt); ok && len(as.Lhs) == 1 && as.Lhs[0] == id && len(as.Rhs) == 1 && core.ExprStr(as.Rhs[0]) == pname+".Unquote()" {
					return true
				}
				// value.Unquote()
				if se, ok := parent.(*ast.SelectorExpr); ok && se.X == id {
					if se.Sel.Name == "Unquote" {
						return true
					}
					if r, ok := decodedTable[fn+":value."+se.Sel.Name]; ok && r != "" {
						return true
					}
					bad = pname + "." + se.Sel.Name
					return true
				}
				if call, ok := parent.(*ast.CallExpr); ok {
					f := core.ExprStr(call.Fun)
					if f == "json.NewNumber" || f == "internalJSON.NewNumber" {
						return true
					}
					if r, ok := decodedTable[fn+":"+f+"(value)"]; ok && r != "" {
						return true
					}
					bad = f + "(" + pname + ")"
					return true
				}
				bad = "raw use of " + pname
				return true
			})
			if uses == 0 {
				continue // the rule does not look at the value (type-only rules)
			}
			c.Check(bad == "", R, fn, c.P.Pos(d.Decl.Pos()), fn+" reads the example only through Unquote()/NewNumber()", "the raw literal bytes are used ("+bad+"): escape sequences in the example are not decoded before the rule is applied")
		}
	}
}

// c01alltypes: every registered type is checked, whatever the root looks like.
func c01alltypes(c *core.Ctx) {
	const R = "C01.alltypes"
	c.Rule(R, "must-pass-through in checker.CheckRootSchema: the loop that calls checkType for every registered user type is reached on every path that does not panic - no return statement precedes it (an early return for an empty root would leave the examples of the registered types unchecked against their own rules), and the loop itself has no break/continue/return")
	c.Floor(R, 1)
	d := c.P.FindDecl("notations/jschema/checker.CheckRootSchema")
	if d == nil {
		c.Unresolved(R, "notations/jschema/checker.CheckRootSchema")
		return
	}
	var loop *ast.RangeStmt
	ast.Inspect(d.Decl.Body, func(n ast.Node) bool {
		if rs, ok := n.(*ast.RangeStmt); ok && loop == nil {
			ast.Inspect(rs.Body, func(m ast.Node) bool {
				if call, ok := m.(*ast.CallExpr); ok && strings.HasSuffix(core.ExprStr(call.Fun), ".checkType") {
					loop = rs
				}
				return true
			})
		}
		return true
	})
	if loop == nil {
		c.Bad(R, "CheckRootSchema:types-loop", c.P.Pos(d.Decl.Pos()), "loop over the registered types in CheckRootSchema", "undecided: no loop calling checkType found")
		return
	}
	bad := ""
	ast.Inspect(d.Decl.Body, func(n ast.Node) bool {
		switch x := n.(type) {
		case *ast.FuncLit:
			return false
		case *ast.ReturnStmt:
			if x.Pos() < loop.Pos() {
				bad = "return at " + c.P.Pos(x.Pos()) + " precedes the loop"
			}
		}
		return true
	})
	ast.Inspect(loop.Body, func(n ast.Node) bool {
		switch x := n.(type) {
		case *ast.BranchStmt:
			bad = x.Tok.String() + " inside the loop"
		case *ast.ReturnStmt:
			bad = "return inside the loop"
		}
		return true
	})
	c.Check(bad == "", R, "CheckRootSchema:types-loop", c.P.Pos(loop.Pos()), "every registered type is checked on every path", "some registered types are not checked: "+bad)
}

// c01charlen: string length rules count characters.
func c01charlen(c *core.Ctx) {
	const R = "C01.charlen"
	c.Rule(R, "MinLength.Validate and MaxLength.Validate measure the decoded example with utf8.RuneCount / utf8.RuneCountInString (characters), not with Len()/len() (UTF-8 bytes): `\"é\" // {maxLength: 1}` is one character long. The generated OpenAPI minLength/maxLength count characters too, so a byte count makes the schema's own example invalid for its OpenAPI schema")
	c.Floor(R, 2)
	for _, tn := range []string{"MinLength", "MaxLength"} {
		fn := "(notations/jschema/ischema/constraint." + tn + ").Validate"
		d := c.P.FindDecl(fn)
		if d == nil {
			c.Unresolved(R, fn)
			continue
		}
		runes, bytesLen := false, false
		ast.Inspect(d.Decl.Body, func(n ast.Node) bool {
			call, ok := n.(*ast.CallExpr)
			if !ok {
				return true
			}
			name := core.FullName(core.Callee(d.Pkg, call))
			switch {
			case name == "unicode/utf8.RuneCount" || name == "unicode/utf8.RuneCountInString":
				runes = true
			case name == "(bytes.Bytes).Len" || core.ExprStr(call.Fun) == "len":
				// a byte length that is not the argument of RuneCount
				bytesLen = true
			}
			return true
		})
		c.Check(runes && !bytesLen, R, fn, c.P.Pos(d.Decl.Pos()), fn+" counts characters", core.F("the length is taken in bytes (rune count used: %v, byte length used: %v): non-ASCII examples get the wrong verdict", runes, bytesLen))
	}
}

// c01diamond: the recursion guard of the allowed-JSON-types walk is path-scoped.
func c01diamond(c *core.Ctx) {
	const R = "C01.diamond"
	c.Rule(R, "checkSchema.collectAllowedJsonTypes reports a recursion when it meets a type name that is in its visited set; because a hit is an ERROR (not a silent skip), the set must describe the current path only: the name is deleted from the set after the recursive call on it returns. A cumulative set reports a diamond of references (`or: [\"@a\",\"@c\"]` with @a = `{type:\"@c\"}`) as a recursion and rejects a valid example")
	c.Floor(R, 1)
	d := c.P.FindDecl("(*notations/jschema/checker.checkSchema).collectAllowedJsonTypes")
	if d == nil {
		c.Unresolved(R, "(*notations/jschema/checker.checkSchema).collectAllowedJsonTypes")
		return
	}
	ok := false
	ast.Inspect(d.Decl.Body, func(n ast.Node) bool {
		blk, isB := n.(*ast.BlockStmt)
		if !isB {
			return true
		}
		recIdx, key := -1, ""
		for i, st := range blk.List {
			if es, isE := st.(*ast.ExprStmt); isE {
				if call, isC := es.X.(*ast.CallExpr); isC {
					f := core.ExprStr(call.Fun)
					if strings.HasSuffix(f, ".collectAllowedJsonTypes") {
						recIdx = i
					}
					if f == "delete" && recIdx >= 0 && i > recIdx && len(call.Args) == 2 && isStringKeyedSet(d.Pkg, call.Args[0]) {
						if key == "" || core.ExprStr(call.Args[1]) == key {
							ok = true
						}
					}
				}
			}
			if as, isA := st.(*ast.AssignStmt); isA && len(as.Lhs) == 1 {
				if ix, isI := as.Lhs[0].(*ast.IndexExpr); isI && strings.HasSuffix(core.ExprStr(ix.X), ".foundTypeNames") {
					key = core.ExprStr(ix.Index)
				}
			}
		}
		return true
	})
	c.Check(ok, R, "collectAllowedJsonTypes:path-scoped", c.P.Pos(d.Decl.Pos()), "the visited set of collectAllowedJsonTypes is shrunk after each recursive call", "the set only grows: a type referenced over two different branches is reported as a recursion (code 1303) although no cycle exists")
}

// isStringKeyedSet: a map[string]struct{} / map[string]bool, whatever it is called and wherever it
// lives (a field of the checker, a parameter threaded through the walk).
func isStringKeyedSet(pk *packages.Package, e ast.Expr) bool {
	t := core.TypeOf(pk, e)
	if t == nil {
		return false
	}
	mt, ok := t.Underlying().(*types.Map)
	if !ok {
		return false
	}
	if kb, isB := mt.Key().Underlying().(*types.Basic); !isB || kb.Info()&types.IsString == 0 {
		return false
	}
	switch el := mt.Elem().Underlying().(type) {
	case *types.Struct:
		return el.NumFields() == 0
	case *types.Basic:
		return el.Kind() == types.Bool
	}
	return false
}
