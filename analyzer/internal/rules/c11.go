package rules

import (
	"go/types"
	"sort"
	"strings"

	"golang.org/x/tools/go/ssa"

	"jsverif/internal/core"
)

func init() {
	Register("C11", "Decides structural necessary conditions of race-freedom: (pool) no result aliases a pooled buffer; (lock) the generated containers follow their locking discipline; (once) once-guarded state is written only inside its once closure and the lazily built fields of a schema object only under LoadOnce/CompileOnce; (ro) outside once closures and held locks, the read-only API (Check, Len, Example, GetAST, UsedUserTypes, OpenAPI conversion) writes no field of the persistent model types. (global) no package-level variable is written after initialisation except the tabled synchronised objects: goroutines working on their own schemas share nothing else. Type-based, not object-based: does NOT decide absence of races in general nor equality with sequential results.",
		poolRule("C11.pool"), c11lockRule("C11.lock"), c11once, c11onceread, oncePanicRule("C11.oncepanic"), onceCaptureRule("C11.oncecapture"), c11ro, c10aliasin("C11.aliasin"), c11extAs("C11.ext"), c10share("C11.share"), inplaceRule("C11.inplace"), func(c *core.Ctx) { c10resetAs(c, "C11.reset") }, func(c *core.Ctx) { c10globalAs(c, "C11.global") })
}

// onceClosures: closures passed (directly) to ErrOnce.Do / ErrOnceWithValue.Do / sync.Once.Do.
func onceClosures(c *core.Ctx) map[*ssa.Function]string {
	out := map[*ssa.Function]string{}
	for _, f := range c.P.ScopeFuncs() {
		for _, b := range f.Blocks {
			for _, in := range b.Instrs {
				ci, ok := in.(ssa.CallInstruction)
				if !ok {
					continue
				}
				sc := ci.Common().StaticCallee()
				if sc == nil {
					continue
				}
				n := sc.String()
				if o := sc.Origin(); o != nil {
					n = o.String()
				}
				if n != "(*sync.Once).Do" && !strings.HasPrefix(n, "(*"+core.Module+"/internal/sync.ErrOnce") {
					continue
				}
				for _, a := range ci.Common().Args {
					if mc, ok := a.(*ssa.MakeClosure); ok {
						if g, ok := mc.Fn.(*ssa.Function); ok {
							out[g] = core.FuncName(f)
						}
					}
					if g, ok := a.(*ssa.Function); ok && g.Parent() != nil {
						out[g] = core.FuncName(f) // closure without free variables
					}
				}
			}
		}
	}
	return out
}

func c11once(c *core.Ctx) { c11onceAs(c, "C11.once") }

func c11onceAs(c *core.Ctx, R string) {
	c.Rule(R, "(a) the result fields of ErrOnce / ErrOnceWithValue are stored only inside the closure handed to once.Do and loaded only after the once.Do call of the same method; (b) the lazily built fields of the schema objects (JSchema.Inner, JSchema.ASTNode, RSchema.pattern/RE, Enum.values, Document state) are stored only in functions that run exclusively under a once closure or in constructors; (c) package-level lazily built singletons are stored only inside a once closure")
	c.Floor(R, 8)
	oc := onceClosures(c)
	// under: functions all of whose callers (transitively) are once closures or constructors
	// (a) ErrOnce types
	for _, tn := range []string{"ErrOnce", "ErrOnceWithValue"} {
		named := c.P.NamedType("internal/sync", tn)
		if named == nil {
			c.Unresolved(R, "internal/sync."+tn)
			continue
		}
		for f := range c.P.AllFuncs {
			if core.FuncPkgPath(f) != core.Module+"/internal/sync" || f.Blocks == nil {
				continue
			}
			for _, b := range f.Blocks {
				for _, in := range b.Instrs {
					st, ok := in.(*ssa.Store)
					if !ok {
						continue
					}
					fa, ok := st.Addr.(*ssa.FieldAddr)
					if !ok {
						continue
					}
					pt, ok := fa.X.Type().Underlying().(*types.Pointer)
					if !ok {
						continue
					}
					nt, ok := pt.Elem().(*types.Named)
					if !ok || nt.Origin() != named {
						continue
					}
					fname := nt.Underlying().(*types.Struct).Field(fa.Field).Name()
					_, inOnce := oc[f]
					key := core.F("internal/sync.%s.%s:store@%s", tn, fname, strings.Split(core.FuncName(f), "[")[0])
					c.Check(inOnce, R, key, c.P.Pos(st.Pos()), core.F("store to %s.%s in %s", tn, fname, core.FuncName(f)), "the once-guarded result is written outside the closure passed to once.Do: concurrent callers race on it")
				}
			}
		}
	}
	// (b) lazily built fields: type -> fields
	lazy := []struct {
		pkg, typ string
		fields   []string
	}{
		{"notations/jschema", "JSchema", []string{"Inner", "ASTNode"}},
		{"notations/regex", "RSchema", []string{"pattern", "RE"}},
		{"rules/enum", "Enum", []string{"values"}},
	}
	// compute the set "runs only under once": fixpoint over callers
	callers := func(f *ssa.Function) []*ssa.Function {
		var out []*ssa.Function
		for _, e := range c.P.CallersOf(f) {
			if c.P.FuncInModule(e.Caller.Func) {
				out = append(out, e.Caller.Func)
			}
		}
		return out
	}
	underOnce := map[*ssa.Function]bool{}
	var under func(f *ssa.Function, seen map[*ssa.Function]bool) bool
	under = func(f *ssa.Function, seen map[*ssa.Function]bool) bool {
		if _, ok := oc[f]; ok {
			return true
		}
		if v, ok := underOnce[f]; ok {
			return v
		}
		if seen[f] {
			return true
		}
		seen[f] = true
		cs := callers(f)
		if len(cs) == 0 {
			return false
		}
		for _, g := range cs {
			if !under(g, seen) {
				return false
			}
		}
		return true
	}
	for _, lz := range lazy {
		named := c.P.NamedType(lz.pkg, lz.typ)
		if named == nil {
			c.Unresolved(R, lz.pkg+"."+lz.typ)
			continue
		}
		st := named.Underlying().(*types.Struct)
		for _, fname := range lz.fields {
			idx := -1
			for i := 0; i < st.NumFields(); i++ {
				if st.Field(i).Name() == fname {
					idx = i
				}
			}
			if idx < 0 {
				c.Unresolved(R, lz.typ+"."+fname)
				continue
			}
			n := 0
			for _, f := range c.P.ScopeFuncs() {
				for _, b := range f.Blocks {
					for _, in := range b.Instrs {
						sto, ok := in.(*ssa.Store)
						if !ok {
							continue
						}
						fa, ok := sto.Addr.(*ssa.FieldAddr)
						if !ok || fa.Field != idx {
							continue
						}
						pt, ok := fa.X.Type().Underlying().(*types.Pointer)
						if !ok || !types.Identical(pt.Elem(), named) {
							continue
						}
						// constructor: storing into a fresh allocation
						if _, fresh := fa.X.(*ssa.Alloc); fresh {
							continue
						}
						n++
						okU := under(f, map[*ssa.Function]bool{})
						underOnce[f] = okU
						key := core.F("%s.%s.%s:store@%s", lz.pkg, lz.typ, fname, core.FuncName(f))
						c.Check(okU, R, key, c.P.Pos(sto.Pos()), core.F("store to %s.%s in %s", lz.typ, fname, core.FuncName(f)), "the lazily built field is written by a function that can run outside the object's once closures: two concurrent read-only calls race on it")
					}
				}
			}
			if n == 0 {
				c.Note(R, lz.typ+"."+fname+":nostores", "-", "no store to "+lz.typ+"."+fname+" outside constructors", "")
			}
		}
	}
	// (c) package-level singletons written only in once closures
	for path, sp := range c.P.SSAPkgs {
		if !core.InScope(path) {
			continue
		}
		for _, f := range c.P.ScopeFuncs() {
			if f.Pkg != sp && !(f.Parent() != nil && core.FuncPkgPath(f) == path) {
				continue
			}
			if f.Name() == "init" {
				continue
			}
			for _, b := range f.Blocks {
				for _, in := range b.Instrs {
					sto, ok := in.(*ssa.Store)
					if !ok {
						continue
					}
					g, ok := sto.Addr.(*ssa.Global)
					if !ok {
						continue
					}
					_, inOnce := oc[f]
					key := core.F("global:%s:store@%s", core.Rel(g.String()), core.FuncName(f))
					c.Check(inOnce, R, key, c.P.Pos(sto.Pos()), "store to package variable "+core.Rel(g.String())+" in "+core.FuncName(f), "a package-level variable is assigned outside a once closure: concurrent first uses race")
				}
			}
		}
	}
}

// persistent model types whose fields must not be written by the read-only API
var persistentTypes = []string{
	"notations/jschema.JSchema", "notations/jschema/ischema.ISchema", "notations/jschema/ischema.baseNode", "notations/jschema/ischema.ObjectNode",
	"notations/jschema/ischema.ArrayNode", "notations/jschema/ischema.LiteralNode", "notations/jschema/ischema.MixedNode", "notations/jschema/ischema.MixedValueNode",
	"notations/jschema/ischema.Constraints", "notations/jschema/ischema.ObjectNodeKeys", "root.ASTNode", "root.RuleASTNode", "root.ASTNodes", "root.RuleASTNodes",
	"notations/regex.RSchema", "rules/enum.Enum", "fs.File", "notations/jschema.StringSet",
}

var roEntries = []string{
	"(*notations/jschema.JSchema).Check", "(*notations/jschema.JSchema).Len", "(*notations/jschema.JSchema).Example", "(*notations/jschema.JSchema).GetAST", "(*notations/jschema.JSchema).UsedUserTypes",
	"(*notations/regex.RSchema).Check", "(*notations/regex.RSchema).Len", "(*notations/regex.RSchema).Example", "(*notations/regex.RSchema).GetAST", "(*notations/regex.RSchema).Pattern",
	"(*rules/enum.Enum).Check", "(*rules/enum.Enum).Len", "(*rules/enum.Enum).GetAST", "(*rules/enum.Enum).Values",
	"openapi.NewSchemaObject", "openapi.Dereference", "openapi.NewSchemaInfo",
}

// roTable: writes by the read-only API accepted with a reason. key = function|what
var roTable = map[string]string{
	"(*kit.JSchemaError).preparation|field kit.JSchemaError.length":   "reached through JSchemaError.Error(), which has a VALUE receiver: String()/preparation() fill the lazily computed fields of the copy made by that call; errors are stored and handed out as values (NewJSchemaError returns a value), so no shared object is written",
	"(*kit.JSchemaError).preparation|field kit.JSchemaError.nl":       "see length",
	"(*kit.JSchemaError).preparation|field kit.JSchemaError.prepared": "see length",
}

func c11ro(c *core.Ctx) {
	const R = "C11.ro"
	c.Rule(R, "type-based write-effect rule: in the functions reachable from the read-only API (Check, Len, Example, GetAST, UsedUserTypes, Pattern, Values, OpenAPI conversion) without entering a once closure, and outside methods that hold their container's lock, no field of a persistent model type (JSchema, ISchema, node types, Constraints, AST types, RSchema, Enum, File, StringSet) is stored and no map held in such a field is updated - except on objects allocated by the same function")
	c.Floor(R, 15)
	oc := onceClosures(c)
	var roots []*ssa.Function
	for _, name := range roEntries {
		var f *ssa.Function
		for g := range c.P.AllFuncs {
			if core.FuncName(g) == name {
				f = g
			}
		}
		if f == nil {
			// openapi entries may be missing by name: tolerate only for NewSchemaInfo
			if name == "openapi.NewSchemaInfo" {
				continue
			}
			c.Unresolved(R, name)
			continue
		}
		roots = append(roots, f)
	}
	// exported methods of the openapi result types
	for _, f := range entryPoints(c) {
		if strings.HasPrefix(core.FuncName(f), "(openapi.") || strings.HasPrefix(core.FuncName(f), "(*openapi.") {
			roots = append(roots, f)
		}
	}
	isLockedContainerMethod := map[*ssa.Function]bool{}
	for _, ct := range containers(c, R) {
		for _, m := range ct.methods {
			isLockedContainerMethod[m] = true
		}
	}
	reach := c.P.Reach(roots, func(f *ssa.Function) bool {
		_, isOnce := oc[f]
		return isOnce || isLockedContainerMethod[f]
	})
	persistent := persistentClosure(c, R)
	var fs []*ssa.Function
	for f := range reach {
		if _, isOnce := oc[f]; isOnce || isLockedContainerMethod[f] || !c.P.FuncInScope(f) {
			continue
		}
		fs = append(fs, f)
	}
	sort.Slice(fs, func(i, j int) bool { return fs[i].String() < fs[j].String() })
	nOK := 0
	for _, f := range fs {
		bad := 0
		for _, w := range core.DirectHeapWrites(f) {
			tname := ""
			switch {
			case strings.HasPrefix(w.Kind, "field "):
				rest := strings.TrimPrefix(w.Kind, "field ")
				if i := strings.LastIndex(rest, "."); i > 0 {
					tname = rest[:i]
				}
			case w.Kind == "map":
				if mu, ok := w.Instr.(*ssa.MapUpdate); ok {
					id := mapIdentity(mu.Map)
					if strings.HasPrefix(id, "field:") {
						tname = core.Rel(strings.TrimPrefix(strings.Split(strings.TrimPrefix(id, "field:"), "#")[0], "*"))
					}
				}
			}
			tname = strings.TrimPrefix(tname, "*")
			if !persistent[tname] {
				continue
			}
			bad++
			key := core.F("%s|%s", core.FuncName(f), w.Kind)
			what := core.F("write to %s in %s (reachable from the read-only API outside once/lock)", w.Kind, core.FuncName(f))
			if r, ok := roTable[key]; ok {
				c.Tabled(R, key, c.P.Pos(w.Instr.Pos()), what, r)
			} else {
				c.Bad(R, key, c.P.Pos(w.Instr.Pos()), what, "a read-only operation mutates shared model state without synchronisation: concurrent calls on one schema object race")
			}
		}
		if bad == 0 {
			nOK++
		}
	}
	c.OKd(R, "summary", "-", core.F("%d functions reachable from %d read-only entry points outside once closures and locked container methods", len(fs), len(roots)), core.F("%d of them write no persistent model field", nOK))
	// no function hands out the address of a field of a persistent object: a store through such a
	// pointer is invisible to the rule above
	nAddr := 0
	var all []*ssa.Function
	for f := range c.P.AllFuncs {
		if c.P.FuncInScope(f) && f.Blocks != nil {
			all = append(all, f)
		}
	}
	sort.Slice(all, func(i, j int) bool { return all[i].String() < all[j].String() })
	for _, f := range all {
		for _, b := range f.Blocks {
			for _, in := range b.Instrs {
				ret, ok := in.(*ssa.Return)
				if !ok {
					continue
				}
				for _, v := range ret.Results {
					fa, ok := v.(*ssa.FieldAddr)
					if !ok {
						continue
					}
					pt, ok := fa.X.Type().Underlying().(*types.Pointer)
					if !ok {
						continue
					}
					tname := core.Rel(pt.Elem().String())
					if !persistent[tname] {
						continue
					}
					nAddr++
					fname := absintFieldName(fa)
					c.Bad(R, core.F("%s|addr %s.%s", core.FuncName(f), tname, fname), c.P.Pos(ret.Pos()), core.F("%s returns &%s.%s", core.FuncName(f), tname, fname),
						"the address of a field of a persistent model object is handed out: whoever holds it writes shared model state outside the once/lock discipline (and outside the view of this rule)")
				}
			}
		}
	}
	c.OKd(R, "addr", "-", core.F("%d functions scanned for `return &model.field`", len(all)), core.F("%d found", nAddr))
	for _, r := range roots {
		c.OK(R, "entry:"+core.FuncName(r), c.P.Pos(r.Pos()), "read-only entry "+core.FuncName(r)+" analysed")
	}
}

// persistentClosure: the listed model types plus every module struct type reachable from
// them through fields (pointers, slices, arrays, maps, and the module implementers of
// interface-typed fields): whatever a schema object holds on to is shared by the concurrent
// callers of its read-only methods.
func persistentClosure(c *core.Ctx, R string) map[string]bool {
	var allNamed []*types.Named
	for _, pk := range c.P.ScopePkgs() {
		sc := pk.Types.Scope()
		for _, n := range sc.Names() {
			if tn, ok := sc.Lookup(n).(*types.TypeName); ok && !tn.IsAlias() {
				if nt, ok := tn.Type().(*types.Named); ok && nt.TypeParams().Len() == 0 {
					allNamed = append(allNamed, nt)
				}
			}
		}
	}
	out := map[string]bool{}
	var work []*types.Named
	add := func(nt *types.Named) {
		if nt.Obj().Pkg() == nil || !core.InScope(nt.Obj().Pkg().Path()) {
			return
		}
		name := core.Rel(nt.Obj().Pkg().Path() + "." + nt.Obj().Name())
		if !out[name] {
			out[name] = true
			work = append(work, nt)
		}
	}
	for _, p := range persistentTypes {
		i := strings.LastIndex(p, ".")
		pkg, tn := p[:i], p[i+1:]
		if pkg == "root" {
			pkg = ""
		}
		nt := c.P.NamedType(pkg, tn)
		if nt == nil {
			c.Unresolved(R, "persistent type "+p)
			continue
		}
		add(nt)
	}
	var visit func(t types.Type, depth int)
	visit = func(t types.Type, depth int) {
		if depth > 6 {
			return
		}
		switch x := t.(type) {
		case *types.Named:
			if x.TypeArgs().Len() > 0 {
				for i := 0; i < x.TypeArgs().Len(); i++ {
					visit(x.TypeArgs().At(i), depth+1)
				}
			}
			if _, isIface := x.Underlying().(*types.Interface); isIface {
				iface := x.Underlying().(*types.Interface)
				if iface.NumMethods() == 0 {
					return
				}
				for _, nt := range allNamed {
					if _, ok := nt.Underlying().(*types.Interface); ok {
						continue
					}
					if types.Implements(nt, iface) || types.Implements(types.NewPointer(nt), iface) {
						add(nt)
					}
				}
				return
			}
			add(x)
		case *types.Pointer:
			visit(x.Elem(), depth+1)
		case *types.Slice:
			visit(x.Elem(), depth+1)
		case *types.Array:
			visit(x.Elem(), depth+1)
		case *types.Map:
			visit(x.Key(), depth+1)
			visit(x.Elem(), depth+1)
		case *types.Struct:
			for i := 0; i < x.NumFields(); i++ {
				visit(x.Field(i).Type(), depth+1)
			}
		}
	}
	for len(work) > 0 {
		nt := work[len(work)-1]
		work = work[:len(work)-1]
		if st, ok := nt.Underlying().(*types.Struct); ok {
			for i := 0; i < st.NumFields(); i++ {
				visit(st.Field(i).Type(), 0)
			}
		} else {
			visit(nt.Underlying(), 0)
		}
	}
	return out
}
