package rules

import (
	"go/token"

	"golang.org/x/tools/go/ssa"

	"jsverif/internal/core"
)

// c11lockRule: locking discipline of the generated containers.
func c11lockRule(R string) RuleFunc {
	return func(c *core.Ctx) {
		c.Rule(R, "every exported method of an ordered container acquires the container's RWMutex before the first access to data/order (write lock iff the method, through its unexported helpers, writes data/order), releases it with a matching deferred unlock, never calls another exported (locking) method of the same receiver while holding it, and the unexported helpers are called only from methods of the same container")
		c.Floor(R, 40)
		for _, ct := range containers(c, R) {
			// transitive write-set through unexported helpers of the container
			isMethod := map[*ssa.Function]bool{}
			for _, f := range ct.methods {
				isMethod[f] = true
			}
			var writes func(f *ssa.Function, seen map[*ssa.Function]bool) bool
			writes = func(f *ssa.Function, seen map[*ssa.Function]bool) bool {
				if seen[f] {
					return false
				}
				seen[f] = true
				if len(ct.storesTo(f, ct.data)) > 0 || len(ct.storesTo(f, ct.order)) > 0 {
					return true
				}
				for _, b := range f.Blocks {
					for _, in := range b.Instrs {
						switch x := in.(type) {
						case *ssa.MapUpdate:
							if lo, ok := x.Map.(*ssa.UnOp); ok && ct.fieldAddr(lo.X, ct.data) {
								return true
							}
						case ssa.CallInstruction:
							if bi, ok := x.Common().Value.(*ssa.Builtin); ok && bi.Name() == "delete" {
								if lo, ok := x.Common().Args[0].(*ssa.UnOp); ok && ct.fieldAddr(lo.X, ct.data) {
									return true
								}
							}
							if sc := x.Common().StaticCallee(); sc != nil && isMethod[sc] && writes(sc, seen) {
								return true
							}
						}
					}
				}
				return false
			}
			for _, f := range ct.methods {
				exported := token.IsExported(f.Name())
				key := ct.name + "." + f.Name()
				pos := c.P.Pos(f.Pos())
				if !exported {
					// helper: all callers must be methods of the same container
					okc := true
					who := ""
					for _, e := range c.P.CallersOf(f) {
						if !isMethod[e.Caller.Func] {
							// a constructor that calls the helper on the object it has just allocated: nobody
							// else can hold that object yet
							if e.Site != nil && len(e.Site.Common().Args) > 0 {
								if al, isAl := e.Site.Common().Args[0].(*ssa.Alloc); isAl && al.Parent() == e.Caller.Func {
									continue
								}
							}
							okc = false
							who = core.FuncName(e.Caller.Func)
						}
					}
					c.Check(okc, R, key+":helper-callers", pos, "unexported helper "+key+" is called only by methods of the container (lock held)", "called without the lock from "+who)
					continue
				}
				// exported: scan entry block
				var lockKind string
				locked, deferred := false, false
				early := ""
				selfCall := ""
				for _, b := range f.Blocks {
					for _, in := range b.Instrs {
						switch x := in.(type) {
						case *ssa.FieldAddr:
							if (ct.fieldAddr(x, ct.data) || ct.fieldAddr(x, ct.order)) && !locked && early == "" {
								early = "field access before the lock is taken"
							}
						case *ssa.Call:
							if sc := x.Call.StaticCallee(); sc != nil {
								switch sc.String() {
								case "(*sync.RWMutex).Lock", "(*sync.RWMutex).RLock":
									if len(x.Call.Args) == 1 && ct.fieldAddr(x.Call.Args[0], ct.mx) && !locked {
										locked = true
										lockKind = sc.Name()
										if b != f.Blocks[0] {
											early = "lock is not taken in the entry block"
										}
									}
								}
								if isMethod[sc] && token.IsExported(sc.Name()) && len(x.Call.Args) > 0 {
									if p, ok := x.Call.Args[0].(*ssa.Parameter); ok && p == f.Params[0] {
										selfCall = sc.Name()
									}
								}
							}
						case *ssa.Defer:
							if sc := x.Call.StaticCallee(); sc != nil && len(x.Call.Args) == 1 && ct.fieldAddr(x.Call.Args[0], ct.mx) {
								want := map[string]string{"Lock": "Unlock", "RLock": "RUnlock"}[lockKind]
								if sc.Name() == want && locked {
									deferred = true
								} else if early == "" {
									early = "deferred " + sc.Name() + " does not match " + lockKind
								}
							}
						}
					}
				}
				w := writes(f, map[*ssa.Function]bool{})
				what := core.F("exported %s: lock=%s deferred-unlock=%v writes=%v", key, lockKind, deferred, w)
				switch {
				case !locked:
					c.Bad(R, key, pos, what, "exported method does not take the container's mutex: concurrent use races on data/order")
				case early != "":
					c.Bad(R, key, pos, what, early)
				case !deferred:
					c.Bad(R, key, pos, what, "lock is not released by a matching defer: a panic in a callback leaves the container locked forever")
				case w && lockKind != "Lock":
					c.Bad(R, key, pos, what, "method writes data/order under a read lock: concurrent readers race with the write")
				case selfCall != "":
					c.Bad(R, key, pos, what, "calls exported method "+selfCall+" of the same receiver while holding the lock (RWMutex is not re-entrant: deadlock)")
				default:
					c.OK(R, key, pos, what)
				}
			}
		}
	}
}
