package rules

import (
	"go/ast"
	"go/constant"
	"go/token"
	"go/types"
	"regexp"
	"strings"

	"jsverif/internal/core"
)

func init() {
	Register("C14", "Decides, on the per-byte summaries of every state function of the schema-side scanners (notations/jschema/scanner, rules/enum): (nl) LF and CR have identical rows in every state, so the newline convention cannot change the lexeme stream; (blank) in every between-token state SPACE and TAB have identical rows; (norm) rule names are compared only after TrimSpaces().Unquote(), so quoted and bare rule names mean the same; (deleg) re-dispatch of one byte between states terminates. (space) a skipped blank leaves no trace; (style) every test for one annotation opener is paired with the test for the other. Does NOT decide equality of AST/example/OpenAPI across spellings.",
		c14nl, c14blank, c14space, c14norm, c14style, c14nlre, c14emptycomment, c14trimnote, c14nlskip, asciiBlankRule("C14.asciiblank"), retStateRule("C14.retstate"), annoEndRule("C14.annoend"), crlfRule("C14.crlf"), pipeSplitRule("C14.pipe"), bytewiseRule("C14.bytewise"), eofNewlineRule("C14.eofnl"), commaResetRule("C14.commareset"), blockCommentEOFRule("C14.blockeof"), slashEOFRule("C14.slasheof", "(*notations/jschema/scanner.Scanner).switchToAnnotation", []string{"notations/jschema/scanner.stateAnyAnnotationStart", "notations/jschema/scanner.stateInlineAnnotationStart"}, "(*notations/jschema/scanner.Scanner).Next"))
}

var schemaScanners = []string{"notations/jschema/scanner", "rules/enum"}

func c14nl(c *core.Ctx) {
	const R = "C14.nl"
	c.Rule(R, "for every state function of the schema and enum scanners the summary for byte LF equals the summary for byte CR (same guards, same effects, same next state, same lexemes, same errors): exhaustive over states")
	c.Floor(R, 90)
	for _, pk := range schemaScanners {
		m := buildScanModel(c, pk)
		for _, u := range m.undecided {
			c.Bad(R, pk+":undecided:"+u, "-", "summary "+u, "undecided: state function could not be summarised")
		}
		for _, n := range m.names {
			rows := m.rows[n]
			key := pk + "." + n
			pos := c.P.Pos(m.states[n].Pos())
			if rows['\n'].key == rows['\r'].key {
				c.OK(R, key, pos, "state "+n+": row(LF) = row(CR)")
			} else {
				c.Bad(R, key, pos, "state "+n+": row(LF) = row(CR)", "LF and CR are handled differently: a text with CR or CRLF line ends gets a different lexeme stream / verdict than the same text with LF. LF: "+clip(rows['\n'].key, 300)+"  CR: "+clip(rows['\r'].key, 300))
			}
		}
	}
}

func clip(s string, n int) string {
	if len(s) > n {
		return s[:n] + "…"
	}
	return s
}

// c14blank: between-token states treat SPACE and TAB alike.
func c14blank(c *core.Ctx) {
	const R = "C14.blank"
	c.Rule(R, "for every between-token state (SPACE is an effect-free self-loop on every path while some printable byte is not) the summary for TAB equals the summary for SPACE; contradiction rule, reference-free")
	c.Floor(R, 25)
	for _, pk := range schemaScanners {
		m := buildScanModel(c, pk)
		for _, n := range m.names {
			rows := m.rows[n]
			if !effectFreeSelfLoop(rows[' ']) {
				continue
			}
			same := 0
			for b := 0x21; b < 0x7f; b++ {
				if rows[b].key == rows[' '].key {
					same++
				}
			}
			if same > 3 {
				continue // text-like state (inside a string/comment/annotation text): SPACE is content like most printable bytes
			}
			key := pk + "." + n
			pos := c.P.Pos(m.states[n].Pos())
			if rows['\t'].key == rows[' '].key {
				c.OK(R, key, pos, "between-token state "+n+": row(TAB) = row(SPACE)")
			} else {
				c.Bad(R, key, pos, "between-token state "+n+": row(TAB) = row(SPACE)", "a SPACE is skipped here but a TAB is not: two texts that differ only in blank space get different verdicts. TAB: "+clip(rows['\t'].key, 300))
			}
		}
	}
}

// c14space: a blank that is skipped must be skipped without a trace.
func c14space(c *core.Ctx) {
	const R = "C14.space"
	c.Rule(R, "in every state where SPACE keeps the scanner in the same state on every path (it is skipped, not content), skipping it has no effect at all: no field store, no lexeme, no stack operation. A skipped blank that leaves a trace (a flag set, a context bit) makes `[ ]` mean something else than `[]`: zero versus one blank between two tokens changes the verdict")
	c.Floor(R, 20)
	for _, pk := range schemaScanners {
		m := buildScanModel(c, pk)
		// states that are ever installed (assigned to step, pushed on the return stack, initial)
		installed := map[string]bool{m.initial: true}
		lenOnly := true // every store of hasTrailingCharacters=true happens under lengthComputing
		for _, n := range m.names {
			for b := 0; b < 256; b++ {
				for _, p := range m.rows[n][b].paths {
					if p.next != "" {
						installed[p.next] = true
					}
					for _, q := range p.pushes {
						installed[q] = true
					}
					for _, st := range p.stores {
						if strings.HasPrefix(st, "hasTrailingCharacters=") && !strings.HasSuffix(st, "=false") && !hasAtom(p, "load:&s.lengthComputing", true) {
							lenOnly = false
						}
					}
				}
			}
		}
		for _, n := range m.names {
			if !installed[n] {
				continue // helper with the signature of a state, never the current state itself
			}
			rows := m.rows[n]
			r := rows[' ']
			if len(r.paths) == 0 {
				continue
			}
			loop := true
			for _, p := range r.paths {
				if p.kind != "return" || p.next != "" {
					loop = false
				}
			}
			if !loop {
				continue
			}
			same := 0
			for b := 0x21; b < 0x7f; b++ {
				if rows[b].key == r.key {
					same++
				}
			}
			if same > 3 {
				continue // text-like state
			}
			key := pk + "." + n
			pos := c.P.Pos(m.states[n].Pos())
			var traces []string
			for _, p := range r.paths {
				if lenOnly && (hasAtom(p, "load:&s.hasTrailingCharacters", true) || hasAtom(p, "load:&s.lengthComputing", true)) {
					continue // Len() mode only (the flag is set only under lengthComputing): boundary search, property C15, not a verdict
				}
				if len(p.finds) > 0 || len(p.pushes) > 0 || p.pops > 0 || len(p.stores) > 0 || p.unfinished != "" {
					traces = append(traces, clip(p.String(), 160))
				}
			}
			if len(traces) == 0 {
				c.OK(R, key, pos, "state "+n+": a skipped SPACE leaves no trace")
			} else {
				c.Bad(R, key, pos, "state "+n+": a skipped SPACE leaves no trace", "SPACE stays in this state but has an effect, so the text with a blank here is scanned differently from the text without it: "+strings.Join(traces, " || "))
			}
		}
	}
}

func hasAtom(p scanPath, key string, truth bool) bool {
	for _, a := range p.atoms {
		if a.Cond.Key() == key && a.Truth == truth {
			return true
		}
	}
	return false
}

func effectFreeSelfLoop(r scanRow) bool {
	if len(r.paths) == 0 {
		return false
	}
	for _, p := range r.paths {
		if p.kind != "return" || p.next != "" || len(p.finds) > 0 || len(p.pushes) > 0 || p.pops > 0 || len(p.stores) > 0 || p.unfinished != "" {
			return false
		}
	}
	return true
}

// c14norm: rule-name lexemes are compared with constants only after normalisation.
func c14norm(c *core.Ctx) {
	const R = "C14.norm"
	c.Rule(R, "in the loader, every comparison of a lexeme's text with a string constant (==, != or switch) goes through Value().TrimSpaces().Unquote() (or Unquote()): a raw lex.Value().String() compared with a rule/type name makes the quoted spelling mean something else than the bare one")
	c.Floor(R, 3)
	for _, rel := range []string{"notations/jschema/loader", "notations/jschema/ischema/constraint"} {
		c14normPkg(c, R, rel)
	}
}

func c14normPkg(c *core.Ctx, R, rel string) {
	pk := c.P.Pkg(rel)
	if pk == nil {
		c.Unresolved(R, rel)
		return
	}
	// expression classification: does e read the text of a lexeme, and is it normalised?
	// returns: is the text of a lexeme, was it TrimSpaces'd, was it Unquote'd
	var lexText func(e ast.Expr) (isLex bool, trimmed bool, unquoted bool)
	lexText = func(e ast.Expr) (bool, bool, bool) {
		e = ast.Unparen(e)
		call, ok := e.(*ast.CallExpr)
		if !ok {
			if id, ok := e.(*ast.Ident); ok {
				// local variable defined from a lexeme text: look at its definition
				if obj := pk.TypesInfo.ObjectOf(id); obj != nil {
					if def := findDef(pk, obj); def != nil {
						return lexText(def)
					}
				}
			}
			return false, false, false
		}
		se, ok := call.Fun.(*ast.SelectorExpr)
		if !ok {
			return false, false, false
		}
		callee := core.FullName(core.Callee(pk, call))
		switch callee {
		case "(lexeme.LexEvent).Value":
			return true, false, false
		case "(bytes.Bytes).Unquote":
			l, t, _ := lexText(se.X)
			return l, t, true
		case "(bytes.Bytes).TrimSpaces":
			l, _, u := lexText(se.X)
			return l, true, u
		case "(bytes.Bytes).String", "(bytes.Bytes).Data":
			return lexText(se.X)
		}
		return false, false, false
	}
	n := map[string]int{}
	check := func(fn string, at ast.Node, e ast.Expr, against string) {
		isLex, trimmed, unq := lexText(e)
		if !isLex {
			return
		}
		n[fn]++
		key := core.F("%s:cmp#%d", fn, n[fn])
		c.Check(unq && trimmed, R, key, c.P.Pos(at.Pos()), core.F("lexeme text `%s` compared with %s in %s", core.ExprStr(e), against, fn),
			"the lexeme text is compared with a name without TrimSpaces() and Unquote(): a bare key keeps the blanks before the colon (`enum :`) and a quoted key keeps its quotes, so those spellings do not match where `enum:` does")
	}
	for _, file := range pk.Syntax {
		for _, d := range file.Decls {
			fd, ok := d.(*ast.FuncDecl)
			if !ok || fd.Body == nil {
				continue
			}
			fn := core.DeclName(pk, fd)
			ast.Inspect(fd.Body, func(nd ast.Node) bool {
				switch x := nd.(type) {
				case *ast.BinaryExpr:
					if x.Op.String() == "==" || x.Op.String() == "!=" {
						if v := core.ConstOf(pk, x.Y); v != nil && isStringType(core.TypeOf(pk, x.Y)) {
							check(fn, x, x.X, core.ExprStr(x.Y))
						} else if v := core.ConstOf(pk, x.X); v != nil && isStringType(core.TypeOf(pk, x.X)) {
							check(fn, x, x.Y, core.ExprStr(x.X))
						}
					}
				case *ast.IndexExpr:
					// a lookup in a table keyed by names: map[string]... held in a package-level variable
					if t := core.TypeOf(pk, x.X); t != nil {
						if mt, isMap := t.Underlying().(*types.Map); isMap && isStringType(mt.Key()) {
							if id, isID := ast.Unparen(x.X).(*ast.Ident); isID && core.PkgVarInit(pk, id.Name) != nil {
								check(fn, x, x.Index, "the keys of "+id.Name)
							}
						}
					}
				case *ast.SwitchStmt:
					if x.Tag != nil {
						hasConst := false
						for _, cl := range x.Body.List {
							for _, e := range cl.(*ast.CaseClause).List {
								if core.ConstOf(pk, e) != nil && isStringType(core.TypeOf(pk, e)) {
									hasConst = true
								}
							}
						}
						if hasConst {
							check(fn, x, x.Tag, "switch cases")
						}
					}
				}
				return true
			})
		}
	}
}

func isStringType(t types.Type) bool {
	if t == nil {
		return false
	}
	b, ok := t.Underlying().(*types.Basic)
	return ok && b.Info()&types.IsString != 0
}

// findDef returns the single defining expression of a local variable, if any.
func findDef(pk *packagesPackage, obj types.Object) ast.Expr {
	var def ast.Expr
	n := 0
	for _, file := range pk.Syntax {
		if file.Pos() > obj.Pos() || obj.Pos() >= file.End() {
			continue
		}
		ast.Inspect(file, func(nd ast.Node) bool {
			as, ok := nd.(*ast.AssignStmt)
			if !ok {
				return true
			}
			if len(as.Lhs) != len(as.Rhs) {
				// v, err := f(...): the first result of the call
				if len(as.Rhs) == 1 && len(as.Lhs) == 2 {
					if id, ok := as.Lhs[0].(*ast.Ident); ok && pk.TypesInfo.ObjectOf(id) == obj {
						if _, isCall := ast.Unparen(as.Rhs[0]).(*ast.CallExpr); isCall {
							def = as.Rhs[0]
							n++
						}
					}
				}
				return true
			}
			for i, l := range as.Lhs {
				if id, ok := l.(*ast.Ident); ok && pk.TypesInfo.ObjectOf(id) == obj {
					def = as.Rhs[i]
					n++
				}
			}
			return true
		})
	}
	if n == 1 {
		return def
	}
	return nil
}

var _ = strings.TrimSpace

// styleTable: comparisons with one annotation opener that legitimately ignore the other.
var styleTable = map[string]string{
	"notations/jschema/scanner.stateEndValue:InlineAnnotationBegin":                             "Len() mode only (guarded by lengthComputing): an inline annotation ends the line and thereby the measured schema; boundary search is property C15",
	"(*rules/enum.scanner).stateEndValue:InlineAnnotationBegin":                                 "Len() mode only (guarded by lengthComputing), as in the schema scanner",
	"(*notations/jschema/scanner.Scanner).isInsideMultiLineAnnotation:MultiLineAnnotationBegin": "the question asked is precisely `is there an enclosing /* */`",
}

// c14style: `//` and `/* */` annotations are recognised alike.
func c14style(c *core.Ctx) { c14styleAs(c, "C14.style") }

func c14styleAs(c *core.Ctx, R string) {
	c.Rule(R, "every test `x == lexeme.InlineAnnotationBegin` in the scanners and the loader stands in a disjunction with the same test for MultiLineAnnotationBegin on the same operand (and vice versa) - unless it is a row of a begin/end pair table (conjunction with the matching ...End) or a tabled mode-specific test: a place that recognises only one opener gives `// {rules}` and `/* {rules} */` different verdicts")
	c.Floor(R, 8)
	other := map[string]string{"InlineAnnotationBegin": "MultiLineAnnotationBegin", "MultiLineAnnotationBegin": "InlineAnnotationBegin"}
	closer := map[string]string{"InlineAnnotationBegin": "InlineAnnotationEnd", "MultiLineAnnotationBegin": "MultiLineAnnotationEnd"}
	for _, rel := range []string{"notations/jschema/scanner", "notations/jschema/loader", "rules/enum"} {
		pk := c.P.Pkg(rel)
		if pk == nil {
			c.Unresolved(R, rel)
			continue
		}
		for _, d := range c.P.FuncDecls() {
			if d.Pkg != pk || d.Decl.Body == nil {
				continue
			}
			fn := core.DeclName(d.Pkg, d.Decl)
			var stack []ast.Node
			n := map[string]int{}
			ast.Inspect(d.Decl.Body, func(nd ast.Node) bool {
				if nd == nil {
					stack = stack[:len(stack)-1]
					return true
				}
				stack = append(stack, nd)
				be, ok := nd.(*ast.BinaryExpr)
				if !ok || be.Op != token.EQL {
					return true
				}
				which := strings.TrimPrefix(core.ExprStr(be.Y), "lexeme.")
				if other[which] == "" || !strings.HasPrefix(core.ExprStr(be.Y), "lexeme.") {
					return true
				}
				lhs := core.ExprStr(be.X)
				// climb the || chain and the && chain
				twin, paired := false, false
				for i := len(stack) - 2; i >= 0; i-- {
					p, ok := stack[i].(*ast.BinaryExpr)
					if !ok {
						if _, isParen := stack[i].(*ast.ParenExpr); isParen {
							continue
						}
						break
					}
					if p.Op != token.LOR && p.Op != token.LAND {
						break
					}
					ast.Inspect(p, func(m ast.Node) bool {
						if q, ok := m.(*ast.BinaryExpr); ok && q.Op == token.EQL {
							if p.Op == token.LOR && core.ExprStr(q.X) == lhs && core.ExprStr(q.Y) == "lexeme."+other[which] {
								twin = true
							}
							if core.ExprStr(q.Y) == "lexeme."+closer[which] {
								paired = true
							}
						}
						return true
					})
				}
				n[which]++
				key := core.F("%s:%s", fn, which)
				if n[which] > 1 {
					key = core.F("%s:%s#%d", fn, which, n[which])
				}
				pos := c.P.Pos(be.Pos())
				what := "`" + lhs + " == lexeme." + which + "` in " + fn
				switch {
				case twin:
					c.OKd(R, key, pos, what, "in a disjunction with the same test for "+other[which])
				case paired:
					c.OKd(R, key, pos, what, "row of a begin/end pair table")
				default:
					if r, ok := styleTable[core.F("%s:%s", fn, which)]; ok {
						c.Tabled(R, key, pos, what, r)
					} else {
						c.Bad(R, key, pos, what, "only one of the two annotation openers is recognised here: the other annotation style takes a different path (a different verdict or a different AST)")
					}
				}
				return true
			})
		}
	}
}

// c14nlre: constant regular expressions treat LF and CR, SPACE and TAB alike.
func c14nlre(c *core.Ctx) {
	const R = "C14.nlre"
	c.Rule(R, "every constant pattern given to regexp.MustCompile / regexp.Compile in scope is compiled by the analyser (the pattern, not the program, is evaluated) and must match the one-byte strings \"\\n\" and \"\\r\" alike, and \" \" and \"\\t\" alike: a blank-folding expression that knows LF but not CR renders the note of a CRLF file with stray carriage returns in the OpenAPI description")
	c.Floor(R, 1)
	n := 0
	for _, cs := range c.P.Calls() {
		name := core.FullName(core.Callee(cs.Pkg, cs.Call))
		if name != "regexp.MustCompile" && name != "regexp.Compile" || len(cs.Call.Args) != 1 {
			continue
		}
		v := core.ConstOf(cs.Pkg, cs.Call.Args[0])
		if v == nil || v.Kind() != constant.String {
			continue
		}
		pat := constant.StringVal(v)
		n++
		fn := core.DeclName(cs.Pkg, cs.Decl)
		if cs.Decl == nil {
			fn = core.Rel(cs.Pkg.PkgPath) + ".<package var>"
		}
		key := core.F("%s:%s", fn, pat)
		pos := c.P.Pos(cs.Call.Pos())
		re, err := regexp.Compile(pat)
		if err != nil {
			c.Bad(R, key, pos, "constant pattern "+pat, "does not compile: "+err.Error())
			continue
		}
		ok := re.MatchString("\n") == re.MatchString("\r") && re.MatchString(" ") == re.MatchString("\t")
		c.Check(ok, R, key, pos, "constant pattern `"+pat+"` treats LF/CR and SPACE/TAB alike", core.F("matches LF:%v CR:%v SPACE:%v TAB:%v - texts that differ only in the newline convention or in the kind of blank are transformed differently", re.MatchString("\n"), re.MatchString("\r"), re.MatchString(" "), re.MatchString("\t")))
	}
}

// c14emptycomment: a line end right after a comment opener is the end of the (empty) comment.
func c14emptycomment(c *core.Ctx) { emptyCommentAs(c, "C14.emptycomment") }

func emptyCommentAs(c *core.Ctx, R string) {
	c.Rule(R, "for every state S that, on an ordinary byte, simply enters a line-scoped state T (no lexeme; T ends at the line end: its LF row pops the return state and emits NewLine) - the byte after a `#` opener - the LF row of S must also emit NewLine: a line end in that position is the end of an empty comment. If S consumed it as the first byte of the comment, the comment would run to the end of the NEXT line and swallow whatever is written there (`{ #⏎ \"a\": 1⏎}` loses the property a)")
	c.Floor(R, 1)
	n := 0
	for _, pk := range schemaScanners {
		m := buildScanModel(c, pk)
		for _, name := range m.names {
			rows := m.rows[name]
			target := ""
			ok := len(rows['a'].paths) > 0
			for _, p := range rows['a'].paths {
				if p.kind != "return" || p.next == "" || p.next == name || p.next == "<pop>" || p.next == "<dyn>" || len(p.pushes) > 0 || p.pops > 0 {
					ok = false
					break
				}
				for _, f := range p.finds {
					if !strings.HasSuffix(f, "TextBegin") {
						ok = false
					}
				}
				if target == "" {
					target = p.next
				} else if target != p.next {
					ok = false
				}
			}
			if !ok || target == "" {
				continue
			}
			trows, exists := m.rows[target]
			if !exists {
				continue
			}
			lineScoped := false
			for _, p := range trows['\n'].paths {
				nl := false
				for _, f := range p.finds {
					if f == "NewLine" {
						nl = true
					}
				}
				if nl && (p.pops > 0 || p.next == "<pop>" || p.next != "") {
					lineScoped = true
				}
			}
			// T must be a pure skip state otherwise (text of a comment): ordinary bytes keep it
			if !lineScoped || !effectFreeSelfLoop(trows['a']) {
				continue
			}
			n++
			good := len(rows['\n'].paths) > 0
			for _, p := range rows['\n'].paths {
				if p.kind != "return" {
					continue
				}
				nl := false
				for _, f := range p.finds {
					if f == "NewLine" {
						nl = true
					}
				}
				if !nl {
					good = false
				}
			}
			c.Check(good, R, pk+"."+name, c.P.Pos(m.states[name].Pos()), "state "+name+" (enters "+target+"): a line end ends the empty comment", "the line end after the opener is consumed as comment text: the following line is swallowed by the comment")
		}
	}
	if n == 0 {
		c.Bad(R, "states", "-", "comment-opener states", "undecided: no state enters a line-scoped skip state on an ordinary byte")
	}
}

// c14trimnote: notes and comments are stored without the blanks around them.
func c14trimnote(c *core.Ctx) {
	const R = "C14.trimnote"
	c.Rule(R, "in the loader every SetComment(...) whose argument is taken from a lexeme (`lex.Value()`) trims it with TrimSpaces() first: the text of a note runs to the end of the line / to the closing `*/`, so blanks before the line end would otherwise get into the AST and trailing padding would change GetAST()")
	c.Floor(R, 2)
	n := 0
	for _, cs := range c.P.Calls() {
		if core.Rel(cs.Pkg.PkgPath) != "notations/jschema/loader" || !strings.HasSuffix(core.ExprStr(cs.Call.Fun), ".SetComment") {
			continue
		}
		arg := core.ExprStr(cs.Call.Args[len(cs.Call.Args)-1])
		if !strings.Contains(arg, ".Value()") {
			continue
		}
		n++
		fn := core.DeclName(cs.Pkg, cs.Decl)
		c.Check(strings.Contains(arg, ".TrimSpaces()"), R, core.F("%s:SetComment#%d", fn, n), c.P.Pos(cs.Call.Pos()), "SetComment("+arg+") in "+fn, "the note is stored untrimmed: blanks at the end of the line become part of the AST")
	}
}

// c14nlskip: line breaks are accepted between all tokens of a rule-set.
func c14nlskip(c *core.Ctx) {
	const R = "C14.nlskip"
	c.Rule(R, "the state functions of the annotation rule loader that wait for a structural token of the rule-set ({, key, colon, value start, comma, }) all let a NewLine lexeme pass: ruleKeyOrObjectEnd, objectEndAfterRuleName, ruleValueBegin, ruleValue, loadEmbeddedValue each mention lexeme.NewLine. A multi-line annotation may break the line between any two tokens; a state that forgets it rejects `{min:⏎ 0}` with `Loader error` although `{⏎min: 0⏎}` is accepted")
	c.Floor(R, 5)
	for _, m := range []string{"ruleKeyOrObjectEnd", "objectEndAfterRuleName", "ruleValueBegin", "ruleValue", "loadEmbeddedValue"} {
		fn := "(*notations/jschema/loader.ruleLoader)." + m
		d := c.P.FindDecl(fn)
		if d == nil {
			c.Unresolved(R, fn)
			continue
		}
		has := false
		ast.Inspect(d.Decl.Body, func(n ast.Node) bool {
			if se, ok := n.(*ast.SelectorExpr); ok && core.ExprStr(se) == "lexeme.NewLine" {
				has = true
			}
			return true
		})
		c.Check(has, R, fn, c.P.Pos(d.Decl.Pos()), fn+" lets a NewLine lexeme pass", "a line break at this point of a rule-set is a `Loader error`")
	}
}
