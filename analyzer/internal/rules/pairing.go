package rules

import (
	"sort"
	"strings"

	"jsverif/internal/core"
)

// pairingTable: callees whose region is not closed at the level of state functions.
var pairingTable = map[string]string{
	"notations/jschema/scanner:stateAnyAnnotationStart":    "annotation bodies ({rules} objects) are scanned by the general value states under s.annotation != none, so the region contains them; the return state is popped by the annotation-end transitions (stateInlineAnnotationText / stateMultiLineAnnotationText and their prefixes). Mode-dependent, not decided by this rule",
	"notations/jschema/scanner:stateInlineAnnotationStart": "see stateAnyAnnotationStart (an inline annotation nested in a multi-line one)",
}

// pairingRule: push/pop pairing of the scanners' return-to-step stack.
func pairingRule(R string, pkgs []string) RuleFunc {
	return func(c *core.Ctx) {
		c.Rule(R, "return-stack pairing on the per-byte model of each scanner: a transition that pushes a return state and enters a state T calls the region of T - the states reachable from T without a pop. When T is a dedicated callee (no state outside its region enters it without a push) its region must be closed: small (<= 8 states), never reaching the pushed return state or the caller except by a pop, and with at least one pop exit. A callee that goes back to its caller by assigning the state directly leaves its return state on the stack for ever: the next pop (end of an annotation, a comment, an escape) returns to the wrong state")
		c.Floor(R, 3)
		total := 0
		for _, pk := range pkgs {
			m := buildScanModel(c, pk)
			type edge struct {
				to   string
				push bool
				pop  bool
			}
			out := map[string][]edge{}
			type call struct{ from, ret, to string }
			var calls []call
			for _, n := range m.names {
				seenE := map[string]bool{}
				for b := 0; b < 256; b++ {
					for _, p := range m.rows[n][b].paths {
						if p.kind != "return" {
							continue
						}
						e := edge{to: p.next, push: len(p.pushes) > 0, pop: p.next == "<pop>" || p.pops > 0}
						k := core.F("%s|%v|%v", e.to, e.push, e.pop)
						if !seenE[k] {
							seenE[k] = true
							out[n] = append(out[n], e)
						}
						if e.push && p.next != "" && p.next != "<pop>" && p.next != "<dyn>" {
							for _, r := range p.pushes {
								ret := r
								if ret == "<dyn>" {
									ret = n
								}
								calls = append(calls, call{n, ret, p.next})
							}
						}
					}
				}
			}
			// regions
			region := func(t string) (map[string]bool, bool) {
				reg := map[string]bool{t: true}
				work := []string{t}
				hasPop := false
				for len(work) > 0 {
					x := work[len(work)-1]
					work = work[:len(work)-1]
					for _, e := range out[x] {
						if e.pop {
							hasPop = true
							continue
						}
						if e.to == "" || e.to == "<dyn>" {
							continue
						}
						if !reg[e.to] {
							reg[e.to] = true
							work = append(work, e.to)
						}
					}
				}
				return reg, hasPop
			}
			done := map[string]bool{}
			sort.Slice(calls, func(i, j int) bool { return calls[i].to+calls[i].from < calls[j].to+calls[j].from })
			for _, cl := range calls {
				if done[cl.to] {
					continue
				}
				done[cl.to] = true
				reg, hasPop := region(cl.to)
				// dedicated: nobody outside the (intended) callee enters T without pushing
				dedicated := true
				for _, n := range m.names {
					for _, e := range out[n] {
						if e.to == cl.to && !e.push && n != cl.to {
							// entered without push: allowed only from inside a small region of itself
							if !reg[n] || len(reg) > 8 {
								dedicated = false
							}
						}
					}
				}
				if !dedicated {
					continue
				}
				total++
				key := pk + ":" + cl.to
				pos := c.P.Pos(m.states[cl.to].Pos())
				var names []string
				for n := range reg {
					names = append(names, n)
				}
				sort.Strings(names)
				what := core.F("callee %s (pushed from %s): region %v", cl.to, cl.from, clip(strings.Join(names, ","), 160))
				switch {
				case len(reg) > 8 && pairingTable[key] != "":
					c.Tabled(R, key, pos, what, pairingTable[key])
				case len(reg) > 8:
					c.Bad(R, key, pos, what, core.F("the callee region is not closed: %d states are reachable from %s without a pop, so the callee leaves by assigning a state directly and the pushed return state stays on the stack", len(reg), cl.to))
				case reg[cl.ret] && cl.ret != cl.to:
					c.Bad(R, key, pos, what, "the callee reaches its own return state "+cl.ret+" without popping it")
				case !hasPop:
					c.Bad(R, key, pos, what, "the callee never pops the return state")
				default:
					c.OK(R, key, pos, what+" closed, exits by pop")
				}
			}
		}
		if total == 0 {
			c.Bad(R, "callees", "-", "dedicated callees", "undecided: no dedicated callee found")
		}
	}
}
