package rules

import (
	"strings"

	"jsverif/internal/core"
)

func init() {
	Register("C02", "Decides structural necessary conditions of 'no input can crash any entry point': element accesses are guarded, panic values are errors, recovering entry points, recursion guards. Does NOT decide termination of loops in general or memory use.",
		convertAllRule("C02.convertall"), c02elem, c02varidx, c02ptype, c02escape, c10share("C02.share"), func(c *core.Ctx) { c06exampleAs(c, "C02.exbound") }, c02extpanic, c02intarg, c02recguard, c02ovf, func(c *core.Ctx) { c16renderAs(c, "C02.stdpanic") }, func(c *core.Ctx) { c17grammarAs(c, "C02.inv.enumlit") }, c02invNumber, pairingRule("C02.pairing", []string{"notations/jschema/scanner", "rules/enum", "formats/json"}), c02deleg("C02.deleg", []string{"notations/jschema/scanner", "rules/enum", "formats/json"}, 130))
}

func c02elem(c *core.Ctx) { c02elemAs(c, "C02.elem") }

func c02elemAs(c *core.Ctx, R string) {
	c.Rule(R, "every first/last-element access, constant-bound slice and scanner lookahead is dominated by a guard implying it is in bounds, or is tabled with the invariant that makes it safe")
	for _, s := range elemSites(c) {
		pos := c.P.Pos(s.node.Pos())
		what := core.F("%s %s needs len(%s) >= %d", s.kind, s.text, s.container, s.need)
		switch s.status {
		case "guard":
			c.OKd(R, s.key(), pos, what, "guard: "+s.why)
		case "table":
			c.Tabled(R, s.key(), pos, what, s.why)
		default:
			c.Bad(R, s.key(), pos, what, s.why)
		}
	}
}

// c02invNumber: json.NewNumber accepts every number the enum / schema scanners can hand to the
// classifier (the second half of the invariant behind the LiteralJsonType table entry). It is the
// C13 grammar product run under C02; the exponent cells are left out, because the enum and schema
// scanners reject exponent forms themselves (C17.grammar, messageEIsNotAllowed).
func c02invNumber(c *core.Ctx) {
	const R = "C02.inv.number"
	sub := core.NewCtx(c.P, c.Property, c.Tier)
	c13grammarAs(sub, R)
	c.Rule(R, sub.RuleText[R]+" - run under C02 for the texts WITHOUT exponent: a number literal the enum scanner accepts but NewNumber refuses makes json.Guess(...).JsonType() panic on the non-recovering enum path")
	c.Floor(R, 10)
	for _, o := range sub.Obs {
		if o.Status == core.Violation && (strings.Contains(o.Key, ":'e'") || strings.Contains(o.Key, ":'E'")) {
			o.Status = core.Note
			o.Detail = "exponent form: outside this invariant (the enum and schema scanners do not accept exponents); C13 reports it. " + o.Detail
		}
		c.Obs = append(c.Obs, o)
	}
}
