package rules

import "jsverif/internal/core"

func init() {
	Register("C02", "Decides structural necessary conditions of 'no input can crash any entry point': element accesses are guarded, panic values are errors, recovering entry points, recursion guards. Does NOT decide termination of loops in general or memory use.",
		c02elem, c02varidx, c02ptype, c02escape, c02intarg, c02recguard, c02ovf, func(c *core.Ctx) { c16renderAs(c, "C02.stdpanic") }, func(c *core.Ctx) { c17grammarAs(c, "C02.inv.enumlit") }, pairingRule("C02.pairing", []string{"notations/jschema/scanner", "rules/enum", "formats/json"}), c02deleg("C02.deleg", []string{"notations/jschema/scanner", "rules/enum", "formats/json"}, 130))
}

func c02elem(c *core.Ctx) { c02elemAs(c, "C02.elem") }

func c02elemAs(c *core.Ctx, R string) {
	c.Rule(R, "every first/last-element access, constant-bound slice and scanner lookahead is dominated by a guard implying it is in bounds, or is tabled with the invariant that makes it safe")
	for _, s := range elemSites(c) {
		pos := c.P.Pos(s.node.Pos())
		what := core.F("%s %s needs len(%s) >= %d", s.kind, s.text, s.container, s.need)
		switch s.status {
		case "guard":
			c.OKd(R, s.key(), pos, what, "guard: "+s.why)
		case "table":
			c.Tabled(R, s.key(), pos, what, s.why)
		default:
			c.Bad(R, s.key(), pos, what, s.why)
		}
	}
}
