package rules

import (
	"go/ast"
	"go/types"
	"sort"
	"strings"

	"golang.org/x/tools/go/ssa"

	"golang.org/x/tools/go/packages"

	"jsverif/internal/core"
)

func init() {
	Register("C04", "Decides structural necessary conditions of 'GetAST() reports exactly what the source says': (ovf) numeric rule values cannot wrap while being parsed; (names) AST rule names are Type().String() of the stored constraint, which equals the accepted source spelling (registry table), iterated in insertion order; (snapshot) the AST is built from the loaded tree before any compilation step rewrites the rules; (collect) collectASTRules forwards every rule except the two documented special cases; (raw) each rule's AST value is a loss-free rendering of the rule's source bytes. Does NOT decide the homomorphism source->tree for nested lists, notes, or child order.",
		c04ovf, c01registryAs("C04.names"), c04snapshot, c04collect, c04raw, c04note, func(c *core.Ctx) { c03unquoteAs(c, "C04.unquote") }, asciiBlankRule("C04.asciiblank"), decodeOnceRule("C04.decodeonce"))
}

func c01registryAs(R string) RuleFunc {
	return func(c *core.Ctx) {
		sub := core.NewCtx(c.P, "C01", c.Tier)
		c01registry(sub)
		c.Rule(R, sub.RuleText["C01.registry"]+" - the AST reports a rule under Type().String(), so this table is also the source-spelling -> AST-name table")
		c.Floor(R, 15)
		for _, o := range sub.Obs {
			o.Rule = R
			o.Key = strings.Replace(o.Key, "C01.registry@", R+"@", 1)
			c.Obs = append(c.Obs, o)
		}
	}
}

func c04ovf(c *core.Ctx) {
	sub := core.NewCtx(c.P, "C02", c.Tier)
	c02ovf(sub)
	const R = "C04.ovf"
	c.Rule(R, sub.RuleText["C02.ovf"]+" (instance: Bytes.ParseUint, through which minLength/maxLength/minItems/maxItems/precision values reach the AST)")
	c.Floor(R, 1)
	for _, o := range sub.Obs {
		if strings.Contains(o.Key, "ParseUint") {
			o.Rule = R
			o.Key = strings.Replace(o.Key, "C02.ovf@", "C04.ovf@", 1)
			c.Obs = append(c.Obs, o)
		}
	}
}

func c04snapshot(c *core.Ctx) {
	const R = "C04.snapshot"
	c.Rule(R, "in the load closure of JSchema the store to JSchema.ASTNode (from BuildASTNode) happens before the call to loader.CompileBasic, and CompileAllOf / AddUnnamedTypes are called only from the Compile closure: compilation rewrites the constraint sets (deletes `type`, folds exclusiveMinimum, adds required-keys, merges allOf), which must not show in the AST")
	c.Floor(R, 3)
	oc := onceClosures(c)
	// the function that does the loading: the closure handed to LoadOnce.Do in JSchema.load, or the
	// method it forwards to - whichever stores JSchema.ASTNode
	var load *ssa.Function
	var cands []*ssa.Function
	for f, parent := range oc {
		if parent == "(*notations/jschema.JSchema).load" {
			cands = append(cands, f)
			for _, g := range c.P.SuccsDirect(f) {
				if core.FuncPkgPath(g) == core.FuncPkgPath(f) {
					cands = append(cands, g)
					for _, h := range c.P.SuccsDirect(g) {
						if core.FuncPkgPath(h) == core.FuncPkgPath(f) {
							cands = append(cands, h)
						}
					}
				}
			}
		}
	}
	sort.Slice(cands, func(i, j int) bool { return cands[i].String() < cands[j].String() })
	for _, f := range cands {
		for _, b := range f.Blocks {
			for _, in := range b.Instrs {
				if st, ok := in.(*ssa.Store); ok {
					if fa, ok := st.Addr.(*ssa.FieldAddr); ok && absintFieldName(fa) == "ASTNode" && load == nil {
						load = f
					}
				}
			}
		}
	}
	if load == nil {
		c.Unresolved(R, "the function under JSchema.LoadOnce that stores JSchema.ASTNode")
		return
	}
	var storeBlk, callBlk *ssa.BasicBlock
	storeIdx, callIdx := -1, -1
	for _, b := range load.Blocks {
		for i, in := range b.Instrs {
			switch x := in.(type) {
			case *ssa.Store:
				if fa, ok := x.Addr.(*ssa.FieldAddr); ok && absintFieldName(fa) == "ASTNode" && storeBlk == nil {
					storeBlk, storeIdx = b, i
				}
			case *ssa.Call:
				if sc := x.Call.StaticCallee(); sc != nil && core.FuncName(sc) == "notations/jschema/loader.CompileBasic" && callBlk == nil {
					callBlk, callIdx = b, i
				}
			}
		}
	}
	ok := storeBlk != nil && callBlk != nil && ((storeBlk == callBlk && storeIdx < callIdx) || (storeBlk != callBlk && storeBlk.Dominates(callBlk)))
	c.Check(ok, R, "load:ast-before-compile", c.P.Pos(load.Pos()), "JSchema.ASTNode is stored before loader.CompileBasic runs", "the AST snapshot is taken after (or without) the basic compilation: GetAST() shows compiled rules (no `type`, folded exclusiveMinimum, generated required-keys) instead of the ones written in the source")
	for _, name := range []string{"notations/jschema/loader.CompileAllOf", "notations/jschema/loader.AddUnnamedTypes"} {
		var callers []string
		for f := range c.P.AllFuncs {
			if core.FuncName(f) == name {
				for _, e := range c.P.CallersOf(f) {
					if c.P.FuncInScope(e.Caller.Func) {
						callers = append(callers, core.FuncName(e.Caller.Func))
					}
				}
			}
		}
		okc := len(callers) > 0
		for f := range c.P.AllFuncs {
			if core.FuncName(f) == name {
				for _, e := range c.P.CallersOf(f) {
					if c.P.FuncInScope(e.Caller.Func) && !underOnceOf(c, oc, e.Caller.Func, "(*notations/jschema.JSchema).Compile", 3) {
						okc = false
					}
				}
			}
		}
		c.Check(okc, R, "callers:"+name, "-", core.F("%s is called only from the Compile closure (callers: %v)", name, callers), "a compilation step that rewrites the tree runs outside Compile (e.g. during load, before the AST snapshot)")
	}
}

func c04collect(c *core.Ctx) {
	const R = "C04.collect"
	c.Rule(R, "the callback of ischema.collectASTRules, evaluated for every constraint kind: `or` is emitted under OrConstraintType.String() with the AST of the types list, `types` emits nothing, every other kind is forwarded as Set(k.String(), v.ASTNode()) - exactly one Set per kind and no early error (one cell per constraint.Type constant)")
	c.Floor(R, 3)
	d := c.P.FindDecl("notations/jschema/ischema.collectASTRules")
	if d == nil {
		c.Unresolved(R, "notations/jschema/ischema.collectASTRules")
		return
	}
	// the callback handed to Each: a function literal, a method value or a function name
	var litBody *ast.BlockStmt
	var litType *ast.FuncType
	ast.Inspect(d.Decl.Body, func(n ast.Node) bool {
		if call, ok := n.(*ast.CallExpr); ok && strings.HasSuffix(core.ExprStr(call.Fun), ".Each") && len(call.Args) == 1 && litBody == nil {
			litBody, litType = funcArgDecl(c, d.Pkg, call.Args[0])
		}
		return true
	})
	if litBody == nil || len(litType.Params.List) == 0 {
		c.Bad(R, "callback", c.P.Pos(d.Decl.Pos()), "collectASTRules callback", "undecided: no function literal, method value or function of the package handed to Each")
		return
	}
	lit := &ast.FuncLit{Type: litType, Body: litBody}
	var pnames []string
	for _, f := range lit.Type.Params.List {
		for _, n := range f.Names {
			pnames = append(pnames, n.Name)
		}
	}
	if len(pnames) != 2 {
		c.Bad(R, "callback", c.P.Pos(lit.Body.Pos()), "collectASTRules callback", "undecided: the callback does not take (kind, constraint)")
		return
	}
	kvar, vvar := pnames[0], pnames[1]
	nt := c.P.NamedType("notations/jschema/ischema/constraint", "Type")
	if nt == nil {
		c.Unresolved(R, "constraint.Type")
		return
	}
	kinds := core.ConstsOfType(c.P.Pkg("notations/jschema/ischema/constraint"), nt)
	bad := map[string]string{}
	nOther := 0
	for _, k := range kinds {
		kv, ok := constantInt64(k.Val)
		if !ok {
			continue
		}
		e := &miniEval{pk: d.Pkg, env: map[string]int64{kvar: kv, "nil": 0}}
		typesVar := ""
		e.tuple = func(call *ast.CallExpr) ([]int64, bool) {
			if strings.HasSuffix(core.ExprStr(call.Fun), ".Get") {
				return []int64{0, 1}, true
			}
			return nil, false
		}
		e.hook = func(x ast.Expr) (int64, bool) {
			switch y := x.(type) {
			case *ast.Ident:
				if y.Name == "nil" {
					return 0, true
				}
			case *ast.CallExpr:
				if t := core.TypeOf(d.Pkg, y); t != nil && core.IsErrorType(t) {
					return 1, true
				}
			}
			return 0, false
		}
		// remember which variable holds the types list
		ast.Inspect(lit.Body, func(n ast.Node) bool {
			if as, ok := n.(*ast.AssignStmt); ok && len(as.Lhs) == 2 && len(as.Rhs) == 1 && strings.Contains(core.ExprStr(as.Rhs[0]), "TypesListConstraintType") {
				typesVar = core.ExprStr(as.Lhs[0])
			}
			return true
		})
		st, rets := e.run(lit.Body.List)
		var sets []string
		for _, ef := range e.effects {
			if strings.Contains(ef, ".Set(") {
				sets = append(sets, ef)
			}
		}
		errRet := st == miniReturn && len(rets) == 1 && rets[0] != 0
		switch {
		case e.unknown != "":
			bad["cells"] = k.Name + ": undecided: " + e.unknown
		case errRet:
			bad["cells"] = k.Name + ": returns an error"
		case k.Name == "OrConstraintType":
			if len(sets) != 1 || !strings.Contains(sets[0], "OrConstraintType.String()") || !strings.HasSuffix(sets[0], typesVar+".ASTNode())") {
				bad["or-case"] = core.F("`or`: %v", sets)
			}
		case k.Name == "TypesListConstraintType":
			if len(sets) != 0 {
				bad["special-cases"] = core.F("`types` emits %v", sets)
			}
		default:
			nOther++
			if len(sets) != 1 || !strings.HasSuffix(sets[0], ".Set("+kvar+".String(), "+vvar+".ASTNode())") {
				bad["default"] = core.F("%s: %v", k.Name, sets)
			}
		}
	}
	pos := c.P.Pos(lit.Pos())
	c.Check(bad["cells"] == "", R, "cells", pos, core.F("the callback decided for all %d constraint kinds", len(kinds)), bad["cells"])
	c.Check(bad["special-cases"] == "", R, "special-cases", pos, "`types` emits nothing", "the types list is reported as a rule of its own: "+bad["special-cases"])
	c.Check(bad["default"] == "" && nOther > 10, R, "default", pos, core.F("%d other kinds: Set(k.String(), v.ASTNode())", nOther), "a rule kind is dropped from, renamed in or doubled in the AST: "+bad["default"])
	c.Check(bad["or-case"] == "", R, "or-case", pos, "`or` is emitted under its own name with the types list as value", "the `or` rule is no longer reported with its alternatives: "+bad["or-case"])
}

// c04raw: AST value of value-carrying rules is a loss-free function of the source bytes.
func c04raw(c *core.Ctx) {
	const R = "C04.raw"
	c.Rule(R, "the Value of a rule's AST node is rendered from the stored source text or a loss-free store of it: min/max from the raw rule bytes (not from the normalised decimal), unsigned rules from FormatUint of the parsed value (loss-free under C04.ovf), booleans from FormatBool, regex from the unquoted expression, type from the unquoted rule value")
	c.Floor(R, 12)
	K := "notations/jschema/ischema/constraint"
	type spec struct {
		read   string   // field the value must be rendered from
		forbid []string // fields it must not be rendered from
	}
	want := map[string]spec{
		"Min": {"rawValue", []string{"min"}}, "Max": {"rawValue", []string{"max"}},
		"MinLength": {"value", nil}, "MaxLength": {"value", nil}, "MinItems": {"value", nil}, "MaxItems": {"value", nil}, "Precision": {"value", nil},
		"Nullable": {"value", nil}, "Optional": {"value", nil},
		"ExclusiveMinimum": {"exclusive", nil}, "ExclusiveMaximum": {"exclusive", nil},
		"Const": {"apply", nil}, "Regex": {"expression", []string{"re"}}, "TypeConstraint": {"value", nil},
	}
	// renderers that do not lose information on the stored value
	// (conversions to a signed or narrower type are NOT loss-free: strconv.Itoa(int(c.value)) wraps for values >= 2^63)
	lossless := map[string]bool{"String": true, "FormatUint": true, "FormatBool": true, "Unquote": true, "uint64": true, "string": true, "newRuleASTNode": true}
	var typs []string
	for t := range want {
		typs = append(typs, t)
	}
	sortStrings(typs)
	for _, typ := range typs {
		sp := want[typ]
		d := c.P.FindDecl("(" + K + "." + typ + ").ASTNode")
		if d == nil {
			c.Unresolved(R, "("+K+"."+typ+").ASTNode")
			continue
		}
		var valExpr ast.Expr
		ast.Inspect(d.Decl.Body, func(n ast.Node) bool {
			if call, ok := n.(*ast.CallExpr); ok && core.ExprStr(call.Fun) == "newRuleASTNode" && len(call.Args) == 3 && valExpr == nil {
				valExpr = call.Args[1]
			}
			return true
		})
		if valExpr == nil {
			c.Bad(R, typ+".ASTNode:value", c.P.Pos(d.Decl.Pos()), typ+".ASTNode value", "undecided: no newRuleASTNode(token, value, source) call")
			continue
		}
		fields := map[string]bool{}
		badCall := ""
		ast.Inspect(valExpr, func(n ast.Node) bool {
			switch x := n.(type) {
			case *ast.SelectorExpr:
				if id, ok := x.X.(*ast.Ident); ok && d.Decl.Recv != nil && len(d.Decl.Recv.List[0].Names) > 0 && id.Name == d.Decl.Recv.List[0].Names[0].Name {
					fields[x.Sel.Name] = true
				}
			case *ast.CallExpr:
				name := ""
				switch f := x.Fun.(type) {
				case *ast.Ident:
					name = f.Name
				case *ast.SelectorExpr:
					name = f.Sel.Name
				}
				if !lossless[name] && badCall == "" {
					badCall = name
				}
			}
			return true
		})
		ok := fields[sp.read] && badCall == ""
		for _, f := range sp.forbid {
			if fields[f] {
				ok = false
			}
		}
		c.Check(ok, R, typ+".ASTNode:value", c.P.Pos(d.Decl.Pos()), core.F("%s.ASTNode value `%s` is rendered from field %s", typ, core.ExprStr(valExpr), sp.read),
			core.F("the AST value of this rule is not a loss-free rendering of field `%s` (reads %v, non-lossless call %q): GetAST() reports a value that differs from the one written (normalised, truncated or taken from another field)", sp.read, keysOf(fields), badCall))
	}
}

func keysOf(m map[string]bool) []string {
	var out []string
	for k := range m {
		out = append(out, k)
	}
	sortStrings(out)
	return out
}

// underOnceOf: does f run only under a once closure created in the function named parent - it is
// such a closure, or every one of its callers (up to depth) is?
func underOnceOf(c *core.Ctx, oc map[*ssa.Function]string, f *ssa.Function, parent string, depth int) bool {
	if p, ok := oc[f]; ok && p == parent {
		return true
	}
	if depth == 0 {
		return false
	}
	callers := c.P.CallersOf(f)
	n := 0
	for _, e := range callers {
		if !c.P.FuncInScope(e.Caller.Func) && !strings.HasSuffix(e.Caller.Func.Name(), "$bound") {
			continue
		}
		n++
		if !underOnceOf(c, oc, e.Caller.Func, parent, depth-1) {
			return false
		}
	}
	return n > 0
}

// funcArgDecl resolves a function-typed argument to the code that runs: a function literal, or a
// method value / function name of a package in scope.
func funcArgDecl(c *core.Ctx, pk *packages.Package, arg ast.Expr) (*ast.BlockStmt, *ast.FuncType) {
	switch x := ast.Unparen(arg).(type) {
	case *ast.FuncLit:
		return x.Body, x.Type
	case *ast.SelectorExpr, *ast.Ident:
		var id *ast.Ident
		if se, ok := x.(*ast.SelectorExpr); ok {
			id = se.Sel
		} else {
			id = x.(*ast.Ident)
		}
		if o, ok := pk.TypesInfo.Uses[id].(*types.Func); ok {
			if hd := c.P.FindDecl(core.Rel(o.FullName())); hd != nil && hd.Decl.Body != nil {
				return hd.Decl.Body, hd.Decl.Type
			}
		}
	}
	return nil, nil
}
