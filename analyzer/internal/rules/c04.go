package rules

import (
	"go/ast"
	"strings"

	"golang.org/x/tools/go/ssa"

	"jsverif/internal/core"
)

func init() {
	Register("C04", "Decides structural necessary conditions of 'GetAST() reports exactly what the source says': (ovf) numeric rule values cannot wrap while being parsed; (names) AST rule names are Type().String() of the stored constraint, which equals the accepted source spelling (registry table), iterated in insertion order; (snapshot) the AST is built from the loaded tree before any compilation step rewrites the rules; (collect) collectASTRules forwards every rule except the two documented special cases; (raw) each rule's AST value is a loss-free rendering of the rule's source bytes. Does NOT decide the homomorphism source->tree for nested lists, notes, or child order.",
		c04ovf, c01registryAs("C04.names"), c04snapshot, c04collect, c04raw, c04note, func(c *core.Ctx) { c03unquoteAs(c, "C04.unquote") }, asciiBlankRule("C04.asciiblank"), decodeOnceRule("C04.decodeonce"))
}

func c01registryAs(R string) RuleFunc {
	return func(c *core.Ctx) {
		sub := core.NewCtx(c.P, "C01", c.Tier)
		c01registry(sub)
		c.Rule(R, sub.RuleText["C01.registry"]+" - the AST reports a rule under Type().String(), so this table is also the source-spelling -> AST-name table")
		c.Floor(R, 15)
		for _, o := range sub.Obs {
			o.Rule = R
			o.Key = strings.Replace(o.Key, "C01.registry@", R+"@", 1)
			c.Obs = append(c.Obs, o)
		}
	}
}

func c04ovf(c *core.Ctx) {
	sub := core.NewCtx(c.P, "C02", c.Tier)
	c02ovf(sub)
	const R = "C04.ovf"
	c.Rule(R, sub.RuleText["C02.ovf"]+" (instance: Bytes.ParseUint, through which minLength/maxLength/minItems/maxItems/precision values reach the AST)")
	c.Floor(R, 1)
	for _, o := range sub.Obs {
		if strings.Contains(o.Key, "ParseUint") {
			o.Rule = R
			o.Key = strings.Replace(o.Key, "C02.ovf@", "C04.ovf@", 1)
			c.Obs = append(c.Obs, o)
		}
	}
}

func c04snapshot(c *core.Ctx) {
	const R = "C04.snapshot"
	c.Rule(R, "in the load closure of JSchema the store to JSchema.ASTNode (from BuildASTNode) happens before the call to loader.CompileBasic, and CompileAllOf / AddUnnamedTypes are called only from the Compile closure: compilation rewrites the constraint sets (deletes `type`, folds exclusiveMinimum, adds required-keys, merges allOf), which must not show in the AST")
	c.Floor(R, 3)
	var load *ssa.Function
	for f := range c.P.AllFuncs {
		if core.FuncName(f) == "(*notations/jschema.JSchema).load$1" {
			load = f
		}
	}
	if load == nil {
		c.Unresolved(R, "(*notations/jschema.JSchema).load$1")
		return
	}
	var storeBlk, callBlk *ssa.BasicBlock
	storeIdx, callIdx := -1, -1
	for _, b := range load.Blocks {
		for i, in := range b.Instrs {
			switch x := in.(type) {
			case *ssa.Store:
				if fa, ok := x.Addr.(*ssa.FieldAddr); ok && absintFieldName(fa) == "ASTNode" && storeBlk == nil {
					storeBlk, storeIdx = b, i
				}
			case *ssa.Call:
				if sc := x.Call.StaticCallee(); sc != nil && core.FuncName(sc) == "notations/jschema/loader.CompileBasic" && callBlk == nil {
					callBlk, callIdx = b, i
				}
			}
		}
	}
	ok := storeBlk != nil && callBlk != nil && ((storeBlk == callBlk && storeIdx < callIdx) || (storeBlk != callBlk && storeBlk.Dominates(callBlk)))
	c.Check(ok, R, "load:ast-before-compile", c.P.Pos(load.Pos()), "JSchema.ASTNode is stored before loader.CompileBasic runs", "the AST snapshot is taken after (or without) the basic compilation: GetAST() shows compiled rules (no `type`, folded exclusiveMinimum, generated required-keys) instead of the ones written in the source")
	for _, name := range []string{"notations/jschema/loader.CompileAllOf", "notations/jschema/loader.AddUnnamedTypes"} {
		var callers []string
		for f := range c.P.AllFuncs {
			if core.FuncName(f) == name {
				for _, e := range c.P.CallersOf(f) {
					if c.P.FuncInScope(e.Caller.Func) {
						callers = append(callers, core.FuncName(e.Caller.Func))
					}
				}
			}
		}
		okc := len(callers) > 0
		for _, cl := range callers {
			if cl != "(*notations/jschema.JSchema).Compile$1" {
				okc = false
			}
		}
		c.Check(okc, R, "callers:"+name, "-", core.F("%s is called only from the Compile closure (callers: %v)", name, callers), "a compilation step that rewrites the tree runs outside Compile (e.g. during load, before the AST snapshot)")
	}
}

func c04collect(c *core.Ctx) {
	const R = "C04.collect"
	c.Rule(R, "the switch in ischema.collectASTRules has exactly two special cases - `or` (emitted under OrConstraintType.String() with the types list) and `types` (nothing) - and its default forwards the rule as Set(k.String(), v.ASTNode()); the callback never returns early for other kinds")
	c.Floor(R, 3)
	d := c.P.FindDecl("notations/jschema/ischema.collectASTRules")
	if d == nil {
		c.Unresolved(R, "notations/jschema/ischema.collectASTRules")
		return
	}
	var sw *ast.SwitchStmt
	ast.Inspect(d.Decl.Body, func(n ast.Node) bool {
		if s, ok := n.(*ast.SwitchStmt); ok && sw == nil {
			sw = s
		}
		return true
	})
	if sw == nil {
		c.Bad(R, "switch", c.P.Pos(d.Decl.Pos()), "collectASTRules switch", "undecided: no switch over the constraint kind")
		return
	}
	var special []string
	defOK := false
	for _, cl := range sw.Body.List {
		cc := cl.(*ast.CaseClause)
		if cc.List == nil {
			if len(cc.Body) == 1 {
				s := core.ExprStr(cc.Body[0].(*ast.ExprStmt).X)
				defOK = strings.HasSuffix(s, ".Set(k.String(), v.ASTNode())")
			}
			continue
		}
		for _, e := range cc.List {
			special = append(special, core.ConstName(d.Pkg, e))
		}
	}
	okSpecial := len(special) == 2 && ((special[0] == "OrConstraintType" && special[1] == "TypesListConstraintType") || (special[1] == "OrConstraintType" && special[0] == "TypesListConstraintType"))
	c.Check(okSpecial, R, "special-cases", c.P.Pos(sw.Pos()), core.F("special cases of collectASTRules: %v", special), "a rule kind other than `or`/`types` is special-cased: it is dropped from or renamed in the AST")
	c.Check(defOK, R, "default", c.P.Pos(sw.Pos()), "default case: nn.Set(k.String(), v.ASTNode())", "the default case no longer forwards the rule under its own name with its own AST value")
	// `or` case emits under the or name with types.ASTNode()
	orOK := false
	ast.Inspect(sw, func(n ast.Node) bool {
		if call, ok := n.(*ast.CallExpr); ok && strings.HasSuffix(core.ExprStr(call.Fun), ".Set") && len(call.Args) == 2 {
			if core.ExprStr(call.Args[0]) == "constraint.OrConstraintType.String()" && strings.HasSuffix(core.ExprStr(call.Args[1]), ".ASTNode()") {
				orOK = true
			}
		}
		return true
	})
	c.Check(orOK, R, "or-case", c.P.Pos(sw.Pos()), "`or` is emitted under its own name with the types list as value", "the `or` rule is no longer reported with its alternatives")
}

// c04raw: AST value of value-carrying rules is a loss-free function of the source bytes.
func c04raw(c *core.Ctx) {
	const R = "C04.raw"
	c.Rule(R, "the Value of a rule's AST node is rendered from the stored source text or a loss-free store of it: min/max from the raw rule bytes (not from the normalised decimal), unsigned rules from FormatUint of the parsed value (loss-free under C04.ovf), booleans from FormatBool, regex from the unquoted expression, type from the unquoted rule value")
	c.Floor(R, 12)
	K := "notations/jschema/ischema/constraint"
	type spec struct {
		read   string   // field the value must be rendered from
		forbid []string // fields it must not be rendered from
	}
	want := map[string]spec{
		"Min": {"rawValue", []string{"min"}}, "Max": {"rawValue", []string{"max"}},
		"MinLength": {"value", nil}, "MaxLength": {"value", nil}, "MinItems": {"value", nil}, "MaxItems": {"value", nil}, "Precision": {"value", nil},
		"Nullable": {"value", nil}, "Optional": {"value", nil},
		"ExclusiveMinimum": {"exclusive", nil}, "ExclusiveMaximum": {"exclusive", nil},
		"Const": {"apply", nil}, "Regex": {"expression", []string{"re"}}, "TypeConstraint": {"value", nil},
	}
	// renderers that do not lose information on the stored value
	// (conversions to a signed or narrower type are NOT loss-free: strconv.Itoa(int(c.value)) wraps for values >= 2^63)
	lossless := map[string]bool{"String": true, "FormatUint": true, "FormatBool": true, "Unquote": true, "uint64": true, "string": true, "newRuleASTNode": true}
	var typs []string
	for t := range want {
		typs = append(typs, t)
	}
	sortStrings(typs)
	for _, typ := range typs {
		sp := want[typ]
		d := c.P.FindDecl("(" + K + "." + typ + ").ASTNode")
		if d == nil {
			c.Unresolved(R, "("+K+"."+typ+").ASTNode")
			continue
		}
		var valExpr ast.Expr
		ast.Inspect(d.Decl.Body, func(n ast.Node) bool {
			if call, ok := n.(*ast.CallExpr); ok && core.ExprStr(call.Fun) == "newRuleASTNode" && len(call.Args) == 3 && valExpr == nil {
				valExpr = call.Args[1]
			}
			return true
		})
		if valExpr == nil {
			c.Bad(R, typ+".ASTNode:value", c.P.Pos(d.Decl.Pos()), typ+".ASTNode value", "undecided: no newRuleASTNode(token, value, source) call")
			continue
		}
		fields := map[string]bool{}
		badCall := ""
		ast.Inspect(valExpr, func(n ast.Node) bool {
			switch x := n.(type) {
			case *ast.SelectorExpr:
				if id, ok := x.X.(*ast.Ident); ok && d.Decl.Recv != nil && len(d.Decl.Recv.List[0].Names) > 0 && id.Name == d.Decl.Recv.List[0].Names[0].Name {
					fields[x.Sel.Name] = true
				}
			case *ast.CallExpr:
				name := ""
				switch f := x.Fun.(type) {
				case *ast.Ident:
					name = f.Name
				case *ast.SelectorExpr:
					name = f.Sel.Name
				}
				if !lossless[name] && badCall == "" {
					badCall = name
				}
			}
			return true
		})
		ok := fields[sp.read] && badCall == ""
		for _, f := range sp.forbid {
			if fields[f] {
				ok = false
			}
		}
		c.Check(ok, R, typ+".ASTNode:value", c.P.Pos(d.Decl.Pos()), core.F("%s.ASTNode value `%s` is rendered from field %s", typ, core.ExprStr(valExpr), sp.read),
			core.F("the AST value of this rule is not a loss-free rendering of field `%s` (reads %v, non-lossless call %q): GetAST() reports a value that differs from the one written (normalised, truncated or taken from another field)", sp.read, keysOf(fields), badCall))
	}
}

func keysOf(m map[string]bool) []string {
	var out []string
	for k := range m {
		out = append(out, k)
	}
	sortStrings(out)
	return out
}
