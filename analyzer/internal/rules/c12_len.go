package rules

import (
	"go/ast"
	"go/token"
	"strings"

	"jsverif/internal/core"
)

// linEnd evaluates an expression as a*END + k where END is a call `<x>.End()`; conversions are
// transparent. ok=false if the expression has another shape.
func linEnd(pk *packagesPackage, x ast.Expr) (a, k int64, ok bool) {
	x = ast.Unparen(x)
	if v := core.ConstOf(pk, x); v != nil {
		n, ok := constantInt64(v)
		return 0, n, ok
	}
	switch y := x.(type) {
	case *ast.CallExpr:
		if tv, isT := pk.TypesInfo.Types[y.Fun]; isT && tv.IsType() && len(y.Args) == 1 {
			return linEnd(pk, y.Args[0])
		}
		if se, isSel := y.Fun.(*ast.SelectorExpr); isSel && se.Sel.Name == "End" && len(y.Args) == 0 {
			return 1, 0, true
		}
	case *ast.BinaryExpr:
		a1, k1, ok1 := linEnd(pk, y.X)
		a2, k2, ok2 := linEnd(pk, y.Y)
		if !ok1 || !ok2 {
			return 0, 0, false
		}
		switch y.Op {
		case token.ADD:
			return a1 + a2, k1 + k2, true
		case token.SUB:
			return a1 - a2, k1 - k2, true
		}
	}
	return 0, 0, false
}

// c12len: Len() = length of the value without trailing blanks.
func c12len(c *core.Ctx) {
	const R = "C12.len"
	lenArith(c, R, "(*formats/json.scanner).Length", func(k int64) bool { return k == 0 }, "candidate length = End()+0", "structure of (*formats/json.scanner).Length: (end) a lexeme's End() is the inclusive index of its last byte, so after an ordinary lexeme the candidate length is End()+1; the EndTop lexeme sits ON the first trailing non-blank byte, so there the candidate is exactly End() (End()-1 is one short when no blank separates value and trailer: `{}x`); (trim) the final loop then drops exactly the RFC 8259 whitespace bytes SP, TAB, LF, CR from the end of the candidate - the trimming predicate is evaluated for all 256 bytes. Decides the shape of the arithmetic, not the lexeme positions themselves")
}

// lenArith: the arithmetic of a scanner's Length(): candidate after a lexeme / at EndTop, then the trim loop.
func lenArith(c *core.Ctx, R, fnName string, endTopOK func(k int64) bool, endTopWhat, doc string) {
	c.Rule(R, doc)
	c.Floor(R, 3)
	d := c.P.FindDecl(fnName)
	if d == nil {
		c.Unresolved(R, fnName)
		return
	}
	pos := c.P.Pos(d.Decl.Pos())
	// --- (end)
	var endTopAssign, otherAssign *ast.AssignStmt
	var endTopIf *ast.IfStmt
	ast.Inspect(d.Decl.Body, func(n ast.Node) bool {
		if ifs, ok := n.(*ast.IfStmt); ok && endTopIf == nil && strings.Contains(core.ExprStr(ifs.Cond), "EndTop") && strings.Contains(core.ExprStr(ifs.Cond), "==") {
			endTopIf = ifs
		}
		return true
	})
	if endTopIf == nil {
		c.Bad(R, "Length:endtop", pos, "the EndTop branch of Length", "undecided: no `if lex.Type() == lexeme.EndTop` found")
		return
	}
	isLenAssign := func(n ast.Node) *ast.AssignStmt {
		as, ok := n.(*ast.AssignStmt)
		if ok && len(as.Lhs) == 1 && len(as.Rhs) == 1 && as.Tok == token.ASSIGN && core.ExprStr(as.Lhs[0]) == "length" {
			return as
		}
		return nil
	}
	ast.Inspect(d.Decl.Body, func(n ast.Node) bool {
		if n == nil {
			return true
		}
		if as := isLenAssign(n); as != nil {
			if as.Pos() >= endTopIf.Body.Pos() && as.End() <= endTopIf.Body.End() {
				endTopAssign = as
			} else if otherAssign == nil {
				otherAssign = as
			}
		}
		return true
	})
	chk := func(key string, as *ast.AssignStmt, okK func(int64) bool, whatK string, why string) {
		if as == nil {
			c.Bad(R, key, pos, key, "undecided: no assignment `length = ...` found")
			return
		}
		a, k, ok := linEnd(d.Pkg, as.Rhs[0])
		if !ok {
			c.Bad(R, key, c.P.Pos(as.Pos()), "candidate length "+core.ExprStr(as.Rhs[0]), "undecided: not of the form End() + constant")
			return
		}
		c.Check(a == 1 && okK(k), R, key, c.P.Pos(as.Pos()), whatK, core.F("candidate length is %d*End()%+d: %s", a, k, why))
	}
	if endTopAssign == nil {
		// no adjustment at EndTop: the length stays the end of the last lexeme (+1)
		onlyLeaves := len(endTopIf.Body.List) >= 1
		for _, st := range endTopIf.Body.List {
			switch st.(type) {
			case *ast.BranchStmt, *ast.ReturnStmt:
			default:
				onlyLeaves = false
			}
		}
		c.Check(onlyLeaves, R, "Length:endtop", c.P.Pos(endTopIf.Pos()), "at the EndTop lexeme the length is left at the end of the last lexeme", "the EndTop branch neither assigns the length nor simply leaves the loop")
	} else {
		chk("Length:endtop", endTopAssign, endTopOK, endTopWhat, "the EndTop lexeme lies on the first trailing byte; any other offset cuts the last byte of a value directly followed by the trailer (`{}x`) or includes the trailer")
	}
	chk("Length:lexeme", otherAssign, func(k int64) bool { return k == 1 }, "candidate length = End()+1", "End() is the inclusive index of the lexeme's last byte, the length up to it is End()+1")
	// --- (trim)
	var trimIf *ast.IfStmt
	var byteVar string
	ast.Inspect(d.Decl.Body, func(n ast.Node) bool {
		fs, ok := n.(*ast.ForStmt)
		if !ok {
			return true
		}
		for _, st := range fs.Body.List {
			if as, ok := st.(*ast.AssignStmt); ok && len(as.Lhs) == 1 && len(as.Rhs) == 1 && strings.HasSuffix(core.ExprStr(as.Rhs[0]), ".Byte(length - 1)") {
				byteVar = core.ExprStr(as.Lhs[0])
			}
			if ifs, ok := st.(*ast.IfStmt); ok && byteVar != "" && strings.Contains(core.ExprStr(ifs.Cond), byteVar) {
				trimIf = ifs
			}
		}
		return true
	})
	if trimIf == nil {
		c.Bad(R, "Length:trim", pos, "the trailing-blank loop of Length", "undecided: no loop reading data.Byte(length - 1) with a condition on that byte")
		return
	}
	hasBreak := func(n ast.Node) bool {
		found := false
		if n == nil {
			return false
		}
		ast.Inspect(n, func(m ast.Node) bool {
			if b, ok := m.(*ast.BranchStmt); ok && b.Tok == token.BREAK {
				found = true
			}
			return true
		})
		return found
	}
	breakInThen := hasBreak(trimIf.Body)
	breakInElse := trimIf.Else != nil && hasBreak(trimIf.Else)
	if breakInThen == breakInElse {
		c.Bad(R, "Length:trim", c.P.Pos(trimIf.Pos()), "the trailing-blank loop of Length", "undecided: cannot tell which branch leaves the loop")
		return
	}
	ev := newByteBodyEval(c, d.Pkg, byteVar)
	var wrong []string
	for b := int64(0); b < 256; b++ {
		v, ok := ev.boolExpr(trimIf.Cond, b)
		if !ok {
			c.Bad(R, "Length:trim", c.P.Pos(trimIf.Pos()), "the trailing-blank loop of Length", "undecided: condition "+core.ExprStr(trimIf.Cond)+" is not a predicate of the byte")
			return
		}
		trimmed := v
		if breakInThen {
			trimmed = !v
		}
		want := b == ' ' || b == '\t' || b == '\n' || b == '\r'
		if trimmed != want {
			wrong = append(wrong, core.F("%q", rune(b)))
		}
	}
	c.Check(len(wrong) == 0, R, "Length:trim", c.P.Pos(trimIf.Pos()), "the final loop of Length drops exactly SP, TAB, LF, CR (256 bytes evaluated)", "Len() keeps trailing blanks or cuts into the value; bytes treated wrongly: "+strings.Join(wrong, " "))
}

// rewindRule: Len() and Check() of a JSON document leave a fresh scanner behind.
func rewindRule(R string) RuleFunc {
	return func(c *core.Ctx) {
		c.Rule(R, "formats/json.Document: the two operations that drive the scanner to the end themselves (computeLen behind Len(), check behind Check()) call d.rewind() first and again in a defer, and rewind() installs a scanner made by the constructor newScanner (not a re-used one): so the lexeme stream read with NextLexeme() starts at the first lexeme whatever was called before, and no scanner state (pending lexemes, stack) survives from one operation into the next")
		c.Floor(R, 3)
		for _, fn := range []string{"(*formats/json.Document).computeLen", "(*formats/json.Document).check"} {
			d := c.P.FindDecl(fn)
			if d == nil {
				c.Unresolved(R, fn)
				continue
			}
			first, deferred := false, false
			if len(d.Decl.Body.List) > 0 {
				if es, ok := d.Decl.Body.List[0].(*ast.ExprStmt); ok && core.ExprStr(es.X) == "d.rewind()" {
					first = true
				}
			}
			for _, st := range d.Decl.Body.List {
				if ds, ok := st.(*ast.DeferStmt); ok && core.ExprStr(ds.Call) == "d.rewind()" {
					deferred = true
				}
			}
			c.Check(first && deferred, R, fn, c.P.Pos(d.Decl.Pos()), fn+" rewinds before and after (deferred)", core.F("rewind at entry: %v, deferred rewind: %v - the document is left with an exhausted or half-read scanner, so a later NextLexeme()/Check()/Len() on the same object continues from there", first, deferred))
		}
		d := c.P.FindDecl("(*formats/json.Document).rewind")
		if d == nil {
			c.Unresolved(R, "(*formats/json.Document).rewind")
			return
		}
		fresh := false
		for _, st := range d.Decl.Body.List { // unconditional: a top-level statement of rewind
			if as, ok := st.(*ast.AssignStmt); ok && len(as.Lhs) == 1 && core.ExprStr(as.Lhs[0]) == "d.scanner" {
				if call, ok := as.Rhs[0].(*ast.CallExpr); ok && core.ExprStr(call.Fun) == "newScanner" {
					fresh = true
				}
			}
		}
		c.Check(fresh, R, "(*formats/json.Document).rewind:fresh", c.P.Pos(d.Decl.Pos()), "rewind() installs newScanner(...)", "rewind re-uses a scanner object: whatever its reset forgets (pending lexemes, flags) leaks into the next operation")
	}
}
