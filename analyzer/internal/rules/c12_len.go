package rules

import (
	"go/ast"
	"go/token"
	"go/types"
	"strings"

	"jsverif/internal/core"
)

// linEnd evaluates an expression as a*END + k where END is a call `<x>.End()`; conversions are
// transparent. ok=false if the expression has another shape.
func linEnd(pk *packagesPackage, x ast.Expr) (a, k int64, ok bool) {
	x = ast.Unparen(x)
	if v := core.ConstOf(pk, x); v != nil {
		n, ok := constantInt64(v)
		return 0, n, ok
	}
	switch y := x.(type) {
	case *ast.CallExpr:
		if tv, isT := pk.TypesInfo.Types[y.Fun]; isT && tv.IsType() && len(y.Args) == 1 {
			return linEnd(pk, y.Args[0])
		}
		if se, isSel := y.Fun.(*ast.SelectorExpr); isSel && se.Sel.Name == "End" && len(y.Args) == 0 {
			return 1, 0, true
		}
	case *ast.BinaryExpr:
		a1, k1, ok1 := linEnd(pk, y.X)
		a2, k2, ok2 := linEnd(pk, y.Y)
		if !ok1 || !ok2 {
			return 0, 0, false
		}
		switch y.Op {
		case token.ADD:
			return a1 + a2, k1 + k2, true
		case token.SUB:
			return a1 - a2, k1 - k2, true
		}
	}
	return 0, 0, false
}

// c12len: Len() = length of the value without trailing blanks.
func c12len(c *core.Ctx) {
	const R = "C12.len"
	lenArith(c, R, "(*formats/json.scanner).Length", func(k int64) bool { return k == 0 }, "candidate length = End()+0", "structure of (*formats/json.scanner).Length: (end) a lexeme's End() is the inclusive index of its last byte, so after an ordinary lexeme the candidate length is End()+1; the EndTop lexeme sits ON the first trailing non-blank byte, so there the candidate is exactly End() (End()-1 is one short when no blank separates value and trailer: `{}x`); (trim) the final loop then drops exactly the RFC 8259 whitespace bytes SP, TAB, LF, CR from the end of the candidate - the trimming predicate is evaluated for all 256 bytes. Decides the shape of the arithmetic, not the lexeme positions themselves")
}

// lenArith: the arithmetic of a scanner's Length(): candidate after a lexeme / at EndTop, then the trim loop.
func lenArith(c *core.Ctx, R, fnName string, endTopOK func(k int64) bool, endTopWhat, doc string) {
	c.Rule(R, doc)
	c.Floor(R, 3)
	d := c.P.FindDecl(fnName)
	if d == nil {
		c.Unresolved(R, fnName)
		return
	}
	pos := c.P.Pos(d.Decl.Pos())
	// the lexeme loop (calls Next) and the trimming loop behind it: top-level loops of Length or of a
	// helper of the package it calls; the length variable of each is the one its function returns
	returned := func(fd *ast.FuncDecl) string {
		name := ""
		ast.Inspect(fd.Body, func(n ast.Node) bool {
			if _, isLit := n.(*ast.FuncLit); isLit {
				return false
			}
			if r, ok := n.(*ast.ReturnStmt); ok && len(r.Results) >= 1 {
				if id, ok := r.Results[0].(*ast.Ident); ok && id.Name != "nil" && name == "" {
					name = id.Name
				}
			}
			return true
		})
		return name
	}
	lenVar, trimVar := "", ""
	var lexLoop, trimLoop *ast.ForStmt
	for _, hd := range helperBodies(c, d, 2) {
		for _, st := range hd.Decl.Body.List {
			fs, ok := st.(*ast.ForStmt)
			if !ok {
				continue
			}
			callsNext, readsByte := false, false
			ast.Inspect(fs, func(n ast.Node) bool {
				if call, ok := n.(*ast.CallExpr); ok {
					if strings.HasSuffix(core.ExprStr(call.Fun), ".Next") {
						callsNext = true
					}
					if strings.HasSuffix(core.ExprStr(call.Fun), ".Byte") {
						readsByte = true
					}
				}
				return true
			})
			if callsNext && lexLoop == nil {
				lexLoop, lenVar = fs, returned(hd.Decl)
			} else if !callsNext && lexLoop != nil && trimLoop == nil && (readsByte || hd.Decl == d.Decl) {
				trimLoop, trimVar = fs, returned(hd.Decl)
			}
		}
	}
	if lenVar == "" || lexLoop == nil {
		c.Bad(R, "Length:lexeme", pos, "the lexeme loop of Length", "undecided: no returned length variable or no loop calling Next()")
		return
	}
	lpk := c.P.Pkg("lexeme")
	lexType := func(name string) int64 {
		if lpk != nil {
			if k, ok := lpk.Types.Scope().Lookup(name).(*types.Const); ok {
				n, _ := constantInt64(k.Val())
				return n
			}
		}
		return -1
	}
	endTop, literalEnd := lexType("EndTop"), lexType("LiteralEnd")
	// one iteration of the lexeme loop: the candidate length as a function of the lexeme's End()
	iter := func(T, E int64) (int64, string) {
		const L0 = 7
		e := &miniEval{pk: d.Pkg, env: map[string]int64{lenVar: L0, "nil": 0}, ctx: c, helpers: true}
		recvName := ""
		if d.Decl.Recv != nil && len(d.Decl.Recv.List[0].Names) > 0 {
			recvName = d.Decl.Recv.List[0].Names[0].Name
		}
		e.env[recvName+".dataSize"] = 1000
		e.env["dataSize"] = 1000
		e.tuple = func(call *ast.CallExpr) ([]int64, bool) {
			if strings.HasSuffix(core.ExprStr(call.Fun), ".Next") {
				second := int64(1)
				if t, ok := core.TypeOf(d.Pkg, call).(*types.Tuple); ok && t.Len() == 2 && core.IsErrorType(t.At(1).Type()) {
					second = 0
				}
				return []int64{1, second}, true
			}
			return nil, false
		}
		e.hook = func(x ast.Expr) (int64, bool) {
			switch y := x.(type) {
			case *ast.Ident:
				if y.Name == "nil" {
					return 0, true
				}
			case *ast.CallExpr:
				f := core.ExprStr(y.Fun)
				switch {
				case strings.HasSuffix(f, ".Type") && len(y.Args) == 0:
					return T, true
				case strings.HasSuffix(f, ".End") && len(y.Args) == 0:
					return E, true
				case strings.HasSuffix(f, "Errors.Is") || strings.HasSuffix(f, "errors.Is"):
					return 0, true
				}
			}
			return 0, false
		}
		e.run(lexLoop.Body.List)
		return e.env[lenVar], e.unknown
	}
	lin := func(T int64) (a, k int64, changed bool, unknown string) {
		v1, u1 := iter(T, 10)
		v2, u2 := iter(T, 20)
		if u1 != "" {
			return 0, 0, false, u1
		}
		if u2 != "" {
			return 0, 0, false, u2
		}
		if v1 == 7 && v2 == 7 {
			return 0, 0, false, ""
		}
		a = (v2 - v1) / 10
		return a, v1 - a*10, true, ""
	}
	if a, k, changed, unk := lin(endTop); unk != "" {
		c.Bad(R, "Length:endtop", pos, "the EndTop branch of Length", "undecided: "+unk)
	} else if !changed {
		c.OKd(R, "Length:endtop", pos, "at the EndTop lexeme the length is left at the end of the last lexeme", "no assignment at EndTop")
	} else {
		c.Check(a == 1 && endTopOK(k), R, "Length:endtop", pos, endTopWhat, core.F("candidate length is %d*End()%+d: the EndTop lexeme lies on the first trailing byte; any other offset cuts the last byte of a value directly followed by the trailer (`{}x`) or includes the trailer", a, k))
	}
	if a, k, changed, unk := lin(literalEnd); unk != "" {
		c.Bad(R, "Length:lexeme", pos, "candidate length after a lexeme", "undecided: "+unk)
	} else {
		c.Check(changed && a == 1 && k == 1, R, "Length:lexeme", pos, "candidate length = End()+1", core.F("candidate length is %d*End()%+d (changed: %v): End() is the inclusive index of the lexeme's last byte, the length up to it is End()+1", a, k, changed))
	}
	// --- (trim): the final loop drops exactly the four blank bytes
	if trimLoop == nil {
		c.Bad(R, "Length:trim", pos, "the trailing-blank loop of Length", "undecided: no loop behind the lexeme loop")
		return
	}
	var wrong []string
	for b := int64(0); b < 256; b++ {
		e := &miniEval{pk: d.Pkg, env: map[string]int64{trimVar: 5}, ctx: c}
		e.hook = func(x ast.Expr) (int64, bool) {
			if call, ok := x.(*ast.CallExpr); ok && strings.HasSuffix(core.ExprStr(call.Fun), ".Byte") && len(call.Args) == 1 {
				if e.expr(call.Args[0]) == 4 {
					return b, true
				}
				return 'x', true
			}
			return 0, false
		}
		e.run([]ast.Stmt{trimLoop})
		if e.unknown != "" {
			c.Bad(R, "Length:trim", c.P.Pos(trimLoop.Pos()), "the trailing-blank loop of Length", "undecided: "+e.unknown)
			return
		}
		want := b == ' ' || b == '\t' || b == '\n' || b == '\r'
		got := e.env[trimVar]
		if (want && got != 4) || (!want && got != 5) {
			wrong = append(wrong, core.F("%q", rune(b)))
		}
	}
	c.Check(len(wrong) == 0, R, "Length:trim", c.P.Pos(trimLoop.Pos()), "the final loop of Length drops exactly SP, TAB, LF, CR (256 bytes evaluated)", "Len() keeps trailing blanks or cuts into the value; bytes treated wrongly: "+strings.Join(wrong, " "))
}

// rewindRule: Len() and Check() of a JSON document leave a fresh scanner behind.
func rewindRule(R string) RuleFunc {
	return func(c *core.Ctx) {
		c.Rule(R, "formats/json.Document: the two operations that drive the scanner to the end themselves (computeLen behind Len(), check behind Check()) call d.rewind() first and again in a defer, and rewind() installs a scanner made by the constructor newScanner (not a re-used one): so the lexeme stream read with NextLexeme() starts at the first lexeme whatever was called before, and no scanner state (pending lexemes, stack) survives from one operation into the next")
		c.Floor(R, 3)
		for _, fn := range []string{"(*formats/json.Document).computeLen", "(*formats/json.Document).check"} {
			d := c.P.FindDecl(fn)
			if d == nil {
				c.Unresolved(R, fn)
				continue
			}
			first, deferred := false, false
			if len(d.Decl.Body.List) > 0 {
				if es, ok := d.Decl.Body.List[0].(*ast.ExprStmt); ok && core.ExprStr(es.X) == "d.rewind()" {
					first = true
				}
			}
			for _, st := range d.Decl.Body.List {
				if ds, ok := st.(*ast.DeferStmt); ok && core.ExprStr(ds.Call) == "d.rewind()" {
					deferred = true
				}
			}
			c.Check(first && deferred, R, fn, c.P.Pos(d.Decl.Pos()), fn+" rewinds before and after (deferred)", core.F("rewind at entry: %v, deferred rewind: %v - the document is left with an exhausted or half-read scanner, so a later NextLexeme()/Check()/Len() on the same object continues from there", first, deferred))
		}
		d := c.P.FindDecl("(*formats/json.Document).rewind")
		if d == nil {
			c.Unresolved(R, "(*formats/json.Document).rewind")
			return
		}
		fresh := false
		for _, st := range d.Decl.Body.List { // unconditional: a top-level statement of rewind
			if as, ok := st.(*ast.AssignStmt); ok && len(as.Lhs) == 1 && core.ExprStr(as.Lhs[0]) == "d.scanner" {
				// a constructor of the package: a function that returns a *scanner and allocates it (directly or through another constructor)
				if call, ok := as.Rhs[0].(*ast.CallExpr); ok && isScannerCtor(c, d.Pkg, call, 0) {
					fresh = true
				}
			}
		}
		c.Check(fresh, R, "(*formats/json.Document).rewind:fresh", c.P.Pos(d.Decl.Pos()), "rewind() installs newScanner(...)", "rewind re-uses a scanner object: whatever its reset forgets (pending lexemes, flags) leaks into the next operation")
	}
}

// isScannerCtor: the call goes to a function of the package that returns a freshly allocated scanner
// (`&scanner{...}` / new(scanner), or the result of another such constructor).
func isScannerCtor(c *core.Ctx, pk *packagesPackage, call *ast.CallExpr, depth int) bool {
	if depth > 2 {
		return false
	}
	f, ok := core.Callee(pk, call).(*types.Func)
	if !ok || f.Pkg() == nil || f.Pkg().Path() != pk.PkgPath {
		return false
	}
	d := c.P.FindDecl(core.Rel(f.FullName()))
	if d == nil || d.Decl.Body == nil {
		return false
	}
	fresh, n := true, 0
	ast.Inspect(d.Decl.Body, func(nd ast.Node) bool {
		if _, isLit := nd.(*ast.FuncLit); isLit {
			return false
		}
		r, isR := nd.(*ast.ReturnStmt)
		if !isR || len(r.Results) != 1 {
			return true
		}
		n++
		switch x := ast.Unparen(r.Results[0]).(type) {
		case *ast.UnaryExpr:
			if _, isCL := ast.Unparen(x.X).(*ast.CompositeLit); !(x.Op == token.AND && isCL) {
				fresh = false
			}
		case *ast.CallExpr:
			if core.ExprStr(x.Fun) != "new" && !isScannerCtor(c, d.Pkg, x, depth+1) {
				fresh = false
			}
		case *ast.Ident:
			// a local that was assigned a composite literal / constructor result
			if def := findDef(d.Pkg, d.Pkg.TypesInfo.ObjectOf(x)); def != nil {
				switch y := ast.Unparen(def).(type) {
				case *ast.UnaryExpr:
					if _, isCL := ast.Unparen(y.X).(*ast.CompositeLit); !(y.Op == token.AND && isCL) {
						fresh = false
					}
				case *ast.CallExpr:
					if core.ExprStr(y.Fun) != "new" && !isScannerCtor(c, d.Pkg, y, depth+1) {
						fresh = false
					}
				default:
					fresh = false
				}
			} else {
				fresh = false
			}
		default:
			fresh = false
		}
		return true
	})
	return fresh && n > 0
}
