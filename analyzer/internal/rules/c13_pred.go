package rules

import (
	"go/constant"
	"go/token"
	"strings"

	"golang.org/x/tools/go/ssa"

	"jsverif/internal/absint"
	"jsverif/internal/core"
)

// evalTable runs fn symbolically (no inlining) and evaluates its result for
// every assignment of the given leaves (key -> domain).
func evalTable(c *core.Ctx, fn *ssa.Function, args []absint.Val, leaves map[string][]constant.Value, inline map[string]bool) (rows []map[string]constant.Value, results []constant.Value, kinds []string, undecided string) {
	in := absint.New(absint.Config{InModule: c.P.FuncInModule, Inline: func(f *ssa.Function) bool { return inline[core.FuncName(f)] }})
	outs := in.Run(fn, args, nil)
	var keys []string
	for k := range leaves {
		keys = append(keys, k)
	}
	sortStrings(keys)
	var rec func(i int, env map[string]constant.Value)
	rec = func(i int, env map[string]constant.Value) {
		if i == len(keys) {
			// find the matching path
			var match *absint.Outcome
			n := 0
			for oi := range outs {
				o := &outs[oi]
				ok := true
				for _, a := range o.St.Atoms {
					v := absint.Eval(a.Cond, env)
					if v == nil || v.Kind() != constant.Bool {
						undecided = "path condition " + a.Cond.Key() + " is not determined by the table's variables"
						ok = false
						break
					}
					if constant.BoolVal(v) != a.Truth {
						ok = false
						break
					}
				}
				if ok {
					match = o
					n++
				}
			}
			cp := map[string]constant.Value{}
			for k, v := range env {
				cp[k] = v
			}
			rows = append(rows, cp)
			if n != 1 || match == nil {
				results = append(results, nil)
				kinds = append(kinds, "none")
				if undecided == "" {
					undecided = core.F("%d paths match an assignment", n)
				}
				return
			}
			kinds = append(kinds, match.Kind)
			if match.Kind == "return" {
				results = append(results, absint.Eval(match.Val, env))
			} else {
				results = append(results, nil)
			}
			return
		}
		for _, v := range leaves[keys[i]] {
			env[keys[i]] = v
			rec(i+1, env)
		}
		delete(env, keys[i])
	}
	rec(0, map[string]constant.Value{})
	return
}

func sortStrings(s []string) {
	for i := 1; i < len(s); i++ {
		for j := i; j > 0 && s[j] < s[j-1]; j-- {
			s[j], s[j-1] = s[j-1], s[j]
		}
	}
}

var cmpDomain = []constant.Value{constant.MakeInt64(-1), constant.MakeInt64(0), constant.MakeInt64(1)}
var boolDomain = []constant.Value{constant.MakeBool(false), constant.MakeBool(true)}

// numberPredicates decodes the six comparison predicates of json.Number as
// truth tables over Cmp. Returns name -> [Cmp=-1, Cmp=0, Cmp=1].
func numberPredicates(c *core.Ctx, R string, report bool) map[string][3]bool {
	want := map[string][3]bool{
		"Equal": {false, true, false}, "GreaterThan": {false, false, true}, "GreaterThanOrEqual": {false, true, true},
		"LessThan": {true, false, false}, "LessThanOrEqual": {true, true, false},
	}
	got := map[string][3]bool{}
	for name, w := range want {
		f := c.P.Method("json", "Number", name)
		if f == nil {
			if report {
				c.Unresolved(R, "(json.Number)."+name)
			}
			continue
		}
		args := []absint.Val{absint.Param("n"), absint.Ptr{Base: "nn"}}
		cmpKey := absint.Sym{Op: "call", Name: "(json.Number).Cmp", Args: args}.Key()
		rows, results, _, und := evalTable(c, f, args, map[string][]constant.Value{cmpKey: cmpDomain}, nil)
		var g [3]bool
		bad := und
		for i, r := range rows {
			cv, _ := constant.Int64Val(r[cmpKey])
			if results[i] == nil || results[i].Kind() != constant.Bool {
				if bad == "" {
					bad = "result is not a boolean function of Cmp"
				}
				continue
			}
			g[cv+1] = constant.BoolVal(results[i])
		}
		got[name] = g
		if !report {
			continue
		}
		key := "(json.Number)." + name
		what := core.F("%s as a table over Cmp(n,nn) in {-1,0,1}: %v", name, g)
		switch {
		case bad != "":
			c.Bad(R, key, c.P.Pos(f.Pos()), what, "undecided: "+bad)
		case g != w:
			c.Bad(R, key, c.P.Pos(f.Pos()), what, core.F("expected %v: the predicate does not mean what its name says, so min/max/exclusive checks compare wrongly", w))
		default:
			c.OK(R, key, c.P.Pos(f.Pos()), what)
		}
	}
	return got
}

func c13pred(c *core.Ctx) { c13predR(c, "C13.pred") }

func c13predR(c *core.Ctx, R string) {
	c.Rule(R, "Equal/GreaterThan/GreaterThanOrEqual/LessThan/LessThanOrEqual are the correct truth tables over Cmp in {-1,0,1}; Cmp = sign table over <n.neg, nn.neg, cmpAbs>: same sign -> cmpAbs (negated when negative), different signs -> -1/+1 which is only correct if a zero never carries a sign, so Scan must normalise negative zero (neg=false when no digits remain); `not` maps 1,-1,0 to -1,1,0 and nothing else reaches it")
	c.Floor(R, 8)
	numberPredicates(c, R, true)
	// not()
	if f := c.P.Method("json", "Number", "not"); f != nil {
		args := []absint.Val{absint.Param("recv"), absint.Param("cmp")}
		if len(f.Params) == 1 {
			args = args[1:]
		}
		rows, results, kinds, und := evalTable(c, f, args, map[string][]constant.Value{"param:cmp": cmpDomain}, nil)
		ok := und == ""
		for i, r := range rows {
			cv, _ := constant.Int64Val(r["param:cmp"])
			if kinds[i] != "return" || results[i] == nil {
				ok = false
				continue
			}
			rv, _ := constant.Int64Val(results[i])
			if rv != -cv {
				ok = false
			}
		}
		c.Check(ok, R, "(json.Number).not", c.P.Pos(f.Pos()), "not(cmp) = -cmp for cmp in {-1,0,1}", "not() is not the negation on {-1,0,1}: "+und)
	} else {
		c.Unresolved(R, "(json.Number).not")
	}
	// Cmp sign table
	if f := c.P.Method("json", "Number", "Cmp"); f != nil {
		args := []absint.Val{absint.Param("n"), absint.Ptr{Base: "nn"}}
		nneg := "sel:.neg(param:n)"
		nnneg := "load:&nn.neg"
		abs := absint.Sym{Op: "call", Name: "(json.Number).cmpAbs", Args: args}.Key()
		rows, results, kinds, und := evalTable(c, f, args, map[string][]constant.Value{nneg: boolDomain, nnneg: boolDomain, abs: cmpDomain}, map[string]bool{"(json.Number).not": true})
		bad := und
		for i, r := range rows {
			a, _ := constant.Int64Val(r[abs])
			n1, n2 := constant.BoolVal(r[nneg]), constant.BoolVal(r[nnneg])
			if kinds[i] != "return" || results[i] == nil {
				if bad == "" {
					bad = "a sign combination does not return a constant"
				}
				continue
			}
			got, _ := constant.Int64Val(results[i])
			var want int64
			switch {
			case n1 == n2 && !n1:
				want = a
			case n1 == n2 && n1:
				want = -a
			case n1:
				want = -1
			default:
				want = 1
			}
			// different signs with equal magnitude 0 is only possible for zeros; excluded by the normalisation rule below
			if got != want && bad == "" {
				bad = core.F("neg=%v, nn.neg=%v, cmpAbs=%d gives %d, expected %d", n1, n2, a, got, want)
			}
		}
		c.Check(bad == "", R, "(json.Number).Cmp:signs", c.P.Pos(f.Pos()), "Cmp sign table over <n.neg, nn.neg, cmpAbs> (12 cells)", bad)
		// zero normalisation: Scan must clear neg when the digit string is empty, or Cmp must treat equal zero magnitudes as equal
		c13zero(c, R)
	} else {
		c.Unresolved(R, "(json.Number).Cmp")
	}
	c.Extra["exhaustive"] = true
}

// c13zero: -0 and 0 must compare equal. Accepted shapes: (a) Scan stores
// neg=false under a test on the remaining digits' length, or (b) Cmp tests for
// zero before using the signs.
func c13zero(c *core.Ctx, R string) {
	scan := c.P.Method("json", "scanner", "Scan")
	cmp := c.P.Method("json", "Number", "Cmp")
	ok := false
	why := ""
	check := func(f *ssa.Function) bool {
		if f == nil {
			return false
		}
		// a store of constant false to a `neg` field that is control dependent on a Len()/len comparison with 0
		for _, b := range f.Blocks {
			for _, in := range b.Instrs {
				st, isSt := in.(*ssa.Store)
				if !isSt {
					continue
				}
				fa, isFA := st.Addr.(*ssa.FieldAddr)
				if !isFA || fieldNameOf(fa) != "neg" {
					continue
				}
				cst, isC := st.Val.(*ssa.Const)
				if !isC || cst.Value == nil || constant.BoolVal(cst.Value) {
					continue
				}
				for _, gb := range f.Blocks {
					if gb == b || !gb.Dominates(b) || len(gb.Instrs) == 0 {
						continue
					}
					if ifi, isIf := gb.Instrs[len(gb.Instrs)-1].(*ssa.If); isIf {
						if cmpv, isB := ifi.Cond.(*ssa.BinOp); isB {
							if isZeroTest(cmpv) {
								// the zero test must come after every digit-trimming step: a zero
								// written with a fraction (-0.0) has digits left until the trailing
								// zeros are trimmed
								trimsBefore := 0
								for _, tb := range f.Blocks {
									for _, tin := range tb.Instrs {
										if call, isC := tin.(*ssa.Call); isC {
											if sc := call.Call.StaticCallee(); sc != nil && strings.HasPrefix(sc.Name(), "trim") {
												if tb == gb || tb.Dominates(gb) {
													trimsBefore++
												} else {
													trimsBefore = -100
												}
											}
										}
									}
								}
								if trimsBefore >= 0 {
									return true
								}
							}
						}
					}
				}
			}
		}
		return false
	}
	if check(scan) {
		ok, why = true, "Scan clears neg when no digits remain"
	}
	if !ok && scan != nil {
		// the normalisation may live in a helper of the package that Scan calls
		for _, b := range scan.Blocks {
			for _, in := range b.Instrs {
				if call, isC := in.(*ssa.Call); isC {
					if g := call.Call.StaticCallee(); g != nil && core.FuncPkgPath(g) == core.FuncPkgPath(scan) && check(g) {
						ok, why = true, "Scan clears neg when no digits remain (in "+g.Name()+")"
					}
				}
			}
		}
	}
	if !ok && cmp != nil {
		// Cmp returning 0 before the sign test under a zero test
		for _, b := range cmp.Blocks {
			if r, isR := b.Instrs[len(b.Instrs)-1].(*ssa.Return); isR && len(r.Results) == 1 && isZeroConst(r.Results[0]) {
				for _, gb := range cmp.Blocks {
					if gb != b && gb.Dominates(b) && len(gb.Instrs) > 0 {
						if ifi, isIf := gb.Instrs[len(gb.Instrs)-1].(*ssa.If); isIf {
							if cmpv, isB := ifi.Cond.(*ssa.BinOp); isB && isZeroTest(cmpv) {
								ok, why = true, "Cmp returns 0 for two zeros before looking at the signs"
							}
						}
					}
				}
			}
		}
	}
	pos := "-"
	if scan != nil {
		pos = c.P.Pos(scan.Pos())
	}
	if ok {
		c.OKd(R, "json:negative-zero", pos, "negative zero is normalised", why)
	} else {
		c.Bad(R, "json:negative-zero", pos, "negative zero is normalised", "Cmp answers -1/+1 whenever the signs differ, and nothing clears the sign of a zero: `-0`.Cmp(`0`) = -1 although both denote 0 (e.g. `-0.0 // {min: 0}` is rejected)")
	}
}

func fieldNameOf(fa *ssa.FieldAddr) string {
	return absintFieldName(fa)
}

// isZeroTest: a comparison that separates 0 from the positive values of a length:
// x == 0, x != 0, x <= 0, x > 0, x < 1, x >= 1 (and the mirrored spellings).
func isZeroTest(b *ssa.BinOp) bool {
	isConst := func(v ssa.Value, n int64) bool {
		c, ok := v.(*ssa.Const)
		if !ok || c.Value == nil {
			return false
		}
		k, ok := constantInt64(c.Value)
		return ok && k == n
	}
	switch b.Op {
	case token.EQL, token.NEQ:
		return isConst(b.X, 0) || isConst(b.Y, 0)
	case token.LEQ, token.GTR:
		return isConst(b.Y, 0) || isConst(b.X, 1)
	case token.LSS, token.GEQ:
		return isConst(b.Y, 1) || isConst(b.X, 0)
	}
	return false
}
