package rules

import (
	"sync"
	"go/ast"
	"go/token"
	"go/types"
	"strings"

	"golang.org/x/tools/go/packages"

	"jsverif/internal/core"
)

// miniEval evaluates a loop-free statement list over a small integer environment. It is used to
// tabulate a function body (or one loop iteration) over a finite domain that is complete for the
// way the code touches its inputs (orderings of lengths, digit bytes, 256 byte values): every cell
// is evaluated, none is sampled. Constructs it does not know make the cell undecided.
type miniEval struct {
	pk         *packages.Package
	env        map[string]int64
	call       func(call *ast.CallExpr) (int64, bool)
	hook       func(x ast.Expr) (int64, bool)           // consulted first for every expression
	tuple      func(call *ast.CallExpr) ([]int64, bool) // results of a multi-value call
	rng        func(x ast.Expr) ([]int64, bool)         // elements of a non-constant range operand
	maps       map[string]map[int64]bool                // sets / maps held in plain variables, by key
	vmaps      map[string]map[int64]int64               // maps with integer-like values (enums, counters), by the expression that names them
	dyn        func(x ast.Expr) string                  // dynamic type (last name component) of a type-switch operand
	ctx        *core.Ctx                                // when set, calls of small pure module functions of integers are evaluated in place
	tables     map[string][]ast.Expr                    // locals that name a row of a constant table
	methods    bool                                     // evaluate parameterless methods of the same package in place, with the same hooks
	onExprCall func(call *ast.CallExpr) bool            // a call used as a statement; true = handled
	onStore    func(lhs, rhs ast.Expr)                  // told about every assignment to something that is not a plain variable
	helpers    bool                                     // evaluate any function of the same package in place (integer arguments bound, the others opaque), with the same hooks
	depth      int
	lens       map[string]bool // variables that stand for a slice, valued by its LENGTH
	steps      int             // loop iterations executed (bounded)
	unknown    string
	effects    []string // assignments to anything that is not a plain variable, in program order
}

const (
	miniFall = iota
	miniReturn
	miniBreak
	miniContinue
	miniLabelBreak // a labelled break: leaves every enclosing switch and the labelled loop
	miniPanic      // the statement list ended in panic(...)
)

func b2i(b bool) int64 {
	if b {
		return 1
	}
	return 0
}

func (e *miniEval) fail(why string) int64 {
	if e.unknown == "" {
		e.unknown = why
	}
	return 0
}

func (e *miniEval) expr(x ast.Expr) int64 {
	x = ast.Unparen(x)
	if e.hook != nil {
		if v, ok := e.hook(x); ok {
			return v
		}
	}
	if cv := core.ConstOf(e.pk, x); cv != nil {
		if n, ok := constantInt64(cv); ok {
			return n
		}
		if cv.Kind().String() == "Bool" {
			return b2i(cv.ExactString() == "true")
		}
		if cv.Kind().String() == "String" {
			return internString(cv.ExactString())
		}
		return e.fail("constant " + cv.ExactString())
	}
	switch y := x.(type) {
	case *ast.Ident:
		if v, ok := e.env[y.Name]; ok {
			return v
		}
		return e.fail("variable " + y.Name)
	case *ast.IndexExpr:
		if vm, ok := e.vmaps[core.ExprStr(y.X)]; ok {
			return vm[e.expr(y.Index)]
		}
		if m, ok := e.maps[core.ExprStr(y.X)]; ok {
			return b2i(m[e.expr(y.Index)])
		}
		// an element of a length-modelled slice is represented by its index
		if e.lens[core.ExprStr(y.X)] {
			return e.expr(y.Index)
		}
		if row, ok := e.tables[core.ExprStr(y.X)]; ok {
			i := e.expr(y.Index)
			if i >= 0 && i < int64(len(row)) {
				return e.expr(row[i])
			}
			return e.fail("index out of the table row " + core.ExprStr(y))
		}
		// a lookup in a constant map (literal or package-level variable) with scalar values
		if entries, ok := e.mapLit(y.X); ok {
			want := e.expr(y.Index)
			for _, kv := range entries {
				if e.expr(kv.Key) == want {
					if _, isCL := ast.Unparen(kv.Value).(*ast.CompositeLit); isCL {
						return e.fail("index " + core.ExprStr(y))
					}
					return e.expr(kv.Value)
				}
			}
			return 0
		}
		// an element of a constant array / slice held in a package-level variable
		if id, isID := ast.Unparen(y.X).(*ast.Ident); isID {
			if init := core.PkgVarInit(e.pk, id.Name); init != nil {
				if cl, isCL := ast.Unparen(init).(*ast.CompositeLit); isCL {
					if t := core.TypeOf(e.pk, cl); t != nil {
						switch t.Underlying().(type) {
						case *types.Array, *types.Slice:
							want := e.expr(y.Index)
							next := int64(0)
							for _, el := range cl.Elts {
								val := el
								if kv, isKV := el.(*ast.KeyValueExpr); isKV {
									next = e.expr(kv.Key)
									val = kv.Value
								}
								if next == want {
									return e.expr(val)
								}
								next++
							}
							return 0 // an element that is not listed has the zero value
						}
					}
				}
			}
		}
		return e.fail("index " + core.ExprStr(y))
	case *ast.SelectorExpr:
		if v, ok := e.env[core.ExprStr(y)]; ok {
			return v
		}
		return e.fail("selector " + core.ExprStr(y))
	case *ast.UnaryExpr:
		v := e.expr(y.X)
		switch y.Op {
		case token.NOT:
			return b2i(v == 0)
		case token.SUB:
			return -v
		case token.ADD:
			return v
		}
		return e.fail("operator " + y.Op.String())
	case *ast.BinaryExpr:
		switch y.Op {
		case token.LAND:
			if e.expr(y.X) == 0 {
				return 0
			}
			return b2i(e.expr(y.Y) != 0)
		case token.LOR:
			if e.expr(y.X) != 0 {
				return 1
			}
			return b2i(e.expr(y.Y) != 0)
		}
		a, b := e.expr(y.X), e.expr(y.Y)
		switch y.Op {
		case token.ADD:
			return a + b
		case token.SUB:
			return a - b
		case token.MUL:
			return a * b
		case token.LSS:
			return b2i(a < b)
		case token.GTR:
			return b2i(a > b)
		case token.LEQ:
			return b2i(a <= b)
		case token.GEQ:
			return b2i(a >= b)
		case token.EQL:
			return b2i(a == b)
		case token.NEQ:
			return b2i(a != b)
		}
		return e.fail("operator " + y.Op.String())
	case *ast.CallExpr:
		if core.ExprStr(y.Fun) == "len" && len(y.Args) == 1 {
			if m, ok := e.maps[core.ExprStr(y.Args[0])]; ok {
				return int64(len(m))
			}
			if vm, ok := e.vmaps[core.ExprStr(y.Args[0])]; ok {
				return int64(len(vm))
			}
			if e.lens[core.ExprStr(y.Args[0])] {
				return e.env[core.ExprStr(y.Args[0])]
			}
			if row, ok := e.tables[core.ExprStr(y.Args[0])]; ok {
				return int64(len(row))
			}
			if row, ok := e.tableRow(y.Args[0]); ok {
				return int64(len(row))
			}
		}
		if core.ExprStr(y.Fun) == "append" && len(y.Args) >= 1 && e.lens[core.ExprStr(y.Args[0])] && !y.Ellipsis.IsValid() {
			return e.env[core.ExprStr(y.Args[0])] + int64(len(y.Args)-1)
		}
		if core.ExprStr(y.Fun) == "append" && len(y.Args) == 2 && e.lens[core.ExprStr(y.Args[0])] && y.Ellipsis.IsValid() {
			// append(x, ys...): the appended list is evaluated for its effects; its length is the value
			return e.env[core.ExprStr(y.Args[0])] + e.expr(y.Args[1])
		}
		if core.ExprStr(y.Fun) == "make" && len(y.Args) >= 2 {
			if t := core.TypeOf(e.pk, y.Args[0]); t != nil {
				if _, isSlice := t.Underlying().(*types.Slice); isSlice {
					return e.expr(y.Args[1])
				}
			}
		}
		// a conversion between integer types
		if tv, ok := e.pk.TypesInfo.Types[y.Fun]; ok && tv.IsType() && len(y.Args) == 1 {
			if b, isB := tv.Type.Underlying().(*types.Basic); isB && b.Info()&(types.IsInteger|types.IsString) != 0 {
				return e.expr(y.Args[0])
			}
		}
		if e.call != nil {
			if v, ok := e.call(y); ok {
				return v
			}
		}
		if v, ok := e.inlinePure(y); ok {
			return v
		}
		if v, ok := e.inlineMethod(y); ok {
			return v
		}
		if v, ok := e.inlineHelper(y); ok {
			return v
		}
		return e.fail("call " + core.ExprStr(y))
	}
	return e.fail("expression " + core.ExprStr(x))
}

func (e *miniEval) assign(lhs ast.Expr, tok token.Token, rhs ast.Expr) {
	if ix, isIx := ast.Unparen(lhs).(*ast.IndexExpr); isIx {
		if vm, ok := e.vmaps[core.ExprStr(ix.X)]; ok {
			k, v := e.expr(ix.Index), e.expr(rhs)
			switch tok {
			case token.ASSIGN:
				vm[k] = v
			case token.ADD_ASSIGN:
				vm[k] += v
			case token.SUB_ASSIGN:
				vm[k] -= v
			default:
				e.fail("map assignment " + tok.String())
			}
			return
		}
	}
	if ix, isIx := ast.Unparen(lhs).(*ast.IndexExpr); isIx && tok == token.ASSIGN {
		if m, ok := e.maps[core.ExprStr(ix.X)]; ok {
			if t := core.TypeOf(e.pk, rhs); t != nil {
				if b, isB := t.Underlying().(*types.Basic); isB && b.Kind() == types.Bool || t.String() == "untyped bool" {
					m[e.expr(ix.Index)] = e.expr(rhs) != 0
					return
				}
			}
			m[e.expr(ix.Index)] = true
			return
		}
	}
	id, isID := ast.Unparen(lhs).(*ast.Ident)
	if !isID {
		e.effects = append(e.effects, core.ExprStr(lhs)+" "+tok.String()+" "+core.ExprStr(rhs))
		if e.onStore != nil {
			e.onStore(lhs, rhs)
		}
		return
	}
	if id.Name == "_" {
		return
	}
	// a row of a constant table
	if row, ok := e.tableRow(rhs); ok {
		if e.tables == nil {
			e.tables = map[string][]ast.Expr{}
		}
		e.tables[id.Name] = row
		return
	}
	// a slice is represented by its length
	if t := core.TypeOf(e.pk, rhs); t != nil {
		if _, isSlice := t.Underlying().(*types.Slice); isSlice && (tok == token.DEFINE || tok == token.ASSIGN) {
			if e.lens == nil {
				e.lens = map[string]bool{}
			}
			e.lens[id.Name] = true
		}
	}
	// a fresh map
	if call, isC := ast.Unparen(rhs).(*ast.CallExpr); isC && core.ExprStr(call.Fun) == "make" && len(call.Args) >= 1 {
		if t := core.TypeOf(e.pk, call.Args[0]); t != nil {
			if _, isMap := t.Underlying().(*types.Map); isMap {
				if e.maps == nil {
					e.maps = map[string]map[int64]bool{}
				}
				e.maps[id.Name] = map[int64]bool{}
				return
			}
		}
	}
	v := e.expr(rhs)
	switch tok {
	case token.ASSIGN, token.DEFINE:
		e.env[id.Name] = v
	case token.ADD_ASSIGN:
		e.env[id.Name] += v
	case token.SUB_ASSIGN:
		e.env[id.Name] -= v
	default:
		e.fail("assignment " + tok.String())
	}
}

// run executes the statements; rets are the values of a return statement (nil for a bare return).
func (e *miniEval) run(stmts []ast.Stmt) (status int, rets []int64) {
	for _, st := range stmts {
		if e.unknown != "" {
			return miniFall, nil
		}
		switch s := st.(type) {
		case *ast.EmptyStmt:
		case *ast.DeclStmt:
			gd, ok := s.Decl.(*ast.GenDecl)
			if !ok || gd.Tok != token.VAR {
				e.fail("declaration")
				break
			}
			for _, sp := range gd.Specs {
				vs := sp.(*ast.ValueSpec)
				for i, n := range vs.Names {
					if i < len(vs.Values) {
						e.env[n.Name] = e.expr(vs.Values[i])
					} else {
						e.env[n.Name] = 0
					}
					if vs.Type != nil {
						if t := core.TypeOf(e.pk, vs.Type); t != nil {
							if _, isSlice := t.Underlying().(*types.Slice); isSlice {
								if e.lens == nil {
									e.lens = map[string]bool{}
								}
								e.lens[n.Name] = true
							}
						}
					}
				}
			}
		case *ast.AssignStmt:
			if len(s.Lhs) == 2 && len(s.Rhs) == 1 {
				if ix, isIx := ast.Unparen(s.Rhs[0]).(*ast.IndexExpr); isIx {
					if entries, ok := e.mapLit(ix.X); ok {
						want := e.expr(ix.Index)
						found := false
						var hit ast.Expr
						for _, kv := range entries {
							if e.expr(kv.Key) == want {
								found = true
								hit = kv.Value
							}
						}
						if id, isID := s.Lhs[1].(*ast.Ident); isID && id.Name != "_" {
							e.env[id.Name] = b2i(found)
						}
						// the value: a scalar, or a struct whose fields become `v.field` (absent = zero)
						if id, isID := s.Lhs[0].(*ast.Ident); isID && id.Name != "_" {
							e.bindMapValue(id.Name, ix.X, hit)
						}
						break
					}
					if vm, ok := e.vmaps[core.ExprStr(ix.X)]; ok {
						k := e.expr(ix.Index)
						v, present := vm[k]
						if id, isID := s.Lhs[0].(*ast.Ident); isID && id.Name != "_" {
							e.env[id.Name] = v
						}
						if id, isID := s.Lhs[1].(*ast.Ident); isID && id.Name != "_" {
							e.env[id.Name] = b2i(present)
						}
						break
					}
					if m, ok := e.maps[core.ExprStr(ix.X)]; ok {
						k := e.expr(ix.Index)
						_, present := m[k]
						if id, isID := s.Lhs[0].(*ast.Ident); isID && id.Name != "_" {
							e.env[id.Name] = b2i(m[k])
						}
						if id, isID := s.Lhs[1].(*ast.Ident); isID && id.Name != "_" {
							e.env[id.Name] = b2i(present)
						}
						break
					}
				}
				if call, isC := ast.Unparen(s.Rhs[0]).(*ast.CallExpr); isC && e.tuple != nil {
					if vals, ok := e.tuple(call); ok && len(vals) == 2 {
						for i, l := range s.Lhs {
							if id, isID := l.(*ast.Ident); isID && id.Name != "_" {
								e.env[id.Name] = vals[i]
							}
						}
						break
					}
				}
				// a helper of the package with two results, evaluated in place
				if call, isC := ast.Unparen(s.Rhs[0]).(*ast.CallExpr); isC && (e.helpers || e.methods) {
					if vals, ok := e.runHelper(call, 2); ok {
						for i, l := range s.Lhs {
							if id, isID := l.(*ast.Ident); isID && id.Name != "_" {
								e.env[id.Name] = vals[i]
							}
						}
						break
					}
				}
			}
			if len(s.Lhs) != len(s.Rhs) {
				e.fail("tuple assignment")
				break
			}
			if len(s.Lhs) == 1 {
				e.assign(s.Lhs[0], s.Tok, s.Rhs[0])
				break
			}
			vals := make([]int64, len(s.Rhs))
			for i, r := range s.Rhs {
				vals[i] = e.expr(r)
			}
			for i, l := range s.Lhs {
				if id, ok := l.(*ast.Ident); ok {
					e.env[id.Name] = vals[i]
				} else if _, isSel := ast.Unparen(l).(*ast.SelectorExpr); isSel {
					// a field: recorded as an effect, like the single assignment
					e.assign(l, s.Tok, s.Rhs[i])
					if _, tracked := e.env[core.ExprStr(l)]; tracked {
						e.env[core.ExprStr(l)] = vals[i]
					}
				} else {
					e.fail("tuple assignment to " + core.ExprStr(l))
				}
			}
		case *ast.IncDecStmt:
			id, ok := s.X.(*ast.Ident)
			if !ok {
				// x++ and x += 1 are the same effect
				op := " += 1"
				if s.Tok == token.DEC {
					op = " -= 1"
				}
				e.effects = append(e.effects, core.ExprStr(s.X)+op)
				break
			}
			if s.Tok == token.INC {
				e.env[id.Name]++
			} else {
				e.env[id.Name]--
			}
		case *ast.ExprStmt:
			if call, isC := s.X.(*ast.CallExpr); isC && core.ExprStr(call.Fun) == "panic" {
				e.effects = append(e.effects, core.ExprStr(s.X))
				return miniPanic, nil
			}
			if call, isC := s.X.(*ast.CallExpr); isC && e.onExprCall != nil && e.onExprCall(call) {
				break
			}
			if call, isC := s.X.(*ast.CallExpr); isC && core.ExprStr(call.Fun) == "delete" && len(call.Args) == 2 {
				if m, ok := e.maps[core.ExprStr(call.Args[0])]; ok {
					delete(m, e.expr(call.Args[1]))
					break
				}
				if vm, ok := e.vmaps[core.ExprStr(call.Args[0])]; ok {
					delete(vm, e.expr(call.Args[1]))
					break
				}
			}
			e.effects = append(e.effects, core.ExprStr(s.X))
		case *ast.BlockStmt:
			if st, r := e.run(s.List); st != miniFall {
				return st, r
			}
		case *ast.IfStmt:
			if s.Init != nil {
				if st, r := e.run([]ast.Stmt{s.Init}); st != miniFall {
					return st, r
				}
			}
			c := e.expr(s.Cond)
			if e.unknown != "" {
				return miniFall, nil
			}
			if c != 0 {
				if st, r := e.run(s.Body.List); st != miniFall {
					return st, r
				}
			} else if s.Else != nil {
				if st, r := e.run([]ast.Stmt{s.Else}); st != miniFall {
					return st, r
				}
			}
		case *ast.SwitchStmt:
			if s.Init != nil {
				if st, r := e.run([]ast.Stmt{s.Init}); st != miniFall {
					return st, r
				}
			}
			var tag int64
			if s.Tag != nil {
				tag = e.expr(s.Tag)
			}
			var chosen, def *ast.CaseClause
			for _, cc := range s.Body.List {
				cl := cc.(*ast.CaseClause)
				if cl.List == nil {
					def = cl
					continue
				}
				for _, x := range cl.List {
					v := e.expr(x)
					if e.unknown != "" {
						return miniFall, nil
					}
					if (s.Tag == nil && v != 0) || (s.Tag != nil && v == tag) {
						chosen = cl
						break
					}
				}
				if chosen != nil {
					break
				}
			}
			if chosen == nil {
				chosen = def
			}
			if chosen != nil {
				for _, b := range chosen.Body {
					if br, ok := b.(*ast.BranchStmt); ok && br.Tok == token.FALLTHROUGH {
						e.fail("fallthrough")
					}
				}
				st, r := e.run(chosen.Body)
				switch st {
				case miniBreak: // leaves the switch
				case miniFall:
				default:
					return st, r
				}
			}
		case *ast.TypeSwitchStmt:
			if e.dyn == nil {
				e.fail("type switch")
				break
			}
			var operand ast.Expr
			switch a := s.Assign.(type) {
			case *ast.AssignStmt:
				if ta, ok := a.Rhs[0].(*ast.TypeAssertExpr); ok {
					operand = ta.X
				}
			case *ast.ExprStmt:
				if ta, ok := a.X.(*ast.TypeAssertExpr); ok {
					operand = ta.X
				}
			}
			name := e.dyn(operand)
			var chosen, def *ast.CaseClause
			for _, cc := range s.Body.List {
				cl := cc.(*ast.CaseClause)
				if cl.List == nil {
					def = cl
					continue
				}
				for _, tx := range cl.List {
					ts := core.ExprStr(tx)
					if ts == name || strings.HasSuffix(ts, "."+name) {
						chosen = cl
					}
				}
			}
			if chosen == nil {
				chosen = def
			}
			if chosen != nil {
				st, r := e.run(chosen.Body)
				switch st {
				case miniBreak, miniFall:
				default:
					return st, r
				}
			}
		case *ast.ReturnStmt:
			var out []int64
			for _, r := range s.Results {
				out = append(out, e.expr(r))
			}
			return miniReturn, out
		case *ast.ForStmt:
			if s.Init != nil {
				if st, r := e.run([]ast.Stmt{s.Init}); st != miniFall {
					return st, r
				}
			}
			for {
				if e.steps++; e.steps > 100000 {
					e.fail("loop does not end within 100000 steps")
					return miniFall, nil
				}
				if s.Cond != nil && e.expr(s.Cond) == 0 {
					break
				}
				if e.unknown != "" {
					return miniFall, nil
				}
				st, r := e.run(s.Body.List)
				if st == miniReturn || st == miniPanic {
					return st, r
				}
				if st == miniBreak || st == miniLabelBreak {
					break
				}
				if s.Post != nil {
					e.run([]ast.Stmt{s.Post})
				}
			}
		case *ast.RangeStmt:
			if vals, ok := e.rangeElems(s.X); ok {
				{
					stop := false
					for i, v := range vals {
						if id, ok := s.Key.(*ast.Ident); ok && id.Name != "_" {
							e.env[id.Name] = int64(i)
						}
						if id, ok := s.Value.(*ast.Ident); ok && id.Name != "_" {
							e.env[id.Name] = v
						}
						st, r := e.run(s.Body.List)
						if st == miniReturn || st == miniPanic {
							return st, r
						}
						if st == miniBreak || st == miniLabelBreak {
							stop = true
						}
						if stop || e.unknown != "" {
							break
						}
					}
					break
				}
			}
			elems, ok := e.constElems(s.X)
			if !ok {
				e.fail("range over " + core.ExprStr(s.X))
				break
			}
			stop := false
			for i, el := range elems {
				if e.steps++; e.steps > 100000 {
					e.fail("loop does not end within 100000 steps")
					return miniFall, nil
				}
				if id, ok := s.Key.(*ast.Ident); ok && id.Name != "_" {
					e.env[id.Name] = int64(i)
				}
				if id, ok := s.Value.(*ast.Ident); ok && id.Name != "_" {
					e.bindElem(id.Name, el)
				}
				st, r := e.run(s.Body.List)
				if st == miniReturn || st == miniPanic {
					return st, r
				}
				if st == miniBreak || st == miniLabelBreak {
					stop = true
				}
				if stop || e.unknown != "" {
					break
				}
			}
		case *ast.BranchStmt:
			switch s.Tok {
			case token.BREAK:
				if s.Label != nil {
					return miniLabelBreak, nil
				}
				return miniBreak, nil
			case token.CONTINUE:
				if s.Label != nil {
					e.fail("labelled continue")
				}
				return miniContinue, nil
			}
			e.fail("branch " + s.Tok.String())
		default:
			e.fail("statement " + core.ExprStr0(st))
		}
	}
	return miniFall, nil
}

// constElems resolves the operand of a range statement to the elements of a constant table: a
// composite literal, or a package-level variable initialised with one.
func (e *miniEval) constElems(x ast.Expr) ([]ast.Expr, bool) {
	x = ast.Unparen(x)
	if id, ok := x.(*ast.Ident); ok {
		if init := core.PkgVarInit(e.pk, id.Name); init != nil {
			x = ast.Unparen(init)
		}
	}
	cl, ok := x.(*ast.CompositeLit)
	if !ok {
		return nil, false
	}
	for _, el := range cl.Elts {
		if _, isKV := el.(*ast.KeyValueExpr); isKV {
			return nil, false
		}
	}
	return cl.Elts, true
}

// bindElem binds a loop variable to a table element: a number, or a struct literal whose fields
// become `name.field` entries.
func (e *miniEval) bindElem(name string, el ast.Expr) {
	cl, ok := ast.Unparen(el).(*ast.CompositeLit)
	if !ok {
		e.env[name] = e.expr(el)
		return
	}
	var st *types.Struct
	if t := core.TypeOf(e.pk, cl); t != nil {
		st, _ = t.Underlying().(*types.Struct)
	}
	for i, f := range cl.Elts {
		if kv, isKV := f.(*ast.KeyValueExpr); isKV {
			e.env[name+"."+core.ExprStr(kv.Key)] = e.expr(kv.Value)
		} else if st != nil && i < st.NumFields() {
			e.env[name+"."+st.Field(i).Name()] = e.expr(f)
		} else {
			e.fail("struct element " + core.ExprStr(el))
		}
	}
}

// rangeElems: the elements a range statement visits when its operand is supplied by the rule's
// range hook or is a length-modelled slice (elements are represented by their indexes).
func (e *miniEval) rangeElems(x ast.Expr) ([]int64, bool) {
	if e.rng != nil {
		if vals, ok := e.rng(x); ok {
			return vals, true
		}
	}
	if row, ok := e.tables[core.ExprStr(x)]; ok {
		out := make([]int64, 0, len(row))
		for _, el := range row {
			out = append(out, e.expr(el))
		}
		return out, true
	}
	if row, ok := e.tableRow(x); ok {
		out := make([]int64, 0, len(row))
		for _, el := range row {
			out = append(out, e.expr(el))
		}
		return out, true
	}
	if e.lens[core.ExprStr(x)] {
		n := e.env[core.ExprStr(x)]
		out := make([]int64, 0, n)
		for i := int64(0); i < n; i++ {
			out = append(out, i)
		}
		return out, true
	}
	return nil, false
}

var (
	internMu    sync.Mutex
	internTable = map[string]int64{}
	internBack  = map[int64]string{}
)

// internString gives every distinct string constant a number of its own (strings are only compared).
func internString(s string) int64 {
	internMu.Lock()
	defer internMu.Unlock()
	if v, ok := internTable[s]; ok {
		return v
	}
	v := int64(1_000_000 + len(internTable))
	internTable[s] = v
	internBack[v] = s
	return v
}

// uninternString: the (quoted) string constant a number stands for.
func uninternString(v int64) (string, bool) {
	internMu.Lock()
	defer internMu.Unlock()
	s, ok := internBack[v]
	return s, ok
}

// inlinePure evaluates a call of a module function (no receiver use, integer parameters, one
// result) by running its body with the argument values: byte predicates like bytes.IsBlank.
func (e *miniEval) inlinePure(call *ast.CallExpr) (int64, bool) {
	if e.ctx == nil || e.depth > 4 {
		return 0, false
	}
	f, ok := core.Callee(e.pk, call).(*types.Func)
	if !ok || f.Pkg() == nil || !core.InScope(f.Pkg().Path()) {
		return 0, false
	}
	sig := f.Type().(*types.Signature)
	if sig.Results().Len() != 1 || sig.Params().Len() != len(call.Args) || sig.Params().Len() > 3 {
		return 0, false
	}
	for i := 0; i < sig.Params().Len(); i++ {
		b, isB := sig.Params().At(i).Type().Underlying().(*types.Basic)
		if !isB || b.Info()&(types.IsInteger|types.IsBoolean) == 0 {
			return 0, false
		}
	}
	d := e.ctx.P.FindDecl(core.Rel(f.FullName()))
	if d == nil || d.Decl.Body == nil {
		return 0, false
	}
	sub := &miniEval{pk: d.Pkg, env: map[string]int64{}, ctx: e.ctx, depth: e.depth + 1}
	k := 0
	for _, fl := range d.Decl.Type.Params.List {
		for _, nm := range fl.Names {
			sub.env[nm.Name] = e.expr(call.Args[k])
			k++
		}
	}
	if e.unknown != "" {
		return 0, false
	}
	st, rets := sub.run(d.Decl.Body.List)
	if sub.unknown != "" || st != miniReturn || len(rets) != 1 {
		return 0, false
	}
	return rets[0], true
}

// mapLit resolves an expression to the entries of a constant map: a map composite literal, or a
// package-level variable initialised with one.
func (e *miniEval) mapLit(x ast.Expr) ([]*ast.KeyValueExpr, bool) {
	x = ast.Unparen(x)
	if id, ok := x.(*ast.Ident); ok {
		if init := core.PkgVarInit(e.pk, id.Name); init != nil {
			x = ast.Unparen(init)
		}
	}
	cl, ok := x.(*ast.CompositeLit)
	if !ok {
		return nil, false
	}
	if t := core.TypeOf(e.pk, cl); t == nil {
		return nil, false
	} else if _, isMap := t.Underlying().(*types.Map); !isMap {
		return nil, false
	}
	var out []*ast.KeyValueExpr
	for _, el := range cl.Elts {
		kv, ok := el.(*ast.KeyValueExpr)
		if !ok {
			return nil, false
		}
		out = append(out, kv)
	}
	return out, true
}

// tableRow resolves `table[key]` on a constant map of slices to the elements of the selected row
// (an absent key selects the empty row).
func (e *miniEval) tableRow(x ast.Expr) ([]ast.Expr, bool) {
	ix, ok := ast.Unparen(x).(*ast.IndexExpr)
	if !ok {
		return nil, false
	}
	entries, ok := e.mapLit(ix.X)
	if !ok {
		return nil, false
	}
	want := e.expr(ix.Index)
	for _, kv := range entries {
		if e.expr(kv.Key) == want {
			val := ast.Unparen(kv.Value)
			// a row shared through a package-level variable
			if id, isID := val.(*ast.Ident); isID {
				if init := core.PkgVarInit(e.pk, id.Name); init != nil {
					val = ast.Unparen(init)
				}
			}
			if cl, ok := val.(*ast.CompositeLit); ok {
				return cl.Elts, true
			}
			return nil, false
		}
	}
	return []ast.Expr{}, true
}

// inlineMethod evaluates `recv.helper()` - a parameterless method of the same package - by running
// its body with the hooks of the caller (the helper reads the same object).
func (e *miniEval) inlineMethod(call *ast.CallExpr) (int64, bool) {
	if !e.methods || e.ctx == nil || e.depth > 3 || len(call.Args) != 0 {
		return 0, false
	}
	f, ok := core.Callee(e.pk, call).(*types.Func)
	if !ok || f.Pkg() == nil || f.Pkg().Path() != e.pk.PkgPath {
		return 0, false
	}
	sig := f.Type().(*types.Signature)
	if sig.Recv() == nil || sig.Results().Len() != 1 {
		return 0, false
	}
	d := e.ctx.P.FindDecl(core.Rel(f.FullName()))
	if d == nil || d.Decl.Body == nil {
		return 0, false
	}
	sub := &miniEval{pk: d.Pkg, env: map[string]int64{}, ctx: e.ctx, depth: e.depth + 1, methods: true, call: e.call, hook: e.hook, tuple: e.tuple, rng: e.rng, dyn: e.dyn}
	st, rets := sub.run(d.Decl.Body.List)
	if sub.unknown != "" {
		e.fail(sub.unknown)
		return 0, false
	}
	if st != miniReturn || len(rets) != 1 {
		return 0, false
	}
	return rets[0], true
}

// inlineHelper evaluates a call of a function or method of the same package by running its body
// with the hooks of the caller: integer / boolean arguments (and arguments that are variables with a
// value here) are bound to the parameters, every other argument stays opaque and is seen by the
// hooks only. This is what makes a rule indifferent to a function being split into helpers.
func (e *miniEval) inlineHelper(call *ast.CallExpr) (int64, bool) {
	if !e.helpers {
		return 0, false
	}
	vals, ok := e.runHelper(call, 1)
	if !ok {
		return 0, false
	}
	if len(vals) == 0 {
		return 0, true
	}
	return vals[0], true
}

// runHelper: see inlineHelper; nres is the number of results wanted (1 also admits none).
func (e *miniEval) runHelper(call *ast.CallExpr, nres int) ([]int64, bool) {
	if e.ctx == nil || e.depth > 3 {
		return nil, false
	}
	f, ok := core.Callee(e.pk, call).(*types.Func)
	if !ok || f.Pkg() == nil || f.Pkg().Path() != e.pk.PkgPath {
		return nil, false
	}
	sig := f.Type().(*types.Signature)
	if sig.Variadic() || sig.Params().Len() != len(call.Args) {
		return nil, false
	}
	if !(sig.Results().Len() == nres || (nres == 1 && sig.Results().Len() == 0)) {
		return nil, false
	}
	if !e.helpers && len(call.Args) != 0 {
		return nil, false // `methods` only: parameterless methods
	}
	d := e.ctx.P.FindDecl(core.Rel(f.FullName()))
	if d == nil || d.Decl.Body == nil {
		return nil, false
	}
	// the helper runs on the caller's variable map (the hooks of a rule evaluate argument expressions
	// through the evaluator they were created with); the caller's variables are restored afterwards
	saved := make(map[string]int64, len(e.env))
	for k, v := range e.env {
		saved[k] = v
	}
	defer func() {
		for k := range e.env {
			delete(e.env, k)
		}
		for k, v := range saved {
			e.env[k] = v
		}
	}()
	sub := &miniEval{pk: d.Pkg, env: e.env, ctx: e.ctx, depth: e.depth + 1, methods: e.methods, helpers: e.helpers,
		call: e.call, hook: e.hook, tuple: e.tuple, rng: e.rng, dyn: e.dyn, maps: e.maps, vmaps: e.vmaps, lens: e.lens, tables: e.tables}
	type binding struct {
		name string
		val  int64
	}
	var binds []binding
	k := 0
	for _, fl := range d.Decl.Type.Params.List {
		for _, nm := range fl.Names {
			arg := ast.Unparen(call.Args[k])
			k++
			if nm.Name == "_" {
				continue
			}
			bind := false
			if t := core.TypeOf(e.pk, arg); t != nil {
				if b, isB := t.Underlying().(*types.Basic); isB && b.Info()&(types.IsInteger|types.IsBoolean) != 0 {
					bind = true
				}
			}
			if id, isID := arg.(*ast.Ident); isID {
				if _, has := e.env[id.Name]; has {
					bind = true
				}
			}
			if bind {
				binds = append(binds, binding{nm.Name, e.expr(arg)})
			}
		}
	}
	if e.unknown != "" {
		return nil, false
	}
	for _, b := range binds {
		sub.env[b.name] = b.val
	}
	if d.Decl.Type.Results != nil {
		for _, fl := range d.Decl.Type.Results.List {
			for _, nm := range fl.Names {
				sub.env[nm.Name] = 0
			}
		}
	}
	st, rets := sub.run(d.Decl.Body.List)
	e.effects = append(e.effects, sub.effects...)
	e.steps += sub.steps
	if sub.unknown != "" {
		e.fail(sub.unknown)
		return nil, false
	}
	switch {
	case st == miniPanic:
		e.fail("helper " + f.Name() + " panics")
		return nil, false
	case sig.Results().Len() == 0:
		return nil, true
	case st == miniReturn && len(rets) == sig.Results().Len():
		return rets, true
	}
	return nil, false
}

// bindMapValue binds the result of a lookup in a constant map to a variable: scalars by value, struct
// values field by field under `name.field` (the zero value when the key is absent or a field is omitted).
func (e *miniEval) bindMapValue(name string, mapExpr ast.Expr, hit ast.Expr) {
	var elem types.Type
	if t := core.TypeOf(e.pk, mapExpr); t != nil {
		if mt, ok := t.Underlying().(*types.Map); ok {
			elem = mt.Elem()
		}
	}
	if elem == nil {
		return
	}
	if st, isStruct := elem.Underlying().(*types.Struct); isStruct {
		for i := 0; i < st.NumFields(); i++ {
			e.env[name+"."+st.Field(i).Name()] = 0
		}
		if cl, ok := ast.Unparen(hit).(*ast.CompositeLit); hit != nil && ok {
			for i, el := range cl.Elts {
				if kv, isKV := el.(*ast.KeyValueExpr); isKV {
					e.env[name+"."+core.ExprStr(kv.Key)] = e.expr(kv.Value)
				} else if i < st.NumFields() {
					e.env[name+"."+st.Field(i).Name()] = e.expr(el)
				}
			}
		}
		return
	}
	if b, isB := elem.Underlying().(*types.Basic); isB && b.Info()&(types.IsInteger|types.IsBoolean|types.IsString) != 0 {
		if hit == nil {
			e.env[name] = 0
		} else {
			e.env[name] = e.expr(hit)
		}
	}
}
