package rules

import (
	"go/token"
	"go/types"
	"sort"
	"strings"

	"golang.org/x/tools/go/ssa"

	"jsverif/internal/core"
)

// recursive SCCs of the in-scope call graph, each classified.

type scc struct {
	fns  []*ssa.Function
	name string
}

func recursiveSCCs(c *core.Ctx) []scc {
	fns := c.P.ScopeFuncs()
	index := map[*ssa.Function]int{}
	low := map[*ssa.Function]int{}
	on := map[*ssa.Function]bool{}
	inScope := map[*ssa.Function]bool{}
	for _, f := range fns {
		inScope[f] = true
	}
	var stack []*ssa.Function
	var out []scc
	idx := 0
	var strong func(v *ssa.Function)
	strong = func(v *ssa.Function) {
		idx++
		index[v], low[v] = idx, idx
		stack = append(stack, v)
		on[v] = true
		for _, w := range c.P.SuccsDirect(v) {
			if !inScope[w] {
				continue
			}
			if index[w] == 0 {
				strong(w)
				if low[w] < low[v] {
					low[v] = low[w]
				}
			} else if on[w] && index[w] < low[v] {
				low[v] = index[w]
			}
		}
		if low[v] == index[v] {
			var comp []*ssa.Function
			for {
				w := stack[len(stack)-1]
				stack = stack[:len(stack)-1]
				on[w] = false
				comp = append(comp, w)
				if w == v {
					break
				}
			}
			rec := len(comp) > 1
			if !rec {
				for _, w := range c.P.SuccsDirect(v) {
					if w == v {
						rec = true
					}
				}
			}
			if rec {
				sort.Slice(comp, func(i, j int) bool { return comp[i].String() < comp[j].String() })
				out = append(out, scc{fns: comp, name: core.FuncName(comp[0])})
			}
		}
	}
	for _, f := range fns {
		if index[f] == 0 {
			strong(f)
		}
	}
	sort.Slice(out, func(i, j int) bool { return out[i].name < out[j].name })
	return out
}

// isTypeTable reports whether t is a map from type names to user types.
func isTypeTable(t types.Type) bool {
	m, ok := t.Underlying().(*types.Map)
	if !ok {
		return false
	}
	if b, ok := m.Key().Underlying().(*types.Basic); !ok || b.Kind() != types.String {
		return false
	}
	s := m.Elem().String()
	return strings.HasSuffix(s, "ischema.Type") || strings.HasSuffix(s, "jsight-schema-core.Schema") || strings.HasSuffix(s, "ischema.ISchema")
}

var typeLookupFuncs = map[string]bool{
	"(notations/jschema/ischema.ISchema).Type": true, "(notations/jschema/ischema.ISchema).MustType": true, "notations/jschema/checker.getType": true,
}

func hasTypeTableLookup(f *ssa.Function) bool {
	for _, b := range f.Blocks {
		for _, in := range b.Instrs {
			switch x := in.(type) {
			case *ssa.Lookup:
				if isTypeTable(x.X.Type()) {
					return true
				}
			case ssa.CallInstruction:
				if cf := x.Common().StaticCallee(); cf != nil && typeLookupFuncs[core.FuncName(cf)] {
					return true
				}
			}
		}
	}
	return false
}

// mapIdentity: where a map value comes from (field of a struct type, parameter, free var).
func mapIdentity(v ssa.Value) string {
	for i := 0; i < 8; i++ {
		switch x := v.(type) {
		case *ssa.UnOp:
			v = x.X
		case *ssa.FieldAddr:
			return "field:" + x.X.Type().String() + "#" + core.F("%d", x.Field)
		case *ssa.Field:
			return "field:" + x.X.Type().String() + "#" + core.F("%d", x.Field)
		case *ssa.Parameter:
			return "param:" + x.Name() + ":" + x.Type().String()
		case *ssa.FreeVar:
			return "free:" + x.Name() + ":" + x.Type().String()
		case *ssa.Alloc:
			return "alloc:" + x.Comment
		default:
			return ""
		}
	}
	return ""
}

// visitedGuard: a function of the SCC tests membership/counter in a map and
// updates the same map, and the test dominates an intra-SCC call.
func visitedGuard(comp map[*ssa.Function]bool, p *core.Program) (string, bool) {
	var fs []*ssa.Function
	for f := range comp {
		fs = append(fs, f)
	}
	sort.Slice(fs, func(i, j int) bool { return fs[i].String() < fs[j].String() })
	for _, f := range fs {
		lookups := map[string]*ssa.Lookup{}
		lookupAt := map[*ssa.Lookup]*ssa.BasicBlock{}
		updates := map[string]bool{}
		deletes := map[string]bool{}
		var calls []ssa.CallInstruction
		for _, b := range f.Blocks {
			for _, in := range b.Instrs {
				switch x := in.(type) {
				case *ssa.Lookup:
					if _, isMap := x.X.Type().Underlying().(*types.Map); isMap && !isTypeTable(x.X.Type()) {
						if id := mapIdentity(x.X); id != "" {
							if _, ok := lookups[id]; !ok {
								lookups[id] = x
							}
						}
					}
				case *ssa.MapUpdate:
					if id := mapIdentity(x.Map); id != "" {
						updates[id] = true
					}
				case ssa.CallInstruction:
					if bi, ok := x.Common().Value.(*ssa.Builtin); ok && bi.Name() == "delete" {
						if id := mapIdentity(x.Common().Args[0]); id != "" {
							deletes[id] = true
						}
					}
					// one level of helpers outside the component (visit()/leave() style)
					if sc := x.Common().StaticCallee(); sc != nil && !comp[sc] && p.FuncInModule(sc) {
						for _, hb := range sc.Blocks {
							for _, hin := range hb.Instrs {
								switch h := hin.(type) {
								case *ssa.Lookup:
									if _, isMap := h.X.Type().Underlying().(*types.Map); isMap && !isTypeTable(h.X.Type()) {
										if id := mapIdentity(h.X); id != "" {
											if _, ok := lookups[id]; !ok {
												lookups[id] = h
												lookupAt[h] = b
											}
										}
									}
								case *ssa.MapUpdate:
									if id := mapIdentity(h.Map); id != "" {
										updates[id] = true
									}
								}
							}
						}
					}
					for _, g := range p.Callees(x) {
						if comp[g] {
							calls = append(calls, x)
						}
					}
					if sc := x.Common().StaticCallee(); sc != nil && comp[sc] {
						calls = append(calls, x)
					}
				}
			}
		}
		var ids []string
		for id := range lookups {
			ids = append(ids, id)
		}
		sort.Strings(ids)
		for _, id := range ids {
			if !updates[id] {
				continue
			}
			l := lookups[id]
			lb := l.Block()
			if b2, ok := lookupAt[l]; ok {
				lb = b2
			}
			for _, cl := range calls {
				if lb == cl.Block() || lb.Dominates(cl.Block()) {
					if why := reinitInside(comp, id); why != "" {
						return "", false
					}
					return core.FuncName(f) + " tests and updates " + id + " (not re-created inside the cycle)", true
				}
			}
		}
	}
	return "", false
}

// reinitInside: the visited set `id` (a map held in a struct field) is assigned a new map by a
// function of the recursive component, and that assignment is not a once-only initialisation.
// Accepted idiom: the store sits under `if F == nil` and the same block stores a freshly made,
// non-nil value to F (so the condition is false for every nested call).
func reinitInside(comp map[*ssa.Function]bool, id string) string {
	// a set that travels as a parameter: every call inside the cycle to a function that takes such a
	// set must hand on the set it was given (a parameter of the caller), not a fresh one - a wrapper of
	// the cycle that makes its own set resets the guard on every round
	if strings.HasPrefix(id, "param:") {
		typ := id[strings.LastIndex(id, ":")+1:]
		for f := range comp {
			for _, b := range f.Blocks {
				for _, in := range b.Instrs {
					ci, ok := in.(ssa.CallInstruction)
					if !ok {
						continue
					}
					g := ci.Common().StaticCallee()
					if g == nil || !comp[g] {
						continue
					}
					for ai, a := range ci.Common().Args {
						if a.Type().String() != typ || ai >= len(g.Params) {
							continue
						}
						v := a
						for i := 0; i < 4; i++ {
							if u, isU := v.(*ssa.UnOp); isU {
								v = u.X
								continue
							}
							break
						}
						switch v.(type) {
						case *ssa.Parameter, *ssa.FreeVar:
						default:
							return "the visited set handed to " + core.FuncName(g) + " in " + core.FuncName(f) + " is not the one the caller received"
						}
					}
				}
			}
		}
		return ""
	}
	if !strings.HasPrefix(id, "field:") {
		return ""
	}
	fieldID := func(v ssa.Value) string {
		if fa, ok := v.(*ssa.FieldAddr); ok {
			return "field:" + fa.X.Type().String() + "#" + core.F("%d", fa.Field)
		}
		return ""
	}
	for f := range comp {
		for _, b := range f.Blocks {
			for _, in := range b.Instrs {
				st, ok := in.(*ssa.Store)
				if !ok || fieldID(st.Addr) != id {
					continue
				}
				// find the controlling `if F == nil`
				okIdiom := false
				for d := b; d != nil && !okIdiom; d = d.Idom() {
					idom := d.Idom()
					if idom == nil || len(idom.Instrs) == 0 {
						continue
					}
					ifi, isIf := idom.Instrs[len(idom.Instrs)-1].(*ssa.If)
					if !isIf || len(idom.Succs) != 2 || !(idom.Succs[0] == d) {
						continue
					}
					bo, isBin := ifi.Cond.(*ssa.BinOp)
					if !isBin || bo.Op != token.EQL {
						continue
					}
					var other ssa.Value
					if cst, isC := bo.Y.(*ssa.Const); isC && cst.IsNil() {
						other = bo.X
					} else if cst, isC := bo.X.(*ssa.Const); isC && cst.IsNil() {
						other = bo.Y
					}
					ld, isLoad := other.(*ssa.UnOp)
					if other == nil || !isLoad {
						continue
					}
					guardField := fieldID(ld.X)
					if guardField == "" {
						continue
					}
					// the guarded region stores a fresh non-nil value into the guard field
					for _, in2 := range b.Instrs {
						if st2, ok := in2.(*ssa.Store); ok && fieldID(st2.Addr) == guardField {
							switch st2.Val.(type) {
							case *ssa.MakeMap, *ssa.MakeSlice, *ssa.Alloc, *ssa.Slice, *ssa.MakeChan:
								okIdiom = true
							}
						}
					}
				}
				if !okIdiom {
					return core.FuncName(f) + " re-creates the visited set inside the cycle"
				}
			}
		}
	}
	return ""
}

// structuralArg: some argument (or the receiver) of the call is an element of a
// collection reachable from a parameter of the caller (finite tree descent).
func structuralArg(call ssa.CallInstruction) bool {
	type sk struct {
		v ssa.Value
		e bool
	}
	var derives func(v ssa.Value, elem bool, depth int, seen map[sk]bool) bool
	derives = func(v ssa.Value, elem bool, depth int, seen map[sk]bool) bool {
		if depth > 25 || seen[sk{v, elem}] {
			return false
		}
		seen[sk{v, elem}] = true
		switch x := v.(type) {
		case *ssa.Parameter:
			return elem
		case *ssa.FreeVar:
			return elem
		case *ssa.UnOp:
			return derives(x.X, elem, depth+1, seen)
		case *ssa.IndexAddr:
			return derives(x.X, true, depth+1, seen)
		case *ssa.Index:
			return derives(x.X, true, depth+1, seen)
		case *ssa.Lookup:
			return derives(x.X, true, depth+1, seen)
		case *ssa.Next:
			return derives(x.Iter, true, depth+1, seen)
		case *ssa.Range:
			return derives(x.X, elem, depth+1, seen)
		case *ssa.Extract:
			return derives(x.Tuple, elem, depth+1, seen)
		case *ssa.Field:
			return derives(x.X, elem, depth+1, seen)
		case *ssa.FieldAddr:
			return derives(x.X, elem, depth+1, seen)
		case *ssa.TypeAssert:
			return derives(x.X, elem, depth+1, seen)
		case *ssa.MakeInterface:
			return derives(x.X, elem, depth+1, seen)
		case *ssa.ChangeInterface:
			return derives(x.X, elem, depth+1, seen)
		case *ssa.ChangeType:
			return derives(x.X, elem, depth+1, seen)
		case *ssa.Slice:
			return derives(x.X, elem, depth+1, seen)
		case *ssa.Phi:
			for _, e := range x.Edges {
				if derives(e, elem, depth+1, seen) {
					return true
				}
			}
			return false
		case *ssa.Call:
			// accessor on something derived from a parameter: n.Children(), node.Child(k)
			if x.Call.IsInvoke() {
				return derives(x.Call.Value, elem, depth+1, seen)
			}
			for _, a := range x.Call.Args {
				if derives(a, elem, depth+1, seen) {
					return true
				}
			}
			return false
		case *ssa.Alloc:
			// local holding a copy: look at stores into it
			for _, r := range *x.Referrers() {
				if st, ok := r.(*ssa.Store); ok && st.Addr == x {
					if derives(st.Val, elem, depth+1, seen) {
						return true
					}
				}
			}
			return false
		}
		return false
	}
	cc := call.Common()
	vals := append([]ssa.Value{}, cc.Args...)
	if cc.IsInvoke() {
		vals = append(vals, cc.Value)
	}
	for _, a := range vals {
		if derives(a, false, 0, map[sk]bool{}) {
			return true
		}
	}
	return false
}

// recTable: SCCs accepted for a reason the two structural tests cannot see.
// Key: name of the alphabetically first function of the component.
var recTable = map[string]string{
	"(notations/jschema/checker.checkSchema).checkArrayItems": "the recursion follows the types-list of an array node, which (addORShortcut / orRuleSetLoader) can only name generated `#…` types whose root is the array's own literal/mixed item, never an array again",
	"(openapi.ObjectInfo).PropertiesInfos":                    "follows allOf references; cyclic allOf chains are rejected by CompileAllOf (processingTypes, code 703: rule C07.cycle) and the conversion is defined for accepted schemas",
	"(errs.Code).F":                                           "errs.f calls ErrRuntimeFailure.F() only on a missing format/arity mismatch; the format of ErrRuntimeFailure has no placeholder (rule C16.fmt), so the nested call returns without recursing further",
}

func c02recguard(c *core.Ctx) {
	const R = "C02.recguard"
	c.Rule(R, "every recursive component of the call graph is bounded by construction: (type-table) a cycle that looks a user type up by name tests and updates a visited set / bounded counter that dominates the recursive call; (structural) every recursive call passes an element of a collection reachable from its own parameter (descent in the finite node tree); (delegation) scanner states re-dispatching the same byte (decided by C02.deleg); anything else is reported as unbounded recursion (stack overflow aborts the process and cannot be recovered)")
	comps := recursiveSCCs(c)
	c.Floor(R, 12)
	reachable := c.P.Reach(entryPoints(c), nil)
	for _, sc := range comps {
		set := map[*ssa.Function]bool{}
		var names []string
		for _, f := range sc.fns {
			set[f] = true
			names = append(names, core.FuncName(f))
		}
		pos := c.P.Pos(sc.fns[0].Pos())
		what := core.F("recursive component of %d function(s): %s", len(sc.fns), strings.Join(names, ", "))
		if len(what) > 400 {
			what = what[:400] + "…"
		}
		if r, ok := recTable[sc.name]; ok {
			c.Tabled(R, sc.name, pos, what, r)
			continue
		}
		// scanner delegation components: all functions are scanner state functions
		allStates := true
		for _, f := range sc.fns {
			if !isScannerStateFunc(f) {
				allStates = false
			}
		}
		if allStates {
			c.OKd(R, sc.name, pos, what, "scanner state delegation: bounded per input byte (rule C02.deleg)")
			continue
		}
		typeTable := false
		for _, f := range sc.fns {
			if hasTypeTableLookup(f) {
				typeTable = true
			}
		}
		if typeTable {
			if why, ok := visitedGuard(set, c.P); ok {
				c.OKd(R, sc.name, pos, what, "type-table recursion guarded: "+why)
			} else {
				if !reachable[sc.fns[0]] {
					c.Note(R, sc.name, pos, what, "dead code (unreachable from every entry point); unguarded type-table recursion")
					continue
				}
				c.Bad(R, sc.name, pos, what, "the cycle resolves user types by name but no visited set / counter is tested and updated before the recursive call: types that refer to each other recurse until the stack overflows")
			}
			continue
		}
		// structural: no cycle made only of non-descending calls (a call that
		// passes the node itself, e.g. collect(n) -> collectObject(n), is fine
		// as long as every cycle goes through a call on an element/child)
		same := map[*ssa.Function][]*ssa.Function{}
		sample := map[*ssa.Function]string{}
		for _, f := range sc.fns {
			for _, b := range f.Blocks {
				for _, in := range b.Instrs {
					ci, ok := in.(ssa.CallInstruction)
					if !ok {
						continue
					}
					var tgts []*ssa.Function
					for _, g := range c.P.Callees(ci) {
						if set[g] {
							tgts = append(tgts, g)
						}
					}
					if sc := ci.Common().StaticCallee(); sc != nil && set[sc] {
						tgts = append(tgts, sc)
					}
					if len(tgts) > 0 && !structuralArg(ci) {
						same[f] = append(same[f], tgts...)
						if sample[f] == "" {
							sample[f] = c.P.Pos(ci.Pos())
						}
					}
				}
			}
		}
		bad := ""
		color := map[*ssa.Function]int{}
		var dfs func(f *ssa.Function) bool
		dfs = func(f *ssa.Function) bool {
			color[f] = 1
			for _, g := range same[f] {
				if color[g] == 1 {
					bad = core.F("cycle of calls that pass no element of a collection derived from their parameters, through %s (call at %s)", core.FuncName(f), sample[f])
					return true
				}
				if color[g] == 0 && dfs(g) {
					return true
				}
			}
			color[f] = 2
			return false
		}
		for _, f := range sc.fns {
			if color[f] == 0 && dfs(f) {
				break
			}
		}
		if bad == "" {
			c.OKd(R, sc.name, pos, what, "structural recursion over the node tree (every cycle descends to a child element)")
		} else if !reachable[sc.fns[0]] {
			c.Note(R, sc.name, pos, what, "dead code (unreachable from every entry point): "+bad)
		} else {
			c.Bad(R, sc.name, pos, what, "recursion of no recognised bounded class: "+bad)
		}
	}
}

// isScannerStateFunc: last parameter is a byte and the function lives in a scanner package.
func isScannerStateFunc(f *ssa.Function) bool {
	pp := core.FuncPkgPath(f)
	if !(strings.HasSuffix(pp, "/scanner") || strings.HasSuffix(pp, "rules/enum") || strings.HasSuffix(pp, "formats/json")) {
		return false
	}
	ps := f.Signature.Params()
	if ps.Len() == 0 {
		return false
	}
	b, ok := ps.At(ps.Len() - 1).Type().Underlying().(*types.Basic)
	return ok && b.Kind() == types.Uint8
}
