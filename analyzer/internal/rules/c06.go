package rules

import (
	"go/ast"
	"go/token"
	"go/types"
	"golang.org/x/tools/go/packages"
	"sort"
	"strings"

	"jsverif/internal/core"
)

func init() {
	Register("C06", "Decides structural necessary conditions of the recursion check and of Example() termination: (pair) visit/leave are paired by defer on the success edge; (skip) optional/nullable edges are skipped before anything else, arrays/literals/mixed nodes end the walk, objects are AND, `@a | @b` is OR; (table) the recursive walk must keep using the type table the lookup used - violated today, known finding; (example) the example builder's type expansion is bounded by a counter that is incremented and decremented in pairs; (sep) the example's separators cannot dangle. Does NOT decide both directions of the iff over all reference graphs.",
		func(c *core.Ctx) { c07copyAs(c, "C06.copy") }, inheritAllRule("C06.inheritall"), keepAltsRule("C06.keepalts"), c06pair, c06skip, c06table, c06example, c06alt, onceCaptureRule("C06.oncecapture"), sepRule("C06.sep", []string{"notations/jschema"}, 2))
}

const recPkg = "(*notations/jschema/checker.recursionChecker)."

func c06pair(c *core.Ctx) {
	const R = "C06.pair"
	c.Rule(R, "recursionChecker.checkType: the first statement returns the recursion error when visit(name) fails, the second is `defer leave(name)` with the same name, and both precede the lookup and the recursive call; visit inserts into `visited` exactly what leave deletes, and leave pops the path")
	c.Floor(R, 3)
	d := c.P.FindDecl(recPkg + "checkType")
	v := c.P.FindDecl(recPkg + "visit")
	l := c.P.FindDecl(recPkg + "leave")
	if d == nil || v == nil || l == nil {
		c.Unresolved(R, recPkg+"checkType/visit/leave")
		return
	}
	ok := false
	why := "checkType does not start with `if !c.visit(x) { return err }; defer c.leave(x)`"
	if len(d.Decl.Body.List) >= 2 {
		ifs, ok1 := d.Decl.Body.List[0].(*ast.IfStmt)
		df, ok2 := d.Decl.Body.List[1].(*ast.DeferStmt)
		if ok1 && ok2 {
			cond := core.ExprStr(ifs.Cond)
			arg := ""
			if strings.HasPrefix(cond, "!c.visit(") && strings.HasSuffix(cond, ")") {
				arg = strings.TrimSuffix(strings.TrimPrefix(cond, "!c.visit("), ")")
			}
			ret := false
			for _, s := range ifs.Body.List {
				if _, isR := s.(*ast.ReturnStmt); isR {
					ret = true
				}
			}
			if arg != "" && ret && core.ExprStr(df.Call) == "c.leave("+arg+")" {
				ok = true
			}
		}
		// the same pairing without defer: after the guard a straight line of statements (no branch,
		// no return) ends in `c.leave(x); return ...` - every non-panicking path leaves exactly once
		if ok1 && !ok2 {
			cond := core.ExprStr(ifs.Cond)
			arg := ""
			if strings.HasPrefix(cond, "!c.visit(") && strings.HasSuffix(cond, ")") {
				arg = strings.TrimSuffix(strings.TrimPrefix(cond, "!c.visit("), ")")
			}
			ret := false
			for _, s := range ifs.Body.List {
				if _, isR := s.(*ast.ReturnStmt); isR {
					ret = true
				}
			}
			rest := d.Decl.Body.List[1:]
			straight := arg != "" && ret && len(rest) >= 2
			leaves := 0
			for i, st := range rest {
				switch x := st.(type) {
				case *ast.AssignStmt, *ast.DeclStmt:
				case *ast.ExprStmt:
					if core.ExprStr(x.X) == "c.leave("+arg+")" {
						leaves++
						if i != len(rest)-2 {
							straight = false
						}
					}
				case *ast.ReturnStmt:
					if i != len(rest)-1 {
						straight = false
					}
				default:
					straight = false
				}
				ast.Inspect(st, func(n ast.Node) bool {
					if _, isLit := n.(*ast.FuncLit); isLit {
						straight = false
					}
					return true
				})
			}
			if straight && leaves == 1 {
				if _, isRet := rest[len(rest)-1].(*ast.ReturnStmt); isRet {
					ok = true
				}
			}
		}
	}
	c.Check(ok, R, "checkType:visit-defer-leave", c.P.Pos(d.Decl.Pos()), "checkType: visit failure returns, success registers defer leave(same name) before recursing", why+": a type stays marked as visited after its subtree was checked, so a second, independent use of the same type is reported as infinite recursion (false alarm), or it is never unmarked on error paths")
	// visit inserts, leave deletes the same key from the same map
	ins, del := "", ""
	ast.Inspect(v.Decl.Body, func(n ast.Node) bool {
		if as, isA := n.(*ast.AssignStmt); isA && len(as.Lhs) == 1 {
			if ix, isI := as.Lhs[0].(*ast.IndexExpr); isI {
				ins = core.ExprStr(ix.X) + "[" + core.ExprStr(ix.Index) + "]"
			}
		}
		return true
	})
	popsPath := false
	ast.Inspect(l.Decl.Body, func(n ast.Node) bool {
		switch x := n.(type) {
		case *ast.CallExpr:
			if id, isId := x.Fun.(*ast.Ident); isId && id.Name == "delete" && len(x.Args) == 2 {
				del = core.ExprStr(x.Args[0]) + "[" + core.ExprStr(x.Args[1]) + "]"
			}
		case *ast.AssignStmt:
			if len(x.Lhs) == 1 && core.ExprStr(x.Lhs[0]) == "c.path" {
				if se, isS := x.Rhs[0].(*ast.SliceExpr); isS && strings.Contains(core.ExprStr(se.High), "- 1") {
					popsPath = true
				}
			}
		}
		return true
	})
	c.Check(ins != "" && ins == del, R, "visit/leave:same-set", c.P.Pos(v.Decl.Pos()), core.F("visit inserts %s, leave deletes %s", ins, del), "visit and leave do not operate on the same set entry")
	c.Check(popsPath, R, "leave:pops-path", c.P.Pos(l.Decl.Pos()), "leave pops the last path element", "leave no longer pops the path: error messages list types that are not on the cycle")
}

func c06skip(c *core.Ctx) {
	const R = "C06.skip"
	orBad := ""
	c.Rule(R, "recursionChecker.check: the first statement returns nil for optional or nullable nodes (so every recursive call is dominated by that test); array, literal and mixed nodes return nil without recursing; an object recurses into every child and returns the first error (AND); checkMixedValueNode returns an error only when every alternative failed: len(ee) > 0 && len(ee) == len(tt) (OR)")
	c.Floor(R, 6)
	d := c.P.FindDecl(recPkg + "check")
	m := c.P.FindDecl(recPkg + "checkMixedValueNode")
	if d == nil || m == nil {
		c.Unresolved(R, recPkg+"check / checkMixedValueNode")
		return
	}
	pos := c.P.Pos(d.Decl.Pos())
	// ---- check(node, types), tabulated: optional x nullable x node kind (objects with 0..2
	// children and every pattern of failing children, choices that fail or not)
	{
		recv := d.Decl.Recv.List[0].Names[0].Name
		type cell struct {
			kind     string
			children int
			failMask int
			mixedErr int64
		}
		var cells []cell
		for _, k := range []string{"ArrayNode", "LiteralNode", "MixedNode"} {
			cells = append(cells, cell{kind: k})
		}
		cells = append(cells, cell{kind: "MixedValueNode", mixedErr: 0}, cell{kind: "MixedValueNode", mixedErr: 1})
		for n := 0; n <= 2; n++ {
			for m := 0; m < 1<<n; m++ {
				cells = append(cells, cell{kind: "ObjectNode", children: n, failMask: m})
			}
		}
		bad := map[string]string{}
		nCells := 0
		for _, cl := range cells {
			for opt := int64(0); opt <= 1; opt++ {
				for nul := int64(0); nul <= 1; nul++ {
					nCells++
					cl := cl
					e := &miniEval{pk: d.Pkg, env: map[string]int64{}, ctx: c, helpers: true}
					e.dyn = func(x ast.Expr) string { return cl.kind }
					e.rng = func(x ast.Expr) ([]int64, bool) {
						if strings.HasSuffix(core.ExprStr(x), ".Children()") {
							out := make([]int64, cl.children)
							for i := range out {
								out[i] = int64(i)
							}
							return out, true
						}
						return nil, false
					}
					e.hook = func(x ast.Expr) (int64, bool) {
						switch y := x.(type) {
						case *ast.Ident:
							if y.Name == "nil" {
								return 0, true
							}
						case *ast.CallExpr:
							f := core.ExprStr(y.Fun)
							switch {
							case strings.HasSuffix(f, "IsOptionalNode"):
								return opt, true
							case strings.HasSuffix(f, "IsNullableNode"):
								return nul, true
							case f == recv+"."+c.P.CurrentName(recPkg+"check") && len(y.Args) >= 1:
								idx := e.expr(y.Args[0])
								return int64(cl.failMask>>uint(idx)) & 1, true
							case f == recv+"."+c.P.CurrentName(recPkg+"checkMixedValueNode"):
								return cl.mixedErr, true
							case strings.HasSuffix(f, ".Children") && len(y.Args) == 0:
								return int64(cl.children), true
							}
							// a helper of the package is evaluated in place, any other error-typed call is an error value
							if fo, isF := core.Callee(d.Pkg, y).(*types.Func); isF && fo.Pkg() != nil && fo.Pkg().Path() == d.Pkg.PkgPath {
								if hd := c.P.FindDecl(core.Rel(fo.FullName())); hd != nil && hd.Decl.Body != nil {
									return 0, false
								}
							}
							if t := core.TypeOf(d.Pkg, y); t != nil && core.IsErrorType(t) {
								return 1, true
							}
						}
						return 0, false
					}
					st, rets := e.run(d.Decl.Body.List)
					got := int64(-1)
					if st == miniReturn && len(rets) == 1 {
						got = b2i(rets[0] != 0)
					}
					want := int64(0)
					if opt == 0 && nul == 0 {
						switch cl.kind {
						case "MixedValueNode":
							want = cl.mixedErr
						case "ObjectNode":
							want = b2i(cl.failMask != 0)
						}
					}
					var key string
					switch {
					case opt == 1 || nul == 1:
						key = "check:optional-nullable-first"
					case cl.kind == "ObjectNode":
						key = "check:object-and"
					default:
						key = "check:leaf-cases"
					}
					if e.unknown != "" {
						bad[key] = "undecided: " + e.unknown
					} else if got != want && bad[key] == "" {
						bad[key] = core.F("%s (children %d, failing %02b, choice error %d), optional=%d nullable=%d: error=%d, expected %d", cl.kind, cl.children, cl.failMask, cl.mixedErr, opt, nul, got, want)
					}
				}
			}
		}
		c.Extra[R+":check:cells"] = nCells
		c.Check(bad["check:optional-nullable-first"] == "", R, "check:optional-nullable-first", pos, "optional or nullable nodes end the walk before anything else", "an optional or nullable node does not end the walk: an optional or nullable self-reference is reported as infinite recursion: "+bad["check:optional-nullable-first"])
		c.Check(bad["check:leaf-cases"] == "", R, "check:leaf-cases", pos, "array, literal and mixed nodes are finite; a choice answers what checkMixedValueNode answers", bad["check:leaf-cases"])
		c.Check(bad["check:object-and"] == "", R, "check:object-and", pos, "objects recurse into all children and report an error iff one child does", "the object case no longer checks every child / no longer propagates a child's error: a required self-reference hidden behind another property goes unreported: "+bad["check:object-and"])
	}
	// ---- checkMixedValueNode, tabulated: 0..3 alternatives x every pattern of failing ones
	{
		recv := m.Decl.Recv.List[0].Names[0].Name
		bad, badLoop := "", ""
		for n := 0; n <= 3; n++ {
			for mask := 0; mask < 1<<n; mask++ {
				called := map[int64]bool{}
				e := &miniEval{pk: m.Pkg, env: map[string]int64{}, lens: map[string]bool{}}
				e.hook = func(x ast.Expr) (int64, bool) {
					switch y := x.(type) {
					case *ast.Ident:
						if y.Name == "nil" {
							return 0, true
						}
					case *ast.IndexExpr:
						// ee[0]: an element of the error list
						if e.lens[core.ExprStr(y.X)] && core.TypeOf(m.Pkg, y) != nil && core.IsErrorType(core.TypeOf(m.Pkg, y)) {
							return 1, true
						}
					case *ast.CallExpr:
						f := core.ExprStr(y.Fun)
						switch {
						case strings.HasSuffix(f, ".GetTypes"):
							return int64(n), true
						case f == recv+"."+c.P.CurrentName(recPkg+"checkType") && len(y.Args) >= 1:
							idx := e.expr(y.Args[0])
							called[idx] = true
							return int64(mask>>uint(idx)) & 1, true
						}
					}
					return 0, false
				}
				st, rets := e.run(m.Decl.Body.List)
				got := int64(-1)
				if st == miniReturn && len(rets) == 1 {
					got = b2i(rets[0] != 0)
				}
				want := b2i(n > 0 && mask == 1<<n-1)
				if e.unknown != "" {
					bad = "undecided: " + e.unknown
				} else if got != want && bad == "" {
					bad = core.F("%d alternatives, failing %0*b: error=%d, expected %d", n, n, mask, got, want)
				}
				for i := int64(0); i < int64(n); i++ {
					if !called[i] && badLoop == "" && e.unknown == "" {
						badLoop = core.F("%d alternatives, failing %0*b: alternative %d is never walked", n, n, mask, i)
					}
				}
			}
		}
		c.Check(badLoop == "", R, "checkMixedValueNode:every-alternative", c.P.Pos(m.Decl.Pos()), "every alternative of a choice is walked", badLoop+": an alternative that is skipped counts as finite, so a root that requires itself through it is accepted")
		orBad = bad
	}
	// the walk keeps no memory besides the current path: every map of the checker that is
	// consulted during the walk is path-scoped (its entries are deleted when the type is left)
	{
		deleted := map[string]bool{}
		looked := map[string]string{}
		for _, fn := range []string{"check", "checkMixedValueNode", "checkType", "visit", "leave"} {
			fd := c.P.FindDecl(recPkg + fn)
			if fd == nil {
				continue
			}
			ast.Inspect(fd.Decl.Body, func(n ast.Node) bool {
				switch y := n.(type) {
				case *ast.CallExpr:
					if id, ok := y.Fun.(*ast.Ident); ok && id.Name == "delete" && len(y.Args) == 2 {
						deleted[core.ExprStr(y.Args[0])] = true
					}
				case *ast.IndexExpr:
					if tv, ok := fd.Pkg.TypesInfo.Types[y.X]; ok {
						if _, isMap := tv.Type.Underlying().(*types.Map); isMap && strings.HasPrefix(core.ExprStr(y.X), "c.") {
							looked[core.ExprStr(y.X)] = c.P.Pos(y.Pos())
						}
					}
				}
				return true
			})
		}
		var ks []string
		for k := range looked {
			ks = append(ks, k)
		}
		sort.Strings(ks)
		for _, k := range ks {
			c.Check(deleted[k], R, "state:"+k, looked[k], "map "+k+" consulted by the recursion walk is path-scoped (entries deleted on leave)",
				"the walk remembers types beyond the current path (a memo / cache): what an earlier branch concluded - possibly under an alternative whose failure was forgiven - decides a later, mandatory occurrence of the same type")
		}
		if len(ks) == 0 {
			c.Bad(R, "state", pos, "visited set of the recursion walk", "undecided: the walk consults no map")
		}
	}
	c.Check(orBad == "", R, "checkMixedValueNode:or", c.P.Pos(m.Decl.Pos()), "`@a | @b` fails only if every alternative fails", "the alternative rule is no longer `all alternatives failed`: a choice with one finite alternative is reported, or one with none is accepted: "+orBad)
}

func c06table(c *core.Ctx) {
	const R = "C06.table"
	c.Rule(R, "in recursionChecker.checkType the type table passed to the recursive check() is the table in which the name was looked up (the parameter), so that the walk can follow a chain of named types of any length")
	c.Floor(R, 1)
	d := c.P.FindDecl(recPkg + "checkType")
	if d == nil {
		c.Unresolved(R, recPkg+"checkType")
		return
	}
	param := ""
	if ps := d.Decl.Type.Params.List; len(ps) >= 2 && len(ps[len(ps)-1].Names) > 0 {
		param = ps[len(ps)-1].Names[0].Name
	}
	found := false
	ast.Inspect(d.Decl.Body, func(n ast.Node) bool {
		call, ok := n.(*ast.CallExpr)
		if !ok || core.ExprStr(call.Fun) != "c.check" || len(call.Args) != 2 {
			return true
		}
		found = true
		arg := core.ExprStr(call.Args[1])
		c.Check(arg == param, R, "checkType:table-argument", c.P.Pos(call.Pos()), core.F("recursive check() receives `%s` (lookup table is `%s`)", arg, param),
			"the recursive walk continues with the referenced type's own table, which holds only that type's unnamed sub-types: named types referenced from there are not found (types[name] is the zero Type, treated as `nothing to check`), so a cycle through three named types @foo -> @bar -> @fizz -> @foo is accepted")
		return true
	})
	if !found {
		c.Bad(R, "checkType:table-argument", c.P.Pos(d.Decl.Pos()), "recursive check() call in checkType", "undecided: no c.check(node, table) call found")
	}
}

func c06example(c *core.Ctx) { c06exampleAs(c, "C06.example") }

func c06exampleAs(c *core.Ctx, R string) {
	c.Rule(R, "exampleBuilder.buildExampleForMixedValueNode: the expansion counter processedTypes[name] is tested (> 1 returns without expanding) before it is incremented, the increment is followed immediately by a deferred decrement of the same entry, and both precede the lookup and the recursive Build")
	c.Floor(R, 2)
	d := c.P.FindDecl("(*notations/jschema.exampleBuilder).buildExampleForMixedValueNode")
	if d == nil {
		c.Unresolved(R, "(*notations/jschema.exampleBuilder).buildExampleForMixedValueNode")
		return
	}
	test, inc, dec, build := token.NoPos, token.NoPos, token.NoPos, token.NoPos
	ast.Inspect(d.Decl.Body, func(n ast.Node) bool {
		switch x := n.(type) {
		case *ast.IfStmt:
			s := core.ExprStr(x.Cond)
			if x.Init != nil {
				s = core.ExprStr(x.Init.(*ast.AssignStmt).Rhs[0]) + ";" + s
			}
			condOnly := core.ExprStr(x.Cond)
			if strings.Contains(s, counterIndex(c)) && (strings.HasSuffix(condOnly, " > 1") || strings.HasSuffix(condOnly, " >= 2")) && !strings.ContainsAny(condOnly, "&|") && !test.IsValid() {
				test = x.Pos()
			}
		case *ast.IncDecStmt:
			if strings.Contains(core.ExprStr(x.X), counterIndex(c)) {
				if x.Tok == token.INC && !inc.IsValid() {
					inc = x.Pos()
				}
				if x.Tok == token.DEC && !dec.IsValid() {
					dec = x.Pos()
				}
			}
		case *ast.CallExpr:
			if core.ExprStr(x.Fun) == "b.Build" && !build.IsValid() {
				build = x.Pos()
			}
		}
		return true
	})
	// the decrement must be inside a defer right after the increment
	deferAfterInc := false
	for i, s := range d.Decl.Body.List {
		if s.Pos() == inc && i+1 < len(d.Decl.Body.List) {
			if df, ok := d.Decl.Body.List[i+1].(*ast.DeferStmt); ok && df.Pos() < dec && dec < df.End() {
				deferAfterInc = true
			}
		}
	}
	ok := test.IsValid() && inc.IsValid() && dec.IsValid() && build.IsValid() && test < inc && inc < build && deferAfterInc
	c.Check(ok, R, "buildExampleForMixedValueNode:counter", c.P.Pos(d.Decl.Pos()), "bounded type expansion: test(>1) < increment < deferred decrement < recursive Build", "the expansion counter is no longer tested/incremented/decremented in this order: Example() of a schema with an optional self-reference does not terminate, or a type used twice is dropped the second time")
	c06bounded(c, R, d)
}

// c06bounded: whatever is expanded next has an expansion count below a constant.
func c06bounded(c *core.Ctx, R string, d *core.DeclSite) {
	// variables that hold a counter value
	cnt := map[string]bool{}
	ast.Inspect(d.Decl.Body, func(n ast.Node) bool {
		if as, ok := n.(*ast.AssignStmt); ok && len(as.Lhs) == 1 && len(as.Rhs) == 1 && strings.Contains(core.ExprStr(as.Rhs[0]), counterIndex(c)) {
			cnt[core.ExprStr(as.Lhs[0])] = true
		}
		return true
	})
	isCnt := func(e ast.Expr) bool {
		s := core.ExprStr(ast.Unparen(e))
		return cnt[s] || strings.Contains(s, counterIndex(c))
	}
	bad := ""
	n := 0
	inspectDeep(c, d, 1, func(hd *core.DeclSite, nd ast.Node) bool {
		be, ok := nd.(*ast.BinaryExpr)
		if !ok {
			return true
		}
		switch be.Op {
		case token.LSS, token.GTR, token.LEQ, token.GEQ, token.EQL, token.NEQ:
		default:
			return true
		}
		for _, pair := range [][2]ast.Expr{{be.X, be.Y}, {be.Y, be.X}} {
			if isCnt(pair[0]) {
				n++
				if core.ConstOf(hd.Pkg, pair[1]) == nil {
					bad = core.ExprStr(be)
				}
			}
		}
		return true
	})
	c.Check(bad == "" && n >= 2, R, "buildExampleForMixedValueNode:bounded", c.P.Pos(d.Decl.Pos()), core.F("all %d tests of the expansion counter compare it with a constant", n),
		"the expansion counter is compared with a value that grows with the recursion ("+bad+"): two types that refer to each other raise each other's limit, the descent never stops (stack overflow kills the process)")
}

// c06alt: at the recursion limit of a choice the other alternatives are tried.
func c06alt(c *core.Ctx) {
	const R = "C06.alt"
	c.Rule(R, "exampleBuilder.buildExampleForMixedValueNode: the branch taken when the first alternative has reached the expansion limit (`processedTypes[...] > 1`) looks through the remaining alternatives (a loop over the type list) before it returns the empty result. A choice that is satisfiable through its second alternative (`@a | @b` with @a leading back to the root) otherwise yields an empty example with a nil error at the root, or drops a REQUIRED property inside an object")
	c.Floor(R, 1)
	d := c.P.FindDecl("(*notations/jschema.exampleBuilder).buildExampleForMixedValueNode")
	if d == nil {
		c.Unresolved(R, "(*notations/jschema.exampleBuilder).buildExampleForMixedValueNode")
		return
	}
	ok := false
	ast.Inspect(d.Decl.Body, func(n ast.Node) bool {
		ifs, isIf := n.(*ast.IfStmt)
		if !isIf {
			return true
		}
		s := core.ExprStr(ifs.Cond)
		if ifs.Init != nil {
			if as, isA := ifs.Init.(*ast.AssignStmt); isA && len(as.Rhs) == 1 {
				s = core.ExprStr(as.Rhs[0]) + ";" + s
			}
		}
		if !strings.Contains(s, counterIndex(c)) {
			return true
		}
		// a loop over (a re-slice of) the alternatives - here, or in a helper of the package that is
		// handed the alternatives and consults the same counters
		isAltLoop := func(pk *packages.Package, m ast.Node, names map[string]bool) bool {
			switch l := m.(type) {
			case *ast.RangeStmt:
				x := ast.Unparen(l.X)
				if se, isS := x.(*ast.SliceExpr); isS {
					x = se.X
				}
				return names[core.ExprStr(x)]
			case *ast.ForStmt:
				found := false
				if l.Cond != nil {
					ast.Inspect(l.Cond, func(k ast.Node) bool {
						if call, isC := k.(*ast.CallExpr); isC && core.ExprStr(call.Fun) == "len" && len(call.Args) == 1 && names[core.ExprStr(call.Args[0])] {
							found = true
						}
						return true
					})
				}
				return found
			}
			return false
		}
		// the variable(s) holding node.GetTypes()
		alts := map[string]bool{}
		ast.Inspect(d.Decl.Body, func(m ast.Node) bool {
			if as, isA := m.(*ast.AssignStmt); isA && len(as.Lhs) == 1 && len(as.Rhs) == 1 && strings.HasSuffix(core.ExprStr(as.Rhs[0]), ".GetTypes()") {
				alts[core.ExprStr(as.Lhs[0])] = true
			}
			return true
		})
		ast.Inspect(ifs.Body, func(m ast.Node) bool {
			if isAltLoop(d.Pkg, m, alts) {
				ok = true
			}
			if call, isC := m.(*ast.CallExpr); isC {
				// a helper that receives (a re-slice of) the alternatives and loops over its parameter
				if f, isF := core.Callee(d.Pkg, call).(*types.Func); isF && f.Pkg() != nil && f.Pkg().Path() == d.Pkg.PkgPath {
					passes := false
					for _, a := range call.Args {
						x := ast.Unparen(a)
						if se, isS := x.(*ast.SliceExpr); isS {
							x = se.X
						}
						if alts[core.ExprStr(x)] {
							passes = true
						}
					}
					if hd := c.P.FindDecl(core.Rel(f.FullName())); passes && hd != nil && hd.Decl.Body != nil {
						params := map[string]bool{}
						for _, fl := range hd.Decl.Type.Params.List {
							for _, nm := range fl.Names {
								params[nm.Name] = true
							}
						}
						ast.Inspect(hd.Decl.Body, func(k ast.Node) bool {
							if isAltLoop(hd.Pkg, k, params) {
								ok = true
							}
							return true
						})
					}
				}
			}
			return true
		})
		return true
	})
	c.Check(ok, R, "buildExampleForMixedValueNode:alternatives", c.P.Pos(d.Decl.Pos()), "the recursion-limit branch tries the other alternatives of the choice", "only the first alternative is ever used: at the limit the example of the choice is empty although another alternative is finite")
}

// counterIndex: how the example builder's per-type expansion counter is indexed in the source
// (`processedTypes[`, or the field's current name after a rename).
func counterIndex(c *core.Ctx) string {
	return c.P.CurrentField("notations/jschema", "exampleBuilder", "processedTypes") + "["
}
