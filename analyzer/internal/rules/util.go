package rules

import (
	"go/ast"
	"go/constant"
	"go/types"
	"golang.org/x/tools/go/ssa"

	"golang.org/x/tools/go/packages"
)

type packagesPackage = packages.Package

func enclosingDecl(stack []ast.Node) *ast.FuncDecl {
	var fd *ast.FuncDecl
	for _, s := range stack {
		if d, ok := s.(*ast.FuncDecl); ok {
			fd = d
		}
	}
	return fd
}

func isParamOf(info *types.Info, fd *ast.FuncDecl, v *types.Var) bool {
	if fd == nil {
		return false
	}
	obj, _ := info.Defs[fd.Name].(*types.Func)
	if obj == nil {
		return false
	}
	return paramIndex(obj, v) >= 0
}

func paramIndex(f *types.Func, v *types.Var) int {
	if f == nil {
		return -1
	}
	sig := f.Type().(*types.Signature)
	for i := 0; i < sig.Params().Len(); i++ {
		if sig.Params().At(i) == v {
			return i
		}
	}
	return -1
}

// isTypeSwitchBinding reports whether id is the implicit variable of a
// `switch x := v.(type)` clause enclosing the use.
func isTypeSwitchBinding(info *types.Info, stack []ast.Node, id *ast.Ident) bool {
	obj := info.ObjectOf(id)
	if obj == nil {
		return false
	}
	for _, n := range stack {
		if cc, ok := n.(*ast.CaseClause); ok {
			if info.Implicits[cc] == obj {
				return true
			}
		}
	}
	return false
}

func constantInt64(v constant.Value) (int64, bool) {
	v = constant.ToInt(v)
	if v.Kind() != constant.Int {
		return 0, false
	}
	return constant.Int64Val(v)
}

func constantBool(v constant.Value) bool {
	return v.Kind() == constant.Bool && constant.BoolVal(v)
}

func absintFieldName(fa *ssa.FieldAddr) string {
	t := fa.X.Type()
	if p, ok := t.Underlying().(*types.Pointer); ok {
		t = p.Elem()
	}
	if s, ok := t.Underlying().(*types.Struct); ok && fa.Field < s.NumFields() {
		return s.Field(fa.Field).Name()
	}
	return ""
}

func isZeroConst(v ssa.Value) bool {
	c, ok := v.(*ssa.Const)
	if !ok || c.Value == nil {
		return false
	}
	if c.Value.Kind() == constant.Int {
		n, ok := constant.Int64Val(c.Value)
		return ok && n == 0
	}
	return false
}
