package rules

import (
	"go/ast"
	"go/constant"
	"go/types"
	"golang.org/x/tools/go/ssa"
	"jsverif/internal/core"
	"regexp"
	"sort"
	"strings"

	"golang.org/x/tools/go/packages"
)

type packagesPackage = packages.Package

func enclosingDecl(stack []ast.Node) *ast.FuncDecl {
	var fd *ast.FuncDecl
	for _, s := range stack {
		if d, ok := s.(*ast.FuncDecl); ok {
			fd = d
		}
	}
	return fd
}

func isParamOf(info *types.Info, fd *ast.FuncDecl, v *types.Var) bool {
	if fd == nil {
		return false
	}
	obj, _ := info.Defs[fd.Name].(*types.Func)
	if obj == nil {
		return false
	}
	return paramIndex(obj, v) >= 0
}

func paramIndex(f *types.Func, v *types.Var) int {
	if f == nil {
		return -1
	}
	sig := f.Type().(*types.Signature)
	for i := 0; i < sig.Params().Len(); i++ {
		if sig.Params().At(i) == v {
			return i
		}
	}
	return -1
}

// isTypeSwitchBinding reports whether id is the implicit variable of a
// `switch x := v.(type)` clause enclosing the use.
func isTypeSwitchBinding(info *types.Info, stack []ast.Node, id *ast.Ident) bool {
	obj := info.ObjectOf(id)
	if obj == nil {
		return false
	}
	for _, n := range stack {
		if cc, ok := n.(*ast.CaseClause); ok {
			if info.Implicits[cc] == obj {
				return true
			}
		}
	}
	return false
}

func constantInt64(v constant.Value) (int64, bool) {
	v = constant.ToInt(v)
	if v.Kind() != constant.Int {
		return 0, false
	}
	return constant.Int64Val(v)
}

func constantBool(v constant.Value) bool {
	return v.Kind() == constant.Bool && constant.BoolVal(v)
}

func absintFieldName(fa *ssa.FieldAddr) string {
	t := fa.X.Type()
	if p, ok := t.Underlying().(*types.Pointer); ok {
		t = p.Elem()
	}
	if s, ok := t.Underlying().(*types.Struct); ok && fa.Field < s.NumFields() {
		return s.Field(fa.Field).Name()
	}
	return ""
}

func isZeroConst(v ssa.Value) bool {
	c, ok := v.(*ssa.Const)
	if !ok || c.Value == nil {
		return false
	}
	if c.Value.Kind() == constant.Int {
		n, ok := constant.Int64Val(c.Value)
		return ok && n == 0
	}
	return false
}

var identRe = regexp.MustCompile(`[A-Za-z_][A-Za-z0-9_]*`)

// canonKey blanks the names of plain variables in the expression part of a table key
// ("function:expression"): an identifier that is neither selected from (x.), a selected field
// (.x) nor called (x(). A table entry stays valid when a local variable is renamed.
func canonKey(key string) string {
	i := strings.Index(key, "):")
	if i < 0 {
		i = strings.Index(key, ":")
		if i < 0 {
			return key
		}
		i--
	}
	fn, expr := key[:i+2], key[i+2:]
	out := identRe.ReplaceAllStringFunc(expr, func(id string) string { return "\x00" + id + "\x00" })
	var b strings.Builder
	parts := strings.Split(out, "\x00")
	for k := 0; k < len(parts); k++ {
		if k%2 == 0 {
			b.WriteString(parts[k])
			continue
		}
		id := parts[k]
		prev, next := "", ""
		if k > 0 {
			prev = parts[k-1]
		}
		if k+1 < len(parts) {
			next = parts[k+1]
		}
		switch {
		case strings.HasSuffix(prev, "."), strings.HasPrefix(next, "."), strings.HasPrefix(next, "("):
			b.WriteString(id)
		case id == "nil" || id == "true" || id == "false" || id == "len" || id == "cap":
			b.WriteString(id)
		default:
			b.WriteString("_")
		}
	}
	return fn + b.String()
}

// alphaEq: are two table keys equal up to a consistent renaming of the identifiers that are not
// selected fields (not preceded by a dot)? The function parts must be equal.
func alphaEq(a, b string) bool {
	split := func(key string) (string, string) {
		i := strings.Index(key, "):")
		if i < 0 {
			i = strings.Index(key, ":")
			if i < 0 {
				return key, ""
			}
			i--
		}
		return key[:i+2], key[i+2:]
	}
	fa, ea := split(a)
	fb, eb := split(b)
	if fa != fb {
		return false
	}
	ia, ib := identRe.FindAllStringIndex(ea, -1), identRe.FindAllStringIndex(eb, -1)
	if len(ia) != len(ib) {
		return false
	}
	// the text between identifiers must agree
	if identRe.ReplaceAllString(ea, "\x00") != identRe.ReplaceAllString(eb, "\x00") {
		return false
	}
	fwd, bwd := map[string]string{}, map[string]string{}
	for k := range ia {
		x, y := ea[ia[k][0]:ia[k][1]], eb[ib[k][0]:ib[k][1]]
		field := ia[k][0] > 0 && ea[ia[k][0]-1] == '.'
		if field {
			if x != y {
				return false
			}
			continue
		}
		if m, ok := fwd[x]; ok && m != y {
			return false
		}
		if m, ok := bwd[y]; ok && m != x {
			return false
		}
		fwd[x], bwd[y] = y, x
	}
	return true
}

// tableGet looks a key up exactly, then up to the names of local variables.
func tableGet(tbl map[string]string, key string) (string, bool) {
	if r, ok := tbl[key]; ok {
		return r, true
	}
	var keys []string
	for k := range tbl {
		keys = append(keys, k)
	}
	sort.Strings(keys)
	for _, k := range keys {
		if alphaEq(k, key) {
			return tbl[k], true
		}
	}
	return "", false
}

// tableGetMoved: tableGet, then a second chance for a site that MOVED between two functions of one
// package that call each other (a helper extracted or inlined, a method turned into a function): an
// entry with the same expression - up to local names and a dropped or added receiver qualifier - whose
// own function no longer contains the site, or is caller/callee of the new one, carries its reason over.
func tableGetMoved(c *core.Ctx, tbl map[string]string, key string) (string, bool) {
	if r, ok := tableGet(tbl, key); ok {
		return r, true
	}
	// the function the site stands in was renamed since the tables were written
	if i := strings.Index(key, ":"); i > 0 {
		if pk := c.P.PinnedName(key[:i]); pk != key[:i] {
			if r, ok := tableGet(tbl, pk+key[i:]); ok {
				return r + " [function renamed from " + pk + "]", true
			}
		}
	} else if pk := c.P.PinnedName(key); pk != key {
		if r, ok := tableGet(tbl, pk); ok {
			return r + " [function renamed from " + pk + "]", true
		}
	}
	split := func(k string) (string, string) {
		i := strings.Index(k, ":")
		if i < 0 {
			return k, ""
		}
		return k[:i], k[i+1:]
	}
	pkgOf := func(fn string) string {
		fn = strings.TrimSuffix(fn, "$1")
		fn = strings.TrimPrefix(strings.TrimPrefix(fn, "("), "*")
		if i := strings.Index(fn, ")"); i >= 0 {
			fn = fn[:i]
		}
		if i := strings.LastIndex(fn, "."); i >= 0 {
			return fn[:i]
		}
		return fn
	}
	bare := func(fn string) string {
		fn = strings.TrimSuffix(fn, "$1")
		if i := strings.LastIndex(fn, "."); i >= 0 {
			return fn[i+1:]
		}
		return fn
	}
	unqual := regexp.MustCompile(`\b[a-z][a-zA-Z0-9]{0,3}\.`)
	norm := func(e string) string { return unqual.ReplaceAllString(e, "") }
	fn, expr := split(key)
	if expr == "" {
		return "", false
	}
	var keys []string
	for k := range tbl {
		keys = append(keys, k)
	}
	sort.Strings(keys)
	for _, k := range keys {
		kfn, kexpr := split(k)
		if kfn == fn || pkgOf(kfn) != pkgOf(fn) || kexpr == "" {
			continue
		}
		if !(alphaEq("F:"+kexpr, "F:"+expr) || alphaEq("F:"+norm(kexpr), "F:"+norm(expr))) {
			continue
		}
		// related: the old function is gone, or one calls the other
		old := c.P.FindDecl(strings.TrimSuffix(kfn, "$1"))
		related := old == nil
		if !related {
			for _, cs := range c.P.Calls() {
				if cs.Decl == nil {
					continue
				}
				callee, ok := core.Callee(cs.Pkg, cs.Call).(*types.Func)
				if !ok {
					continue
				}
				from := cs.Decl.Name.Name
				if (from == bare(kfn) && callee.Name() == bare(fn)) || (from == bare(fn) && callee.Name() == bare(kfn)) {
					if core.Rel(cs.Pkg.PkgPath) == pkgOf(fn) {
						related = true
						break
					}
				}
			}
		}
		if related {
			return tbl[k] + " [site moved from " + kfn + "]", true
		}
	}
	return "", false
}

// helperBodies: the body of a function and the bodies of the functions of the same package it calls
// (to the given depth). Rules that look for a construct "in F" look here, so that the construct may
// be moved into a helper (or a helper inlined) without changing the verdict.
func helperBodies(c *core.Ctx, d *core.DeclSite, depth int) []*core.DeclSite {
	out := []*core.DeclSite{d}
	seen := map[*ast.FuncDecl]bool{d.Decl: true}
	frontier := []*core.DeclSite{d}
	for i := 0; i < depth; i++ {
		var next []*core.DeclSite
		for _, cur := range frontier {
			if cur.Decl.Body == nil {
				continue
			}
			ast.Inspect(cur.Decl.Body, func(n ast.Node) bool {
				call, ok := n.(*ast.CallExpr)
				if !ok {
					return true
				}
				f, ok := core.Callee(cur.Pkg, call).(*types.Func)
				if !ok || f.Pkg() == nil || f.Pkg().Path() != cur.Pkg.PkgPath {
					return true
				}
				hd := c.P.FindDecl(core.Rel(f.FullName()))
				if hd == nil || hd.Decl.Body == nil || seen[hd.Decl] {
					return true
				}
				seen[hd.Decl] = true
				out = append(out, hd)
				next = append(next, hd)
				return true
			})
		}
		frontier = next
	}
	return out
}

// inspectDeep walks F and its same-package helpers.
func inspectDeep(c *core.Ctx, d *core.DeclSite, depth int, f func(hd *core.DeclSite, n ast.Node) bool) {
	for _, hd := range helperBodies(c, d, depth) {
		hd := hd
		ast.Inspect(hd.Decl.Body, func(n ast.Node) bool { return f(hd, n) })
	}
}

// collLoop: a loop that visits the elements of a collection, whatever its spelling:
// `for _, v := range E`, `for i := range E`, `for i := 0; i < len(E); i++` - where E is the
// collection expression itself or a local variable assigned from it before the loop.
type collLoop struct {
	node ast.Node
	body *ast.BlockStmt
	coll string // the collection expression (after resolving a hoisted local)
	elem string // the expression that denotes the current element in the body ("" if unknown)
}

func collLoops(pk *packages.Package, body *ast.BlockStmt) []collLoop {
	// hoisted locals: x := <expr>
	alias := map[string]string{}
	ast.Inspect(body, func(n ast.Node) bool {
		if as, ok := n.(*ast.AssignStmt); ok && as.Tok.String() == ":=" && len(as.Lhs) == 1 && len(as.Rhs) == 1 {
			if id, ok := as.Lhs[0].(*ast.Ident); ok {
				if _, isCall := ast.Unparen(as.Rhs[0]).(*ast.CallExpr); isCall {
					alias[id.Name] = core.ExprStr(as.Rhs[0])
				} else if _, isSel := ast.Unparen(as.Rhs[0]).(*ast.SelectorExpr); isSel {
					alias[id.Name] = core.ExprStr(as.Rhs[0])
				}
			}
		}
		return true
	})
	resolve := func(e ast.Expr) string {
		s := core.ExprStr(ast.Unparen(e))
		if a, ok := alias[s]; ok {
			return a
		}
		return s
	}
	var out []collLoop
	ast.Inspect(body, func(n ast.Node) bool {
		switch l := n.(type) {
		case *ast.RangeStmt:
			cl := collLoop{node: l, body: l.Body, coll: resolve(l.X)}
			if l.Value != nil && core.ExprStr(l.Value) != "_" {
				cl.elem = core.ExprStr(l.Value)
			} else if l.Key != nil && core.ExprStr(l.Key) != "_" {
				cl.elem = core.ExprStr(ast.Unparen(l.X)) + "[" + core.ExprStr(l.Key) + "]"
			}
			out = append(out, cl)
		case *ast.ForStmt:
			if l.Cond == nil || l.Init == nil {
				return true
			}
			init, ok := l.Init.(*ast.AssignStmt)
			if !ok || len(init.Lhs) != 1 {
				return true
			}
			iv := core.ExprStr(init.Lhs[0])
			be, ok := ast.Unparen(l.Cond).(*ast.BinaryExpr)
			if !ok || core.ExprStr(be.X) != iv {
				return true
			}
			// i < len(E)   or   i < n with n := len(E)
			var collExpr ast.Expr
			if call, ok := ast.Unparen(be.Y).(*ast.CallExpr); ok && core.ExprStr(call.Fun) == "len" && len(call.Args) == 1 {
				collExpr = call.Args[0]
			} else if a, ok := alias[core.ExprStr(be.Y)]; ok && strings.HasPrefix(a, "len(") && strings.HasSuffix(a, ")") {
				// n := len(E): alias holds "len(E)"
				inner := a[4 : len(a)-1]
				out = append(out, collLoop{node: l, body: l.Body, coll: func() string {
					if r, ok := alias[inner]; ok {
						return r
					}
					return inner
				}(), elem: inner + "[" + iv + "]"})
				return true
			}
			if collExpr == nil {
				return true
			}
			out = append(out, collLoop{node: l, body: l.Body, coll: resolve(collExpr), elem: core.ExprStr(ast.Unparen(collExpr)) + "[" + iv + "]"})
		}
		return true
	})
	return out
}

// pinnedBare: the bare name of a function as the pinned tree knew it (the same name unless the
// function was renamed since; see core/anchors.go).
func pinnedBare(f *ssa.Function) string {
	n := core.FuncName(f)
	if i := strings.LastIndex(n, "."); i >= 0 {
		n = n[i+1:]
	}
	return n
}

// sameResult: f returns exactly what g returns (a constructor that delegates to another constructor
// of the package is evaluated through).
func sameResult(f, g *ssa.Function) bool {
	if f == nil || g == nil || f == g {
		return false
	}
	return types.Identical(f.Signature.Results(), g.Signature.Results()) && f.Signature.Results().Len() > 0
}
