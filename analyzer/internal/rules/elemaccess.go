package rules

import (
	"go/ast"
	"go/token"
	"go/types"
	"sort"
	"strings"

	"jsverif/internal/core"
)

// Element-access obligations (engine E2): first/last-element accesses,
// constant-bound slicing and scanner lookaheads must be dominated by a guard
// that implies the access is in bounds, or be listed in elemTable with the
// caller-side invariant that makes them safe.

// scanner structs keep `dataSize` = length of `data` (set once in the
// constructors; checked by rule elem.sizefield).
var sizeFields = map[string]string{"dataSize": "data"}

type elemSite struct {
	pk        *packagesPackage
	fd        *ast.FuncDecl
	fn        string
	node      ast.Node
	kind      string // "index", "slice", "FirstByte", "LastByte", "Byte", "lookahead"
	container string
	contExpr  ast.Expr
	need      int64  // required lower bound of len(container)
	offset    int64  // lookahead offset
	base      string // lookahead base expr
	text      string
	status    string // "guard", "table", "open"
	why       string
}

func (s *elemSite) key() string {
	return s.fn + ":" + s.text
}

// elemTable: sites the catalogue cannot discharge, safe by an invariant
// established elsewhere. key = function:expression
var elemTable = map[string]string{
	// accessor primitives: the obligation is carried by every call site of FirstByte/LastByte (they are sites themselves)
	"(bytes.Bytes).FirstByte:b.data[0]":                                            "primitive accessor; every FirstByte() call site is its own obligation",
	"(bytes.Bytes).LastByte:b.data[b.Len() - 1]":                                   "primitive accessor; every LastByte() call site is its own obligation",
	"(bytes.Bytes).ParseInt:b.data[0]":                                             "only caller json.(*scanner).setExp passes value.SubLow(expBegin) with expBegin != 0 set at an exponent byte that exists, so the receiver is non-empty (caller-side check: rule C02.elem.callers)",
	"(bytes.Bytes).ParseInt:b.data[1:]":                                            "dominated by b.data[0] == '-' which already requires len >= 1",
	"(bytes.Bytes).TrimSquareBrackets:b.data[1:lastCharIndex]":                     "dominated by lastCharIndex > 0 with lastCharIndex = len-1 (alias with offset inside a slice bound)",
	"(*notations/jschema.exampleBuilder).buildObjectKey:quoted[1:len(quoted) - 1]": "quoted is the result of encoding/json.Marshal of a Go string, which always yields a quoted JSON string (len >= 2); the error result is checked just above",
	"bytes.QuoteChar:s[1:len(s) - 1]":                                              "s is the result of strconv.Quote, which always starts and ends with a quote (len >= 2)",
	"(*json.Number).trimLeadingZerosInTheIntegerPart:n.nat.FirstByte()":            "loop runs intLen = len(nat)-exp times with 0 <= exp <= len(nat) checked just above, and removes one byte per iteration, so nat is non-empty whenever intLen != 0",
	"(*rules/enum.Enum).handleEndOfComment:e.values[len(e.values) - 1]":            "collectLiteral is set only right after handleLiteralEnd appended a value (doCompile), and values never shrink",
	"notations/jschema/ischema/constraint.parseBytes:b[8]":                         "copied from google/uuid: every non-returning case of the preceding `switch len(b)` leaves len(b) == 36",
	"notations/jschema/ischema/constraint.parseBytes:b[13]":                        "see b[8]",
	"notations/jschema/ischema/constraint.parseBytes:b[18]":                        "see b[8]",
	"notations/jschema/ischema/constraint.parseBytes:b[23]":                        "see b[8]",
	"notations/jschema/loader.checkBranchNodeWithOrConstraint:n[0]":                "names of a TypesList on a branch node come from the `or` loaders, which add a name only if IsUserTypeName() (len >= 2) or a generated `#%p` name",
	"openapi/internal.TokenType:s[0]":                                              "argument is the `type` value of an accepted schema's rule; the compiler rejects empty type names with ErrUnknownValueOfTheTypeRule (102) before any OpenAPI conversion",
	"openapi/internal/jsoac.newStringAdditionalProperties:r.Value[0]":              "additionalProperties value of an accepted schema: the loader rejects the empty name with ErrUnknownJSchemaType (103)",
	"openapi/internal/jsoac.makeAdditionalAnyJSONObjects:r.Value[0]":               "same as newStringAdditionalProperties",
}

func deref(t types.Type) types.Type {
	if p, ok := t.Underlying().(*types.Pointer); ok {
		return p.Elem()
	}
	return t
}

func isSliceOrString(t types.Type) bool {
	if t == nil {
		return false
	}
	switch u := t.Underlying().(type) {
	case *types.Slice:
		return true
	case *types.Basic:
		return u.Info()&types.IsString != 0
	}
	return false
}

// splitOffset canonicalises `base + k` / `(base + k)` / `base`.
func splitOffset(pk *packagesPackage, e ast.Expr) (string, int64, bool) {
	_, s, o, ok := splitOffsetE(pk, e)
	return s, o, ok
}

func splitOffsetE(pk *packagesPackage, e ast.Expr) (ast.Expr, string, int64, bool) {
	e = ast.Unparen(e)
	if be, ok := e.(*ast.BinaryExpr); ok && (be.Op == token.ADD || be.Op == token.SUB) {
		if k, ok := constInt(pk, be.Y); ok {
			be2, b, off, ok2 := splitOffsetE(pk, be.X)
			if !ok2 {
				return nil, "", 0, false
			}
			if be.Op == token.SUB {
				k = -k
			}
			return be2, b, off + k, true
		}
		if k, ok := constInt(pk, be.X); ok && be.Op == token.ADD {
			be2, b, off, ok2 := splitOffsetE(pk, be.Y)
			if !ok2 {
				return nil, "", 0, false
			}
			return be2, b, off + k, true
		}
		return nil, "", 0, false
	}
	if _, ok := constInt(pk, e); ok {
		return nil, "", 0, false
	}
	return e, core.ExprStr(e), 0, true
}

func constInt(pk *packagesPackage, e ast.Expr) (int64, bool) {
	v := core.ConstOf(pk, e)
	if v == nil {
		return 0, false
	}
	if n, ok := constantInt64(v); ok {
		return n, true
	}
	return 0, false
}

func mentionsIndexField(e ast.Expr) bool {
	found := false
	ast.Inspect(e, func(n ast.Node) bool {
		if se, ok := n.(*ast.SelectorExpr); ok && se.Sel.Name == "index" {
			found = true
		}
		return true
	})
	return found
}

// helperSummary: for a call to a boolean module method on a container, the
// lower bound on the receiver's length implied by the result being `truth`.
func helperSummary(c *core.Ctx, callerEnv *core.LenEnv) func(call *ast.CallExpr, truth bool) (string, int64) {
	return func(call *ast.CallExpr, truth bool) (string, int64) {
		if !truth {
			return "", 0
		}
		se, ok := call.Fun.(*ast.SelectorExpr)
		if !ok {
			return "", 0
		}
		obj, _ := core.Callee(callerEnv.Pk, call).(*types.Func)
		if obj == nil || obj.Pkg() == nil || !strings.HasPrefix(obj.Pkg().Path(), core.Module) {
			return "", 0
		}
		d := c.P.FindDecl(core.FullName(obj))
		if d == nil || d.Decl.Recv == nil || len(d.Decl.Recv.List[0].Names) == 0 || d.Decl.Body == nil {
			return "", 0
		}
		sig := obj.Type().(*types.Signature)
		if sig.Results().Len() != 1 || !types.Identical(sig.Results().At(0).Type(), types.Typ[types.Bool]) {
			return "", 0
		}
		recvName := d.Decl.Recv.List[0].Names[0]
		env := core.NewLenEnv(d.Pkg, d.Decl, sizeFields)
		calleeCont := env.ContainerKey(recvName)
		best := int64(-1)
		var stack []ast.Node
		ast.Inspect(d.Decl, func(n ast.Node) bool {
			if n == nil {
				stack = stack[:len(stack)-1]
				return true
			}
			stack = append(stack, n)
			if _, isLit := n.(*ast.FuncLit); isLit {
				stack = stack[:len(stack)-1]
				return false
			}
			ret, ok := n.(*ast.ReturnStmt)
			if !ok || len(ret.Results) != 1 {
				return true
			}
			if v := core.ConstOf(d.Pkg, ret.Results[0]); v != nil && !constantBool(v) {
				return true // return false
			}
			facts := core.FactsAt(d.Pkg, stack)
			// the returned expression being true
			facts = append(facts, decompose(core.Fact{Cond: ret.Results[0], Truth: true})...)
			lb, _ := env.LowerBound(calleeCont, facts, nil)
			if best < 0 || lb < best {
				best = lb
			}
			return true
		})
		if best <= 0 {
			return "", 0
		}
		return callerEnv.ContainerKey(se.X), best
	}
}

func decompose(f core.Fact) []core.Fact {
	e := ast.Unparen(f.Cond)
	switch x := e.(type) {
	case *ast.UnaryExpr:
		if x.Op == token.NOT {
			return decompose(core.Fact{Cond: x.X, Truth: !f.Truth})
		}
	case *ast.BinaryExpr:
		if (x.Op == token.LAND && f.Truth) || (x.Op == token.LOR && !f.Truth) {
			return append(decompose(core.Fact{Cond: x.X, Truth: f.Truth}), decompose(core.Fact{Cond: x.Y, Truth: f.Truth})...)
		}
	}
	return []core.Fact{{Cond: e, Truth: f.Truth}}
}

var elemCache = map[*core.Program][]*elemSite{}

// elemSites discovers and discharges all element-access sites in scope.
func elemSites(c *core.Ctx) []*elemSite {
	if s, ok := elemCache[c.P]; ok {
		return s
	}
	var sites []*elemSite
	envs := map[*ast.FuncDecl]*core.LenEnv{}
	c.P.ForEachNode(func(pk *packagesPackage, file *ast.File, stack []ast.Node, n ast.Node) bool {
		fd := enclosingDecl(stack)
		if fd == nil {
			return true
		}
		env := envs[fd]
		if env == nil {
			env = core.NewLenEnv(pk, fd, sizeFields)
			envs[fd] = env
		}
		var st *elemSite
		mk := func(kind string, cont ast.Expr, need int64) *elemSite {
			return &elemSite{pk: pk, fd: fd, fn: core.DeclName(pk, fd), node: n, kind: kind, container: env.ContainerKey(cont), contExpr: cont, need: need}
		}
		switch x := n.(type) {
		case *ast.IndexExpr:
			t := core.TypeOf(pk, x.X)
			if t == nil || !isSliceOrString(deref(t)) {
				return true
			}
			if _, isPtr := t.Underlying().(*types.Pointer); isPtr {
				return true
			}
			if k, ok := constInt(pk, x.Index); ok {
				st = mk("index", x.X, k+1)
			} else if be, _, off, ok := splitOffsetE(pk, x.Index); ok && off < 0 {
				// x[len(x)-1]
				if lk := env.LenKey(be); lk != "" && lk == env.ContainerKey(x.X) {
					st = mk("index", x.X, -off)
				}
			}
		case *ast.SliceExpr:
			t := core.TypeOf(pk, x.X)
			if t == nil || !isSliceOrString(t) {
				return true
			}
			var need int64 = -1
			for _, b := range []ast.Expr{x.Low, x.High, x.Max} {
				if b == nil {
					continue
				}
				if k, ok := constInt(pk, b); ok && k > need {
					need = k
				}
			}
			if need > 0 {
				st = mk("slice", x.X, need)
			}
		case *ast.CallExpr:
			se, ok := x.Fun.(*ast.SelectorExpr)
			if !ok {
				return true
			}
			obj, _ := core.Callee(pk, x).(*types.Func)
			if obj == nil {
				return true
			}
			switch core.FullName(obj) {
			case "(bytes.Bytes).FirstByte":
				st = mk("FirstByte", se.X, 1)
			case "(bytes.Bytes).LastByte":
				st = mk("LastByte", se.X, 1)
			case "(bytes.Bytes).Byte":
				if len(x.Args) != 1 {
					return true
				}
				if k, ok := constInt(pk, x.Args[0]); ok {
					st = mk("Byte", se.X, k+1)
				} else if mentionsIndexField(x.Args[0]) {
					if b, off, ok := splitOffset(pk, x.Args[0]); ok {
						st = mk("lookahead", se.X, 0)
						st.base, st.offset = b, off
					}
				}
			}
		}
		if st == nil {
			return true
		}
		st.text = core.ExprStr(n.(ast.Expr))
		facts := core.FactsAt(pk, stack)
		if st.kind == "lookahead" {
			// need a fact  base+j < size (true)  or  base+j >= size (false), j >= offset
			for _, f := range facts {
				be, ok := f.Cond.(*ast.BinaryExpr)
				if !ok {
					continue
				}
				op, l, r := be.Op, be.X, be.Y
				if env.LenKey(l) == st.container && env.LenKey(r) != st.container {
					l, r = r, l
					switch op {
					case token.GTR:
						op = token.LSS
					case token.LEQ:
						op = token.GEQ
					case token.LSS:
						op = token.GTR
					case token.GEQ:
						op = token.LEQ
					}
				}
				if env.LenKey(r) != st.container {
					continue
				}
				b, off, ok := splitOffset(pk, l)
				if !ok || b != st.base || off < st.offset {
					continue
				}
				if (op == token.LSS && f.Truth) || (op == token.GEQ && !f.Truth) {
					st.status, st.why = "guard", condStr(f)
					break
				}
			}
		} else {
			lb, why := env.LowerBound(st.container, facts, helperSummary(c, env))
			if lb >= st.need {
				// the guard must not be invalidated by an assignment in between
				var gpos token.Pos
				for _, f := range facts {
					if condStr(f) == why || strings.Contains(condStr(f), why) {
						gpos = f.Pos
					}
				}
				if gpos.IsValid() && env.AssignedBetween(st.contExpr, gpos, n.Pos()) {
					st.status, st.why = "open", "guard "+why+" is followed by an assignment to the container before the access"
				} else {
					st.status, st.why = "guard", why
				}
			}
		}
		if st.status == "" {
			if r, ok := tableGetMoved(c, elemTable, st.key()); ok {
				st.status, st.why = "table", r
			} else {
				st.status = "open"
				if st.why == "" {
					if st.kind == "lookahead" {
						st.why = core.F("no dominating guard `%s+%d < len(%s)`", st.base, st.offset, st.container)
					} else {
						st.why = core.F("no dominating guard implies len(%s) >= %d", st.container, st.need)
					}
				}
			}
		}
		sites = append(sites, st)
		return true
	})
	sort.SliceStable(sites, func(i, j int) bool { return sites[i].key() < sites[j].key() })
	elemCache[c.P] = sites
	return sites
}

func condStr(f core.Fact) string {
	s := core.ExprStr(f.Cond)
	if !f.Truth {
		return "!(" + s + ")"
	}
	return s
}
