package rules

import (
	"go/types"
	"sort"
	"strings"

	"golang.org/x/tools/go/ssa"

	"jsverif/internal/absint"
	"jsverif/internal/core"
)

// acceptSet evaluates a boolean function symbolically and returns the set of guard
// conjunctions under which it returns true (each conjunction a sorted, "&&"-joined list of
// atoms). A symbolic boolean result is split into its two cases. `inline` names callees that
// are evaluated through; `norm` rewrites spellings of the same input (accessor chains) to one.
func acceptSet(c *core.Ctx, f *ssa.Function, inline map[string]bool, norm func(string) string) (map[string]bool, string) {
	in := absint.New(absint.Config{InModule: c.P.FuncInModule, MaxDepth: 6, Inline: func(g *ssa.Function) bool { return inline[core.FuncName(g)] }})
	var as []absint.Val
	for _, pr := range f.Params {
		if _, ok := pr.Type().Underlying().(*types.Pointer); ok {
			as = append(as, absint.Ptr{Base: "g"})
		} else {
			as = append(as, absint.Param("g"))
		}
	}
	acc := map[string]bool{}
	for _, o := range in.Run(f, as, nil) {
		if o.Kind != "return" {
			return nil, "a path does not return (" + o.Kind + ")"
		}
		var gs []string
		for _, at := range o.St.Atoms {
			gs = append(gs, norm(at.String()))
		}
		switch v := o.Val.(type) {
		case absint.Const:
			if v.V == nil {
				return nil, "nil result"
			}
			if v.V.ExactString() != "true" {
				continue
			}
		default:
			gs = append(gs, norm(o.Val.Key())) // returns the truth of this expression
		}
		sort.Strings(gs)
		// drop duplicates
		var u []string
		for i, g := range gs {
			if i == 0 || g != gs[i-1] {
				u = append(u, g)
			}
		}
		acc[strings.Join(u, " && ")] = true
	}
	return acc, ""
}

// predEquiv: two boolean functions accept under exactly the same guard conjunctions.
func predEquiv(c *core.Ctx, R, fa, fb string, inline []string, norm func(string) string, why string) {
	a, b := findFunc(c, fa), findFunc(c, fb)
	if a == nil || b == nil {
		c.Unresolved(R, fa+" / "+fb)
		return
	}
	inl := map[string]bool{}
	for _, n := range inline {
		inl[n] = true
	}
	sa, wa := acceptSet(c, a, inl, norm)
	sb, wb := acceptSet(c, b, inl, norm)
	key := "equiv:" + fa + "=" + fb
	pos := c.P.Pos(a.Pos())
	what := fa + " accepts exactly when " + fb + " does (symbolic accept sets)"
	if sa == nil || sb == nil {
		c.Bad(R, key, pos, what, "undecided: "+wa+wb)
		return
	}
	diff := ""
	for k := range sa {
		if !sb[k] {
			diff = "only " + fa + " accepts under [" + clip(k, 300) + "]"
		}
	}
	for k := range sb {
		if !sa[k] && diff == "" {
			diff = "only " + fb + " accepts under [" + clip(k, 300) + "]"
		}
	}
	c.Check(diff == "", R, key, pos, core.F("%s (%d accepting cases)", what, len(sa)), why+": "+diff)
}
