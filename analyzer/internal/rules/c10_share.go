package rules

import (
	"go/ast"
	"go/types"
	"strings"

	"jsverif/internal/core"
)

// c10share: read-only consumers of a schema's model (the OpenAPI converter, the example builder)
// may build helper structs that point to containers of the model, but then they must not call a
// mutating method on them; a helper struct whose container field is mutated must own a fresh
// container.
func c10share(R string) RuleFunc {
	return func(c *core.Ctx) {
		c.Rule(R, "in the read-only consumers of the model (packages openapi/**, the example builder): a struct field of ordered-container type (*RuleASTNodes, *ASTNodes, *Constraints, *StringSet) on which a mutating method (Set, Update, Delete, Filter, Map, Add) is called somewhere in those packages must be initialised only with fresh containers (&T{}, new(T), MakeT(...)): initialising it from a container that belongs to the schema's stored AST makes the conversion write into the model (GetAST() results change after an OpenAPI conversion; a second conversion sees the first one's edits)")
		c.Floor(R, 2)
		cts := containers(c, R)
		isContainerPtr := func(t types.Type) *container {
			p, ok := t.(*types.Pointer)
			if !ok {
				return nil
			}
			for _, ct := range cts {
				if types.Identical(p.Elem(), ct.named) {
					return ct
				}
			}
			return nil
		}
		inRO := func(rel, fn string) bool {
			return strings.HasPrefix(rel, "openapi") || (rel == "notations/jschema" && strings.Contains(fn, "exampleBuilder"))
		}
		mutating := map[string]bool{"Set": true, "Update": true, "Delete": true, "Filter": true, "Map": true, "Add": true}
		// 1. fields mutated in RO packages: key = struct type + "." + field
		mutated := map[string]string{}
		for _, cs := range c.P.Calls() {
			rel := core.Rel(cs.Pkg.PkgPath)
			fn := core.DeclName(cs.Pkg, cs.Decl)
			if !inRO(rel, fn) {
				continue
			}
			se, ok := cs.Call.Fun.(*ast.SelectorExpr)
			if !ok || !mutating[se.Sel.Name] {
				continue
			}
			if isContainerPtr(core.TypeOf(cs.Pkg, se.X)) == nil {
				continue
			}
			// receiver must be a field selector x.F
			fs, ok := ast.Unparen(se.X).(*ast.SelectorExpr)
			if !ok {
				continue
			}
			sel := cs.Pkg.TypesInfo.Selections[fs]
			if sel == nil || sel.Kind() != types.FieldVal {
				continue
			}
			mutated[fieldKey(sel.Obj().(*types.Var), sel.Recv())] = fn + " at " + c.P.Pos(cs.Call.Pos())
		}
		fresh := func(pk *packagesPackage, e ast.Expr) bool {
			e = ast.Unparen(e)
			switch x := e.(type) {
			case *ast.UnaryExpr:
				_, isLit := x.X.(*ast.CompositeLit)
				return isLit
			case *ast.CallExpr:
				if id, ok := x.Fun.(*ast.Ident); ok && id.Name == "new" {
					return true
				}
				name := core.FullName(core.Callee(pk, x))
				return strings.Contains(name, ".Make") || strings.HasSuffix(name, ".newRules")
			case *ast.Ident:
				return x.Name == "nil"
			}
			return false
		}
		// 2. initialisers of container fields in RO packages
		n := 0
		for _, d := range c.P.FuncDecls() {
			rel := core.Rel(d.Pkg.PkgPath)
			fn := core.DeclName(d.Pkg, d.Decl)
			if !inRO(rel, fn) {
				continue
			}
			check := func(field *types.Var, recv types.Type, val ast.Expr, at ast.Node) {
				if isContainerPtr(field.Type()) == nil {
					return
				}
				key := fieldKey(field, recv)
				n++
				okey := core.F("%s:init:%s#%d", fn, key, n)
				what := core.F("%s initialised with `%s` in %s", key, core.ExprStr(val), fn)
				if fresh(d.Pkg, val) {
					c.OKd(R, okey, c.P.Pos(at.Pos()), what, "fresh container")
					return
				}
				if where, isMut := mutated[key]; isMut {
					c.Bad(R, okey, c.P.Pos(at.Pos()), what, "the container is shared with another object (not a fresh one) and the same field is mutated in "+where+": the read-only conversion writes into the schema's stored model")
				} else {
					c.OKd(R, okey, c.P.Pos(at.Pos()), what, "shared container, never mutated through this field in the read-only packages")
				}
			}
			ast.Inspect(d.Decl.Body, func(nd ast.Node) bool {
				switch x := nd.(type) {
				case *ast.CompositeLit:
					tt := core.TypeOf(d.Pkg, x)
					if tt == nil {
						return true
					}
					base := tt
					if p, ok := tt.Underlying().(*types.Pointer); ok {
						base = p.Elem()
					}
					st, ok := base.Underlying().(*types.Struct)
					if !ok {
						return true
					}
					for _, el := range x.Elts {
						kv, ok := el.(*ast.KeyValueExpr)
						if !ok {
							continue
						}
						id, ok := kv.Key.(*ast.Ident)
						if !ok {
							continue
						}
						for i := 0; i < st.NumFields(); i++ {
							if st.Field(i).Name() == id.Name {
								check(st.Field(i), base, kv.Value, kv)
							}
						}
					}
				case *ast.AssignStmt:
					if len(x.Lhs) != len(x.Rhs) {
						return true
					}
					for i, l := range x.Lhs {
						if se, ok := ast.Unparen(l).(*ast.SelectorExpr); ok {
							if sel := d.Pkg.TypesInfo.Selections[se]; sel != nil && sel.Kind() == types.FieldVal {
								check(sel.Obj().(*types.Var), sel.Recv(), x.Rhs[i], x)
							}
						}
					}
				}
				return true
			})
		}
	}
}
