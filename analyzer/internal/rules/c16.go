package rules

import "jsverif/internal/core"

func init() {
	Register("C16", "Decides structural necessary conditions of 'every rejection is a well-formed diagnostic': (fmt) the error-code/format table and all Code.F call sites agree in arity and verb/type so no rejection degrades to code 1 'Runtime Failure' or a struct dump. (render) the standard-library calls of the renderer cannot panic; (raw) the element accesses that would surface as a raw Go runtime error instead of a diagnostic are guarded (= C02.elem). (linecol) LineAndColumn is a per-byte counter under the text's newline symbol and is recomputed whenever index or file change.",
		convertAllRule("C16.convertall"), c16fmt, c16render, c16stale, c16positioned, c16emptytype, c16linecol, c16newline, c16rebase, constFmtRule("C16.constfmt"), eofPairsRule("C16.eofpairs"), rewindRule("C16.rewind"), func(c *core.Ctx) { c02elemAs(c, "C16.raw") }, func(c *core.Ctx) { c02varidxAs(c, "C16.rawidx") })
}
