package rules

func init() {
	Register("C16", "Decides structural necessary conditions of 'every rejection is a well-formed diagnostic': (fmt) the error-code/format table and all Code.F call sites agree in arity and verb/type so no rejection degrades to code 1 'Runtime Failure' or a struct dump. Does NOT decide line/column arithmetic or String() rendering.",
		c16fmt, c16render)
}
