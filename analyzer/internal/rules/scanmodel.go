package rules

import (
	"fmt"
	"go/constant"
	"go/types"
	"os"
	"runtime"
	"sort"
	"strings"
	"time"

	"golang.org/x/tools/go/ssa"

	"jsverif/internal/absint"
	"jsverif/internal/core"
)

// Engine E3: per-byte summaries of scanner state functions.

type scanPath struct {
	atoms       []absint.Atom
	guard       string   // canonical guard string
	kind        string   // "return" | "panic" | "error" (enum scanner returns an error) | "abort"
	next        string   // name of the next state function ("" = unchanged, "<pop>" = popped from returnToStep, "<dyn>" = not a constant)
	unfinished  string   // "", "true", "false"
	finds       []string // lexeme type constant names in order
	pushes      []string // state names pushed on returnToStep
	pops        int
	stores      []string // other stores to scanner fields, "field=value"
	errCtx      string   // context string / code of the raised error
	lookahead   []string // data.Byte(index+k) reads
	retVal      string
	fieldStores []fieldStore
	ops         []scanOp
}

type fieldStore struct {
	name string
	val  absint.Val
}

// scanOp: the effects of a path in program order (used by models that track more state).
type scanOp struct {
	kind string // "store", "found", "push", "pop", "call"
	name string // field / stack expression / lexeme
	val  absint.Val
}

func (p *scanPath) String() string {
	var b strings.Builder
	b.WriteString("[" + p.guard + "] ")
	b.WriteString(p.kind)
	if p.next != "" {
		b.WriteString(" step=" + p.next)
	}
	if p.unfinished != "" {
		b.WriteString(" unfinished=" + p.unfinished)
	}
	if len(p.finds) > 0 {
		b.WriteString(" found(" + strings.Join(p.finds, ",") + ")")
	}
	if len(p.pushes) > 0 {
		b.WriteString(" push(" + strings.Join(p.pushes, ",") + ")")
	}
	if p.pops > 0 {
		b.WriteString(core.F(" pop*%d", p.pops))
	}
	if len(p.stores) > 0 {
		b.WriteString(" " + strings.Join(p.stores, " "))
	}
	if p.errCtx != "" {
		b.WriteString(" err{" + p.errCtx + "}")
	}
	if p.retVal != "" {
		b.WriteString(" ret=" + p.retVal)
	}
	return b.String()
}

type scanRow struct {
	paths []scanPath
	key   string // canonical rendering (byte masked)
}

type scanModel struct {
	pkgRel    string
	recvType  string // "Scanner" / "scanner"
	method    bool   // state functions are methods (enum) rather than funcs taking *scanner
	states    map[string]*ssa.Function
	names     []string
	rows      map[string]*[256]scanRow
	lexNames  map[int64]string
	initial   string
	selfName  string
	undecided []string
}

var scanModelCache = map[string]*scanModel{}

func lexemeNames(c *core.Ctx) map[int64]string {
	out := map[int64]string{}
	nt := c.P.NamedType("lexeme", "LexEventType")
	if nt == nil {
		return out
	}
	for _, k := range core.ConstsOfType(c.P.Pkg("lexeme"), nt) {
		if v, ok := constantInt64(k.Val); ok {
			out[v] = k.Name
		}
	}
	return out
}

// isStateSig: last param byte; first result the package's `state` type.
func isStateSig(f *ssa.Function) bool {
	sig := f.Signature
	n := sig.Params().Len()
	if n == 0 || sig.Results().Len() == 0 {
		return false
	}
	b, ok := sig.Params().At(n - 1).Type().Underlying().(*types.Basic)
	if !ok || b.Kind() != types.Uint8 {
		return false
	}
	r0, ok := sig.Results().At(0).Type().(*types.Named)
	return ok && r0.Obj().Name() == "state"
}

// buildScanModel extracts the per-byte summaries of all state functions of a scanner package.
func buildScanModel(c *core.Ctx, pkgRel string) *scanModel {
	ck := c.P.Dir + "|" + c.P.GOARCH + "|" + pkgRel
	if m, ok := scanModelCache[ck]; ok {
		return m
	}
	m := &scanModel{pkgRel: pkgRel, states: map[string]*ssa.Function{}, rows: map[string]*[256]scanRow{}, lexNames: lexemeNames(c)}
	sp := c.P.SSAPkg(pkgRel)
	if sp == nil {
		return m
	}
	pkgPath := core.Module + "/" + pkgRel
	for _, mem := range sp.Members {
		switch x := mem.(type) {
		case *ssa.Function:
			if isStateSig(x) && x.Blocks != nil {
				m.states[x.Name()] = x
			}
		case *ssa.Type:
			ms := c.P.SSA.MethodSets.MethodSet(types.NewPointer(x.Type()))
			for i := 0; i < ms.Len(); i++ {
				fo, _ := ms.At(i).Obj().(*types.Func)
				if f := c.P.SSA.FuncValue(fo); f != nil && f.Blocks != nil && f.Pkg == sp && isStateSig(f) {
					m.states[f.Name()] = f
					m.method = true
				}
			}
		}
	}
	for n := range m.states {
		m.names = append(m.names, n)
	}
	sort.Strings(m.names)

	effectNames := map[string]bool{"found": true, "Push": true, "Pop": true, "validateValue": true}
	pureNames := map[string]bool{"Len": true, "Peek": true, "Get": true, "newJSchemaErrorAtCharacter": true, "newJSchemaError": true, "NewJSchemaError": true, "F": true, "Byte": true, "SetIndex": true}
	cfg := absint.Config{
		InModule:  c.P.FuncInModule,
		SelfBases: map[string]bool{"s": true},
		MaxDepth:  24,
		Effect: func(f *ssa.Function) bool {
			return effectNames[baseName(f)] && (core.FuncPkgPath(f) == pkgPath || strings.HasSuffix(core.FuncPkgPath(f), "internal/ds"))
		},
	}
	newInterp := func() *absint.Interp {
		var in *absint.Interp
		cf := cfg
		cf.Inline = func(f *ssa.Function) bool {
			pp := core.FuncPkgPath(f)
			if pureNames[baseName(f)] && (pp == pkgPath || strings.HasSuffix(pp, "internal/ds") || strings.HasSuffix(pp, "/errs") || strings.HasSuffix(pp, "/kit") || strings.HasSuffix(pp, "/bytes")) {
				return false
			}
			if pp != pkgPath && pp != core.Module+"/bytes" {
				return false
			}
			return f.Blocks != nil && !in.HasLoop(f)
		}
		in = absint.New(cf)
		return in
	}

	type res struct {
		name string
		rows *[256]scanRow
		und  []string
	}
	jobs := make(chan string, len(m.names))
	out := make(chan res, len(m.names))
	workers := runtime.NumCPU()
	if workers > len(m.names) {
		workers = len(m.names)
	}
	for w := 0; w < workers; w++ {
		go func() {
			in := newInterp()
			for n := range jobs {
				f := m.states[n]
				if os.Getenv("JSV_DEBUG") != "" {
					fmt.Fprintln(os.Stderr, "summarising", pkgRel, n, time.Now().Format("15:04:05"))
				}
				var rows [256]scanRow
				var und []string
				for b := 0; b < 256; b++ {
					args := []absint.Val{absint.Ptr{Base: "s"}, absint.MkByte(b)}
					outs := in.Run(f, args, nil)
					row := scanRow{}
					for _, o := range outs {
						row.paths = append(row.paths, m.project(o))
					}
					sort.Slice(row.paths, func(i, j int) bool { return row.paths[i].String() < row.paths[j].String() })
					var ks []string
					for i := range row.paths {
						ks = append(ks, row.paths[i].String())
						if row.paths[i].kind == "abort" {
							und = append(und, core.F("%s on byte %d: %s", n, b, row.paths[i].errCtx))
						}
					}
					row.key = strings.Join(ks, " || ")
					rows[b] = row
				}
				out <- res{n, &rows, und}
			}
		}()
	}
	for _, n := range m.names {
		jobs <- n
	}
	close(jobs)
	for range m.names {
		r := <-out
		m.rows[r.name] = r.rows
		m.undecided = append(m.undecided, r.und...)
	}
	sort.Strings(m.undecided)
	scanModelCache[ck] = m
	return m
}

func stateNameOf(v absint.Val) string {
	switch x := v.(type) {
	case absint.FuncV:
		return strings.TrimSuffix(x.Fn.Name(), "$bound")
	case absint.Sym:
		if x.Op == "call" && strings.Contains(x.Name, ").Pop") {
			return "<pop>"
		}
	}
	return "<dyn>"
}

func (m *scanModel) lexName(v absint.Val) string {
	if cst, ok := v.(absint.Const); ok && cst.V != nil && cst.V.Kind() == constant.Int {
		if n, ok := constant.Int64Val(cst.V); ok {
			if s, ok := m.lexNames[n]; ok {
				return s
			}
			return core.F("lex#%d", n)
		}
	}
	return "?" + v.Key()
}

func (m *scanModel) project(o absint.Outcome) scanPath {
	p := scanPath{kind: o.Kind, atoms: o.St.Atoms}
	var gs []string
	for _, a := range o.St.Atoms {
		gs = append(gs, a.String())
	}
	sort.Strings(gs)
	p.guard = strings.Join(gs, " && ")
	for _, e := range o.St.Effects {
		switch e.Kind {
		case "store":
			field := strings.TrimPrefix(e.What, "s.")
			p.ops = append(p.ops, scanOp{"store", field, e.Args[0]})
			switch field {
			case "step":
				p.next = stateNameOf(e.Args[0])
			case "unfinishedLiteral":
				p.unfinished = e.Args[0].Key()
			default:
				p.stores = append(p.stores, field+"="+e.Args[0].Key())
				p.fieldStores = append(p.fieldStores, fieldStore{field, e.Args[0]})
			}
		case "call":
			switch {
			case strings.HasSuffix(e.What, ").found"):
				p.finds = append(p.finds, m.lexName(e.Args[len(e.Args)-1]))
				p.ops = append(p.ops, scanOp{"found", m.lexName(e.Args[len(e.Args)-1]), nil})
			case strings.Contains(e.What, ").Push"):
				p.ops = append(p.ops, scanOp{"push", e.Args[0].Key(), e.Args[len(e.Args)-1]})
				if strings.Contains(e.Args[0].Key(), "returnToStep") {
					p.pushes = append(p.pushes, stateNameOf(e.Args[len(e.Args)-1]))
				} else {
					p.stores = append(p.stores, e.String())
				}
			case strings.Contains(e.What, ").Pop"):
				p.ops = append(p.ops, scanOp{"pop", e.Args[0].Key(), nil})
				if strings.Contains(e.Args[0].Key(), "returnToStep") {
					p.pops++
				} else {
					p.stores = append(p.stores, e.String())
				}
			default:
				p.stores = append(p.stores, e.String())
			}
		case "abort":
			p.kind = "abort"
			p.errCtx = e.What
		default:
			p.stores = append(p.stores, e.String())
		}
	}
	switch o.Kind {
	case "panic":
		p.errCtx = errContext(o.Val)
	case "return":
		if t, ok := o.Val.(absint.Tuple); ok && len(t.Vs) == 2 {
			// enum scanner: (state, error)
			if cst, ok := t.Vs[1].(absint.Const); ok && cst.V == nil {
				p.retVal = t.Vs[0].Key()
			} else {
				p.kind = "error"
				p.errCtx = errContext(t.Vs[1])
			}
		} else {
			p.retVal = o.Val.Key()
		}
	}
	return p
}

// errContext extracts the constant context/code of an error value built by the scanner helpers.
func errContext(v absint.Val) string {
	var parts []string
	var walk func(v absint.Val)
	walk = func(v absint.Val) {
		switch x := v.(type) {
		case absint.Const:
			if x.V != nil && x.Tag == "" {
				parts = append(parts, x.V.ExactString())
			}
		case absint.Sym:
			if x.Op == "call" {
				parts = append(parts, x.Name[strings.LastIndex(x.Name, ".")+1:])
			}
			for _, a := range x.Args {
				walk(a)
			}
		case absint.Tuple:
			for _, a := range x.Vs {
				walk(a)
			}
		}
	}
	walk(v)
	s := strings.Join(parts, " ")
	if len(s) > 160 {
		s = s[:160]
	}
	return s
}

// baseName: function name without type arguments.
func baseName(f *ssa.Function) string {
	n := f.Name()
	if i := strings.Index(n, "["); i >= 0 {
		n = n[:i]
	}
	return n
}
