package rules

import (
	"go/ast"
	"go/constant"
	"go/types"
	"sort"
	"strings"

	"jsverif/internal/core"
)

// errTables decodes errs.Code constants and errs.errorFormat from the source.
type errTables struct {
	codeType types.Type
	consts   []core.NamedConst
	byName   map[string]core.NamedConst
	format   map[string]string // const name -> format
	fmtPos   map[string]ast.Expr
	ok       bool
}

func loadErrTables(c *core.Ctx, rule string) *errTables {
	t := &errTables{byName: map[string]core.NamedConst{}, format: map[string]string{}, fmtPos: map[string]ast.Expr{}}
	pk := c.P.Pkg("errs")
	if pk == nil {
		c.Unresolved(rule, "package errs")
		return t
	}
	nt := c.P.NamedType("errs", "Code")
	if nt == nil {
		c.Unresolved(rule, "errs.Code")
		return t
	}
	t.codeType = nt
	t.consts = core.ConstsOfType(pk, nt)
	for _, k := range t.consts {
		t.byName[k.Name] = k
	}
	init := core.PkgVarInit(pk, "errorFormat")
	if init == nil {
		c.Unresolved(rule, "errs.errorFormat")
		return t
	}
	for _, e := range core.MapLit(pk, init) {
		id, _ := ast.Unparen(e.Key).(*ast.Ident)
		if id == nil || e.ValC == nil || e.ValC.Kind() != constant.String {
			c.Bad(rule, "errs.errorFormat:"+core.ExprStr(e.Key), c.P.Pos(e.Key.Pos()), "errorFormat entry", "entry is not <Code constant>: <string constant>; the format table can no longer be decoded statically")
			continue
		}
		t.format[id.Name] = constant.StringVal(e.ValC)
		t.fmtPos[id.Name] = e.Val
	}
	t.ok = true
	return t
}

// codeNameOf resolves an expression of type errs.Code to the constant's name.
func (t *errTables) codeNameOf(c *core.Ctx, pkInfo *types.Info, e ast.Expr) string {
	e = ast.Unparen(e)
	var id *ast.Ident
	switch x := e.(type) {
	case *ast.Ident:
		id = x
	case *ast.SelectorExpr:
		id = x.Sel
	}
	if id == nil {
		return ""
	}
	if k, ok := pkInfo.ObjectOf(id).(*types.Const); ok && types.Identical(k.Type(), t.codeType) {
		return k.Name()
	}
	return ""
}

// verbArgCompatible decides whether a value of static type at may be rendered
// with verb v without producing a Go-syntax dump, an address or a %!v(...) marker.
func verbArgCompatible(v byte, at types.Type) (bool, string) {
	if at == nil {
		return false, "argument has no static type"
	}
	u := at.Underlying()
	b, isBasic := u.(*types.Basic)
	isInt := isBasic && b.Info()&types.IsInteger != 0
	isStr := isBasic && b.Info()&types.IsString != 0
	isByteSlice := false
	if s, ok := u.(*types.Slice); ok {
		if eb, ok := s.Elem().Underlying().(*types.Basic); ok && eb.Kind() == types.Uint8 {
			isByteSlice = true
		}
	}
	hasStringer := core.HasMethod(at, "String") || core.HasMethod(at, "Error")
	switch v {
	case 'd':
		if isInt {
			return true, ""
		}
		return false, "%d needs an integer argument, got " + at.String()
	case 's':
		if isStr || isByteSlice || hasStringer {
			return true, ""
		}
		if _, ok := u.(*types.Interface); ok {
			// error / any holding recovered values: rendered through Error()/String() or %!s
			if core.IsErrorType(at) {
				return true, ""
			}
			return false, "%s of a non-error interface value may render as a struct dump"
		}
		return false, "%s needs string/[]byte/error/Stringer, got " + at.String()
	case 'q':
		if isStr || isByteSlice || isInt || hasStringer {
			return true, ""
		}
		return false, "%q needs string/[]byte/char/Stringer, got " + at.String()
	case 'v':
		if isStr || isInt || hasStringer {
			return true, ""
		}
		if isBasic && b.Info()&(types.IsBoolean|types.IsFloat) != 0 {
			return true, ""
		}
		return false, "%v of " + at.String() + " may print addresses or internal structure"
	case 'w':
		return false, "%w is only understood by fmt.Errorf; Sprintf renders it as %!w(...) with a struct dump"
	case 'p':
		return false, "%p prints an address"
	}
	return false, "verb %" + string(v) + " not in the accepted set {s,q,d,v}"
}

func c16fmt(c *core.Ctx) {
	const R = "C16.fmt"
	c.Rule(R, "every errs.Code constant has a distinct value and an errorFormat entry whose verbs are in {s,q,d,v} (no %w/%p/%%); at every Code.F(args...) call site the argument count equals the number of '%' in the format of the constant code (else errs.f panics with code 1 'Runtime Failure') and each argument's static type is renderable by its verb; codes that reach F() dynamically (recovered from panic(<Code>), or through a code parameter) are resolved from their producers")
	t := loadErrTables(c, R)
	if !t.ok {
		return
	}
	c.Floor(R, 450)
	pk := c.P.Pkg("errs")
	// (a) constants: distinct values, each has a format
	byVal := map[string][]string{}
	for _, k := range t.consts {
		byVal[k.Val.ExactString()] = append(byVal[k.Val.ExactString()], k.Name)
	}
	for _, k := range t.consts {
		pos := c.P.Pos(k.Obj.Pos())
		what := "code constant " + k.Name + " = " + k.Val.ExactString()
		if len(byVal[k.Val.ExactString()]) > 1 {
			c.Bad(R, "errs:const:"+k.Name, pos, what, "numeric code shared with "+strings.Join(byVal[k.Val.ExactString()], ",")+": diagnostics no longer have a stable, unique code")
			continue
		}
		if _, ok := t.format[k.Name]; !ok {
			c.Bad(R, "errs:const:"+k.Name, pos, what, "no errorFormat entry: errs.f panics with ErrRuntimeFailure (code 1) when this code is raised")
			continue
		}
		c.OK(R, "errs:const:"+k.Name, pos, what)
	}
	// (b) formats
	var names []string
	for n := range t.format {
		names = append(names, n)
	}
	sort.Strings(names)
	for _, n := range names {
		f := t.format[n]
		pos := c.P.Pos(t.fmtPos[n].Pos())
		what := core.F("format of %s: %q", n, f)
		verbs, cnt := core.Verbs(f)
		if _, ok := t.byName[n]; !ok {
			c.Bad(R, "errs:format:"+n, pos, what, "key is not a declared errs.Code constant")
			continue
		}
		bad := ""
		if cnt != len(verbs) {
			bad = "format contains '%%' or a dangling '%': errs.f counts raw '%' bytes, so the arity test can never succeed"
		}
		for _, v := range verbs {
			if strings.IndexByte("sqdv", v) < 0 {
				_, why := verbArgCompatible(v, types.Typ[types.String])
				bad = why
			}
		}
		if bad != "" {
			c.Bad(R, "errs:format:"+n, pos, what, bad)
		} else {
			c.OK(R, "errs:format:"+n, pos, what)
		}
	}
	_ = pk

	// (c) call sites of (errs.Code).F
	nSites := 0
	dynamic := 0
	paramSites := map[*types.Var][]core.CallSite{} // code parameter -> F sites using it
	for _, cs := range c.P.Calls() {
		callee := core.Callee(cs.Pkg, cs.Call)
		if !core.IsFunc(callee, "(errs.Code).F") {
			continue
		}
		nSites++
		sel := cs.Call.Fun.(*ast.SelectorExpr)
		fn := core.DeclName(cs.Pkg, cs.Decl)
		pos := c.P.Pos(cs.Call.Pos())
		if cs.Call.Ellipsis.IsValid() {
			c.Bad(R, fn+":F(...)", pos, "Code.F call with spread arguments", "argument count is not static")
			continue
		}
		name := t.codeNameOf(c, cs.Pkg.TypesInfo, sel.X)
		if name == "" {
			dynamic++
			// parameter of the enclosing function?
			if id, ok := ast.Unparen(sel.X).(*ast.Ident); ok {
				if v, ok := cs.Pkg.TypesInfo.ObjectOf(id).(*types.Var); ok && isParamOf(cs.Pkg.TypesInfo, cs.Decl, v) {
					paramSites[v] = append(paramSites[v], cs)
					continue
				}
				// type-switch binding over a recovered value: code came from panic(<Code>)
				if isTypeSwitchBinding(cs.Pkg.TypesInfo, cs.Stack, id) && len(cs.Call.Args) == 0 {
					c.OKd(R, fn+":F()@recovered-code", pos, "Code.F() on a code recovered from a panic / converted error", "discharged by the obligations on every bare panic(<Code>) / Code-typed conversion source below")
					continue
				}
			}
			c.Bad(R, fn+":F@dynamic:"+core.ExprStr(sel.X), pos, "Code.F on a non-constant code "+core.ExprStr(sel.X), "the code cannot be resolved statically (not a constant, not a parameter, not a recovered-code binding)")
			continue
		}
		checkFSite(c, R, t, cs, fn, pos, name, cs.Call.Args, cs.Pkg.TypesInfo)
	}
	// parameter-propagated codes: one level
	for v, sites := range paramSites {
		for _, fsite := range sites {
			fdecl := fsite.Decl
			fobj, _ := fsite.Pkg.TypesInfo.Defs[fdecl.Name].(*types.Func)
			idx := paramIndex(fobj, v)
			fn := core.DeclName(fsite.Pkg, fdecl)
			callers := 0
			for _, cs := range c.P.Calls() {
				if core.Callee(cs.Pkg, cs.Call) != fobj {
					continue
				}
				callers++
				pos := c.P.Pos(cs.Call.Pos())
				cfn := core.DeclName(cs.Pkg, cs.Decl)
				if idx >= len(cs.Call.Args) {
					c.Bad(R, cfn+":"+fn+":arg", pos, "call of code-forwarding helper "+fn, "cannot locate code argument")
					continue
				}
				name := t.codeNameOf(c, cs.Pkg.TypesInfo, cs.Call.Args[idx])
				if name == "" {
					c.Bad(R, cfn+":"+fn+":dynamic", pos, "call of code-forwarding helper "+fn, "code argument "+core.ExprStr(cs.Call.Args[idx])+" is not a constant (propagation is one level only)")
					continue
				}
				// arity at the F site, with this caller's code
				checkFSite(c, R, t, fsite, cfn+"→"+fn, pos, name, fsite.Call.Args, fsite.Pkg.TypesInfo)
			}
			if callers == 0 {
				c.Note(R, fn+":nocallers", c.P.Pos(fsite.Call.Pos()), "code-forwarding helper "+fn+" has no callers", "")
			}
		}
	}
	// bare panic(<Code const>) and Code values converted by ConvertError: must have 0 placeholders
	c.P.ForEachNode(func(pk *packagesPackage, file *ast.File, stack []ast.Node, n ast.Node) bool {
		call, ok := n.(*ast.CallExpr)
		if !ok {
			return true
		}
		id, ok := call.Fun.(*ast.Ident)
		if !ok || id.Name != "panic" || len(call.Args) != 1 {
			return true
		}
		if _, isBuiltin := pk.TypesInfo.Uses[id].(*types.Builtin); !isBuiltin {
			return true
		}
		at := core.TypeOf(pk, call.Args[0])
		if at == nil || !types.Identical(at, t.codeType) {
			return true
		}
		fd := enclosingDecl(stack)
		fn := core.DeclName(pk, fd)
		pos := c.P.Pos(call.Pos())
		name := t.codeNameOf(c, pk.TypesInfo, call.Args[0])
		if name == "" {
			c.Bad(R, fn+":panic(code)", pos, "panic with a non-constant errs.Code", "cannot resolve which format the converter will render")
			return true
		}
		_, cnt := core.Verbs(t.format[name])
		if cnt != 0 {
			c.Bad(R, fn+":panic("+name+")", pos, "bare panic("+name+")", core.F("converters call %s.F() with no arguments but the format %q has %d placeholders: errs.f panics with Runtime Failure", name, t.format[name], cnt))
		} else {
			c.OK(R, fn+":panic("+name+")", pos, "bare panic("+name+") rendered later by e.F() with zero arguments")
		}
		return true
	})
	c.Extra["C16.fmt.sites"] = map[string]int{"Code.F call sites": nSites, "dynamic-code sites": dynamic, "codes": len(t.consts), "formats": len(t.format)}
}

func checkFSite(c *core.Ctx, R string, t *errTables, cs core.CallSite, fn, pos, name string, args []ast.Expr, info *types.Info) {
	f, ok := t.format[name]
	key := fn + ":" + name + ".F"
	what := core.F("%s.F(%d args) against %q", name, len(args), f)
	if !ok {
		c.Bad(R, key, pos, what, "code has no format: errs.f panics with Runtime Failure")
		return
	}
	verbs, cnt := core.Verbs(f)
	if cnt != len(args) {
		c.Bad(R, key, pos, what, core.F("format has %d '%%' but the call passes %d arguments: errs.f panics with ErrRuntimeFailure (code 1, 'Runtime Failure') instead of the diagnostic", cnt, len(args)))
		return
	}
	for i, a := range args {
		if i >= len(verbs) {
			break
		}
		var at types.Type
		if tv, ok := info.Types[a]; ok {
			at = tv.Type
		}
		if strings.IndexByte("sqdv", verbs[i]) < 0 {
			continue // reported once, at the format entry
		}
		if ok, why := verbArgCompatible(verbs[i], at); !ok {
			c.Bad(R, key, pos, what, core.F("argument %d (%s): %s", i+1, core.ExprStr(a), why))
			return
		}
	}
	c.OK(R, key, pos, what)
}
