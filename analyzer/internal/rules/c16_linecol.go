package rules

import (
	"go/ast"
	"go/token"
	"go/types"
	"sort"
	"strconv"
	"strings"

	"golang.org/x/tools/go/packages"

	"jsverif/internal/core"
)

// counterEff is the effect of a statement list on one integer counter: `v = val` (set) or `v += val`.
type counterEff struct {
	set bool
	val int64
}

// counterPath is one path through a statement list: the branch literals taken and the
// net effect on every counter touched; ret is true when the path ends in a return.
type counterPath struct {
	conds []string
	eff   map[string]counterEff
	ret   bool
	brk   bool
}

func (p counterPath) clone() counterPath {
	q := counterPath{conds: append([]string(nil), p.conds...), eff: map[string]counterEff{}, ret: p.ret, brk: p.brk}
	for k, v := range p.eff {
		q.eff[k] = v
	}
	return q
}

func (p counterPath) apply(v string, e counterEff) {
	if e.set {
		p.eff[v] = e
		return
	}
	old := p.eff[v]
	old.val += e.val
	p.eff[v] = old
}

// counterPaths evaluates a statement list that only counts: ++/--, `v = k`, `v += k`, `v = v + k`,
// if/else, blocks, break, return. ok=false when another construct touches one of the counters.
func counterPaths(pk *corePkg, stmts []ast.Stmt, counters map[string]bool) (out []counterPath, ok bool) {
	paths := []counterPath{{eff: map[string]counterEff{}}}
	ok = true
	touches := func(n ast.Node) bool {
		t := false
		ast.Inspect(n, func(m ast.Node) bool {
			if id, isID := m.(*ast.Ident); isID && counters[id.Name] {
				t = true
			}
			return true
		})
		return t
	}
	for _, st := range stmts {
		var live, done []counterPath
		for _, p := range paths {
			if p.ret || p.brk {
				done = append(done, p)
			} else {
				live = append(live, p)
			}
		}
		if len(live) == 0 {
			break
		}
		switch st := st.(type) {
		case *ast.IncDecStmt:
			id, isID := st.X.(*ast.Ident)
			if !isID || !counters[id.Name] {
				if touches(st) {
					ok = false
				}
				break
			}
			d := int64(1)
			if st.Tok == token.DEC {
				d = -1
			}
			for _, p := range live {
				p.apply(id.Name, counterEff{val: d})
			}
		case *ast.AssignStmt:
			if len(st.Lhs) != len(st.Rhs) {
				if touches(st) {
					ok = false
				}
				break
			}
			for i := range st.Lhs {
				id, isID := st.Lhs[i].(*ast.Ident)
				if !isID || !counters[id.Name] {
					// reading a counter into something else is harmless; writing through another form is not
					if touches(st.Lhs[i]) {
						ok = false
					}
					continue
				}
				rhs := ast.Unparen(st.Rhs[i])
				k, isK := intConstOf(pk, rhs)
				var e counterEff
				decided := true
				switch {
				case st.Tok == token.ASSIGN && isK:
					e = counterEff{set: true, val: k}
				case st.Tok == token.ADD_ASSIGN && isK:
					e = counterEff{val: k}
				case st.Tok == token.SUB_ASSIGN && isK:
					e = counterEff{val: -k}
				case st.Tok == token.ASSIGN:
					decided = false
					// v = v + k, v = k + v, v = v - k: the right side mentions no other counter
					if be, isB := rhs.(*ast.BinaryExpr); isB && (be.Op == token.ADD || be.Op == token.SUB) {
						if k2, isK2 := intConstOf(pk, be.Y); isK2 && core.ExprStr(be.X) == id.Name {
							if be.Op == token.SUB {
								k2 = -k2
							}
							e, decided = counterEff{val: k2}, true
						} else if k2, isK2 := intConstOf(pk, be.X); isK2 && be.Op == token.ADD && core.ExprStr(be.Y) == id.Name {
							e, decided = counterEff{val: k2}, true
						}
					}
				default:
					decided = false
				}
				if !decided {
					ok = false
					continue
				}
				for _, p := range live {
					p.apply(id.Name, e)
				}
			}
		case *ast.BlockStmt:
			sub, subOK := counterPaths(pk, st.List, counters)
			ok = ok && subOK
			live = composePaths(live, sub)
		case *ast.IfStmt:
			if st.Init != nil && touches(st.Init) {
				ok = false
			}
			cond := core.ExprStr(st.Cond)
			thenP, ok1 := counterPaths(pk, st.Body.List, counters)
			ok = ok && ok1
			var elseP []counterPath
			switch e := st.Else.(type) {
			case nil:
				elseP = []counterPath{{eff: map[string]counterEff{}}}
			case *ast.BlockStmt:
				var ok2 bool
				elseP, ok2 = counterPaths(pk, e.List, counters)
				ok = ok && ok2
			case *ast.IfStmt:
				var ok2 bool
				elseP, ok2 = counterPaths(pk, []ast.Stmt{e}, counters)
				ok = ok && ok2
			}
			for i := range thenP {
				thenP[i].conds = append([]string{"+" + cond}, thenP[i].conds...)
			}
			for i := range elseP {
				elseP[i].conds = append([]string{"-" + cond}, elseP[i].conds...)
			}
			live = composePaths(live, append(thenP, elseP...))
		case *ast.ReturnStmt:
			for i := range live {
				live[i].ret = true
			}
		case *ast.BranchStmt:
			if st.Tok == token.BREAK || st.Tok == token.CONTINUE {
				for i := range live {
					live[i].brk = st.Tok == token.BREAK
					if st.Tok == token.CONTINUE {
						live[i].ret = true // ends this iteration
					}
				}
			} else {
				ok = false
			}
		default:
			if touches(st) {
				// a loop or switch that counts: not decided here
				if _, isDecl := st.(*ast.DeclStmt); !isDecl {
					ok = false
				}
			}
		}
		paths = append(done, live...)
	}
	return paths, ok
}

type corePkg = packages.Package

func composePaths(a, b []counterPath) []counterPath {
	var out []counterPath
	for _, p := range a {
		for _, q := range b {
			r := p.clone()
			r.conds = append(r.conds, q.conds...)
			keys := make([]string, 0, len(q.eff))
			for k := range q.eff {
				keys = append(keys, k)
			}
			sort.Strings(keys)
			for _, k := range keys {
				r.apply(k, q.eff[k])
			}
			r.ret, r.brk = q.ret, q.brk
			out = append(out, r)
		}
	}
	return out
}

func intConstOf(pk *corePkg, e ast.Expr) (int64, bool) {
	cv := core.ConstOf(pk, e)
	if cv == nil {
		return 0, false
	}
	n, err := strconv.ParseInt(cv.ExactString(), 10, 64)
	return n, err == nil
}

func effStr(e counterEff) string {
	if e.set {
		return "=" + strconv.FormatInt(e.val, 10)
	}
	return "+=" + strconv.FormatInt(e.val, 10)
}

// c16linecol: line and column are the 1-based line and column of the byte, counted in bytes
// under the text's own newline symbol, and are recomputed whenever index or file change.
func c16linecol(c *core.Ctx) {
	const R = "C16.linecol"
	c.Rule(R, "Bytes.LineAndColumn(index) is a byte counter: it ranges over the []byte prefix data[:index] (one step per byte - never over a string, whose steps are runes), every step either is the text's newline symbol (b.NewLineSymbol()) and then line+=1, column=0, or is not and then column+=1 and line is untouched, and after the loop both are incremented exactly once (1-based). JSchemaError.SetIndex stores the index before it recounts, countLineAndColumn passes e.index to the content of e.file, and every SetFile is followed by a SetIndex on the same error (the position is recounted against the new text)")
	c.Floor(R, 7)
	const fn = "(bytes.Bytes).LineAndColumn"
	d := c.P.FindDecl(fn)
	if d == nil {
		c.Unresolved(R, fn)
		return
	}
	pk := d.Pkg
	pos := c.P.Pos(d.Decl.Pos())
	ft := d.Decl.Type
	var results, params []string
	if ft.Results != nil {
		for _, f := range ft.Results.List {
			for _, n := range f.Names {
				results = append(results, n.Name)
			}
		}
	}
	for _, f := range ft.Params.List {
		for _, n := range f.Names {
			params = append(params, n.Name)
		}
	}
	if len(results) != 2 || len(params) != 1 {
		c.Bad(R, fn+":signature", pos, "LineAndColumn(index) (line, column)", "named results line, column and one index parameter expected; the rule cannot identify the counters")
		return
	}
	line, col, index := results[0], results[1], params[0]
	counters := map[string]bool{line: true, col: true}

	var rng *ast.RangeStmt
	var before, after []ast.Stmt
	for _, st := range d.Decl.Body.List {
		if r, ok := st.(*ast.RangeStmt); ok && rng == nil {
			rng = r
			continue
		}
		if f, ok := st.(*ast.ForStmt); ok && rng == nil {
			_ = f
			c.Bad(R, fn+":loop", c.P.Pos(st.Pos()), "counting loop of LineAndColumn", "the loop is not a range over the byte prefix; not decided by this rule")
			return
		}
		if rng == nil {
			before = append(before, st)
		} else {
			after = append(after, st)
		}
	}
	if rng == nil {
		c.Bad(R, fn+":loop", pos, "counting loop of LineAndColumn", "no range loop found")
		return
	}
	// (1) one step per byte of data[:index]
	rt := core.TypeOf(pk, rng.X)
	isBytes := false
	if sl, ok := rt.Underlying().(*types.Slice); ok {
		if b, ok := sl.Elem().Underlying().(*types.Basic); ok && b.Kind() == types.Uint8 {
			isBytes = true
		}
	}
	c.Check(isBytes, R, fn+":steps", c.P.Pos(rng.X.Pos()), "range "+core.ExprStr(rng.X)+" steps over bytes",
		"the loop steps over "+rt.String()+": a multi-byte character counts as one column, the column is not the column of the byte (and a newline symbol is compared with a rune)")
	se, isSlice := ast.Unparen(rng.X).(*ast.SliceExpr)
	prefix := isSlice && se.Max == nil && se.High != nil && core.ExprStr(se.High) == index && (se.Low == nil || core.ExprStr(se.Low) == "0") && strings.HasSuffix(core.ExprStr(se.X), ".data")
	c.Check(prefix, R, fn+":prefix", c.P.Pos(rng.X.Pos()), "the loop covers exactly the bytes before index: "+core.ExprStr(rng.X),
		"the counted range is not data[:"+index+"]: the position is that of another byte")
	// the value variable
	cv := ""
	if id, ok := rng.Value.(*ast.Ident); ok {
		cv = id.Name
	}
	// newline variable: assigned from NewLineSymbol()
	nlVars := map[string]bool{}
	for _, st := range before {
		if as, ok := st.(*ast.AssignStmt); ok && len(as.Lhs) == 1 && len(as.Rhs) == 1 {
			if call, ok := as.Rhs[0].(*ast.CallExpr); ok && core.FullName(core.Callee(pk, call)) == "(bytes.Bytes).NewLineSymbol" {
				nlVars[core.ExprStr(as.Lhs[0])] = true
			}
		}
	}
	isNLCond := func(lit string) (bool, bool) { // (is newline test, truth meaning "is newline")
		truth := strings.HasPrefix(lit, "+")
		e := lit[1:]
		for nl := range nlVars {
			switch e {
			case cv + " == " + nl, nl + " == " + cv:
				return true, truth
			case cv + " != " + nl, nl + " != " + cv:
				return true, !truth
			}
		}
		for _, call := range []string{"b.NewLineSymbol()"} {
			switch e {
			case cv + " == " + call, call + " == " + cv:
				return true, truth
			case cv + " != " + call, call + " != " + cv:
				return true, !truth
			}
		}
		return false, false
	}
	// (2) before the loop the counters are untouched on the path that reaches it
	bp, okB := counterPaths(pk, before, counters)
	cleanBefore := okB
	for _, p := range bp {
		if p.ret {
			continue
		}
		for _, e := range p.eff {
			if e.set && e.val == 0 {
				continue
			}
			if !e.set && e.val == 0 {
				continue
			}
			cleanBefore = false
		}
	}
	c.Check(cleanBefore, R, fn+":init", pos, "line and column start at zero", "the counters are changed before the loop")
	// (3) loop body
	lp, okL := counterPaths(pk, rng.Body.List, counters)
	bodyOK := okL && cv != ""
	seenNL, seenOther := false, false
	detail := ""
	for _, p := range lp {
		if p.brk {
			bodyOK = false
			detail = "the loop stops early"
		}
		isNL, decided := false, false
		for _, lit := range p.conds {
			if ok, nl := isNLCond(lit); ok {
				isNL, decided = nl, true
			} else {
				bodyOK = false
				detail = "a step depends on " + lit[1:] + ", not only on the byte being the newline symbol"
			}
		}
		if !decided {
			bodyOK = false
			if detail == "" {
				detail = "a step does not test the byte against the newline symbol"
			}
			continue
		}
		le, ce := p.eff[line], p.eff[col]
		if isNL {
			seenNL = true
			if !(le == counterEff{val: 1}) || !(ce == counterEff{set: true, val: 0}) {
				bodyOK = false
				detail = "on the newline symbol: " + line + effStr(le) + ", " + col + effStr(ce) + " (want +=1, =0)"
			}
		} else {
			seenOther = true
			if !(le == counterEff{}) || !(ce == counterEff{val: 1}) {
				bodyOK = false
				detail = "on another byte: " + line + effStr(le) + ", " + col + effStr(ce) + " (want +=0, +=1)"
			}
		}
	}
	if !okL && detail == "" {
		detail = "the loop body changes the counters through a construct this rule does not evaluate"
	}
	c.Check(bodyOK && seenNL && seenOther, R, fn+":step", c.P.Pos(rng.Body.Pos()), "each byte: newline symbol -> line+=1, column=0; otherwise column+=1", detail)
	// (4) after the loop
	ap, okA := counterPaths(pk, after, counters)
	afterOK := okA && len(ap) > 0
	for _, p := range ap {
		if len(p.conds) != 0 || !(p.eff[line] == counterEff{val: 1}) || !(p.eff[col] == counterEff{val: 1}) {
			afterOK = false
			detail = line + effStr(p.eff[line]) + ", " + col + effStr(p.eff[col])
		}
	}
	c.Check(afterOK, R, fn+":onebased", pos, "after the loop line+=1 and column+=1 (1-based)", "after the loop: "+detail)

	// (5) SetIndex stores before it recounts; countLineAndColumn uses e.index and e.file
	if sd := c.P.FindDecl("(*kit.JSchemaError).SetIndex"); sd == nil {
		c.Unresolved(R, "(*kit.JSchemaError).SetIndex")
	} else {
		stored, ok := false, false
		for _, st := range sd.Decl.Body.List {
			if as, isA := st.(*ast.AssignStmt); isA && len(as.Lhs) == 1 && core.ExprStr(as.Lhs[0]) == "e.index" && core.ExprStr(as.Rhs[0]) == sd.Decl.Type.Params.List[0].Names[0].Name {
				stored = true
			}
			if es, isE := st.(*ast.ExprStmt); isE {
				if call, isC := es.X.(*ast.CallExpr); isC && core.FullName(core.Callee(sd.Pkg, call)) == "(*kit.JSchemaError).countLineAndColumn" {
					ok = stored
				}
			}
		}
		c.Check(ok, R, "(*kit.JSchemaError).SetIndex:order", c.P.Pos(sd.Decl.Pos()), "SetIndex stores the index, then recounts line and column", "line and column are not recounted after the new index is stored: they describe the previous position")
	}
	if cd := c.P.FindDecl("(*kit.JSchemaError).countLineAndColumn"); cd == nil {
		c.Unresolved(R, "(*kit.JSchemaError).countLineAndColumn")
	} else {
		ok := false
		ast.Inspect(cd.Decl.Body, func(n ast.Node) bool {
			as, isA := n.(*ast.AssignStmt)
			if !isA || len(as.Lhs) != 2 || len(as.Rhs) != 1 {
				return true
			}
			call, isC := as.Rhs[0].(*ast.CallExpr)
			if !isC || core.FullName(core.Callee(cd.Pkg, call)) != fn {
				return true
			}
			sel, _ := call.Fun.(*ast.SelectorExpr)
			if core.ExprStr(as.Lhs[0]) == "e.line" && core.ExprStr(as.Lhs[1]) == "e.column" && len(call.Args) == 1 && core.ExprStr(call.Args[0]) == "e.index" && sel != nil && core.ExprStr(sel.X) == "e.file.Content()" {
				ok = true
			}
			return true
		})
		c.Check(ok, R, "(*kit.JSchemaError).countLineAndColumn:args", c.P.Pos(cd.Decl.Pos()), "e.line, e.column = e.file.Content().LineAndColumn(e.index)", "line and column are not those of e.index in the text of e.file")
	}
	// (6) SetFile is followed by SetIndex on the same error
	n := 0
	for _, cs := range c.P.Calls() {
		if core.FullName(core.Callee(cs.Pkg, cs.Call)) != "(*kit.JSchemaError).SetFile" {
			continue
		}
		n++
		recv := ""
		if sel, ok := cs.Call.Fun.(*ast.SelectorExpr); ok {
			recv = core.ExprStr(sel.X)
		}
		// the enclosing block: a later statement calls recv.SetIndex
		ok := false
		for i := len(cs.Stack) - 1; i >= 0 && !ok; i-- {
			blk, isB := cs.Stack[i].(*ast.BlockStmt)
			if !isB {
				continue
			}
			passed := false
			for _, st := range blk.List {
				if st.Pos() <= cs.Call.Pos() && cs.Call.End() <= st.End() {
					passed = true
					continue
				}
				if !passed {
					continue
				}
				if es, isE := st.(*ast.ExprStmt); isE {
					if call, isC := es.X.(*ast.CallExpr); isC && core.FullName(core.Callee(cs.Pkg, call)) == "(*kit.JSchemaError).SetIndex" {
						if sel, isS := call.Fun.(*ast.SelectorExpr); isS && core.ExprStr(sel.X) == recv {
							ok = true
						}
					}
				}
			}
			break
		}
		fnName := core.DeclName(cs.Pkg, cs.Decl)
		c.Check(ok, R, fnName+":SetFile", c.P.Pos(cs.Call.Pos()), recv+".SetFile(...) is followed by "+recv+".SetIndex(...)", "the file of a positioned error is replaced and the position is not recounted: line and column belong to the old text")
	}
	if n == 0 {
		c.Note(R, "SetFile:none", "", "no SetFile call in the module", "")
	}
	// (7) SetFile itself recounts a positioned error
	if sd := c.P.FindDecl("(*kit.JSchemaError).SetFile"); sd == nil {
		c.Unresolved(R, "(*kit.JSchemaError).SetFile")
	} else {
		stored, ok := false, false
		ast.Inspect(sd.Decl.Body, func(n ast.Node) bool {
			switch x := n.(type) {
			case *ast.AssignStmt:
				if len(x.Lhs) == 1 && core.ExprStr(x.Lhs[0]) == "e.file" {
					stored = true
				}
			case *ast.CallExpr:
				if core.FullName(core.Callee(sd.Pkg, x)) == "(*kit.JSchemaError).countLineAndColumn" && stored {
					ok = true
				}
			}
			return true
		})
		c.Check(ok, R, "(*kit.JSchemaError).SetFile:recount", c.P.Pos(sd.Decl.Pos()), "SetFile stores the file, then recounts line and column", "after SetFile line and column still describe the position in the previous text")
	}
}

// c16newline: the newline symbol of a text is decided by its first line break, wherever that is.
func c16newline(c *core.Ctx) {
	const R = "C16.newline"
	c.Rule(R, "Bytes.NewLineSymbol() reads the whole text (`range b.data`, not a prefix) until the first run of line-end bytes is over: a LF or CR byte becomes the symbol and sets the found flag, the first other byte after that stops the loop, other bytes before it change nothing (256 byte values x found/not found evaluated). Line, column and the quoted line of every diagnostic are computed with this symbol; decided from a prefix, a CR-only text with a long first line is treated as one line")
	c.Floor(R, 3)
	const fn = "(bytes.Bytes).NewLineSymbol"
	d := c.P.FindDecl(fn)
	if d == nil {
		c.Unresolved(R, fn)
		return
	}
	var rng *ast.RangeStmt
	ast.Inspect(d.Decl.Body, func(n ast.Node) bool {
		if r, ok := n.(*ast.RangeStmt); ok && rng == nil {
			rng = r
		}
		return true
	})
	if rng == nil {
		c.Bad(R, fn+":loop", c.P.Pos(d.Decl.Pos()), "NewLineSymbol loops over the data", "no range loop found")
		return
	}
	recv := d.Decl.Recv.List[0].Names[0].Name
	c.Check(core.ExprStr(ast.Unparen(rng.X)) == recv+".data", R, fn+":whole", c.P.Pos(rng.X.Pos()), "the loop ranges over the whole data ("+core.ExprStr(rng.X)+")",
		"the loop ranges over "+core.ExprStr(rng.X)+", not over the whole text: a first line break outside that part is not seen")
	cv := ""
	if id, ok := rng.Value.(*ast.Ident); ok {
		cv = id.Name
	}
	// the flag variable: a bool declared before the loop
	flag := ""
	ast.Inspect(d.Decl.Body, func(n ast.Node) bool {
		if ds, ok := n.(*ast.DeclStmt); ok {
			if gd, ok := ds.Decl.(*ast.GenDecl); ok {
				for _, sp := range gd.Specs {
					if vs, ok := sp.(*ast.ValueSpec); ok && len(vs.Names) == 1 && vs.Type != nil && core.ExprStr(vs.Type) == "bool" {
						flag = vs.Names[0].Name
					}
				}
			}
		}
		return true
	})
	bad := ""
	if cv == "" || flag == "" {
		bad = "the loop variable or the found flag was not identified"
	}
	for b := int64(0); b < 256 && bad == ""; b++ {
		for f := int64(0); f <= 1 && bad == ""; f++ {
			e := &miniEval{pk: d.Pkg, env: map[string]int64{cv: b, flag: f}}
			st, _ := e.run(rng.Body.List)
			isNL := b == '\n' || b == '\r'
			switch {
			case e.unknown != "":
				bad = "undecided: " + e.unknown
			case isNL && (st != miniFall && st != miniContinue || len(e.effects) != 1 || e.effects[0] != recv+".nl = "+cv || e.env[flag] != 1):
				bad = core.F("byte %q (found=%d): status %d, effects %v, found=%d; expected the symbol to be recorded and the scan to go on", rune(b), f, st, e.effects, e.env[flag])
			case !isNL && f == 1 && (st != miniBreak || len(e.effects) != 0):
				bad = core.F("byte %q after a line end: status %d, effects %v; expected the loop to stop", rune(b), st, e.effects)
			case !isNL && f == 0 && ((st != miniFall && st != miniContinue) || len(e.effects) != 0 || e.env[flag] != 0):
				bad = core.F("byte %q before any line end: status %d, effects %v; expected no effect", rune(b), st, e.effects)
			}
		}
	}
	c.Check(bad == "", R, fn+":step", c.P.Pos(rng.Body.Pos()), "per byte: LF/CR -> symbol recorded; first other byte afterwards -> stop; otherwise nothing (512 cells)", bad)
	c.OK(R, fn+":anchor", c.P.Pos(d.Decl.Pos()), "NewLineSymbol analysed")
}
