package rules

import (
	"go/ast"
	"go/token"
	"go/types"
	"sort"
	"strconv"
	"strings"

	"golang.org/x/tools/go/packages"

	"jsverif/internal/core"
)

// counterEff is the effect of a statement list on one integer counter: `v = val` (set) or `v += val`.
type counterEff struct {
	set bool
	val int64
}

// counterPath is one path through a statement list: the branch literals taken and the
// net effect on every counter touched; ret is true when the path ends in a return.
type counterPath struct {
	conds []string
	eff   map[string]counterEff
	ret   bool
	brk   bool
}

func (p counterPath) clone() counterPath {
	q := counterPath{conds: append([]string(nil), p.conds...), eff: map[string]counterEff{}, ret: p.ret, brk: p.brk}
	for k, v := range p.eff {
		q.eff[k] = v
	}
	return q
}

func (p counterPath) apply(v string, e counterEff) {
	if e.set {
		p.eff[v] = e
		return
	}
	old := p.eff[v]
	old.val += e.val
	p.eff[v] = old
}

// counterPaths evaluates a statement list that only counts: ++/--, `v = k`, `v += k`, `v = v + k`,
// if/else, blocks, break, return. ok=false when another construct touches one of the counters.
func counterPaths(pk *corePkg, stmts []ast.Stmt, counters map[string]bool) (out []counterPath, ok bool) {
	paths := []counterPath{{eff: map[string]counterEff{}}}
	ok = true
	touches := func(n ast.Node) bool {
		t := false
		ast.Inspect(n, func(m ast.Node) bool {
			if id, isID := m.(*ast.Ident); isID && counters[id.Name] {
				t = true
			}
			return true
		})
		return t
	}
	for _, st := range stmts {
		var live, done []counterPath
		for _, p := range paths {
			if p.ret || p.brk {
				done = append(done, p)
			} else {
				live = append(live, p)
			}
		}
		if len(live) == 0 {
			break
		}
		switch st := st.(type) {
		case *ast.IncDecStmt:
			id, isID := st.X.(*ast.Ident)
			if !isID || !counters[id.Name] {
				if touches(st) {
					ok = false
				}
				break
			}
			d := int64(1)
			if st.Tok == token.DEC {
				d = -1
			}
			for _, p := range live {
				p.apply(id.Name, counterEff{val: d})
			}
		case *ast.AssignStmt:
			if len(st.Lhs) != len(st.Rhs) {
				if touches(st) {
					ok = false
				}
				break
			}
			for i := range st.Lhs {
				id, isID := st.Lhs[i].(*ast.Ident)
				if !isID || !counters[id.Name] {
					// reading a counter into something else is harmless; writing through another form is not
					if touches(st.Lhs[i]) {
						ok = false
					}
					continue
				}
				rhs := ast.Unparen(st.Rhs[i])
				k, isK := intConstOf(pk, rhs)
				var e counterEff
				decided := true
				switch {
				case st.Tok == token.ASSIGN && isK:
					e = counterEff{set: true, val: k}
				case st.Tok == token.ADD_ASSIGN && isK:
					e = counterEff{val: k}
				case st.Tok == token.SUB_ASSIGN && isK:
					e = counterEff{val: -k}
				case st.Tok == token.ASSIGN:
					decided = false
					// v = v + k, v = k + v, v = v - k: the right side mentions no other counter
					if be, isB := rhs.(*ast.BinaryExpr); isB && (be.Op == token.ADD || be.Op == token.SUB) {
						if k2, isK2 := intConstOf(pk, be.Y); isK2 && core.ExprStr(be.X) == id.Name {
							if be.Op == token.SUB {
								k2 = -k2
							}
							e, decided = counterEff{val: k2}, true
						} else if k2, isK2 := intConstOf(pk, be.X); isK2 && be.Op == token.ADD && core.ExprStr(be.Y) == id.Name {
							e, decided = counterEff{val: k2}, true
						}
					}
				default:
					decided = false
				}
				if !decided {
					ok = false
					continue
				}
				for _, p := range live {
					p.apply(id.Name, e)
				}
			}
		case *ast.BlockStmt:
			sub, subOK := counterPaths(pk, st.List, counters)
			ok = ok && subOK
			live = composePaths(live, sub)
		case *ast.IfStmt:
			if st.Init != nil && touches(st.Init) {
				ok = false
			}
			cond := core.ExprStr(st.Cond)
			thenP, ok1 := counterPaths(pk, st.Body.List, counters)
			ok = ok && ok1
			var elseP []counterPath
			switch e := st.Else.(type) {
			case nil:
				elseP = []counterPath{{eff: map[string]counterEff{}}}
			case *ast.BlockStmt:
				var ok2 bool
				elseP, ok2 = counterPaths(pk, e.List, counters)
				ok = ok && ok2
			case *ast.IfStmt:
				var ok2 bool
				elseP, ok2 = counterPaths(pk, []ast.Stmt{e}, counters)
				ok = ok && ok2
			}
			for i := range thenP {
				thenP[i].conds = append([]string{"+" + cond}, thenP[i].conds...)
			}
			for i := range elseP {
				elseP[i].conds = append([]string{"-" + cond}, elseP[i].conds...)
			}
			live = composePaths(live, append(thenP, elseP...))
		case *ast.ReturnStmt:
			for i := range live {
				live[i].ret = true
			}
		case *ast.BranchStmt:
			if st.Tok == token.BREAK || st.Tok == token.CONTINUE {
				for i := range live {
					live[i].brk = st.Tok == token.BREAK
					if st.Tok == token.CONTINUE {
						live[i].ret = true // ends this iteration
					}
				}
			} else {
				ok = false
			}
		default:
			if touches(st) {
				// a loop or switch that counts: not decided here
				if _, isDecl := st.(*ast.DeclStmt); !isDecl {
					ok = false
				}
			}
		}
		paths = append(done, live...)
	}
	return paths, ok
}

type corePkg = packages.Package

func composePaths(a, b []counterPath) []counterPath {
	var out []counterPath
	for _, p := range a {
		for _, q := range b {
			r := p.clone()
			r.conds = append(r.conds, q.conds...)
			keys := make([]string, 0, len(q.eff))
			for k := range q.eff {
				keys = append(keys, k)
			}
			sort.Strings(keys)
			for _, k := range keys {
				r.apply(k, q.eff[k])
			}
			r.ret, r.brk = q.ret, q.brk
			out = append(out, r)
		}
	}
	return out
}

func intConstOf(pk *corePkg, e ast.Expr) (int64, bool) {
	cv := core.ConstOf(pk, e)
	if cv == nil {
		return 0, false
	}
	n, err := strconv.ParseInt(cv.ExactString(), 10, 64)
	return n, err == nil
}

func effStr(e counterEff) string {
	if e.set {
		return "=" + strconv.FormatInt(e.val, 10)
	}
	return "+=" + strconv.FormatInt(e.val, 10)
}

// c16linecol: line and column are the 1-based line and column of the byte, counted in bytes
// under the text's own newline symbol, and are recomputed whenever index or file change.
func c16linecol(c *core.Ctx) {
	const R = "C16.linecol"
	c.Rule(R, "Bytes.LineAndColumn(index) is a byte counter: it ranges over the []byte prefix data[:index] (one step per byte - never over a string, whose steps are runes), every step either is the text's newline symbol (b.NewLineSymbol()) and then line+=1, column=0, or is not and then column+=1 and line is untouched, and after the loop both are incremented exactly once (1-based). JSchemaError.SetIndex stores the index before it recounts, countLineAndColumn passes e.index to the content of e.file, and every SetFile is followed by a SetIndex on the same error (the position is recounted against the new text)")
	c.Floor(R, 7)
	const fn = "(bytes.Bytes).LineAndColumn"
	d := c.P.FindDecl(fn)
	if d == nil {
		c.Unresolved(R, fn)
		return
	}
	pk := d.Pkg
	pos := c.P.Pos(d.Decl.Pos())
	ft := d.Decl.Type
	var results, params []string
	if ft.Results != nil {
		for _, f := range ft.Results.List {
			for _, n := range f.Names {
				results = append(results, n.Name)
			}
		}
	}
	for _, f := range ft.Params.List {
		for _, n := range f.Names {
			params = append(params, n.Name)
		}
	}
	if len(results) != 2 || len(params) != 1 {
		c.Bad(R, fn+":signature", pos, "LineAndColumn(index) (line, column)", "named results line, column and one index parameter expected; the rule cannot identify the counters")
		return
	}
	line, col, index := results[0], results[1], params[0]
	recv := d.Decl.Recv.List[0].Names[0].Name
	// the counting loop: `for _, c := range b.data[:index]` or `for i := 0; i < index; i++ { ... b.data[i] ... }`
	var loopStmt ast.Stmt
	var loopBody *ast.BlockStmt
	var before, after []ast.Stmt
	for _, st := range d.Decl.Body.List {
		if loopStmt == nil {
			switch l := st.(type) {
			case *ast.RangeStmt:
				loopStmt, loopBody = l, l.Body
				continue
			case *ast.ForStmt:
				loopStmt, loopBody = l, l.Body
				continue
			}
			before = append(before, st)
		} else {
			after = append(after, st)
		}
	}
	if loopStmt == nil {
		c.Bad(R, fn+":loop", pos, "counting loop of LineAndColumn", "no loop found")
		return
	}
	elemIdent, elemIndexVar := "", ""
	stepsBytes, prefix := false, false
	stepsWhat, prefixWhat := "", ""
	switch l := loopStmt.(type) {
	case *ast.RangeStmt:
		rt := core.TypeOf(pk, l.X)
		if sl, ok := rt.Underlying().(*types.Slice); ok {
			if b, ok := sl.Elem().Underlying().(*types.Basic); ok && b.Kind() == types.Uint8 {
				stepsBytes = true
			}
		}
		stepsWhat = "range " + core.ExprStr(l.X) + " (" + rt.String() + ")"
		se, isSlice := ast.Unparen(l.X).(*ast.SliceExpr)
		prefix = isSlice && se.Max == nil && se.High != nil && core.ExprStr(se.High) == index && (se.Low == nil || core.ExprStr(se.Low) == "0") && core.ExprStr(se.X) == recv+".data"
		prefixWhat = core.ExprStr(l.X)
		if id, ok := l.Value.(*ast.Ident); ok {
			elemIdent = id.Name
		}
	case *ast.ForStmt:
		// i := 0 (possibly converted); i < index; i++
		if init, ok := l.Init.(*ast.AssignStmt); ok && len(init.Lhs) == 1 && len(init.Rhs) == 1 {
			if v := core.ConstOf(pk, init.Rhs[0]); v != nil && v.ExactString() == "0" {
				elemIndexVar = core.ExprStr(init.Lhs[0])
			}
		}
		inc, isInc := l.Post.(*ast.IncDecStmt)
		be, isBin := ast.Unparen(l.Cond).(*ast.BinaryExpr)
		prefix = elemIndexVar != "" && isInc && inc.Tok == token.INC && core.ExprStr(inc.X) == elemIndexVar && isBin && be.Op == token.LSS && core.ExprStr(be.X) == elemIndexVar && core.ExprStr(be.Y) == index
		prefixWhat = "for " + core.ExprStr0(l.Init) + "; " + core.ExprStr(l.Cond) + "; " + core.ExprStr0(l.Post)
		// the element read in the body is recv.data[i], a byte
		ast.Inspect(l.Body, func(n ast.Node) bool {
			if ix, ok := n.(*ast.IndexExpr); ok && core.ExprStr(ix.X) == recv+".data" && core.ExprStr(ix.Index) == elemIndexVar {
				stepsBytes = true
			}
			return true
		})
		stepsWhat = "index loop reading " + recv + ".data[" + elemIndexVar + "]"
	}
	c.Check(stepsBytes, R, fn+":steps", c.P.Pos(loopStmt.Pos()), stepsWhat+" steps over bytes",
		"the loop does not step over the bytes of the text ("+stepsWhat+"): a multi-byte character counts as one column, the column is not the column of the byte (and a newline symbol is compared with a rune)")
	c.Check(prefix, R, fn+":prefix", c.P.Pos(loopStmt.Pos()), "the loop covers exactly the bytes before index: "+prefixWhat,
		"the counted range is not data[:"+index+"] ("+prefixWhat+"): the position is that of another byte")
	// the newline variable(s): assigned from NewLineSymbol()
	nlVars := map[string]bool{}
	for _, st := range before {
		if as, ok := st.(*ast.AssignStmt); ok && len(as.Lhs) == 1 && len(as.Rhs) == 1 {
			if call, ok := as.Rhs[0].(*ast.CallExpr); ok && core.FullName(core.Callee(pk, call)) == "(bytes.Bytes).NewLineSymbol" {
				nlVars[core.ExprStr(as.Lhs[0])] = true
			}
		}
	}
	mk := func(l0, c0, b int64) *miniEval {
		e := &miniEval{pk: pk, env: map[string]int64{line: l0, col: c0}, ctx: c}
		for v := range nlVars {
			e.env[v] = 10
		}
		if elemIdent != "" {
			e.env[elemIdent] = b
		}
		if elemIndexVar != "" {
			e.env[elemIndexVar] = 3
		}
		e.hook = func(x ast.Expr) (int64, bool) {
			switch y := x.(type) {
			case *ast.IndexExpr:
				if core.ExprStr(y.X) == recv+".data" {
					return b, true
				}
			case *ast.CallExpr:
				if core.FullName(core.Callee(pk, y)) == "(bytes.Bytes).NewLineSymbol" {
					return 10, true
				}
			}
			return 0, false
		}
		return e
	}
	// (2) before the loop the counters are untouched on the path that reaches it
	{
		e := mk(0, 0, 'x')
		e.env[index] = 5
		e.hook = func(x ast.Expr) (int64, bool) {
			if call, ok := x.(*ast.CallExpr); ok {
				f := core.ExprStr(call.Fun)
				if strings.HasSuffix(f, ".Len") {
					return 100, true
				}
				if strings.HasSuffix(f, ".NewLineSymbol") {
					return 10, true
				}
			}
			return 0, false
		}
		st, _ := e.run(before)
		c.Check(e.unknown == "" && st == miniFall && e.env[line] == 0 && e.env[col] == 0, R, fn+":init", pos, "line and column start at zero", "the counters are changed before the loop, or the statements before it are not understood: "+e.unknown)
	}
	// (3) one step of the loop, for the newline symbol and for every other byte
	bodyBad := ""
	for b := int64(0); b < 256 && bodyBad == ""; b++ {
		e := mk(7, 4, b)
		st, _ := e.run(loopBody.List)
		wantL, wantC := int64(7), int64(5)
		if b == 10 {
			wantL, wantC = 8, 0
		}
		switch {
		case e.unknown != "":
			bodyBad = "undecided: " + e.unknown
		case st != miniFall && st != miniContinue:
			bodyBad = core.F("byte %q: the loop stops early", rune(b))
		case e.env[line] != wantL || e.env[col] != wantC:
			bodyBad = core.F("byte %q (newline symbol is LF here): line %+d, column 4 -> %d; expected line %+d, column -> %d", rune(b), e.env[line]-7, e.env[col], wantL-7, wantC)
		}
	}
	c.Check(bodyBad == "", R, fn+":step", c.P.Pos(loopBody.Pos()), "each byte: newline symbol -> line+=1, column=0; otherwise column+=1 (256 cells)", bodyBad)
	// (4) after the loop both are reported 1-based
	{
		e := mk(7, 4, 'x')
		st, rets := e.run(after)
		gl, gc := e.env[line], e.env[col]
		if st == miniReturn && len(rets) == 2 {
			gl, gc = rets[0], rets[1]
		}
		c.Check(e.unknown == "" && st == miniReturn && gl == 8 && gc == 5, R, fn+":onebased", pos, "after the loop line+=1 and column+=1 (1-based)", core.F("after the loop: line %+d, column %+d (%s)", gl-7, gc-4, e.unknown))
	}

	// (5) SetIndex stores before it recounts; countLineAndColumn uses e.index and e.file
	if sd := c.P.FindDecl("(*kit.JSchemaError).SetIndex"); sd == nil {
		c.Unresolved(R, "(*kit.JSchemaError).SetIndex")
	} else {
		stored, ok := false, false
		for _, st := range sd.Decl.Body.List {
			if as, isA := st.(*ast.AssignStmt); isA && len(as.Lhs) == 1 && core.ExprStr(as.Lhs[0]) == "e.index" && core.ExprStr(as.Rhs[0]) == sd.Decl.Type.Params.List[0].Names[0].Name {
				stored = true
			}
			if es, isE := st.(*ast.ExprStmt); isE {
				if call, isC := es.X.(*ast.CallExpr); isC && core.FullName(core.Callee(sd.Pkg, call)) == "(*kit.JSchemaError).countLineAndColumn" {
					ok = stored
				}
			}
		}
		c.Check(ok, R, "(*kit.JSchemaError).SetIndex:order", c.P.Pos(sd.Decl.Pos()), "SetIndex stores the index, then recounts line and column", "line and column are not recounted after the new index is stored: they describe the previous position")
	}
	if cd := c.P.FindDecl("(*kit.JSchemaError).countLineAndColumn"); cd == nil {
		c.Unresolved(R, "(*kit.JSchemaError).countLineAndColumn")
	} else {
		ok := false
		ast.Inspect(cd.Decl.Body, func(n ast.Node) bool {
			as, isA := n.(*ast.AssignStmt)
			if !isA || len(as.Lhs) != 2 || len(as.Rhs) != 1 {
				return true
			}
			call, isC := as.Rhs[0].(*ast.CallExpr)
			if !isC || core.FullName(core.Callee(cd.Pkg, call)) != fn {
				return true
			}
			sel, _ := call.Fun.(*ast.SelectorExpr)
			if core.ExprStr(as.Lhs[0]) == "e.line" && core.ExprStr(as.Lhs[1]) == "e.column" && len(call.Args) == 1 && core.ExprStr(call.Args[0]) == "e.index" && sel != nil && core.ExprStr(sel.X) == "e.file.Content()" {
				ok = true
			}
			return true
		})
		c.Check(ok, R, "(*kit.JSchemaError).countLineAndColumn:args", c.P.Pos(cd.Decl.Pos()), "e.line, e.column = e.file.Content().LineAndColumn(e.index)", "line and column are not those of e.index in the text of e.file")
	}
	// (6) SetFile is followed by SetIndex on the same error
	n := 0
	for _, cs := range c.P.Calls() {
		if core.FullName(core.Callee(cs.Pkg, cs.Call)) != "(*kit.JSchemaError).SetFile" {
			continue
		}
		n++
		recv := ""
		if sel, ok := cs.Call.Fun.(*ast.SelectorExpr); ok {
			recv = core.ExprStr(sel.X)
		}
		// the enclosing block: a later statement calls recv.SetIndex
		ok := false
		for i := len(cs.Stack) - 1; i >= 0 && !ok; i-- {
			blk, isB := cs.Stack[i].(*ast.BlockStmt)
			if !isB {
				continue
			}
			passed := false
			for _, st := range blk.List {
				if st.Pos() <= cs.Call.Pos() && cs.Call.End() <= st.End() {
					passed = true
					continue
				}
				if !passed {
					continue
				}
				if es, isE := st.(*ast.ExprStmt); isE {
					if call, isC := es.X.(*ast.CallExpr); isC && core.FullName(core.Callee(cs.Pkg, call)) == "(*kit.JSchemaError).SetIndex" {
						if sel, isS := call.Fun.(*ast.SelectorExpr); isS && core.ExprStr(sel.X) == recv {
							ok = true
						}
					}
				}
			}
			break
		}
		fnName := core.DeclName(cs.Pkg, cs.Decl)
		c.Check(ok, R, fnName+":SetFile", c.P.Pos(cs.Call.Pos()), recv+".SetFile(...) is followed by "+recv+".SetIndex(...)", "the file of a positioned error is replaced and the position is not recounted: line and column belong to the old text")
	}
	if n == 0 {
		c.Note(R, "SetFile:none", "", "no SetFile call in the module", "")
	}
	// (7) SetFile itself recounts a positioned error
	if sd := c.P.FindDecl("(*kit.JSchemaError).SetFile"); sd == nil {
		c.Unresolved(R, "(*kit.JSchemaError).SetFile")
	} else {
		stored, ok := false, false
		ast.Inspect(sd.Decl.Body, func(n ast.Node) bool {
			switch x := n.(type) {
			case *ast.AssignStmt:
				if len(x.Lhs) == 1 && core.ExprStr(x.Lhs[0]) == "e.file" {
					stored = true
				}
			case *ast.CallExpr:
				if core.FullName(core.Callee(sd.Pkg, x)) == "(*kit.JSchemaError).countLineAndColumn" && stored {
					ok = true
				}
			}
			return true
		})
		c.Check(ok, R, "(*kit.JSchemaError).SetFile:recount", c.P.Pos(sd.Decl.Pos()), "SetFile stores the file, then recounts line and column", "after SetFile line and column still describe the position in the previous text")
	}
}

// c16newline: the newline symbol of a text is decided by its first line break, wherever that is.
func c16newline(c *core.Ctx) {
	const R = "C16.newline"
	c.Rule(R, "Bytes.NewLineSymbol() reads the whole text (`range b.data`, not a prefix) until the first run of line-end bytes is over: a LF or CR byte becomes the symbol and sets the found flag, the first other byte after that stops the loop, other bytes before it change nothing (256 byte values x found/not found evaluated). Line, column and the quoted line of every diagnostic are computed with this symbol; decided from a prefix, a CR-only text with a long first line is treated as one line")
	c.Floor(R, 3)
	const fn = "(bytes.Bytes).NewLineSymbol"
	d := c.P.FindDecl(fn)
	if d == nil {
		c.Unresolved(R, fn)
		return
	}
	var rng *ast.RangeStmt
	ast.Inspect(d.Decl.Body, func(n ast.Node) bool {
		if r, ok := n.(*ast.RangeStmt); ok && rng == nil {
			rng = r
		}
		return true
	})
	if rng == nil {
		c.Bad(R, fn+":loop", c.P.Pos(d.Decl.Pos()), "NewLineSymbol loops over the data", "no range loop found")
		return
	}
	recv := d.Decl.Recv.List[0].Names[0].Name
	c.Check(core.ExprStr(ast.Unparen(rng.X)) == recv+".data", R, fn+":whole", c.P.Pos(rng.X.Pos()), "the loop ranges over the whole data ("+core.ExprStr(rng.X)+")",
		"the loop ranges over "+core.ExprStr(rng.X)+", not over the whole text: a first line break outside that part is not seen")
	cv := ""
	if id, ok := rng.Value.(*ast.Ident); ok {
		cv = id.Name
	}
	// the flag variable: a bool declared before the loop
	flag := ""
	ast.Inspect(d.Decl.Body, func(n ast.Node) bool {
		if ds, ok := n.(*ast.DeclStmt); ok {
			if gd, ok := ds.Decl.(*ast.GenDecl); ok {
				for _, sp := range gd.Specs {
					if vs, ok := sp.(*ast.ValueSpec); ok && len(vs.Names) == 1 && vs.Type != nil && core.ExprStr(vs.Type) == "bool" {
						flag = vs.Names[0].Name
					}
				}
			}
		}
		return true
	})
	bad := ""
	if cv == "" || flag == "" {
		bad = "the loop variable or the found flag was not identified"
	}
	for b := int64(0); b < 256 && bad == ""; b++ {
		for f := int64(0); f <= 1 && bad == ""; f++ {
			e := &miniEval{pk: d.Pkg, env: map[string]int64{cv: b, flag: f}}
			st, _ := e.run(rng.Body.List)
			isNL := b == '\n' || b == '\r'
			switch {
			case e.unknown != "":
				bad = "undecided: " + e.unknown
			case isNL && (st != miniFall && st != miniContinue || len(e.effects) != 1 || e.effects[0] != recv+".nl = "+cv || e.env[flag] != 1):
				bad = core.F("byte %q (found=%d): status %d, effects %v, found=%d; expected the symbol to be recorded and the scan to go on", rune(b), f, st, e.effects, e.env[flag])
			case !isNL && f == 1 && (st != miniBreak || len(e.effects) != 0):
				bad = core.F("byte %q after a line end: status %d, effects %v; expected the loop to stop", rune(b), st, e.effects)
			case !isNL && f == 0 && ((st != miniFall && st != miniContinue) || len(e.effects) != 0 || e.env[flag] != 0):
				bad = core.F("byte %q before any line end: status %d, effects %v; expected no effect", rune(b), st, e.effects)
			}
		}
	}
	c.Check(bad == "", R, fn+":step", c.P.Pos(rng.Body.Pos()), "per byte: LF/CR -> symbol recorded; first other byte afterwards -> stop; otherwise nothing (512 cells)", bad)
	c.OK(R, fn+":anchor", c.P.Pos(d.Decl.Pos()), "NewLineSymbol analysed")
}
