package rules

import (
	"go/ast"
	"go/types"
	"golang.org/x/tools/go/packages"
	"golang.org/x/tools/go/ssa"
	"sort"
	"strings"

	"jsverif/internal/core"
)

func init() {
	Register("C07", "Decides structural necessary conditions of allOf inheritance: (eq) equality methods of constraints read every field that carries meaning - violated by AdditionalProperties.IsEqual, known finding; (copy) inherited children are deep copies marked with the source type; (req) required keys of the source are propagated; (cycle) the compile recursion is guarded by test-insert-recurse-delete; (refuse) each documented refusal is raised on its guard; (det) no map-order dependence in the allOf compiler. Does NOT decide the merged key set for arbitrary inheritance DAGs nor OpenAPI listing equality.",
		noExitRule("C07.noexit"), oaEntryRule("C07.oaentry"), c07eq, c07copy, c07share, c07oalist, c07index, addChildOrderRule("C07.addorder"), unnamedOnlyRule("C07.unnamedonly"), inheritAllRule("C07.inheritall"), oncePanicRule("C07.oncepanic"), presizeRule("C07.presize"), walkKindsRule("C07.walkkinds"), c07req, c07cycle, c07refuse, c07walk, func(c *core.Ctx) {
			runMapRange(c, "C07.det", []string{"notations/jschema/loader."}, 1)
		})
}

func c07eq(c *core.Ctx) {
	const R = "C07.eq"
	c.Rule(R, "an IsEqual/Equal method of a constraint struct reads every field of the struct except presentation-only ones (astNode): two constraints that differ in an ignored field are treated as the same rule when merging")
	c.Floor(R, 1)
	exclude := map[string]string{"astNode": "presentation only"}
	K := c.P.Pkg("notations/jschema/ischema/constraint")
	n := 0
	for _, file := range K.Syntax {
		for _, dcl := range file.Decls {
			fd, ok := dcl.(*ast.FuncDecl)
			if !ok || fd.Recv == nil || fd.Body == nil || (fd.Name.Name != "IsEqual" && fd.Name.Name != "Equal") {
				continue
			}
			rt := core.TypeOf(K, fd.Recv.List[0].Type)
			if p, ok := rt.(*types.Pointer); ok {
				rt = p.Elem()
			}
			st, ok := rt.Underlying().(*types.Struct)
			if !ok {
				continue
			}
			read := map[string]bool{}
			ast.Inspect(fd.Body, func(m ast.Node) bool {
				if se, ok := m.(*ast.SelectorExpr); ok {
					if sel := K.TypesInfo.Selections[se]; sel != nil && sel.Kind() == types.FieldVal {
						read[sel.Obj().Name()] = true
					}
				}
				return true
			})
			tname := rt.(*types.Named).Obj().Name()
			for i := 0; i < st.NumFields(); i++ {
				f := st.Field(i)
				if _, ex := exclude[f.Name()]; ex {
					continue
				}
				n++
				c.Check(read[f.Name()], R, tname+"."+fd.Name.Name+":"+f.Name(), c.P.Pos(fd.Pos()), core.F("%s.%s compares field %s", tname, fd.Name.Name, f.Name()),
					"the equality method ignores this field: constraints that differ only in it are considered equal (for additionalProperties: `true` and `false` are merged without the documented conflict error)")
			}
		}
	}
	if n == 0 {
		c.Unresolved(R, "an IsEqual/Equal method on a constraint struct")
	}
}

func c07copy(c *core.Ctx) { c07copyAs(c, "C07.copy") }

func c07copyAs(c *core.Ctx, R string) {
	c.Rule(R, "extendWith adds to the inheriting object the result of Copy() of each source child, after SetInheritedFrom(name) on that copy; every Node.Copy re-creates its baseNode through baseNode.Copy (fresh Constraints) and, for nodes with children, a fresh children slice filled with copies: no child or constraint set is shared between the type and its users")
	c.Floor(R, 7)
	d := c.P.FindDecl("(*notations/jschema/loader.allOfConstraintCompiler).extendWith")
	if d == nil {
		c.Unresolved(R, "(*notations/jschema/loader.allOfConstraintCompiler).extendWith")
		return
	}
	okCopy := false
	type hLoop struct {
		collLoop
		pk *packages.Package
	}
	var loops []hLoop
	for _, hd := range helperBodies(c, d, 2) {
		for _, lp := range collLoops(hd.Pkg, hd.Decl.Body) {
			loops = append(loops, hLoop{lp, hd.Pkg})
		}
	}
	root := d
	for _, lp := range loops {
		if !strings.HasSuffix(lp.coll, ".Children()") {
			continue
		}
		d := &core.DeclSite{Pkg: lp.pk, Decl: root.Decl}
		// the element may first be put into a local: child := children[i]
		elems := map[string]bool{lp.elem: true}
		var copyVar types.Object
		inherited, added := false, false
		for _, s := range lp.body.List {
			switch x := s.(type) {
			case *ast.AssignStmt:
				if len(x.Rhs) == 1 && len(x.Lhs) == 1 && elems[core.ExprStr(x.Rhs[0])] {
					elems[core.ExprStr(x.Lhs[0])] = true
				}
				if len(x.Rhs) == 1 && strings.HasSuffix(core.ExprStr(x.Rhs[0]), ".Copy()") && elems[strings.TrimSuffix(core.ExprStr(x.Rhs[0]), ".Copy()")] {
					if id, ok := x.Lhs[0].(*ast.Ident); ok {
						copyVar = d.Pkg.TypesInfo.ObjectOf(id)
					}
				}
			case *ast.ExprStmt:
				call, ok := x.X.(*ast.CallExpr)
				if !ok {
					continue
				}
				fun := core.ExprStr(call.Fun)
				if copyVar != nil && strings.HasSuffix(fun, ".SetInheritedFrom") {
					if id, ok := call.Fun.(*ast.SelectorExpr).X.(*ast.Ident); ok && d.Pkg.TypesInfo.ObjectOf(id) == copyVar && !added {
						inherited = true
					}
				}
				if strings.HasSuffix(fun, ".AddChild") && len(call.Args) == 2 {
					if id, ok := call.Args[1].(*ast.Ident); ok && d.Pkg.TypesInfo.ObjectOf(id) == copyVar && inherited {
						added = true
					}
				}
			}
		}
		okCopy = copyVar != nil && inherited && added
		break
	}
	c.Check(okCopy, R, "extendWith:copy-mark-add", c.P.Pos(d.Decl.Pos()), "inherited children: cn := child.Copy(); cn.SetInheritedFrom(name); AddChild(key, cn)", "the inherited child is not a copy marked with its source type: the type's own node is shared (later edits, e.g. SetInheritedFrom or required keys, leak into the type and into every other user), or the origin mark is missing")
	// every Copy implementation
	I := c.P.Pkg("notations/jschema/ischema")
	for _, tn := range []string{"ObjectNode", "ArrayNode", "LiteralNode", "MixedNode", "MixedValueNode"} {
		cd := c.P.FindDecl("(*notations/jschema/ischema." + tn + ").Copy")
		if cd == nil {
			c.Unresolved(R, "(*notations/jschema/ischema."+tn+").Copy")
			continue
		}
		// transitive within the type: collect bodies of helpers called on the receiver type
		bodies := []*ast.BlockStmt{cd.Decl.Body}
		ast.Inspect(cd.Decl.Body, func(n ast.Node) bool {
			if call, ok := n.(*ast.CallExpr); ok {
				if name := core.FullName(core.Callee(I, call)); strings.HasPrefix(name, "(*notations/jschema/ischema."+tn+").") {
					if hd := c.P.FindDecl(name); hd != nil {
						bodies = append(bodies, hd.Decl.Body)
					}
				}
			}
			return true
		})
		baseCopied, childrenFresh, childCopies := false, false, false
		for _, b := range bodies {
			ast.Inspect(b, func(n ast.Node) bool {
				switch x := n.(type) {
				case *ast.CallExpr:
					s := core.ExprStr(x)
					if strings.HasSuffix(s, ".baseNode.Copy()") {
						baseCopied = true
					}
					if strings.HasSuffix(core.ExprStr(x.Fun), ".Copy") && len(x.Args) == 0 && !strings.Contains(s, "baseNode") {
						childCopies = true
					}
				case *ast.AssignStmt:
					if len(x.Lhs) == 1 && strings.HasSuffix(core.ExprStr(x.Lhs[0]), ".children") && strings.HasPrefix(core.ExprStr(x.Rhs[0]), "make(") {
						childrenFresh = true
					}
				}
				return true
			})
		}
		hasChildren := tn == "ObjectNode" || tn == "ArrayNode"
		ok := baseCopied && (!hasChildren || (childrenFresh && childCopies))
		c.Check(ok, R, tn+".Copy", c.P.Pos(cd.Decl.Pos()), core.F("%s.Copy: fresh baseNode (constraints)%s", tn, map[bool]string{true: ", fresh children slice of copies", false: ""}[hasChildren]),
			core.F("Copy shares state with the original (baseNode copied: %v, children slice fresh: %v, children copied: %v)", baseCopied, childrenFresh, childCopies))
	}
	// baseNode.Copy creates a fresh Constraints
	bc := c.P.FindDecl("(*notations/jschema/ischema.baseNode).Copy")
	if bc == nil {
		c.Unresolved(R, "(*notations/jschema/ischema.baseNode).Copy")
		return
	}
	fresh := false
	ast.Inspect(bc.Decl.Body, func(n ast.Node) bool {
		if as, ok := n.(*ast.AssignStmt); ok && len(as.Lhs) == 1 && strings.HasSuffix(core.ExprStr(as.Lhs[0]), ".constraints") && strings.Contains(core.ExprStr(as.Rhs[0]), "Constraints{}") {
			fresh = true
		}
		return true
	})
	c.Check(fresh, R, "baseNode.Copy", c.P.Pos(bc.Decl.Pos()), "baseNode.Copy allocates a fresh Constraints container", "the copy shares the constraint container with the original: rules added to an inheriting object change the inherited type")
}

func c07req(c *core.Ctx) {
	const R = "C07.req"
	c.Rule(R, "extendWith calls addRequiredKey(toObject, key) for every key of the source object's RequiredKeys constraint (required/optional status is inherited)")
	c.Floor(R, 1)
	d := c.P.FindDecl("(*notations/jschema/loader.allOfConstraintCompiler).extendWith")
	if d == nil {
		c.Unresolved(R, "(*notations/jschema/loader.allOfConstraintCompiler).extendWith")
		return
	}
	ok := false
	inspectDeep(c, d, 2, func(_ *core.DeclSite, n ast.Node) bool {
		rs, isR := n.(*ast.RangeStmt)
		if !isR || !strings.HasSuffix(core.ExprStr(rs.X), ".Keys()") || !strings.Contains(core.ExprStr(rs.X), "RequiredKeys") {
			return true
		}
		if len(rs.Body.List) == 1 {
			if es, isE := rs.Body.List[0].(*ast.ExprStmt); isE {
				if call, isC := es.X.(*ast.CallExpr); isC && core.ExprStr(call.Fun) == "addRequiredKey" && len(call.Args) == 2 && core.ExprStr(call.Args[1]) == core.ExprStr(rs.Value) {
					ok = true
				}
			}
		}
		return true
	})
	c.Check(ok, R, "extendWith:required-keys", c.P.Pos(d.Decl.Pos()), "every required key of the source is added to the inheriting object", "required keys of the inherited type are not (all) propagated: inherited mandatory properties become optional")
}

func c07cycle(c *core.Ctx) {
	const R = "C07.cycle"
	c.Rule(R, "allOfConstraintCompiler.processType, evaluated on the three states a type name can be in, whatever their representation (two sets, one map to an enum, ...): starting from an untouched name the type is looked up, then marked, then compiled (processSchema) while marked, and ends in a final mark that differs from both; starting from the mark that is in place DURING the compilation the function refuses with ErrUnacceptableRecursionInAllOfRule before anything else; starting from the final mark it returns without compiling again. Otherwise cyclic inheritance recurses without end, or a diamond (two objects inheriting the same type) is reported as a cycle")
	c.Floor(R, 1)
	d := c.P.FindDecl("(*notations/jschema/loader.allOfConstraintCompiler).processType")
	if d == nil {
		c.Unresolved(R, "(*notations/jschema/loader.allOfConstraintCompiler).processType")
		return
	}
	r, nm := "c", "name"
	if d.Decl.Recv != nil && len(d.Decl.Recv.List[0].Names) > 0 {
		r = d.Decl.Recv.List[0].Names[0].Name
	}
	if ps := d.Decl.Type.Params.List; len(ps) > 0 && len(ps[0].Names) > 0 {
		nm = ps[0].Names[0].Name
	}
	// the map-typed fields of the compiler that are keyed by the name
	var setFields, valFields []string
	if nt := c.P.NamedType("notations/jschema/loader", "allOfConstraintCompiler"); nt != nil {
		if st, ok := nt.Underlying().(*types.Struct); ok {
			for i := 0; i < st.NumFields(); i++ {
				mt, isMap := st.Field(i).Type().Underlying().(*types.Map)
				if !isMap {
					continue
				}
				if kb, isB := mt.Key().Underlying().(*types.Basic); !isB || kb.Info()&types.IsString == 0 {
					continue
				}
				switch el := mt.Elem().Underlying().(type) {
				case *types.Struct:
					if el.NumFields() == 0 {
						setFields = append(setFields, r+"."+st.Field(i).Name())
					}
				case *types.Basic:
					if el.Kind() == types.Bool {
						setFields = append(setFields, r+"."+st.Field(i).Name())
					} else if el.Info()&types.IsInteger != 0 {
						valFields = append(valFields, r+"."+st.Field(i).Name())
					}
				}
			}
		}
	}
	if len(setFields)+len(valFields) == 0 {
		c.Bad(R, "processType:order", c.P.Pos(d.Decl.Pos()), "state of a type name in allOfConstraintCompiler", "undecided: the compiler has no map keyed by the type name")
		return
	}
	type snap struct {
		sets map[string]bool
		vals map[string]int64
	}
	const key = int64(1)
	take := func(e *miniEval) snap {
		sn := snap{map[string]bool{}, map[string]int64{}}
		for _, f := range setFields {
			sn.sets[f] = e.maps[f][key]
		}
		for _, f := range valFields {
			sn.vals[f] = e.vmaps[f][key]
		}
		return sn
	}
	same := func(a, b snap) bool {
		for k, v := range a.sets {
			if b.sets[k] != v {
				return false
			}
		}
		for k, v := range a.vals {
			if b.vals[k] != v {
				return false
			}
		}
		return true
	}
	run := func(start *snap) (events []string, during *snap, end snap, status int, unknown string) {
		e := &miniEval{pk: d.Pkg, env: map[string]int64{nm: key, "nil": 0}, ctx: c, maps: map[string]map[int64]bool{}, vmaps: map[string]map[int64]int64{}}
		for _, f := range setFields {
			e.maps[f] = map[int64]bool{}
			if start != nil && start.sets[f] {
				e.maps[f][key] = true
			}
		}
		for _, f := range valFields {
			e.vmaps[f] = map[int64]int64{}
			if start != nil && start.vals[f] != 0 {
				e.vmaps[f][key] = start.vals[f]
			}
		}
		e.hook = func(x ast.Expr) (int64, bool) {
			switch y := x.(type) {
			case *ast.Ident:
				if y.Name == "nil" {
					return 0, true
				}
			case *ast.CallExpr:
				f := core.ExprStr(y.Fun)
				switch {
				case strings.HasSuffix(f, ".processSchema"):
					events = append(events, "compile")
					sn := take(e)
					during = &sn
					return 0, true
				case strings.HasSuffix(f, "MustType"):
					events = append(events, "lookup")
					return 1, true
				case f == "panic" || f == "len" || f == "delete":
					return 0, false
				}
				if tv, ok := d.Pkg.TypesInfo.Types[y.Fun]; ok && tv.IsType() {
					return 0, false
				}
				return 1, true
			}
			return 0, false
		}
		e.onExprCall = func(call *ast.CallExpr) bool {
			if strings.HasSuffix(core.ExprStr(call.Fun), ".processSchema") {
				events = append(events, "compile")
				sn := take(e)
				during = &sn
				return true
			}
			return false
		}
		st, _ := e.run(d.Decl.Body.List)
		for _, ef := range e.effects {
			if strings.Contains(ef, "ErrUnacceptableRecursionInAllOfRule") {
				events = append(events, "refuse")
			}
		}
		return events, during, take(e), st, e.unknown
	}
	bad := ""
	ev0, during, end0, st0, u0 := run(nil)
	untouched := snap{map[string]bool{}, map[string]int64{}}
	switch {
	case u0 != "":
		bad = "undecided: " + u0
	case st0 == miniPanic:
		bad = "an untouched type name is refused"
	case during == nil:
		bad = "an untouched type is not compiled (no processSchema call)"
	case len(ev0) < 2 || ev0[0] != "lookup":
		bad = "the type is not looked up (MustType) before it is marked and compiled: " + strings.Join(ev0, " > ")
	case same(*during, untouched):
		bad = "the name is not marked while its schema is compiled: a cycle recurses without end"
	case same(end0, *during):
		bad = "the mark of the compilation is still in place afterwards: a second use of the type (diamond) is reported as a cycle"
	case same(end0, untouched):
		bad = "a compiled type is not marked as compiled: it is compiled again by every user"
	}
	if bad == "" {
		ev1, _, _, st1, u1 := run(during)
		switch {
		case u1 != "":
			bad = "undecided: " + u1
		case st1 != miniPanic || len(ev1) == 0 || ev1[0] != "refuse":
			bad = "a name that is being compiled is not refused first: " + strings.Join(ev1, " > ")
		}
	}
	if bad == "" {
		ev2, d2, _, st2, u2 := run(&end0)
		switch {
		case u2 != "":
			bad = "undecided: " + u2
		case st2 == miniPanic:
			bad = "a compiled type is refused"
		case d2 != nil:
			bad = "a compiled type is compiled again: " + strings.Join(ev2, " > ")
		}
	}
	c.Check(bad == "", R, "processType:order", c.P.Pos(d.Decl.Pos()), "processType on the three states of a type name: untouched -> lookup, mark, compile, final mark; in compilation -> refused; compiled -> returned", "the cycle guard of allOf compilation is out of order: "+bad)
}

func c07refuse(c *core.Ctx) {
	const R = "C07.refuse"
	c.Rule(R, "each documented refusal of allOf is raised on its guard: non-object source (failed type assertion to *ObjectNode -> ErrUnacceptableUserTypeInAllOfRule), conflicting additionalProperties (!IsEqual -> ErrConflictAdditionalProperties), duplicate property (ObjectNodeKeys.Set panics ErrDuplicateKeysInSchema when isDuplicatedKey), missing type (MustType panics ErrUserTypeNotFound: rule C05.miss)")
	c.Floor(R, 3)
	d := c.P.FindDecl("(*notations/jschema/loader.allOfConstraintCompiler).extendWith")
	k := c.P.FindDecl("(*notations/jschema/ischema.ObjectNodeKeys).Set")
	if d == nil || k == nil {
		c.Unresolved(R, "extendWith / ObjectNodeKeys.Set")
		return
	}
	guards := map[string]bool{}
	inspectDeep(c, d, 1, func(hd *core.DeclSite, n ast.Node) bool {
		ifs, ok := n.(*ast.IfStmt)
		if !ok {
			return true
		}
		cond := core.ExprStr(ifs.Cond)
		body := core.ExprStr0(ifs.Body)
		if cond == "!ok" && strings.Contains(body, "ErrUnacceptableUserTypeInAllOfRule") {
			guards["non-object"] = true
		}
		if strings.HasPrefix(cond, "!") && strings.Contains(cond, ".IsEqual(") && strings.Contains(body, "ErrConflictAdditionalProperties") {
			guards["conflict"] = true
		}
		return true
	})
	// the !ok of non-object must belong to the assertion on schem.RootNode()
	src := core.ExprStr0(d.Decl.Body)
	if !strings.Contains(src, "schem.RootNode().(*ischema.ObjectNode)") {
		guards["non-object"] = false
	}
	dup := false
	ast.Inspect(k.Decl.Body, func(n ast.Node) bool {
		ifs, ok := n.(*ast.IfStmt)
		if !ok || !strings.Contains(core.ExprStr0(ifs.Body), "ErrDuplicateKeysInSchema") {
			return true
		}
		// the guard looks the key up in the index: inline (`_, dup := k.index[ik]; dup`) or through a helper
		guard := core.ExprStr(ifs.Cond)
		if ifs.Init != nil {
			guard += ";" + core.ExprStr0(ifs.Init)
		}
		if strings.Contains(guard, ".index[") {
			dup = true
		}
		for _, e := range []ast.Node{ifs.Cond, ifs.Init} {
			if e == nil {
				continue
			}
			ast.Inspect(e, func(m ast.Node) bool {
				if call, isC := m.(*ast.CallExpr); isC {
					if f, isF := core.Callee(k.Pkg, call).(*types.Func); isF && f.Pkg() != nil && f.Pkg().Path() == k.Pkg.PkgPath {
						if hd := c.P.FindDecl(core.Rel(f.FullName())); hd != nil && hd.Decl.Body != nil && strings.Contains(core.ExprStr0(hd.Decl.Body), ".index[") {
							dup = true
						}
					}
				}
				return true
			})
		}
		return true
	})
	guards["duplicate-key"] = dup
	var names []string
	for _, g := range []string{"non-object", "conflict", "duplicate-key"} {
		names = append(names, g)
	}
	sort.Strings(names)
	for _, g := range names {
		c.Check(guards[g], R, g, c.P.Pos(d.Decl.Pos()), "refusal `"+g+"` is raised on its guard", "the guard or the error of this refusal is gone: the case is merged silently instead of being rejected")
	}
}

// c07walk: the allOf compiler walks the whole tree.
func c07walk(c *core.Ctx) { c07walkAs(c, "C07.walk") }

func c07walkAs(c *core.Ctx, R string) {
	c.Rule(R, "allOfConstraintCompiler.processNode reaches its recursion into the children on every path, in particular after the node's own allOf was expanded (no early return in the allOf branch): nested objects with their own allOf are expanded too; and processSchema/processType feed every registered type")
	c.Floor(R, 1)
	f := c.P.Method("notations/jschema/loader", "allOfConstraintCompiler", "processNode")
	if f == nil {
		c.Unresolved(R, "(*notations/jschema/loader.allOfConstraintCompiler).processNode")
		return
	}
	var extendBlk []*ssa.BasicBlock
	var recBlk []*ssa.BasicBlock
	for _, b := range f.Blocks {
		for _, in := range b.Instrs {
			if call, ok := in.(*ssa.Call); ok {
				if sc := call.Call.StaticCallee(); sc != nil {
					switch sc.Name() {
					case "extend":
						extendBlk = append(extendBlk, b)
					case "processNode":
						recBlk = append(recBlk, b)
					}
				}
			}
		}
	}
	ok := len(extendBlk) > 0 && len(recBlk) > 0
	// every block that expands allOf must be able to reach the type test that leads to the recursion:
	// no return-only continuation. We require: from the extend block, some recursive-call block is reachable.
	reach := func(from *ssa.BasicBlock, to *ssa.BasicBlock) bool {
		seen := map[*ssa.BasicBlock]bool{}
		var walk func(b *ssa.BasicBlock) bool
		walk = func(b *ssa.BasicBlock) bool {
			if b == to {
				return true
			}
			if seen[b] {
				return false
			}
			seen[b] = true
			for _, s := range b.Succs {
				if walk(s) {
					return true
				}
			}
			return false
		}
		return walk(from)
	}
	for _, eb := range extendBlk {
		r := false
		for _, rb := range recBlk {
			if reach(eb, rb) {
				r = true
			}
		}
		if !r {
			ok = false
		}
	}
	c.Check(ok, R, "processNode:recurse-after-extend", c.P.Pos(f.Pos()), "processNode recurses into the children also after expanding the node's own allOf", "after expanding a node's own allOf the compiler no longer descends into the node's children: a nested object with its own allOf keeps the unexpanded rule (its inherited properties are missing and its refusals are not raised)")
}

// c07share: constraint objects of the parent type are not shared with the inheriting object
// unless they are immutable.
func c07share(c *core.Ctx) {
	const R = "C07.share"
	c.Rule(R, "in extendWith, every constraint object attached to the inheriting object with AddConstraint is either freshly constructed or, when it is the parent type's own object (obtained from fromObject.Constraint(K)), of a constraint type without mutating methods (no pointer-receiver method): a shared RequiredKeys would make keys inherited later from another parent appear in the first parent type's own required list")
	c.Floor(R, 1)
	d := c.P.FindDecl("(*notations/jschema/loader.allOfConstraintCompiler).extendWith")
	if d == nil {
		c.Unresolved(R, "(*notations/jschema/loader.allOfConstraintCompiler).extendWith")
		return
	}
	K := c.P.Pkg("notations/jschema/ischema/constraint")
	mutable := func(tn string) (bool, string) {
		nt := c.P.NamedType("notations/jschema/ischema/constraint", tn)
		if nt == nil {
			return true, "unknown constraint type " + tn
		}
		ms := types.NewMethodSet(types.NewPointer(nt))
		for i := 0; i < ms.Len(); i++ {
			fn := ms.At(i).Obj().(*types.Func)
			sig := fn.Type().(*types.Signature)
			if sig.Recv() != nil {
				if _, isPtr := sig.Recv().Type().(*types.Pointer); isPtr {
					return true, "(*" + tn + ")." + fn.Name() + " has a pointer receiver"
				}
			}
		}
		return false, ""
	}
	_ = K
	// origin of an expression: ("fresh"|"parent:<T>"|"?")
	var origin func(e ast.Expr, depth int) string
	origin = func(e ast.Expr, depth int) string {
		if depth > 6 {
			return "?"
		}
		e = ast.Unparen(e)
		switch x := e.(type) {
		case *ast.TypeAssertExpr:
			o := origin(x.X, depth+1)
			if strings.HasPrefix(o, "parent:") {
				t := core.ExprStr(x.Type)
				t = strings.TrimPrefix(t, "*")
				t = strings.TrimPrefix(t, "constraint.")
				return "parent:" + t
			}
			return o
		case *ast.CallExpr:
			fun := core.ExprStr(x.Fun)
			if strings.HasSuffix(fun, ".Constraint") && len(x.Args) == 1 {
				k := core.ExprStr(x.Args[0])
				k = strings.TrimPrefix(k, "constraint.")
				return "parent:" + strings.TrimSuffix(k, "ConstraintType")
			}
			if strings.HasPrefix(fun, "constraint.New") {
				return "fresh"
			}
			return "?"
		case *ast.UnaryExpr:
			if _, ok := x.X.(*ast.CompositeLit); ok {
				return "fresh"
			}
		case *ast.Ident:
			obj := d.Pkg.TypesInfo.ObjectOf(x)
			if def := findDef(d.Pkg, obj); def != nil {
				return origin(def, depth+1)
			}
		}
		return "?"
	}
	n := 0
	inspectDeep(c, d, 1, func(hd *core.DeclSite, nd ast.Node) bool {
		call, ok := nd.(*ast.CallExpr)
		if !ok || !strings.HasSuffix(core.ExprStr(call.Fun), ".AddConstraint") || len(call.Args) != 1 {
			return true
		}
		if hd.Decl != d.Decl && !strings.HasPrefix(core.Rel(hd.Pkg.PkgPath), "notations/jschema/loader") {
			return true
		}
		if hd.Decl != d.Decl && hd.Decl.Recv != nil {
			return true // methods of the compiler are other phases; only plain helpers of extendWith count
		}
		n++
		key := core.F("extendWith:AddConstraint#%d", n)
		pos := c.P.Pos(call.Pos())
		o := origin(call.Args[0], 0)
		what := "AddConstraint(" + core.ExprStr(call.Args[0]) + ") in extendWith: origin " + o
		switch {
		case o == "fresh":
			c.OK(R, key, pos, what)
		case strings.HasPrefix(o, "parent:"):
			tn := strings.TrimPrefix(o, "parent:")
			if m, why := mutable(tn); m {
				c.Bad(R, key, pos, what, "the parent type's own "+tn+" object is attached to the inheriting object and "+why+": later additions to the child change the parent type and every other user of it")
			} else {
				c.OKd(R, key, pos, what, "shared object of an immutable constraint type (no pointer-receiver methods)")
			}
		default:
			c.Bad(R, key, pos, what, "undecided: cannot tell whether the attached constraint is fresh or the parent type's own object")
		}
		return true
	})
	if n == 0 {
		c.Note(R, "extendWith:AddConstraint", c.P.Pos(d.Decl.Pos()), "no AddConstraint call in extendWith", "nothing is attached")
	}
}

// c07oalist: the OpenAPI property listing follows inheritance transitively.
func c07oalist(c *core.Ctx) {
	const R = "C07.oalist"
	c.Rule(R, "openapi.ObjectInfo.PropertiesInfos lists own children and then, through allOf() and dereferenceUserTypeProperties(), the properties of the named types - and the properties of a named type are obtained by PropertiesInfos() again, so the listing is transitive: the three functions form one recursive cycle of the call graph, and allOf() handles both the single-name and the list form without leaving its loop early")
	c.Floor(R, 3)
	pi := c.P.Method("openapi", "ObjectInfo", "PropertiesInfos")
	ao := c.P.Method("openapi", "ObjectInfo", "allOf")
	de := c.P.Method("openapi", "ObjectInfo", "dereferenceUserTypeProperties")
	if pi == nil || ao == nil || de == nil {
		c.Unresolved(R, "openapi.ObjectInfo.{PropertiesInfos,allOf,dereferenceUserTypeProperties}")
		return
	}
	reaches := func(from, to *ssa.Function) bool {
		for _, g := range c.P.Succs(from) {
			if g == to {
				return true
			}
		}
		return c.P.Reach(c.P.Succs(from), nil)[to]
	}
	c.Check(reaches(pi, ao), R, "PropertiesInfos->allOf", c.P.Pos(pi.Pos()), "PropertiesInfos adds the inherited properties (calls allOf)", "the listing no longer includes inherited properties")
	c.Check(reaches(ao, de), R, "allOf->dereference", c.P.Pos(ao.Pos()), "allOf resolves the named types", "the named types of allOf are not resolved")
	c.Check(reaches(de, pi), R, "dereference->PropertiesInfos", c.P.Pos(de.Pos()), "the properties of a named type are listed by PropertiesInfos again (transitive through the type's own allOf)", "the properties of an inherited type are listed without following that type's own allOf: with a chain of two or more inheritance levels the OpenAPI listing shows fewer keys than Check() and Example() use")
	// dereferenceUserTypeProperties: every resolved schema contributes its PropertiesInfos(), no skipping
	if dd := c.P.FindDecl("(openapi.ObjectInfo).dereferenceUserTypeProperties"); dd != nil {
		bad := ""
		ast.Inspect(dd.Decl.Body, func(n ast.Node) bool {
			if rs, ok := n.(*ast.RangeStmt); ok {
				ast.Inspect(rs.Body, func(m ast.Node) bool {
					switch y := m.(type) {
					case *ast.BranchStmt:
						bad = y.Tok.String()
					case *ast.ReturnStmt:
						bad = "return"
					}
					return true
				})
			}
			return true
		})
		c.Check(bad == "", R, "dereference:no-skip", c.P.Pos(dd.Decl.Pos()), "every schema resolved for an inherited type is listed (no continue/break in the loop)", "some inherited types are skipped (`"+bad+"`): an intermediate type without own properties still has its own allOf")
	} else {
		c.Unresolved(R, "(openapi.ObjectInfo).dereferenceUserTypeProperties")
	}
	// allOf: both token kinds, loop without early exit
	d := c.P.FindDecl("(openapi.ObjectInfo).allOf")
	if d == nil {
		c.Unresolved(R, "(openapi.ObjectInfo).allOf")
		return
	}
	// evaluated per form of the rule: `allOf: "@a"` resolves its one name, `allOf: ["@a", "@b"]`
	// resolves every item, anything else is refused
	param := ""
	if len(d.Decl.Type.Params.List) == 1 && len(d.Decl.Type.Params.List[0].Names) == 1 {
		param = d.Decl.Type.Params.List[0].Names[0].Name
	}
	spk := c.P.Pkg("")
	tok := func(name string) (int64, bool) {
		if spk == nil {
			return 0, false
		}
		if k, ok := spk.Types.Scope().Lookup(name).(*types.Const); ok {
			return internString(k.Val().ExactString()), true
		}
		return 0, false
	}
	shortcut, ok1 := tok("TokenTypeShortcut")
	array, ok2 := tok("TokenTypeArray")
	other, ok3 := tok("TokenTypeString")
	bad := ""
	if !ok1 || !ok2 || !ok3 || param == "" {
		bad = "undecided: token type constants or the parameter of allOf were not found"
	}
	for _, form := range []struct {
		name  string
		tt    int64
		items int64
		want  []string
	}{{"shortcut", shortcut, 0, []string{param + ".Value"}}, {"list", array, 3, []string{"item0", "item1", "item2"}}, {"other", other, 0, nil}} {
		if bad != "" {
			break
		}
		var got []string
		e := &miniEval{pk: d.Pkg, env: map[string]int64{param + ".TokenType": form.tt, param + ".Items": form.items}, lens: map[string]bool{param + ".Items": true, "result": true}}
		loopVar := ""
		e.hook = func(x ast.Expr) (int64, bool) {
			call, ok := x.(*ast.CallExpr)
			if !ok {
				return 0, false
			}
			f := core.ExprStr(call.Fun)
			switch {
			case strings.HasSuffix(f, ".dereferenceUserTypeProperties") && len(call.Args) == 1:
				a := core.ExprStr(call.Args[0])
				if loopVar != "" && strings.HasPrefix(a, loopVar+".") {
					a = core.F("item%d", e.env[loopVar])
				} else if ix, isIx := ast.Unparen(call.Args[0]).(*ast.SelectorExpr); isIx {
					if ie, isI := ast.Unparen(ix.X).(*ast.IndexExpr); isI && core.ExprStr(ie.X) == param+".Items" {
						a = core.F("item%d", e.expr(ie.Index))
					}
				}
				got = append(got, a)
				return 0, true
			case f == "append" || f == "make" || f == "len":
				return 0, false
			}
			return 0, true
		}
		// the loop variable of a range over the items
		ast.Inspect(d.Decl.Body, func(n ast.Node) bool {
			if rs, ok := n.(*ast.RangeStmt); ok && core.ExprStr(rs.X) == param+".Items" && rs.Value != nil {
				loopVar = core.ExprStr(rs.Value)
			}
			return true
		})
		st, _ := e.run(d.Decl.Body.List)
		switch {
		case e.unknown != "":
			bad = form.name + ": undecided: " + e.unknown
		case form.want == nil && st != miniPanic:
			bad = "a rule value that is neither a name nor a list is not refused"
		case form.want != nil && (st != miniReturn || strings.Join(got, ",") != strings.Join(form.want, ",")):
			bad = core.F("form %s: resolves %v, expected %v", form.name, got, form.want)
		}
	}
	c.Check(bad == "", R, "allOf:forms", c.P.Pos(d.Decl.Pos()), "allOf handles `allOf: \"@a\"` and `allOf: [\"@a\", \"@b\"]`, every list item", "a form of the allOf rule is not followed: "+bad)
}

// c07index: keys and children of an object stay aligned.
func c07index(c *core.Ctx) {
	const R = "C07.index"
	c.Rule(R, "every call of ObjectNodeKeys.Set passes a key record built on the spot whose Index is len(<the same object>.children): the position the child is about to take in THIS object. Child(key), ChildByRawKey and the AST walk resolve a key to children[Index]; a key record copied from another object (an inherited property keeps the index it had in its source type) makes them return another key's node. The same alignment is the invariant behind the tabled element accesses children[i.Index] / Data[i]")
	c.Floor(R, 1)
	n := 0
	for _, cs := range c.P.Calls() {
		if core.FullName(core.Callee(cs.Pkg, cs.Call)) != "(*notations/jschema/ischema.ObjectNodeKeys).Set" || len(cs.Call.Args) != 1 {
			continue
		}
		n++
		fn := core.DeclName(cs.Pkg, cs.Decl)
		key := core.F("%s:keys.Set#%d", fn, n)
		pos := c.P.Pos(cs.Call.Pos())
		se, _ := cs.Call.Fun.(*ast.SelectorExpr)
		recv := ""
		if se != nil {
			recv = strings.TrimSuffix(core.ExprStr(se.X), ".keys")
		}
		ok := false
		if cl, isLit := ast.Unparen(cs.Call.Args[0]).(*ast.CompositeLit); isLit {
			for _, el := range cl.Elts {
				if kv, isKV := el.(*ast.KeyValueExpr); isKV && core.ExprStr(kv.Key) == "Index" && core.ExprStr(kv.Value) == "len("+recv+".children)" {
					ok = true
				}
			}
		}
		if r, isT := map[string]string{
			"(*notations/jschema/ischema.ObjectNode).copyKeysFrom":          "whole-object copy (Copy): all key records of `from` are re-registered in order after all its children were copied in order by copyChildrenFrom, so every Index names the same position in the copy",
			"(*notations/jschema/ischema.ObjectNode).copyLowercaseKeysFrom": "whole-object copy (CopyAndLowercaseKeys): as copyKeysFrom",
		}[fn]; isT && !ok {
			c.Tabled(R, key, pos, "keys.Set("+core.ExprStr(cs.Call.Args[0])+") in "+fn, r)
			continue
		}
		c.Check(ok, R, key, pos, "keys.Set("+clip(core.ExprStr(cs.Call.Args[0]), 80)+") in "+fn, "the key record is not built with Index = len("+recv+".children): keys and children of the object can get out of step")
	}
}
