package rules

import (
	"fmt"

	"jsverif/internal/core"
)

// DumpScanModel prints the byte classes of every state of a scanner package (debugging aid).
func DumpScanModel(p *core.Program, pkgRel string, only string) {
	c := core.NewCtx(p, "dump", "quick")
	m := buildScanModel(c, pkgRel)
	fmt.Printf("scanner %s: %d states, undecided %d\n", pkgRel, len(m.names), len(m.undecided))
	for _, u := range m.undecided {
		fmt.Println("  UNDECIDED", u)
	}
	for _, n := range m.names {
		if only != "" && only != n {
			continue
		}
		rows := m.rows[n]
		classes := map[string][]int{}
		var order []string
		for b := 0; b < 256; b++ {
			k := rows[b].key
			if _, ok := classes[k]; !ok {
				order = append(order, k)
			}
			classes[k] = append(classes[k], b)
		}
		fmt.Printf("== %s: %d byte classes\n", n, len(classes))
		for _, k := range order {
			bs := classes[k]
			fmt.Printf("   %s:\n      %s\n", classStr(bs), k)
		}
	}
}

func classStr(bs []int) string {
	s := ""
	i := 0
	n := 0
	for i < len(bs) && n < 10 {
		j := i
		for j+1 < len(bs) && bs[j+1] == bs[j]+1 {
			j++
		}
		if s != "" {
			s += ","
		}
		if i == j {
			s += fmt.Sprintf("%q", rune(bs[i]))
		} else {
			s += fmt.Sprintf("%q-%q", rune(bs[i]), rune(bs[j]))
		}
		i = j + 1
		n++
	}
	if i < len(bs) {
		s += ",..."
	}
	return s
}
