package rules

import (
	"go/constant"
	"go/types"
	"sort"
	"strings"

	"golang.org/x/tools/go/ssa"

	"jsverif/internal/absint"
	"jsverif/internal/core"
)

func init() {
	Register("C17", "Decides structural necessary conditions of 'enum rule files mean the same as the inline enum': (grammar) the enum scanner, extracted as a pushdown system like the JSON scanner, accepts - on inputs without annotations - exactly `[` comma-separated JSON scalars without exponent `]`: lock-step product with a reference recogniser over all bytes except the annotation opener outside strings; (clone) the duplicate-detection key of rule files equals the one of inline enums; (kind) the literal classifier used for rule files is order-independent and agrees with the schema-side classifier; (nopanic) element accesses of the enum package are guarded (the enum notation has no recover). Does NOT decide annotations inside rule files, nor verdict/example equality of `enum: @name` vs the inline list for all lists.",
		c17grammar, c17clone, guessRules("C17.kind"), c17nopanic, c17rulename, func(c *core.Ctx) { emptyCommentAs(c, "C17.emptycomment") }, asciiBlankRule("C17.asciiblank"), c17empty, strClassRule("C17.strclass"), freshResultRule("C17.fresh"), func(c *core.Ctx) { c14styleAs(c, "C17.style") }, noInplaceRule("C17.noinplace"), eofSiblingRule("C17.eofsibling"), slashEOFRule("C17.slasheof", "(*rules/enum.scanner).switchToAnnotation", []string{"(*rules/enum.scanner).stateAnyAnnotationStart"}, "(*rules/enum.scanner).processTail"))
}

// reference: array of scalars without exponent, no nesting.
func refEnumStep(r refCfg, b byte) (refCfg, bool) {
	// top level: only whitespace or '[' before the list
	if r.st == jV && r.stack == "" {
		if isWS(b) {
			return r, true
		}
		if b == '[' {
			r.stack = "A"
			r.st = jArrStart
			return r, true
		}
		return r, false
	}
	// no nested containers
	if (r.st == jV || r.st == jArrStart) && (b == '{' || b == '[') {
		return r, false
	}
	n, ok := refStep(r, b, false)
	if !ok {
		return n, false
	}
	if n.st == jNumExp {
		return n, false
	}
	return n, true
}

func c17grammar(c *core.Ctx) { c17grammarAs(c, "C17.grammar") }

func c17grammarAs(c *core.Ctx, R string) {
	c.Rule(R, "rules/enum scanner, annotation-free fragment ≡ `[` JSON scalars without exponent, comma separated `]`: lock-step product of the pushdown system extracted from the enum scanner (per-byte summaries of all state methods, end-of-input table from Next/processTail, pair tables) with a reference recogniser, over all byte values except `/` outside string literals (annotations are not modelled by the reference) - every configuration where one side rejects a byte or accepts end of input and the other does not is reported with a shortest witness; values are assumed distinct (duplicate detection is data dependent)")
	c.Floor(R, 25)
	m := buildScanModel(c, "rules/enum")
	if len(m.names) < 25 {
		c.Unresolved(R, core.F("state methods of rules/enum (found %d)", len(m.names)))
		return
	}
	for _, u := range m.undecided {
		c.Bad(R, "undecided:"+u, "-", "summary of "+u, "undecided: the state method could not be summarised for this byte")
	}
	lt := extractLexTables(c, R, "rules/enum")
	if lt == nil {
		return
	}
	eof, ok := extractEOF(c, R, m, "rules/enum", "scanner")
	if !ok {
		c.Bad(R, "eof-table", "-", "end-of-input table of (*scanner).Next/processTail", "undecided: could not decode the end-of-input branch")
		return
	}
	// zero values of basic fields
	zero := map[string]constant.Value{}
	if nt := c.P.NamedType("rules/enum", "scanner"); nt != nil {
		st := nt.Underlying().(*types.Struct)
		for i := 0; i < st.NumFields(); i++ {
			if b, ok := st.Field(i).Type().Underlying().(*types.Basic); ok {
				switch {
				case b.Info()&types.IsBoolean != 0:
					zero[c.P.PinnedFieldName(nt, i)] = constant.MakeBool(false)
				case b.Info()&types.IsInteger != 0:
					zero[c.P.PinnedFieldName(nt, i)] = constant.MakeInt64(0)
				}
			}
		}
	}
	// initial step from newScanner
	initial := ""
	if ns := c.P.Func("rules/enum", "newScanner"); ns != nil {
		in := absint.New(absint.Config{InModule: c.P.FuncInModule, Inline: func(f *ssa.Function) bool { return f.Pkg == ns.Pkg && sameResult(f, ns) }})
		for _, o := range in.Run(ns, []absint.Val{absint.Param("file"), absint.Const{}}, nil) {
			if p, ok := o.Val.(absint.Ptr); ok {
				if v, ok := o.St.Mem(absint.Ptr{Base: p.Base, Path: ".step"}.Key()); ok {
					initial = stateNameOf(v)
				}
			}
		}
	}
	if m.states[initial] == nil {
		c.Bad(R, "initial-state", "-", "initial step of newScanner", "undecided: newScanner does not store a state method in step (got "+initial+")")
		return
	}
	obsAll := map[string]bool{}
	im := &implModel{m: m, lt: lt, eof: eof, obs: obsAll, zero: zero,
		flags:  map[string]constant.Value{"lengthComputing": constant.MakeBool(false)},
		assume: map[string]bool{"validateValue": true}, // `validateValue() == nil`: values are distinct
	}
	type item struct {
		ic implCfg
		rc refCfg
		w  string
	}
	start := item{implCfg{step: initial}, refCfg{st: jV}, ""}
	seen := map[string]bool{start.ic.key() + "#" + start.rc.key(): true}
	queue := []item{start}
	reported := map[string]bool{}
	report := func(key, pos, what, detail string) {
		if !reported[key] {
			reported[key] = true
			c.Bad(R, key, pos, what, detail)
		}
	}
	reached := map[string]bool{}
	inString := func(r refCfg) bool {
		switch r.st {
		case jStr, jStrEsc, jStrU1, jStrU2, jStrU3, jStrU4:
			return true
		}
		return false
	}
	for len(queue) > 0 {
		it := queue[0]
		queue = queue[1:]
		reached[it.ic.step] = true
		fpos := c.P.Pos(m.states[it.ic.step].Pos())
		ia, why := im.acceptsEOF(it.ic)
		// the enum notation has no `at least one lexeme` rule: acceptance is the scanner's own
		if why != "" {
			report("eof-undecided:"+it.ic.step, fpos, "end of input in "+it.ic.step, "undecided: "+why)
		} else {
			ra := refAcceptsEOF(it.rc)
			iaEff := ia || (!it.ic.saw && len(it.ic.stack) == 0 && false)
			if iaEff != ra {
				verdict := "accepts"
				if !iaEff {
					verdict = "rejects"
				}
				report(core.F("eof:%s/unfinished=%v/stack=%s", it.ic.step, it.ic.unfinished, strings.Join(it.ic.stack, ",")), fpos,
					core.F("end of input in state %s (unfinishedLiteral=%v, stack %v)", it.ic.step, it.ic.unfinished, it.ic.stack),
					core.F("the enum scanner %s the rule text %q but the documented grammar (bracketed list of JSON scalars without exponent) says the opposite", verdict, it.w))
			}
		}
		if it.ic.done {
			continue
		}
		for b := 0; b < 256; b++ {
			if b == '/' && !inString(it.rc) {
				continue
			}
			ni, iok, why := im.stepByte(it.ic, b)
			nr, rok := refEnumStep(it.rc, byte(b))
			if why != "" {
				report(core.F("undecided:%s:%q", it.ic.step, rune(b)), fpos, core.F("state %s on byte %q", it.ic.step, rune(b)), "undecided: "+why)
				continue
			}
			if iok != rok {
				verdict := "accepts"
				if !iok {
					verdict = "rejects"
				}
				report(core.F("step:%s:%q/stack=%s", it.ic.step, rune(b), strings.Join(topN(it.ic.stack, 2), ",")), fpos,
					core.F("state %s on byte %q (top of stack %v)", it.ic.step, rune(b), topN(it.ic.stack, 2)),
					core.F("the enum scanner %s byte %q after %q but the documented grammar says the opposite", verdict, string(rune(b)), it.w))
				continue
			}
			if !iok {
				continue
			}
			if len(ni.rts) > maxRTS || len(ni.stack) > 4*maxNesting+8 {
				report(core.F("growth:%s:%q", it.ic.step, rune(b)), fpos, core.F("state %s on byte %q", it.ic.step, rune(b)),
					core.F("a stack of the scanner grows without bound on input whose nesting is bounded (return stack %d, lexeme stack %d after %q): a push without a matching pop", len(ni.rts), len(ni.stack), it.w+string(rune(b))))
				continue
			}
			k := ni.key() + "#" + nr.key()
			if !seen[k] {
				seen[k] = true
				queue = append(queue, item{ni, nr, it.w + string(rune(b))})
			}
		}
	}
	if len(reported) == 0 {
		c.OKd(R, "equivalent", "-", "enum scanner (annotation-free fragment) ≡ bracketed list of JSON scalars without exponent", core.F("%d product configurations explored", len(seen)))
	}
	var rs []string
	for _, n := range m.names {
		if reached[n] {
			rs = append(rs, n)
			c.OK(R, "state:"+n, c.P.Pos(m.states[n].Pos()), "state method "+n+": 256 byte rows extracted, reachable in the product")
		}
	}
	sort.Strings(rs)
	c.Extra["C17.grammar.product_states"] = len(seen)
	c.Extra["exhaustive"] = true
}

func c17clone(c *core.Ctx) {
	const R = "C17.clone"
	c.Rule(R, "rules/enum.newEnumItem and constraint.NewEnumItem compute the same duplicate key: both functions are evaluated symbolically and, path by path, the pair <value, jsonType> they return must be the same symbolic function of the input bytes (TrimSpaces, JSON kind by json.Guess, Unquote only for strings)")
	c.Floor(R, 1)
	a := c.P.Func("rules/enum", "newEnumItem")
	b := c.P.Func("notations/jschema/ischema/constraint", "NewEnumItem")
	if a == nil || b == nil {
		c.Unresolved(R, "rules/enum.newEnumItem / constraint.NewEnumItem")
		return
	}
	table := func(f *ssa.Function) (map[string]string, string) {
		in := absint.New(absint.Config{InModule: c.P.FuncInModule, Inline: func(*ssa.Function) bool { return false }})
		var args []absint.Val
		for i := range f.Params {
			if i == 0 {
				args = append(args, absint.Param("b"))
			} else {
				args = append(args, absint.Param(core.F("p%d", i)))
			}
		}
		out := map[string]string{}
		for _, o := range in.Run(f, args, nil) {
			if o.Kind != "return" {
				return nil, "a path does not return"
			}
			var gs []string
			for _, at := range o.St.Atoms {
				gs = append(gs, at.String())
			}
			sort.Strings(gs)
			sv, ok := o.Val.(absint.Sym)
			if !ok || sv.Op != "struct" {
				return nil, "result is not a struct built field by field: " + o.Val.Key()
			}
			val, typ := "", ""
			for _, fa := range sv.Args {
				fs := fa.(absint.Sym)
				switch fs.Name {
				case ".value", ".enumItemValue.value":
					val = fs.Args[0].Key()
				case ".jsonType", ".enumItemValue.jsonType":
					typ = fs.Args[0].Key()
				}
			}
			out[strings.Join(gs, " && ")] = "value=" + val + " jsonType=" + typ
		}
		return out, ""
	}
	ta, wa := table(a)
	tb, wb := table(b)
	if ta == nil || tb == nil {
		c.Bad(R, "newEnumItem=NewEnumItem", c.P.Pos(a.Pos()), "enum.newEnumItem ≡ constraint.NewEnumItem", "undecided: "+wa+wb)
		return
	}
	diff := ""
	for k, v := range ta {
		if tb[k] != v {
			diff = core.F("on path [%s]: rule file computes %s, inline enum computes %s", clip(k, 120), clip(v, 200), clip(tb[k], 200))
		}
	}
	if len(ta) != len(tb) && diff == "" {
		diff = core.F("different number of cases (%d vs %d)", len(ta), len(tb))
	}
	c.Check(diff == "", R, "newEnumItem=NewEnumItem", c.P.Pos(a.Pos()), core.F("enum.newEnumItem ≡ constraint.NewEnumItem as symbolic functions (%d paths each)", len(ta)), "the duplicate keys of rule files and inline enums diverge: "+diff)
	// the duplicate-tracking maps on both sides must be keyed by the WHOLE item <value, jsonType>
	for _, fld := range []struct{ pkg, typ, field string }{{"rules/enum", "scanner", "uniqueValues"}, {"notations/jschema/ischema/constraint", "Enum", "uniqueIdx"}} {
		nt := c.P.NamedType(fld.pkg, fld.typ)
		if nt == nil {
			c.Unresolved(R, fld.pkg+"."+fld.typ)
			continue
		}
		st := nt.Underlying().(*types.Struct)
		found := false
		for i := 0; i < st.NumFields(); i++ {
			if c.P.PinnedFieldName(nt, i) != fld.field {
				continue
			}
			found = true
			ok := false
			keyDesc := st.Field(i).Type().String()
			if mt, isMap := st.Field(i).Type().Underlying().(*types.Map); isMap {
				if ks, isStruct := mt.Key().Underlying().(*types.Struct); isStruct {
					hasV, hasT := false, false
					for j := 0; j < ks.NumFields(); j++ {
						switch c.P.PinnedFieldName(mt.Key(), j) {
						case "value":
							hasV = true
						case "jsonType":
							hasT = true
						}
					}
					ok = hasV && hasT
				}
			}
			c.Check(ok, R, fld.typ+"."+fld.field+":key", c.P.Pos(st.Field(i).Pos()), core.F("%s.%s is keyed by the whole item <value, jsonType> (%s)", fld.typ, fld.field, core.Rel(keyDesc)),
				"duplicates are tracked by something else than <unquoted value, JSON kind>: a string and a non-string entry with the same spelling (\"5\" and 5, \"true\" and true) are reported as duplicates in a rule file although the same list is accepted inline (or the other way round)")
		}
		if !found {
			c.Unresolved(R, fld.typ+"."+fld.field)
		}
	}
}

func c17nopanic(c *core.Ctx) {
	const R = "C17.nopanic"
	c.Rule(R, "every first/last-element access and scanner lookahead in package rules/enum is dominated by a guard or tabled (the enum notation has no recover: a runtime panic escapes Check/Len/Values)")
	c.Floor(R, 3)
	for _, s := range elemSites(c) {
		if !strings.Contains(s.fn, "rules/enum") {
			continue
		}
		pos := c.P.Pos(s.node.Pos())
		what := core.F("%s %s needs len(%s) >= %d", s.kind, s.text, s.container, s.need)
		switch s.status {
		case "guard":
			c.OKd(R, s.key(), pos, what, "guard: "+s.why)
		case "table":
			c.Tabled(R, s.key(), pos, what, s.why)
		default:
			c.Bad(R, s.key(), pos, what, s.why)
		}
	}
}
