package rules

import (
	"go/ast"
	"go/token"
	"go/types"
	"golang.org/x/tools/go/packages"
	"sort"
	"strings"

	"golang.org/x/tools/go/ssa"

	"jsverif/internal/core"
)

// c10reset: pooled structs are fully cleared before they go back to the pool.
func c10reset(c *core.Ctx) { c10resetAs(c, "C10.reset") }

func c10resetAs(c *core.Ctx, R string) {
	c.Rule(R, "for every struct taken from a sync.Pool (`pool.Get().(*T)`): the statement right after the Get is a `defer` that calls a method of the value and then Put (so both run on panic exits too), and that method assigns every field of T (field coverage): a field that survives in the pool leaks state of a previous, possibly failed, load into the next one")
	c.Floor(R, 6)
	nUsers := 0
	for _, d := range c.P.FuncDecls() {
		pk := d.Pkg
		fn := core.DeclName(pk, d.Decl)
		if core.Rel(pk.PkgPath) == "internal/sync" {
			continue
		}
		list := d.Decl.Body.List
		for i, st := range list {
			as, ok := st.(*ast.AssignStmt)
			if !ok || len(as.Rhs) != 1 || len(as.Lhs) != 1 {
				continue
			}
			ta, ok := ast.Unparen(as.Rhs[0]).(*ast.TypeAssertExpr)
			if !ok || !isPoolGet(pk, as.Rhs[0]) {
				continue
			}
			pt, ok := core.TypeOf(pk, ta.Type).(*types.Pointer)
			if !ok {
				continue
			}
			named, ok := pt.Elem().(*types.Named)
			if !ok {
				continue
			}
			stt, ok := named.Underlying().(*types.Struct)
			if !ok {
				continue
			}
			nUsers++
			v := as.Lhs[0].(*ast.Ident)
			vobj := pk.TypesInfo.ObjectOf(v)
			tname := core.Rel(named.String())
			// next statement must be the defer
			okDefer, resetFn, why := deferResetPut(c, pk, list, i, vobj)
			if !okDefer && i+1 < len(list) {
				// a wrapper that only prepares the pooled value and returns it: the obligation moves
				// to its callers (`x := wrapper(...)` directly followed by the defer)
				if _, isDefer := list[i+1].(*ast.DeferStmt); !isDefer {
					if ok2, fn2, why2, handled := wrapperCallers(c, d, list, i, vobj); handled {
						okDefer, resetFn, why = ok2, fn2, why2
					}
				}
			}
			c.Check(okDefer, R, fn+":defer-reset-put:"+tname, c.P.Pos(as.Pos()), "pooled "+tname+" in "+fn+": reset+Put deferred immediately after Get", why+": on a panic exit the value is lost or returns to the pool dirty")
			if resetFn == nil {
				continue
			}
			// field coverage of the reset method
			rd := c.P.FindDecl(core.Rel(resetFn.FullName()))
			if rd == nil {
				c.Unresolved(R, resetFn.FullName())
				continue
			}
			assigned := map[string]bool{}
			recv := ""
			if rd.Decl.Recv != nil && len(rd.Decl.Recv.List[0].Names) > 0 {
				recv = rd.Decl.Recv.List[0].Names[0].Name
			}
			ast.Inspect(rd.Decl.Body, func(n ast.Node) bool {
				as, ok := n.(*ast.AssignStmt)
				if !ok || as.Tok != token.ASSIGN {
					return true
				}
				for _, l := range as.Lhs {
					if se, ok := ast.Unparen(l).(*ast.SelectorExpr); ok {
						if id, ok := se.X.(*ast.Ident); ok && id.Name == recv {
							assigned[se.Sel.Name] = true
						}
					}
				}
				if len(as.Lhs) == 1 {
					// *l = T{...}
					if st, ok := ast.Unparen(as.Lhs[0]).(*ast.StarExpr); ok {
						if id, ok := st.X.(*ast.Ident); ok && id.Name == recv {
							for i := 0; i < stt.NumFields(); i++ {
								assigned[stt.Field(i).Name()] = true
							}
						}
					}
				}
				return true
			})
			for i := 0; i < stt.NumFields(); i++ {
				f := stt.Field(i)
				c.Check(assigned[f.Name()], R, core.F("%s.%s:clears:%s", tname, resetFn.Name(), f.Name()), c.P.Pos(rd.Decl.Pos()),
					core.F("%s.%s() assigns field %s", tname, resetFn.Name(), f.Name()),
					"field is not cleared before the struct returns to the pool: the next load starts with what the previous (possibly failed) load left there")
			}
		}
	}
	if nUsers == 0 {
		c.Unresolved(R, "a user of pool.Get().(*T)")
	}
}

// c10global: package-level variables are immutable after initialisation.
func c10global(c *core.Ctx) { c10globalAs(c, "C10.global") }

func c10globalAs(c *core.Ctx, R string) {
	c.Rule(R, "every package-level variable in scope is never written after package initialisation (no store to it, to an element of it or to a field of it, and no map update on it, outside init), or is one of the tabled synchronised objects (pools, once-guarded singletons); mutable shared state makes results depend on what was processed before")
	c.Floor(R, 15)
	type gv struct {
		g   *ssa.Global
		pos token.Pos
	}
	var globals []*ssa.Global
	for path, sp := range c.P.SSAPkgs {
		if !core.InScope(path) {
			continue
		}
		for _, m := range sp.Members {
			if g, ok := m.(*ssa.Global); ok && !strings.HasPrefix(g.Name(), "init$") {
				globals = append(globals, g)
			}
		}
	}
	sort.Slice(globals, func(i, j int) bool { return globals[i].String() < globals[j].String() })
	// writers: any instruction outside init that stores through an address derived from the global
	writers := map[*ssa.Global]string{}
	var derived func(v ssa.Value, depth int) *ssa.Global
	derived = func(v ssa.Value, depth int) *ssa.Global {
		if depth > 8 {
			return nil
		}
		switch x := v.(type) {
		case *ssa.Global:
			return x
		case *ssa.FieldAddr:
			return derived(x.X, depth+1)
		case *ssa.IndexAddr:
			return derived(x.X, depth+1)
		case *ssa.UnOp:
			if x.Op == token.MUL {
				return derived(x.X, depth+1)
			}
		case *ssa.Slice:
			return derived(x.X, depth+1)
		}
		return nil
	}
	onceWritten := map[*ssa.Global]bool{}
	// a closure that its parent hands to (*sync.Once).Do
	onceClosure := func(f *ssa.Function) bool {
		p := f.Parent()
		if p == nil {
			return false
		}
		for _, b := range p.Blocks {
			for _, in := range b.Instrs {
				call, ok := in.(ssa.CallInstruction)
				if !ok {
					continue
				}
				g := call.Common().StaticCallee()
				if g == nil || g.String() != "(*sync.Once).Do" {
					continue
				}
				for _, a := range call.Common().Args {
					if mc, isMC := a.(*ssa.MakeClosure); isMC && mc.Fn == ssa.Value(f) {
						return true
					}
					if a == ssa.Value(f) {
						return true
					}
				}
			}
		}
		return false
	}
	for _, f := range c.P.ScopeFuncs() {
		if f.Name() == "init" || strings.HasPrefix(f.Name(), "init#") {
			continue
		}
		for _, b := range f.Blocks {
			for _, in := range b.Instrs {
				var g *ssa.Global
				switch x := in.(type) {
				case *ssa.Store:
					g = derived(x.Addr, 0)
				case *ssa.MapUpdate:
					g = derived(x.Map, 0)
				case ssa.CallInstruction:
					if bi, ok := x.Common().Value.(*ssa.Builtin); ok && bi.Name() == "delete" {
						g = derived(x.Common().Args[0], 0)
					}
				}
				if g != nil && !onceClosure(f) && writers[g] == "" {
					writers[g] = core.FuncName(f) + " at " + c.P.Pos(in.Pos())
				}
				if g != nil && onceClosure(f) {
					onceWritten[g] = true
				}
			}
		}
	}
	for _, g := range globals {
		name := core.Rel(g.String())
		pos := c.P.Pos(g.Pos())
		t := g.Type().(*types.Pointer).Elem()
		if r, ok := globalTable[name]; ok {
			c.Tabled(R, name, pos, "package variable "+name+" ("+core.Rel(t.String())+")", r)
			continue
		}
		if w := writers[g]; w != "" {
			c.Bad(R, name, pos, "package variable "+name, "written after initialisation by "+w+": results depend on the history of the process (and concurrent use races)")
			continue
		}
		if onceWritten[g] {
			c.OKd(R, name, pos, "package variable "+name+" ("+core.Rel(t.String())+")", "written only inside a function handed to sync.Once.Do: a lazily built singleton")
			continue
		}
		c.OK(R, name, pos, "package variable "+name+" ("+core.Rel(t.String())+") is never written outside init")
	}
}

var globalTable = map[string]string{
	"notations/jschema/loader.loaderPool":          "sync.Pool of loaders; state isolation is rule C10.reset",
	"notations/jschema.exampleBufferPool":          "pool of buffers; Put resets the buffer and rule C10.pool forbids aliasing results",
	"openapi/internal.BufferPool":                  "pool of buffers; see exampleBufferPool",
	"notations/jschema/ischema.virtualAnyNode":     "lazily built singleton guarded by virtualAnyNodeOnce (sync.Once); users only read it (rule C11.ro)",
	"notations/jschema/ischema.virtualAnyNodeOnce": "sync.Once guarding virtualAnyNode",
}

// deferResetPut: list[i] binds the pooled value vobj; is list[i+1] a defer that resets it and puts it back?
// The deferred work may be a literal, a method of the value, or a helper of the package that gets the value.
func deferResetPut(c *core.Ctx, pk *packages.Package, list []ast.Stmt, i int, vobj types.Object) (bool, *types.Func, string) {
	var resetFn *types.Func
	okDefer := false
	why := "the statement after pool.Get is not a defer"
	if i+1 >= len(list) {
		return false, nil, why
	}
	ds, ok := list[i+1].(*ast.DeferStmt)
	if !ok {
		return false, nil, why
	}
	why = "the deferred function does not call a reset method of the value and then Put"
	analyse := func(apk *packages.Package, stmts []ast.Stmt, obj types.Object) {
		sawPut := false
		for _, s2 := range stmts {
			es, ok := s2.(*ast.ExprStmt)
			if !ok {
				continue
			}
			call, ok := es.X.(*ast.CallExpr)
			if !ok {
				continue
			}
			if se, ok := call.Fun.(*ast.SelectorExpr); ok {
				if id, ok := se.X.(*ast.Ident); ok && apk.TypesInfo.ObjectOf(id) == obj && !sawPut {
					if f, ok := core.Callee(apk, call).(*types.Func); ok {
						resetFn = f
					}
				}
			}
			if strings.HasSuffix(core.FullName(core.Callee(apk, call)), "Pool).Put") && len(call.Args) == 1 {
				if id, ok := call.Args[0].(*ast.Ident); ok && apk.TypesInfo.ObjectOf(id) == obj {
					sawPut = true
				}
			}
		}
		okDefer = resetFn != nil && sawPut
	}
	if fl, ok := ds.Call.Fun.(*ast.FuncLit); ok {
		analyse(pk, fl.Body.List, vobj)
	} else if hf, ok := core.Callee(pk, ds.Call).(*types.Func); ok {
		if hd := c.P.FindDecl(core.Rel(hf.FullName())); hd != nil && hd.Decl.Body != nil {
			// a method of the value: `defer v.release()`
			if se, ok := ds.Call.Fun.(*ast.SelectorExpr); ok {
				if id, ok := se.X.(*ast.Ident); ok && pk.TypesInfo.ObjectOf(id) == vobj && hd.Decl.Recv != nil && len(hd.Decl.Recv.List) == 1 && len(hd.Decl.Recv.List[0].Names) == 1 {
					analyse(hd.Pkg, hd.Decl.Body.List, hd.Pkg.TypesInfo.ObjectOf(hd.Decl.Recv.List[0].Names[0]))
				}
			}
			for ai, a := range ds.Call.Args {
				if id, ok := a.(*ast.Ident); ok && pk.TypesInfo.ObjectOf(id) == vobj {
					k := 0
					for _, f := range hd.Decl.Type.Params.List {
						for _, nm := range f.Names {
							if k == ai {
								analyse(hd.Pkg, hd.Decl.Body.List, hd.Pkg.TypesInfo.ObjectOf(nm))
							}
							k++
						}
					}
				}
			}
		}
	}
	return okDefer, resetFn, why
}

// wrapperCallers: the function takes the value from the pool, only assigns to it, and returns it.
func wrapperCallers(c *core.Ctx, d core.DeclSite, list []ast.Stmt, i int, vobj types.Object) (ok bool, resetFn *types.Func, why string, handled bool) {
	if len(list) == 0 {
		return
	}
	ret, isRet := list[len(list)-1].(*ast.ReturnStmt)
	if !isRet || len(ret.Results) != 1 {
		return
	}
	if id, isID := ret.Results[0].(*ast.Ident); !isID || d.Pkg.TypesInfo.ObjectOf(id) != vobj {
		return
	}
	var onlyAssign func(sts []ast.Stmt) bool
	onlyAssign = func(sts []ast.Stmt) bool {
		for _, st := range sts {
			switch x := st.(type) {
			case *ast.AssignStmt, *ast.IncDecStmt:
			case *ast.IfStmt:
				if !onlyAssign(x.Body.List) {
					return false
				}
				if eb, ok := x.Else.(*ast.BlockStmt); ok && !onlyAssign(eb.List) {
					return false
				}
			default:
				return false
			}
		}
		return true
	}
	if !onlyAssign(list[i+1 : len(list)-1]) {
		return
	}
	self, _ := d.Pkg.TypesInfo.Defs[d.Decl.Name].(*types.Func)
	if self == nil || self.Exported() {
		return
	}
	handled = true
	ok = true
	sites := 0
	for _, d2 := range c.P.FuncDecls() {
		if d2.Pkg != d.Pkg || d2.Decl.Body == nil {
			continue
		}
		l2 := d2.Decl.Body.List
		ast.Inspect(d2.Decl.Body, func(n ast.Node) bool {
			call, isCall := n.(*ast.CallExpr)
			if !isCall || core.Callee(d2.Pkg, call) != types.Object(self) {
				return true
			}
			sites++
			// must be `x := wrapper(...)` as a top-level statement
			found := false
			for k, st := range l2 {
				if as, isAs := st.(*ast.AssignStmt); isAs && len(as.Lhs) == 1 && len(as.Rhs) == 1 && ast.Unparen(as.Rhs[0]) == ast.Expr(call) {
					if xid, isID := as.Lhs[0].(*ast.Ident); isID {
						ok3, fn3, why3 := deferResetPut(c, d2.Pkg, l2, k, d2.Pkg.TypesInfo.ObjectOf(xid))
						found = true
						if ok3 {
							resetFn = fn3
						} else {
							ok, why = false, "caller "+core.DeclName(d2.Pkg, d2.Decl)+": "+why3
						}
					}
				}
			}
			if !found {
				ok, why = false, "caller "+core.DeclName(d2.Pkg, d2.Decl)+" does not bind the pooled value to a variable followed by the defer"
			}
			return true
		})
	}
	if sites == 0 {
		ok, why = false, "pool wrapper without callers"
	}
	return
}
