package rules

import (
	"sort"
	"strings"

	"jsverif/internal/core"
)

// c04note: the text of a note is not cut short.
func c04note(c *core.Ctx) {
	const R = "C04.note"
	c.Rule(R, "sibling consistency of the states that begin or continue the free-text note of an inline annotation (states where an ordinary text byte continues the text, or moves to stateInlineAnnotationText emitting at most InlineAnnotationTextBegin): inside a multi-line annotation `#` is not a comment start, so in each of these states the behaviour for `#` under isInsideMultiLineAnnotation() must equal the behaviour for an ordinary text byte. A state that ends the note at `#` there reports a truncated note in GetAST() (`\"cat\", // cat #1 in the list` inside /* */)")
	c.Floor(R, 3)
	const atom = "call:(*notations/jschema/scanner.Scanner).isInsideMultiLineAnnotation(&s)"
	m := buildScanModel(c, "notations/jschema/scanner")
	inside := func(r scanRow) string {
		var ks []string
		for _, p := range r.paths {
			if hasAtom(p, atom, false) {
				continue
			}
			q := p
			// drop the atom itself from the rendering
			s := q.String()
			s = strings.ReplaceAll(s, "["+atom+"] ", "")
			s = strings.ReplaceAll(s, "["+atom+"]", "")
			ks = append(ks, strings.TrimSpace(strings.TrimPrefix(strings.TrimSpace(s), "[]")))
		}
		sort.Strings(ks)
		return strings.Join(ks, " || ")
	}
	n := 0
	for _, name := range m.names {
		rows := m.rows[name]
		ra := rows['a']
		// an ordinary byte continues / begins the inline note text
		textState := len(ra.paths) > 0
		for _, p := range ra.paths {
			if p.kind != "return" || !(p.next == "" || p.next == "stateInlineAnnotationText") || len(p.pushes) > 0 || p.pops > 0 || len(p.stores) > 0 {
				textState = false
			}
			for _, f := range p.finds {
				if f != "InlineAnnotationTextBegin" {
					textState = false
				}
			}
			if p.next == "" && name != "stateInlineAnnotationText" {
				textState = false
			}
		}
		if !textState {
			continue
		}
		n++
		key := "hash-in-multiline:" + name
		pos := c.P.Pos(m.states[name].Pos())
		a, h := inside(ra), inside(rows['#'])
		c.Check(a == h, R, key, pos, "state "+name+": inside a multi-line annotation `#` is note text like any other byte",
			"the note is cut at `#` (or `#` is treated specially) inside a multi-line annotation. ordinary byte: "+clip(a, 200)+" ; `#`: "+clip(h, 300))
	}
	if n == 0 {
		c.Bad(R, "hash-in-multiline", "-", "note-text states", "undecided: no state continues or begins the inline note text")
	}
}
