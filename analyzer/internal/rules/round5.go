package rules

import (
	"go/ast"
	"go/token"
	"go/types"
	"sort"
	"strings"

	"golang.org/x/tools/go/packages"

	"jsverif/internal/core"
)

var walkTable = map[string]string{
	"(*notations/jschema/checker.recursionChecker).check": "by design only object properties are followed: an array may be empty, so an item never forces an instance to contain the referenced type (the ArrayNode case returns nil explicitly)",
}

// walkKindsRule: a recursive walk over the node tree descends into every kind of branch node.
func walkKindsRule(R string) RuleFunc {
	return func(c *core.Ctx) {
		c.Rule(R, "every recursive walker over the schema node tree (a function that loops over X.Children() / looks children up with X.Child(...) and reaches itself again from the loop body, directly or through one or two helpers) descends into every kind of branch node: some X has the interface type ischema.BranchNode, or both *ObjectNode and *ArrayNode children are followed within the walker's recursion group. A walker that follows object properties only leaves everything below array items uncompiled / unchecked / uncollected (an `allOf` on an object inside an array is never resolved, a missing type there is never reported)")
		c.Floor(R, 5)
		type fn struct {
			d     core.DeclSite
			calls map[*types.Func]bool
			kinds map[string]bool // static receiver types of Children()/Child() calls
			loops bool
		}
		funcs := map[*types.Func]*fn{}
		for _, d := range c.P.FuncDecls() {
			if d.Obj == nil || d.Decl.Body == nil || !strings.HasPrefix(core.Rel(d.Pkg.PkgPath), "notations/jschema") {
				continue
			}
			f := &fn{d: d, calls: map[*types.Func]bool{}, kinds: map[string]bool{}}
			ast.Inspect(d.Decl.Body, func(n ast.Node) bool {
				call, ok := n.(*ast.CallExpr)
				if !ok {
					return true
				}
				if o, ok := core.Callee(d.Pkg, call).(*types.Func); ok && o.Pkg() != nil && core.InScope(o.Pkg().Path()) {
					f.calls[o] = true
				}
				if sel, ok := call.Fun.(*ast.SelectorExpr); ok {
					switch sel.Sel.Name {
					case "Children", "Child", "ChildByRawKey":
						if t := core.TypeOf(d.Pkg, sel.X); t != nil {
							f.kinds[core.Rel(strings.TrimPrefix(t.String(), "*"))] = true
						}
					}
				}
				return true
			})
			funcs[d.Obj] = f
		}
		reach := func(from *types.Func, depth int) map[*types.Func]bool {
			seen := map[*types.Func]bool{}
			frontier := []*types.Func{from}
			for i := 0; i < depth; i++ {
				var next []*types.Func
				for _, g := range frontier {
					if gf := funcs[g]; gf != nil {
						for h := range gf.calls {
							if !seen[h] {
								seen[h] = true
								next = append(next, h)
							}
						}
					}
				}
				frontier = next
			}
			return seen
		}
		var names []string
		byName := map[string]*types.Func{}
		for o, f := range funcs {
			// a loop over children whose body leads back to the function
			isWalker := false
			ast.Inspect(f.d.Decl.Body, func(n ast.Node) bool {
				var body *ast.BlockStmt
				switch x := n.(type) {
				case *ast.RangeStmt:
					body = x.Body
				case *ast.ForStmt:
					body = x.Body
				default:
					return true
				}
				ast.Inspect(body, func(m ast.Node) bool {
					call, ok := m.(*ast.CallExpr)
					if !ok {
						return true
					}
					g, ok := core.Callee(f.d.Pkg, call).(*types.Func)
					if !ok {
						return true
					}
					if g == o || reach(g, 2)[o] {
						isWalker = true
					}
					return true
				})
				return true
			})
			if !isWalker || len(f.kinds) == 0 {
				continue
			}
			nm := core.DeclName(f.d.Pkg, f.d.Decl)
			names = append(names, nm)
			byName[nm] = o
		}
		sort.Strings(names)
		for _, nm := range names {
			o := byName[nm]
			f := funcs[o]
			// the recursion group: functions on a short cycle through o
			kinds := map[string]bool{}
			for k := range f.kinds {
				kinds[k] = true
			}
			for g := range reach(o, 3) {
				if gf := funcs[g]; gf != nil && (g == o || reach(g, 3)[o]) {
					for k := range gf.kinds {
						kinds[k] = true
					}
				}
			}
			var ks []string
			for k := range kinds {
				ks = append(ks, k)
			}
			sort.Strings(ks)
			pos := c.P.Pos(f.d.Decl.Pos())
			what := nm + " follows the children of " + strings.Join(ks, ", ")
			all := kinds["notations/jschema/ischema.BranchNode"] || (kinds["notations/jschema/ischema.ObjectNode"] && kinds["notations/jschema/ischema.ArrayNode"])
			switch {
			case all:
				c.OK(R, nm+":walk", pos, what)
			case walkTable[nm] != "":
				c.Tabled(R, nm+":walk", pos, what, walkTable[nm])
			default:
				c.Bad(R, nm+":walk", pos, what, "the walk does not descend into every kind of branch node: nodes below the other kind (array items / object properties) are never visited")
			}
		}
	}
}

var _ = token.ADD
var _ *packages.Package

// pipeSplitRule: the text of a types shortcut is taken apart at the pipe, as the scanner reads it.
func pipeSplitRule(R string) RuleFunc {
	return func(c *core.Ctx) {
		c.Rule(R, "the scanner ends a type name of a shortcut at `|` with or without blanks around it (`@a|@b`, `@a |@b`); the two places that take the shortcut text apart again - the loader (addORShortcut: the names that are checked) and the used-types collector (the names that are reported) - both range over strings.Split(text, \"|\") and trim each part with strings.TrimSpace. A splitter that needs blanks (strings.Fields) reports `@a|@b` as one bogus name for a spelling the scanner accepts, so UsedUserTypes() depends on the spacing")
		c.Floor(R, 2)
		for _, fn := range []string{"notations/jschema/loader.addORShortcut", "(*notations/jschema.userTypesCollector).collect"} {
			d := c.P.FindDecl(fn)
			if d == nil {
				c.Unresolved(R, fn)
				continue
			}
			ok, other := false, ""
			ast.Inspect(d.Decl.Body, func(n ast.Node) bool {
				if call, isC := n.(*ast.CallExpr); isC {
					switch name := core.FullName(core.Callee(d.Pkg, call)); name {
					case "strings.Fields", "strings.FieldsFunc", "strings.SplitN", "strings.SplitAfter", "strings.Cut":
						other = name
					}
				}
				rs, isR := n.(*ast.RangeStmt)
				if !isR {
					return true
				}
				call, isC := ast.Unparen(rs.X).(*ast.CallExpr)
				if !isC || core.FullName(core.Callee(d.Pkg, call)) != "strings.Split" || len(call.Args) != 2 {
					return true
				}
				if cv := core.ConstOf(d.Pkg, call.Args[1]); cv == nil || cv.ExactString() != `"|"` {
					return true
				}
				v := ""
				if id, isID := rs.Value.(*ast.Ident); isID {
					v = id.Name
				}
				trimmed := false
				ast.Inspect(rs.Body, func(m ast.Node) bool {
					if tc, isT := m.(*ast.CallExpr); isT && core.FullName(core.Callee(d.Pkg, tc)) == "strings.TrimSpace" && len(tc.Args) == 1 && core.ExprStr(tc.Args[0]) == v {
						trimmed = true
					}
					return true
				})
				if trimmed {
					ok = true
				}
				return true
			})
			detail := "no loop over strings.Split(text, \"|\") with strings.TrimSpace on each part"
			if other != "" {
				detail += " (the text is taken apart with " + other + ")"
			}
			c.Check(ok && other == "", R, fn+":split", c.P.Pos(d.Decl.Pos()), fn+" splits the shortcut at `|` and trims the parts", detail)
		}
	}
}
