package rules

import (
	"go/ast"
	"go/parser"
	"go/token"
	"go/types"
	"sort"
	"strings"

	"golang.org/x/tools/go/packages"
	"golang.org/x/tools/go/ssa"

	"jsverif/internal/core"
)

var walkTable = map[string]string{
	"(*notations/jschema/checker.recursionChecker).check": "by design only object properties are followed: an array may be empty, so an item never forces an instance to contain the referenced type (the ArrayNode case returns nil explicitly)",
}

// walkKindsRule: a recursive walk over the node tree descends into every kind of branch node.
func walkKindsRule(R string) RuleFunc {
	return func(c *core.Ctx) {
		c.Rule(R, "every recursive walker over the schema node tree (a function that loops over X.Children() / looks children up with X.Child(...) and reaches itself again from the loop body, directly or through one or two helpers) descends into every kind of branch node: some X has the interface type ischema.BranchNode, or both *ObjectNode and *ArrayNode children are followed within the walker's recursion group. A walker that follows object properties only leaves everything below array items uncompiled / unchecked / uncollected (an `allOf` on an object inside an array is never resolved, a missing type there is never reported)")
		c.Floor(R, 5)
		type fn struct {
			d     core.DeclSite
			calls map[*types.Func]bool
			kinds map[string]bool // static receiver types of Children()/Child() calls
			loops bool
		}
		funcs := map[*types.Func]*fn{}
		for _, d := range c.P.FuncDecls() {
			if d.Obj == nil || d.Decl.Body == nil || !strings.HasPrefix(core.Rel(d.Pkg.PkgPath), "notations/jschema") {
				continue
			}
			f := &fn{d: d, calls: map[*types.Func]bool{}, kinds: map[string]bool{}}
			ast.Inspect(d.Decl.Body, func(n ast.Node) bool {
				call, ok := n.(*ast.CallExpr)
				if !ok {
					return true
				}
				if o, ok := core.Callee(d.Pkg, call).(*types.Func); ok && o.Pkg() != nil && core.InScope(o.Pkg().Path()) {
					f.calls[o] = true
				}
				if sel, ok := call.Fun.(*ast.SelectorExpr); ok {
					switch sel.Sel.Name {
					case "Children", "Child", "ChildByRawKey":
						if t := core.TypeOf(d.Pkg, sel.X); t != nil {
							f.kinds[core.Rel(strings.TrimPrefix(t.String(), "*"))] = true
						}
					}
				}
				return true
			})
			funcs[d.Obj] = f
		}
		reach := func(from *types.Func, depth int) map[*types.Func]bool {
			seen := map[*types.Func]bool{}
			frontier := []*types.Func{from}
			for i := 0; i < depth; i++ {
				var next []*types.Func
				for _, g := range frontier {
					if gf := funcs[g]; gf != nil {
						for h := range gf.calls {
							if !seen[h] {
								seen[h] = true
								next = append(next, h)
							}
						}
					}
				}
				frontier = next
			}
			return seen
		}
		var names []string
		byName := map[string]*types.Func{}
		for o, f := range funcs {
			// a loop over children whose body leads back to the function
			isWalker := false
			ast.Inspect(f.d.Decl.Body, func(n ast.Node) bool {
				var body *ast.BlockStmt
				switch x := n.(type) {
				case *ast.RangeStmt:
					body = x.Body
				case *ast.ForStmt:
					body = x.Body
				default:
					return true
				}
				ast.Inspect(body, func(m ast.Node) bool {
					call, ok := m.(*ast.CallExpr)
					if !ok {
						return true
					}
					g, ok := core.Callee(f.d.Pkg, call).(*types.Func)
					if !ok {
						return true
					}
					if g == o || reach(g, 2)[o] {
						isWalker = true
					}
					return true
				})
				return true
			})
			if !isWalker || len(f.kinds) == 0 {
				continue
			}
			nm := core.DeclName(f.d.Pkg, f.d.Decl)
			names = append(names, nm)
			byName[nm] = o
		}
		sort.Strings(names)
		for _, nm := range names {
			o := byName[nm]
			f := funcs[o]
			// the recursion group: functions on a short cycle through o
			kinds := map[string]bool{}
			for k := range f.kinds {
				kinds[k] = true
			}
			groupReason := walkTable[c.P.PinnedName(nm)]
			for g := range reach(o, 3) {
				if gf := funcs[g]; gf != nil && (g == o || reach(g, 3)[o]) {
					for k := range gf.kinds {
						kinds[k] = true
					}
					// a tabled walker keeps its reason when its loop moves into a helper of its recursion group
					if r := walkTable[core.DeclName(gf.d.Pkg, gf.d.Decl)]; r != "" && groupReason == "" {
						groupReason = r + " [walker " + core.DeclName(gf.d.Pkg, gf.d.Decl) + " of the same recursion group]"
					}
				}
			}
			var ks []string
			for k := range kinds {
				ks = append(ks, k)
			}
			sort.Strings(ks)
			pos := c.P.Pos(f.d.Decl.Pos())
			what := nm + " follows the children of " + strings.Join(ks, ", ")
			all := kinds["notations/jschema/ischema.BranchNode"] || (kinds["notations/jschema/ischema.ObjectNode"] && kinds["notations/jschema/ischema.ArrayNode"])
			switch {
			case all:
				c.OK(R, nm+":walk", pos, what)
			case groupReason != "":
				c.Tabled(R, nm+":walk", pos, what, groupReason)
			default:
				c.Bad(R, nm+":walk", pos, what, "the walk does not descend into every kind of branch node: nodes below the other kind (array items / object properties) are never visited")
			}
		}
	}
}

var _ = token.ADD
var _ *packages.Package

// pipeSplitRule: the text of a types shortcut is taken apart at the pipe, as the scanner reads it.
func pipeSplitRule(R string) RuleFunc {
	return func(c *core.Ctx) {
		c.Rule(R, "the scanner ends a type name of a shortcut at `|` with or without blanks around it (`@a|@b`, `@a |@b`); the two places that take the shortcut text apart again - the loader (addORShortcut: the names that are checked) and the used-types collector (the names that are reported) - both range over strings.Split(text, \"|\") and trim each part with strings.TrimSpace. A splitter that needs blanks (strings.Fields) reports `@a|@b` as one bogus name for a spelling the scanner accepts, so UsedUserTypes() depends on the spacing")
		c.Floor(R, 2)
		for _, fn := range []string{"notations/jschema/loader.addORShortcut", "(*notations/jschema.userTypesCollector).collect"} {
			d := c.P.FindDecl(fn)
			if d == nil {
				c.Unresolved(R, fn)
				continue
			}
			ok, other := false, ""
			ast.Inspect(d.Decl.Body, func(n ast.Node) bool {
				if call, isC := n.(*ast.CallExpr); isC {
					switch name := core.FullName(core.Callee(d.Pkg, call)); name {
					case "strings.Fields", "strings.FieldsFunc", "strings.SplitN", "strings.SplitAfter", "strings.Cut":
						other = name
					}
				}
				return true
			})
			// a loop over the parts: `range strings.Split(text, "|")`, directly or through a local that holds the parts
			for _, lp := range collLoops(d.Pkg, d.Decl.Body) {
				if !strings.HasPrefix(lp.coll, "strings.Split(") || !strings.HasSuffix(lp.coll, `, "|")`) || lp.elem == "" {
					continue
				}
				trimmed := false
				ast.Inspect(lp.body, func(m ast.Node) bool {
					if tc, isT := m.(*ast.CallExpr); isT && core.FullName(core.Callee(d.Pkg, tc)) == "strings.TrimSpace" && len(tc.Args) == 1 && core.ExprStr(tc.Args[0]) == lp.elem {
						trimmed = true
					}
					return true
				})
				if trimmed {
					ok = true
				}
			}
			detail := "no loop over strings.Split(text, \"|\") with strings.TrimSpace on each part"
			if other != "" {
				detail += " (the text is taken apart with " + other + ")"
			}
			c.Check(ok && other == "", R, fn+":split", c.P.Pos(d.Decl.Pos()), fn+" splits the shortcut at `|` and trims the parts", detail)
		}
	}
}

var bytewiseTable = map[string]string{
	"notations/jschema/scanner.stateInlineComment:s.index--":    "the line end that closes a `#` comment is read again by the state below (the comment state was entered from it); one byte back, never forward",
	"notations/jschema/scanner.stateMultiLineComment:s.index++": "the second and third `#` of a closing `###`, both tested by the lookahead in the condition above (index+1 < dataSize)",
}

// bytewiseRule: the scanners classify every byte; nothing is skipped by a search.
func bytewiseRule(R string) RuleFunc {
	return func(c *core.Ctx) {
		c.Rule(R, "the lexeme scanners (schema, enum rule, JSON document) read their input one byte per step: the position field `index` is only ever moved by ++ / -- (in the drivers Next/processTail, and at 2 tabled places inside state functions), never assigned or advanced by a computed amount, and no state function searches the data with a library routine (bytes.IndexByte, strings.Index, ...). A jump to the next `\\n` leaves the bytes in between unclassified: a lone CR no longer ends a comment, so CR-only texts are read differently from their LF and CRLF spellings and Len() runs into the text that follows")
		c.Floor(R, 8)
		pkgs := map[string]bool{"notations/jschema/scanner": true, "rules/enum": true, "formats/json": true}
		n := 0
		for _, d := range c.P.FuncDecls() {
			rel := core.Rel(d.Pkg.PkgPath)
			if !pkgs[rel] || d.Decl.Body == nil {
				continue
			}
			fn := core.DeclName(d.Pkg, d.Decl)
			isState := false
			if d.Obj != nil {
				sig := d.Obj.Type().(*types.Signature)
				if sig.Params().Len() > 0 && sig.Results().Len() > 0 {
					if b, ok := sig.Params().At(sig.Params().Len() - 1).Type().Underlying().(*types.Basic); ok && b.Kind() == types.Uint8 {
						if nt, ok := sig.Results().At(0).Type().(*types.Named); ok && nt.Obj().Name() == "state" {
							isState = true
						}
					}
				}
			}
			isIndex := func(e ast.Expr) bool {
				sel, ok := ast.Unparen(e).(*ast.SelectorExpr)
				if !ok || sel.Sel.Name != "index" {
					return false
				}
				t := core.TypeOf(d.Pkg, sel.X)
				return t != nil && (strings.HasSuffix(t.String(), "canner"))
			}
			ast.Inspect(d.Decl.Body, func(nd ast.Node) bool {
				switch x := nd.(type) {
				case *ast.IncDecStmt:
					if !isIndex(x.X) {
						return true
					}
					n++
					key := fn + ":" + core.ExprStr(x.X) + x.Tok.String()
					pos := c.P.Pos(x.Pos())
					what := core.ExprStr(x.X) + x.Tok.String() + " in " + fn
					switch {
					case !isState:
						c.OKd(R, key, pos, what, "driver: one byte per step")
					case bytewiseTable[key] != "":
						c.Tabled(R, key, pos, what, bytewiseTable[key])
					default:
						c.Bad(R, key, pos, what, "a state function moves the read position itself: the byte stepped over is not classified by any state")
					}
				case *ast.AssignStmt:
					for _, l := range x.Lhs {
						if !isIndex(l) {
							continue
						}
						n++
						key := fn + ":" + core.ExprStr0(x)
						// constructors and rewinds start at a constant
						if x.Tok == token.ASSIGN && len(x.Rhs) == 1 && core.ConstOf(d.Pkg, x.Rhs[0]) != nil && !isState {
							c.OKd(R, key, c.P.Pos(x.Pos()), core.ExprStr0(x)+" in "+fn, "reset to a constant")
							continue
						}
						c.Bad(R, key, c.P.Pos(x.Pos()), core.ExprStr0(x)+" in "+fn, "the read position is assigned / advanced by a computed amount: the bytes in between are never classified by a state (a line end, a quote or a comment closer among them is missed)")
					}
				case *ast.CallExpr:
					o := core.Callee(d.Pkg, x)
					if o == nil || o.Pkg() == nil {
						return true
					}
					if p := o.Pkg().Path(); (p == "bytes" || p == "strings") && (strings.HasPrefix(o.Name(), "Index") || strings.HasPrefix(o.Name(), "LastIndex") || strings.HasPrefix(o.Name(), "Contains") || o.Name() == "Cut" || strings.HasPrefix(o.Name(), "Split") || strings.HasPrefix(o.Name(), "Fields")) && isState {
						n++
						c.Bad(R, fn+":"+p+"."+o.Name(), c.P.Pos(x.Pos()), p+"."+o.Name()+" in the state function "+fn, "a state function searches the data with a library routine instead of stepping: bytes that matter to other states are skipped")
					}
				}
				return true
			})
		}
		c.OKd(R, "inventory", "-", core.F("%d writes of a scanner's index field in 3 scanner packages", n), "all ++/-- or constant resets")
	}
}

// strClassRule: a string literal the scanner accepts is an RFC 8259 string.
func strClassRule(R string) RuleFunc {
	return func(c *core.Ctx) {
		c.Rule(R, "in the schema scanner and the enum-rule scanner the string states accept nothing beyond RFC 8259: stateInString refuses every byte below 0x20, stateInStringEsc accepts exactly b f n r t \\ / \" u, the four \\u states accept exactly the 22 hex digits. Example() and the OpenAPI conversion copy accepted string literals verbatim, so a wider class (`\\'`, a raw TAB) makes their output something a JSON parser refuses")
		c.Floor(R, 12)
		isHex := func(b int) bool {
			return (b >= '0' && b <= '9') || (b >= 'a' && b <= 'f') || (b >= 'A' && b <= 'F')
		}
		want := map[string]func(b int) bool{
			"stateInString":        func(b int) bool { return b >= 0x20 },
			"stateInStringEsc":     func(b int) bool { return strings.IndexByte("bfnrt\\/\"u", byte(b)) >= 0 },
			"stateInStringEscU":    isHex,
			"stateInStringEscU1":   isHex,
			"stateInStringEscU12":  isHex,
			"stateInStringEscU123": isHex,
		}
		for _, pk := range schemaScanners {
			m := buildScanModel(c, pk)
			names := make([]string, 0, len(want))
			for n := range want {
				names = append(names, n)
			}
			sort.Strings(names)
			for _, n := range names {
				rows, ok := m.rows[n]
				if !ok {
					c.Unresolved(R, pk+"."+n)
					continue
				}
				bad := ""
				for b := 0; b < 256 && bad == ""; b++ {
					accepted := false
					for _, p := range rows[b].paths {
						if p.kind != "panic" && p.kind != "error" && p.kind != "abort" {
							accepted = true
						}
					}
					if len(rows[b].paths) == 0 {
						bad = core.F("byte %q: undecided", rune(b))
					} else if accepted != want[n](b) {
						if accepted {
							bad = core.F("byte %q is accepted, RFC 8259 does not allow it here", rune(b))
						} else {
							bad = core.F("byte %q is refused, RFC 8259 allows it here", rune(b))
						}
					}
				}
				c.Check(bad == "", R, pk+"."+n, c.P.Pos(m.states[n].Pos()), "state "+n+" of "+pk+" accepts exactly the RFC 8259 bytes (256 cells)", bad)
			}
		}
	}
}

// positivePkg type-checks a small import-free source so that a rule whose expected count on the
// repository is zero can show on every run that its matcher still matches something.
func positivePkg(src string) (*packages.Package, error) {
	fset := token.NewFileSet()
	f, err := parser.ParseFile(fset, "positive.go", src, 0)
	if err != nil {
		return nil, err
	}
	info := &types.Info{Types: map[ast.Expr]types.TypeAndValue{}, Defs: map[*ast.Ident]types.Object{}, Uses: map[*ast.Ident]types.Object{}, Selections: map[*ast.SelectorExpr]*types.Selection{}}
	conf := types.Config{}
	tp, err := conf.Check("positive", fset, []*ast.File{f}, info)
	if err != nil {
		return nil, err
	}
	return &packages.Package{PkgPath: "positive", Fset: fset, Syntax: []*ast.File{f}, Types: tp, TypesInfo: info}, nil
}

// sharedReslices finds `x[:0]` (the in-place filter idiom) where x was not created by the function itself.
func sharedReslices(pk *packages.Package, fd *ast.FuncDecl) []*ast.SliceExpr {
	local := map[types.Object]bool{}
	ast.Inspect(fd.Body, func(n ast.Node) bool {
		switch x := n.(type) {
		case *ast.AssignStmt:
			if len(x.Lhs) != len(x.Rhs) {
				return true
			}
			for i, l := range x.Lhs {
				id, ok := l.(*ast.Ident)
				if !ok {
					continue
				}
				o := pk.TypesInfo.Defs[id]
				if o == nil {
					o = pk.TypesInfo.Uses[id]
				}
				if o == nil {
					continue
				}
				fresh := false
				switch r := ast.Unparen(x.Rhs[i]).(type) {
				case *ast.CompositeLit:
					fresh = true
				case *ast.CallExpr:
					if fid, ok := r.Fun.(*ast.Ident); ok && (fid.Name == "make" || fid.Name == "new") {
						fresh = true
					}
					if fid, ok := r.Fun.(*ast.Ident); ok && fid.Name == "append" && len(r.Args) > 0 {
						// append([]T(nil), ...) / append(local, ...)
						switch a := ast.Unparen(r.Args[0]).(type) {
						case *ast.CallExpr:
							if tv, ok := pk.TypesInfo.Types[a.Fun]; ok && tv.IsType() {
								fresh = true
							}
						case *ast.Ident:
							if ao := pk.TypesInfo.Uses[a]; ao != nil && local[ao] {
								fresh = true
							}
						}
					}
				case *ast.SliceExpr:
					if sid, ok := ast.Unparen(r.X).(*ast.Ident); ok {
						if so := pk.TypesInfo.Uses[sid]; so != nil && local[so] {
							fresh = true
						}
					}
				}
				if fresh {
					local[o] = true
				} else if x.Tok == token.ASSIGN || x.Tok == token.DEFINE {
					delete(local, o)
				}
			}
		case *ast.DeclStmt:
			if gd, ok := x.Decl.(*ast.GenDecl); ok && gd.Tok == token.VAR {
				for _, sp := range gd.Specs {
					vs := sp.(*ast.ValueSpec)
					if len(vs.Values) == 0 {
						for _, nm := range vs.Names {
							if o := pk.TypesInfo.Defs[nm]; o != nil {
								local[o] = true // nil slice
							}
						}
					}
				}
			}
		}
		return true
	})
	var out []*ast.SliceExpr
	ast.Inspect(fd.Body, func(n ast.Node) bool {
		se, ok := n.(*ast.SliceExpr)
		if !ok || se.Low != nil || se.High == nil || se.Max != nil {
			return true
		}
		if tv, ok := pk.TypesInfo.Types[se.High]; !ok || tv.Value == nil || tv.Value.ExactString() != "0" {
			return true
		}
		if t, ok := pk.TypesInfo.Types[se.X]; !ok || t.Type == nil {
			return true
		} else if _, isSlice := t.Type.Underlying().(*types.Slice); !isSlice {
			return true
		}
		if id, ok := ast.Unparen(se.X).(*ast.Ident); ok {
			if o := pk.TypesInfo.Uses[id]; o != nil && local[o] {
				return true
			}
		}
		out = append(out, se)
		return true
	})
	return out
}

const inplacePositive = `package positive
type item struct{ comment bool }
func values() []item { return nil }
func filter() []item {
	vv := values()
	kept := vv[:0]
	for _, v := range vv {
		if !v.comment {
			kept = append(kept, v)
		}
	}
	return kept
}
func fine() []item {
	buf := make([]item, 0, 4)
	buf = append(buf, item{})
	buf = buf[:0]
	return buf
}
`

// inplaceRule: nobody filters a slice it did not create in place.
func inplaceRule(R string) RuleFunc {
	return func(c *core.Ctx) {
		c.Rule(R, "the in-place filter idiom `kept := x[:0]; kept = append(kept, ...)` overwrites the backing array of x: it appears only on slices the function created itself (make, literal, append to a fresh slice, nil declaration). On a slice obtained from a call, a parameter or a field (Enum.Values(), Children(), Names(), ...) it rewrites a list that other objects and earlier callers still hold: results handed out before change, and the next schema using the same rule sees a corrupted list. Expected count on the repository: 0; the matcher is exercised on a built-in example on every run")
		c.Floor(R, 2)
		pp, err := positivePkg(inplacePositive)
		if err != nil {
			c.Bad(R, "positive-example", "-", "built-in example", "does not type-check: "+err.Error())
			return
		}
		hits := map[string]int{}
		for _, d := range pp.Syntax[0].Decls {
			if fd, ok := d.(*ast.FuncDecl); ok && fd.Body != nil {
				hits[fd.Name.Name] = len(sharedReslices(pp, fd))
			}
		}
		c.Check(hits["filter"] == 1 && hits["fine"] == 0, R, "positive-example", "-", "the matcher reports the built-in in-place filter of a call result and not the reuse of a local buffer", core.F("matcher broken: %v", hits))
		n, funcs := 0, 0
		for _, d := range c.P.FuncDecls() {
			if d.Decl.Body == nil {
				continue
			}
			funcs++
			for _, se := range sharedReslices(d.Pkg, d.Decl) {
				n++
				fn := core.DeclName(d.Pkg, d.Decl)
				c.Bad(R, fn+":"+core.ExprStr(se), c.P.Pos(se.Pos()), core.ExprStr(se)+" in "+fn, "`"+core.ExprStr(se.X)+"` was not created by this function: appending to its empty re-slice overwrites elements of a list that is shared with its owner")
			}
		}
		c.OKd(R, "inventory", "-", core.F("%d functions scanned", funcs), core.F("%d in-place re-slices of foreign slices", n))
	}
}

// byteOrigin classifies where a []byte value comes from: "param", "data" (the storage of a
// bytes.Bytes), "fresh" (allocated here) or "other".
func byteOrigin(v ssa.Value, depth int, seen map[ssa.Value]bool) string {
	if depth > 12 || seen[v] {
		return "fresh" // a cycle adds nothing new
	}
	seen[v] = true
	switch x := v.(type) {
	case *ssa.Parameter:
		return "param"
	case *ssa.MakeSlice, *ssa.Alloc, *ssa.Const:
		return "fresh"
	case *ssa.Slice:
		return byteOrigin(x.X, depth+1, seen)
	case *ssa.ChangeType:
		return byteOrigin(x.X, depth+1, seen)
	case *ssa.Convert:
		return "fresh" // string -> []byte copies
	case *ssa.Phi:
		worst := "fresh"
		for _, e := range x.Edges {
			switch o := byteOrigin(e, depth+1, seen); o {
			case "param", "data":
				return o
			case "other":
				worst = "other"
			}
		}
		return worst
	case *ssa.UnOp:
		if fa, ok := x.X.(*ssa.FieldAddr); ok && absintFieldName(fa) == "data" {
			return "data"
		}
		if al, ok := x.X.(*ssa.Alloc); ok {
			// a local variable: look at what is stored into it
			worst := "fresh"
			for _, ref := range *al.Referrers() {
				if st, ok := ref.(*ssa.Store); ok && st.Addr == al {
					switch o := byteOrigin(st.Val, depth+1, seen); o {
					case "param", "data":
						return o
					case "other":
						worst = "other"
					}
				}
			}
			return worst
		}
		return "other"
	case *ssa.Field:
		if st, ok := x.X.Type().Underlying().(*types.Struct); ok && st.Field(x.Field).Name() == "data" {
			return "data"
		}
		return "other"
	case *ssa.Call:
		if b, ok := x.Call.Value.(*ssa.Builtin); ok && b.Name() == "append" {
			return byteOrigin(x.Call.Args[0], depth+1, seen)
		}
		return "other"
	}
	return "other"
}

// noInplaceRule: the byte helpers never write into the text they are given.
func noInplaceRule(R string) RuleFunc {
	return func(c *core.Ctx) {
		c.Rule(R, "a bytes.Bytes value is a view of the file content it was cut from (sub-slicing never copies), and rule texts, schema texts and lexeme values all share that storage. No function of the module stores into an element of a []byte that is a parameter, a re-slice of one, or the `data` of a Bytes (directly, by copy() or by append into spare capacity of a re-slice): decoders like unquoteBytes build their result in a buffer they allocate. A decoder that works in place rewrites the rule text while it is being scanned - the second reading of the same enum rule sees other literals than the first")
		c.Floor(R, 3)
		n, bad := 0, 0
		var fs []*ssa.Function
		for f := range c.P.AllFuncs {
			if c.P.FuncInScope(f) && f.Blocks != nil {
				fs = append(fs, f)
			}
		}
		sort.Slice(fs, func(i, j int) bool { return fs[i].String() < fs[j].String() })
		isBytes := func(t types.Type) bool {
			sl, ok := t.Underlying().(*types.Slice)
			if !ok {
				return false
			}
			b, ok := sl.Elem().Underlying().(*types.Basic)
			return ok && b.Kind() == types.Uint8
		}
		for _, f := range fs {
			for _, b := range f.Blocks {
				for _, in := range b.Instrs {
					var base ssa.Value
					what := ""
					switch x := in.(type) {
					case *ssa.Store:
						ia, ok := x.Addr.(*ssa.IndexAddr)
						if !ok || !isBytes(ia.X.Type()) {
							continue
						}
						base, what = ia.X, "element store"
					case *ssa.Call:
						bi, ok := x.Call.Value.(*ssa.Builtin)
						if !ok || bi.Name() != "copy" || !isBytes(x.Call.Args[0].Type()) {
							continue
						}
						base, what = x.Call.Args[0], "copy() into"
					default:
						continue
					}
					n++
					o := byteOrigin(base, 0, map[ssa.Value]bool{})
					if o == "param" || o == "data" {
						bad++
						src := "a []byte parameter"
						if o == "data" {
							src = "the storage of a bytes.Bytes"
						}
						c.Bad(R, core.F("%s:%s", core.FuncName(f), what), c.P.Pos(in.Pos()), what+" in "+core.FuncName(f), "writes into "+src+": the caller's text (file content shared by every Bytes cut from it) is modified")
					}
				}
			}
		}
		c.OKd(R, "inventory", "-", core.F("%d element stores / copy() targets of type []byte in module functions", n), core.F("%d of them into a parameter or Bytes storage", bad))
		c.OKd(R, "origins", "-", "origins traced through re-slices, phis, locals and append", "make/alloc/conversion = fresh")
		if d := c.P.FindDecl("bytes.unquoteBytes"); d == nil {
			c.Unresolved(R, "bytes.unquoteBytes")
		} else {
			c.OK(R, "bytes.unquoteBytes:anchor", c.P.Pos(d.Decl.Pos()), "the string decoder is among the scanned functions")
		}
	}
}

// stackRule: ds.Stack keeps what was pushed.
func stackRule(R string) RuleFunc {
	return func(c *core.Ctx) {
		c.Rule(R, "the generic stack under all three scanners (lexeme stack, return stack) changes its element list in two ways only: Push stores append(s.vals, v), Pop stores the list shortened by exactly one at the end (s.vals[:len-1]) after reading the last element; a method that re-allocates the list must copy every element (make with the full length + copy, or append to an empty slice). A re-allocation that copies into a zero-length slice drops the whole stack: deeply nested documents that are valid are refused once the stack has grown and shrunk")
		c.Floor(R, 3)
		n := 0
		for _, d := range c.P.FuncDecls() {
			if core.Rel(d.Pkg.PkgPath) != "internal/ds" || d.Decl.Recv == nil || d.Decl.Body == nil || !strings.Contains(core.ExprStr(d.Decl.Recv.List[0].Type), "Stack") {
				continue
			}
			recv := d.Decl.Recv.List[0].Names[0].Name
			vals := recv + ".vals"
			fn := core.DeclName(d.Pkg, d.Decl)
			// locals that are complete copies of the list
			fullCopy := map[string]bool{}
			madeLen := map[string]string{}
			ast.Inspect(d.Decl.Body, func(nd ast.Node) bool {
				switch x := nd.(type) {
				case *ast.AssignStmt:
					if len(x.Lhs) == 1 && len(x.Rhs) == 1 {
						if call, ok := x.Rhs[0].(*ast.CallExpr); ok && core.ExprStr(call.Fun) == "make" && len(call.Args) >= 2 {
							madeLen[core.ExprStr(x.Lhs[0])] = core.ExprStr(call.Args[1])
						}
					}
				case *ast.CallExpr:
					if core.ExprStr(x.Fun) == "copy" && len(x.Args) == 2 && core.ExprStr(x.Args[1]) == vals {
						dst := core.ExprStr(x.Args[0])
						if l := madeLen[dst]; l == "len("+vals+")" || l == recv+".Len()" {
							fullCopy[dst] = true
						}
					}
				}
				return true
			})
			ast.Inspect(d.Decl.Body, func(nd ast.Node) bool {
				as, ok := nd.(*ast.AssignStmt)
				if !ok || len(as.Lhs) != 1 || core.ExprStr(as.Lhs[0]) != vals || len(as.Rhs) != 1 {
					return true
				}
				n++
				rhs := core.ExprStr(as.Rhs[0])
				key := fn + ":" + rhs
				pos := c.P.Pos(as.Pos())
				okForm := ""
				switch r := ast.Unparen(as.Rhs[0]).(type) {
				case *ast.CallExpr:
					if core.ExprStr(r.Fun) == "append" && len(r.Args) == 2 && core.ExprStr(r.Args[0]) == vals && !r.Ellipsis.IsValid() {
						okForm = "push: append of one element"
					}
					if core.ExprStr(r.Fun) == "append" && len(r.Args) == 2 && r.Ellipsis.IsValid() && core.ExprStr(r.Args[1]) == vals {
						if inner, ok := ast.Unparen(r.Args[0]).(*ast.CallExpr); ok && len(inner.Args) == 1 && core.ExprStr(inner.Args[0]) == "nil" {
							okForm = "complete copy"
						}
					}
				case *ast.SliceExpr:
					if core.ExprStr(r.X) == vals && r.Low == nil && r.Max == nil && r.High != nil {
						h := core.ExprStr(r.High)
						if h == recv+".Len() - 1" || h == "len("+vals+") - 1" {
							okForm = "pop: shortened by one at the end"
						}
					}
				case *ast.Ident:
					if fullCopy[r.Name] {
						okForm = "re-allocation with a complete copy"
					}
				}
				if okForm != "" {
					c.OKd(R, key, pos, vals+" = "+rhs+" in "+fn, okForm)
				} else {
					c.Bad(R, key, pos, vals+" = "+rhs+" in "+fn, "the element list is replaced by something that is neither the list plus one element, the list minus its last element, nor a complete copy: elements still on the stack are lost or invented")
				}
				return true
			})
			if d.Decl.Name.Name == "Pop" {
				// the element is read before the list is shortened
				readFirst := false
				if len(d.Decl.Body.List) > 0 {
					if as, ok := d.Decl.Body.List[0].(*ast.AssignStmt); ok && len(as.Rhs) == 1 && (core.ExprStr(as.Rhs[0]) == recv+".Peek()" || strings.HasPrefix(core.ExprStr(as.Rhs[0]), vals+"[")) {
						readFirst = true
					}
				}
				c.Check(readFirst, R, fn+":read-first", c.P.Pos(d.Decl.Pos()), "Pop reads the last element before shortening the list", "Pop does not start by reading the last element")
			}
		}
		if n < 2 {
			c.Unresolved(R, core.F("stores to Stack.vals: %d found, at least 2 expected", n))
		}
	}
}

const depthPositive = `package positive
type st struct{ vals []int }
func (s *st) Len() int { return len(s.vals) }
const maxDepth = 512
func push(s *st) {
	if s.Len() >= maxDepth {
		panic("too deep")
	}
	s.vals = append(s.vals, 1)
}
func small(s *st) bool {
	if s.Len() >= 5 {
		return true
	}
	return false
}
`

// sizeLimits finds `if <length or count> >= <constant of at least 16> { reject }`.
func sizeLimits(pk *packages.Package, fd *ast.FuncDecl) []*ast.IfStmt {
	var out []*ast.IfStmt
	ast.Inspect(fd.Body, func(n ast.Node) bool {
		ifs, ok := n.(*ast.IfStmt)
		if !ok {
			return true
		}
		limit := false
		ast.Inspect(ifs.Cond, func(m ast.Node) bool {
			be, ok := m.(*ast.BinaryExpr)
			if !ok {
				return true
			}
			var sizeSide, constSide ast.Expr
			switch be.Op {
			case token.GEQ, token.GTR:
				sizeSide, constSide = be.X, be.Y
			case token.LEQ, token.LSS:
				sizeSide, constSide = be.Y, be.X
			default:
				return true
			}
			tv, ok := pk.TypesInfo.Types[constSide]
			if !ok || tv.Value == nil {
				return true
			}
			v, isInt := constantInt64(tv.Value)
			if !isInt || v < 16 {
				return true
			}
			s := core.ExprStr(sizeSide)
			if strings.Contains(s, ".Len()") || strings.HasPrefix(s, "len(") || strings.Contains(strings.ToLower(s), "depth") || strings.Contains(strings.ToLower(s), "level") || strings.Contains(strings.ToLower(s), "nest") {
				limit = true
			}
			return true
		})
		if !limit {
			return true
		}
		rejects := false
		ast.Inspect(ifs.Body, func(m ast.Node) bool {
			switch x := m.(type) {
			case *ast.CallExpr:
				if core.ExprStr(x.Fun) == "panic" {
					rejects = true
				}
			case *ast.ReturnStmt:
				for _, r := range x.Results {
					if tv, ok := pk.TypesInfo.Types[r]; ok && tv.Type != nil && core.IsErrorType(tv.Type) && core.ExprStr(r) != "nil" {
						rejects = true
					}
				}
			}
			return true
		})
		if rejects {
			out = append(out, ifs)
		}
		return true
	})
	return out
}

var sizeLimitTable = map[string]string{}

// noLimitRule: no input is refused for its size or nesting depth.
func noLimitRule(R string) RuleFunc {
	return func(c *core.Ctx) {
		c.Rule(R, "the property quantifies over every JSON text / every nesting: in the scanners, the loader, the compiler, the checker and the stack no rejection (panic or error return) is guarded by a comparison of a length, stack height or depth counter with a constant of 16 or more. Such a test is a size or nesting limit: valid inputs beyond it are refused although their shorter siblings are accepted. Expected count 0 (the matcher is exercised on a built-in example); the number parser's documented exponent limit is not a length test")
		c.Floor(R, 2)
		pp, err := positivePkg(depthPositive)
		if err != nil {
			c.Bad(R, "positive-example", "-", "built-in example", "does not type-check: "+err.Error())
			return
		}
		hits := map[string]int{}
		for _, d := range pp.Syntax[0].Decls {
			if fd, ok := d.(*ast.FuncDecl); ok && fd.Body != nil {
				hits[fd.Name.Name] = len(sizeLimits(pp, fd))
			}
		}
		c.Check(hits["push"] == 1 && hits["small"] == 0, R, "positive-example", "-", "the matcher reports the built-in depth limit and not a small structural test", core.F("matcher broken: %v", hits))
		n, funcs := 0, 0
		for _, d := range c.P.FuncDecls() {
			rel := core.Rel(d.Pkg.PkgPath)
			if d.Decl.Body == nil || !(strings.HasPrefix(rel, "notations/jschema") || rel == "formats/json" || rel == "rules/enum" || rel == "internal/ds" || rel == "lexeme" || rel == "bytes") {
				continue
			}
			funcs++
			for _, ifs := range sizeLimits(d.Pkg, d.Decl) {
				n++
				fn := core.DeclName(d.Pkg, d.Decl)
				key := fn + ":" + core.ExprStr(ifs.Cond)
				if r, ok := sizeLimitTable[key]; ok {
					c.Tabled(R, key, c.P.Pos(ifs.Pos()), "if "+core.ExprStr(ifs.Cond)+" { reject } in "+fn, r)
				} else {
					c.Bad(R, key, c.P.Pos(ifs.Pos()), "if "+core.ExprStr(ifs.Cond)+" { reject } in "+fn, "an input is refused because a length / stack height / depth exceeds a constant: texts nested or sized beyond it are rejected although they are valid")
				}
			}
		}
		c.OKd(R, "inventory", "-", core.F("%d functions scanned", funcs), core.F("%d size or depth limits", n))
	}
}

var constFmtTable = map[string]string{
	"errs.f:fmt.Sprintf": "the format is errorFormat[code], the table whose verbs and arities C16.fmt checks against every call site; the arguments are passed as arguments, never spliced into the format",
}

// constFmtRule: messages are arguments, never formats.
func constFmtRule(R string) RuleFunc {
	return func(c *core.Ctx) {
		c.Rule(R, "every call of a fmt formatting function (Sprintf, Errorf, Fprintf, Printf, Fscanf...) in the module has a compile-time constant format string (or is the one tabled table lookup of errs.Code.F). A format built at run time from a message, a key or a byte of the input (`fmt.Sprintf(prefix+message+\"...\", ...)`) is re-interpreted: an input containing `%` renders as `%!d(string=...)`/`%!s(MISSING)` and loses its line number and quoted line")
		c.Floor(R, 10)
		n := 0
		for _, cs := range c.P.Calls() {
			o := core.Callee(cs.Pkg, cs.Call)
			if o == nil || o.Pkg() == nil || o.Pkg().Path() != "fmt" {
				continue
			}
			idx := -1
			switch o.Name() {
			case "Sprintf", "Errorf", "Printf":
				idx = 0
			case "Fprintf", "Sscanf", "Fscanf", "Appendf":
				idx = 1
			}
			if idx < 0 || len(cs.Call.Args) <= idx {
				continue
			}
			n++
			fn := "package init"
			if cs.Decl != nil {
				fn = core.DeclName(cs.Pkg, cs.Decl)
			}
			key := fn + ":fmt." + o.Name()
			pos := c.P.Pos(cs.Call.Pos())
			what := "fmt." + o.Name() + "(" + clip(core.ExprStr(cs.Call.Args[idx]), 60) + ", ...) in " + fn
			switch {
			case core.ConstOf(cs.Pkg, cs.Call.Args[idx]) != nil:
				c.OK(R, key, pos, what)
			case constFmtTable[key] != "":
				c.Tabled(R, key, pos, what, constFmtTable[key])
			default:
				c.Bad(R, key, pos, what, "the format string is computed at run time: text coming from the input is interpreted as formatting verbs")
			}
		}
		if n == 0 {
			c.Unresolved(R, "fmt formatting calls: none found")
		}
	}
}

// c01uuid: the UUID validator looks at every character of every accepted form.
func c01uuid(c *core.Ctx) {
	const R = "C01.uuid"
	c.Rule(R, "constraint.parseBytes, evaluated for each accepted length (32, 36, 38, 45) with its constant tables and loops unrolled by the analyser: every byte position of the text is examined - the dashes at 8, 13, 18, 23 of the dashed body against '-', the braces, the `urn:uuid:` prefix, and every other position as one of the two arguments of the hex-pair test xtob - and a well-formed text reaches `return nil`. A table or loop bound that stops short leaves trailing characters unchecked: `...4466554400zz` passes as a uuid")
	c.Floor(R, 4)
	const fn = "notations/jschema/ischema/constraint.parseBytes"
	d := c.P.FindDecl(fn)
	if d == nil {
		c.Unresolved(R, fn)
		return
	}
	param := d.Decl.Type.Params.List[0].Names[0].Name
	for _, L := range []int64{32, 36, 38, 45} {
		off := int64(0)
		class := map[int64]string{}
		e := &miniEval{pk: d.Pkg, env: map[string]int64{}}
		isB := func(x ast.Expr) (ast.Expr, bool) {
			ix, ok := ast.Unparen(x).(*ast.IndexExpr)
			if ok && core.ExprStr(ix.X) == param {
				return ix.Index, true
			}
			return nil, false
		}
		e.hook = func(x ast.Expr) (int64, bool) {
			switch y := x.(type) {
			case *ast.Ident:
				if y.Name == "nil" {
					return 0, true
				}
			case *ast.CallExpr:
				if core.ExprStr(y.Fun) == "len" && len(y.Args) == 1 && core.ExprStr(y.Args[0]) == param {
					return L - off, true
				}
				name := core.FullName(core.Callee(d.Pkg, y))
				if strings.HasSuffix(name, ".xtob") {
					for _, a := range y.Args {
						if idx, ok := isB(a); ok {
							class[off+e.expr(idx)] += "x"
						} else {
							e.fail("xtob argument " + core.ExprStr(a))
						}
					}
					return 1, true
				}
				if name == "bytes.Equal" {
					// the prefix comparison: the re-sliced operand b[:k]
					ast.Inspect(y, func(n ast.Node) bool {
						if se, ok := n.(*ast.SliceExpr); ok && core.ExprStr(se.X) == param && se.Low == nil && se.High != nil {
							for i := int64(0); i < e.expr(se.High); i++ {
								class[off+i] += "p"
							}
						}
						return true
					})
					return 1, true
				}
				if t := core.TypeOf(d.Pkg, y); t != nil && core.IsErrorType(t) {
					return 1, true
				}
			case *ast.SliceExpr:
				if core.ExprStr(y.X) == param && y.High == nil && y.Low != nil {
					off += e.expr(y.Low)
					return 0, true
				}
			case *ast.BinaryExpr:
				if y.Op == token.EQL || y.Op == token.NEQ {
					for _, pair := range [][2]ast.Expr{{y.X, y.Y}, {y.Y, y.X}} {
						if idx, ok := isB(pair[0]); ok {
							if cv := core.ConstOf(d.Pkg, pair[1]); cv != nil {
								n, _ := constantInt64(cv)
								class[off+e.expr(idx)] += string(rune(n))
								return b2i(y.Op == token.EQL), true
							}
						}
					}
				}
			}
			return 0, false
		}
		st, rets := e.run(d.Decl.Body.List)
		want := map[int64]string{}
		body := int64(0)
		switch L {
		case 32:
			for i := int64(0); i < 32; i++ {
				want[i] = "x"
			}
			body = -1
		case 36:
		case 38:
			want[0], want[37] = "{", "}"
			body = 1
		case 45:
			for i := int64(0); i < 9; i++ {
				want[i] = "p"
			}
			body = 9
		}
		if body >= 0 {
			for i := int64(0); i < 36; i++ {
				switch i {
				case 8, 13, 18, 23:
					want[body+i] = "-"
				default:
					want[body+i] = "x"
				}
			}
		}
		bad := ""
		switch {
		case e.unknown != "":
			bad = "undecided: " + e.unknown
		case st != miniReturn || len(rets) != 1 || rets[0] != 0:
			bad = "a well-formed text does not reach `return nil`"
		default:
			for i := int64(0); i < L; i++ {
				if class[i] != want[i] {
					got := class[i]
					if got == "" {
						got = "not examined"
					}
					bad = core.F("position %d of the %d-character form: %s (expected %q)", i, L, got, want[i])
					break
				}
			}
		}
		c.Check(bad == "", R, core.F("%s:len%d", fn, L), c.P.Pos(d.Decl.Pos()), core.F("all %d positions of the %d-character form are examined by the right test", L, L), bad)
	}
}

// returnedValues: the values a function returns in result position i, looking through the
// slots go/ssa spills results into when the function has defers.
func returnedValues(f *ssa.Function, i int) []ssa.Value {
	var out []ssa.Value
	for _, b := range f.Blocks {
		for _, in := range b.Instrs {
			r, ok := in.(*ssa.Return)
			if !ok || len(r.Results) <= i {
				continue
			}
			v := r.Results[i]
			if u, ok := v.(*ssa.UnOp); ok {
				if al, ok := u.X.(*ssa.Alloc); ok {
					for _, ref := range *al.Referrers() {
						if st, ok := ref.(*ssa.Store); ok && st.Addr == al {
							out = append(out, st.Val)
						}
					}
					continue
				}
			}
			out = append(out, v)
		}
	}
	return out
}

// freshBytes: is the []byte value v newly allocated (not a view of longer-lived storage)?
func freshBytes(c *core.Ctx, v ssa.Value, depth int, why *string) bool {
	if depth > 6 {
		*why = "too deep to decide"
		return false
	}
	switch x := v.(type) {
	case *ssa.Const:
		return true // nil
	case *ssa.MakeSlice, *ssa.Convert:
		return true
	case *ssa.Phi:
		for _, e := range x.Edges {
			if !freshBytes(c, e, depth+1, why) {
				return false
			}
		}
		return true
	case *ssa.Extract:
		if call, ok := x.Tuple.(*ssa.Call); ok {
			return freshCall(c, call, x.Index, depth, why)
		}
	case *ssa.Call:
		return freshCall(c, x, 0, depth, why)
	case *ssa.Slice:
		return freshBytes(c, x.X, depth+1, why)
	case *ssa.UnOp:
		if al, ok := x.X.(*ssa.Alloc); ok {
			for _, ref := range *al.Referrers() {
				if st, ok := ref.(*ssa.Store); ok && st.Addr == al && !freshBytes(c, st.Val, depth+1, why) {
					return false
				}
			}
			return true
		}
	}
	*why = "value of kind " + strings.TrimPrefix(core.F("%T", v), "*ssa.") + " (" + v.String() + ")"
	return false
}

func freshCall(c *core.Ctx, call *ssa.Call, idx, depth int, why *string) bool {
	if b, ok := call.Call.Value.(*ssa.Builtin); ok {
		if b.Name() == "append" {
			return freshBytes(c, call.Call.Args[0], depth+1, why)
		}
		*why = "builtin " + b.Name()
		return false
	}
	callees := c.P.Callees(call)
	if len(callees) == 0 {
		*why = "unresolved call " + call.String()
		return false
	}
	for _, g := range callees {
		name := core.FuncName(g)
		if name == "(bytes.Bytes).Data" {
			*why = "(bytes.Bytes).Data(): the storage of the text itself"
			return false
		}
		if !c.P.FuncInModule(g) || g.Blocks == nil {
			// standard library producers of fresh slices
			switch {
			case strings.HasPrefix(name, "encoding/json.Marshal"), strings.HasPrefix(name, "strconv.Append"), name == "(*bytes.Buffer).Bytes", strings.HasPrefix(name, "bytes."):
				continue
			}
			*why = "out-of-module call " + name
			return false
		}
		for _, rv := range returnedValues(g, idx) {
			if !freshBytes(c, rv, depth+1, why) {
				if !strings.Contains(*why, " <- ") {
					*why += " <- " + name
				}
				return false
			}
		}
	}
	return true
}

// freshResultRule: byte results of the API are the caller's own.
func freshResultRule(R string) RuleFunc {
	return func(c *core.Ctx) {
		c.Rule(R, "the slice a public Example() or Enum.Values() hands out is freshly allocated on every path (make, append to a nil/fresh slice, string conversion, a JSON encoder's result, or a callee with the same property - traced through up to 6 calls and go/ssa's result slots): never the Data() of a Bytes, which is the file content itself. A caller that edits its result otherwise edits the schema text: the next Example(), Check() or error rendering sees the edited text")
		c.Floor(R, 4)
		for _, name := range []string{"(*notations/jschema.JSchema).Example", "(*notations/regex.RSchema).Example", "(*rules/enum.Enum).Values"} {
			var f *ssa.Function
			for g := range c.P.AllFuncs {
				if core.FuncName(g) == name {
					f = g
				}
			}
			if f == nil {
				c.Unresolved(R, name)
				continue
			}
			why := ""
			ok := true
			for _, rv := range returnedValues(f, 0) {
				if !freshBytes(c, rv, 0, &why) {
					ok = false
				}
			}
			c.Check(ok, R, name, c.P.Pos(f.Pos()), "the slice returned by "+name+" is freshly allocated on every path", "a returned value is not fresh: "+why)
		}
		// the elements of Values() carry bytes of their own, not windows into the rule text
		if d := c.P.FindDecl("(*rules/enum.Enum).Values"); d == nil {
			c.Unresolved(R, "(*rules/enum.Enum).Values")
		} else {
			copied := false
			inspectDeep(c, d, 1, func(_ *core.DeclSite, n ast.Node) bool {
				as, ok := n.(*ast.AssignStmt)
				if !ok || len(as.Lhs) != 1 || len(as.Rhs) != 1 {
					return true
				}
				if se, isSel := ast.Unparen(as.Lhs[0]).(*ast.SelectorExpr); isSel && se.Sel.Name == "Value" {
					r := core.ExprStr(as.Rhs[0])
					if strings.Contains(r, "append(") && strings.Contains(r, ".Data()...") && !strings.Contains(r, "append("+core.ExprStr(se.X)) {
						copied = true
					}
				}
				return true
			})
			c.Check(copied, R, "(*rules/enum.Enum).Values:bytes", c.P.Pos(d.Decl.Pos()), "every returned value gets a copy of its bytes (append to a fresh slice of v.Value.Data())", "the returned values share their bytes with the text of the rule: a caller that edits a value edits the rule (a later Values(), Check() or GetAST() sees other values)")
		}
	}
}

// unnamedOnlyRule: AddUnnamedTypes copies unnamed types only.
func unnamedOnlyRule(R string) RuleFunc {
	return func(c *core.Ctx) {
		c.Rule(R, "loader.AddUnnamedTypes moves into the root only the types whose generated name starts with `#` (the rule-sets and shortcuts of a registered type): every name it passes to rootSchema.AddType comes from a work list that is filled under a test of the first character against '#' (or the AddType call itself is under that test). Copying the named types as well makes the root resolve names that were never registered on it and replaces root types of the same name - Check() then depends on what was registered on OTHER schema objects")
		c.Floor(R, 2)
		const fn = "notations/jschema/loader.AddUnnamedTypes"
		d := c.P.FindDecl(fn)
		if d == nil {
			c.Unresolved(R, fn)
			return
		}
		mentionsHash := func(e ast.Expr) bool {
			s := core.ExprStr(e)
			return strings.Contains(s, "'#'") || strings.Contains(s, `"#"`)
		}
		// under a test against '#': inside such an `if`, or behind a guard `if <test> { continue / return }`
		// that stands earlier in one of the enclosing blocks
		hashTest := func(stack []ast.Node) bool {
			for i, a := range stack {
				if ifs, ok := a.(*ast.IfStmt); ok && mentionsHash(ifs.Cond) {
					return true
				}
				blk, ok := a.(*ast.BlockStmt)
				if !ok || i+1 >= len(stack) {
					continue
				}
				for _, st := range blk.List {
					if st == stack[i+1] {
						break
					}
					if ifs, ok := st.(*ast.IfStmt); ok && mentionsHash(ifs.Cond) && len(ifs.Body.List) > 0 {
						switch last := ifs.Body.List[len(ifs.Body.List)-1].(type) {
						case *ast.BranchStmt:
							if last.Tok == token.CONTINUE {
								return true
							}
						case *ast.ReturnStmt:
							return true
						}
					}
				}
			}
			return false
		}
		// work lists filled only under the test
		filtered := map[string]bool{}
		unfiltered := map[string]bool{}
		var stack []ast.Node
		var adds []struct {
			call  *ast.CallExpr
			under bool
		}
		ast.Inspect(d.Decl.Body, func(n ast.Node) bool {
			if n == nil {
				stack = stack[:len(stack)-1]
				return true
			}
			stack = append(stack, n)
			switch x := n.(type) {
			case *ast.AssignStmt:
				if len(x.Lhs) == 1 && len(x.Rhs) == 1 {
					if call, ok := x.Rhs[0].(*ast.CallExpr); ok && core.ExprStr(call.Fun) == "append" && len(call.Args) == 2 && core.ExprStr(call.Args[0]) == core.ExprStr(x.Lhs[0]) {
						name := core.ExprStr(x.Lhs[0])
						if hashTest(stack) {
							filtered[name] = true
						} else {
							unfiltered[name] = true
						}
					}
				}
			case *ast.CallExpr:
				if strings.HasSuffix(core.FullName(core.Callee(d.Pkg, x)), "ISchema).AddType") {
					adds = append(adds, struct {
						call  *ast.CallExpr
						under bool
					}{x, hashTest(stack)})
				}
			}
			return true
		})
		// the allOf compiler collects the types of an inherited type the same way
		if ed := c.P.FindDecl("(*notations/jschema/loader.allOfConstraintCompiler).extendWith"); ed == nil {
			c.Unresolved(R, "(*notations/jschema/loader.allOfConstraintCompiler).extendWith")
		} else {
			var st2 []ast.Node
			n2, ok2 := 0, true
			ast.Inspect(ed.Decl.Body, func(n ast.Node) bool {
				if n == nil {
					st2 = st2[:len(st2)-1]
					return true
				}
				st2 = append(st2, n)
				if as, isA := n.(*ast.AssignStmt); isA && len(as.Lhs) == 1 {
					if ix, isIx := as.Lhs[0].(*ast.IndexExpr); isIx && strings.HasSuffix(core.ExprStr(ix.X), ".foundTypes") {
						n2++
						if !hashTest(st2) {
							ok2 = false
						}
					}
				}
				return true
			})
			c.Check(ok2 && n2 > 0, R, "extendWith:foundTypes", c.P.Pos(ed.Decl.Pos()), "extendWith collects the types of the inherited type under a test of the name against '#'", "the named types of an inherited type are copied into the root as well (they replace the root's own types of the same name)")
		}
		if len(adds) == 0 {
			c.Bad(R, fn+":AddType", c.P.Pos(d.Decl.Pos()), "AddUnnamedTypes adds types to the root", "no AddType call found")
			return
		}
		for _, a := range adds {
			ok := a.under
			why := "under a test of the name against '#'"
			if !ok {
				// the name argument ranges over a filtered work list (range variable, or list[i])
				arg := core.ExprStr(a.call.Args[0])
				if ix, isIx := ast.Unparen(a.call.Args[0]).(*ast.IndexExpr); isIx {
					list := core.ExprStr(ix.X)
					if filtered[list] && !unfiltered[list] {
						ok = true
						why = "the name is an element of " + list + ", which is filled only under a test against '#'"
					}
				}
				ast.Inspect(d.Decl.Body, func(n ast.Node) bool {
					rs, isR := n.(*ast.RangeStmt)
					if !isR || rs.Value == nil || core.ExprStr(rs.Value) != arg {
						return true
					}
					list := core.ExprStr(rs.X)
					if filtered[list] && !unfiltered[list] && rs.Pos() < a.call.Pos() && a.call.End() <= rs.End() {
						ok = true
						why = "the name ranges over " + list + ", which is filled only under a test against '#'"
					}
					return true
				})
			}
			if ok {
				c.OKd(R, fn+":AddType", c.P.Pos(a.call.Pos()), "rootSchema.AddType("+core.ExprStr(a.call.Args[0])+", ...) in AddUnnamedTypes", why)
			} else {
				c.Bad(R, fn+":AddType", c.P.Pos(a.call.Pos()), "rootSchema.AddType("+core.ExprStr(a.call.Args[0])+", ...) in AddUnnamedTypes", "every type of the registered type is copied into the root, named ones included: the root's own type of that name is replaced, and names never registered on the root resolve")
			}
		}
	}
}

const presizePositive = `package positive
type keys struct{ data []int }
func (k *keys) set(v int) { k.data = append(k.data, v) }
func copyKeys(from *keys) *keys {
	k := &keys{data: make([]int, len(from.data))}
	for _, v := range from.data {
		k.set(v)
	}
	return k
}
func local(n int) []int {
	out := make([]int, n)
	for i := range out {
		out[i] = i
	}
	return out
}
func localBad(n int) []int {
	out := make([]int, n)
	for i := 0; i < n; i++ {
		out = append(out, i)
	}
	return out
}
`

// presizedAppends finds slices created with a non-zero LENGTH (make([]T, n), no capacity) that are
// then grown by append: the n zero values stay in front of the appended elements.
func presizedAppends(pk *packages.Package, files []*ast.File, fd *ast.FuncDecl, appendedFields map[string]bool) []ast.Node {
	var out []ast.Node
	isLenMake := func(e ast.Expr) bool {
		call, ok := ast.Unparen(e).(*ast.CallExpr)
		if !ok || len(call.Args) != 2 {
			return false
		}
		if id, ok := call.Fun.(*ast.Ident); !ok || id.Name != "make" {
			return false
		}
		if tv, ok := pk.TypesInfo.Types[call.Args[0]]; !ok || tv.Type == nil {
			return false
		} else if _, isSlice := tv.Type.Underlying().(*types.Slice); !isSlice {
			return false
		}
		if tv, ok := pk.TypesInfo.Types[call.Args[1]]; ok && tv.Value != nil && tv.Value.ExactString() == "0" {
			return false
		}
		return true
	}
	// locals
	ast.Inspect(fd.Body, func(n ast.Node) bool {
		as, ok := n.(*ast.AssignStmt)
		if !ok || len(as.Lhs) != 1 || len(as.Rhs) != 1 || !isLenMake(as.Rhs[0]) {
			return true
		}
		name := core.ExprStr(as.Lhs[0])
		indexed, appended := false, false
		ast.Inspect(fd.Body, func(m ast.Node) bool {
			switch x := m.(type) {
			case *ast.AssignStmt:
				for _, l := range x.Lhs {
					if ix, ok := l.(*ast.IndexExpr); ok && core.ExprStr(ix.X) == name {
						indexed = true
					}
				}
				for _, r := range x.Rhs {
					if call, ok := r.(*ast.CallExpr); ok && core.ExprStr(call.Fun) == "append" && len(call.Args) > 0 && core.ExprStr(call.Args[0]) == name {
						appended = true
					}
				}
			case *ast.CallExpr:
				// handed to something that fills it (copy, Read, ...)
				if core.ExprStr(x.Fun) != "append" && core.ExprStr(x.Fun) != "len" && core.ExprStr(x.Fun) != "cap" {
					for _, a := range x.Args {
						if core.ExprStr(a) == name || strings.HasPrefix(core.ExprStr(a), name+"[") {
							indexed = true
						}
					}
				}
			}
			return true
		})
		if appended && !indexed {
			out = append(out, as)
		}
		return true
	})
	// fields of composite literals / field assignments whose methods append to the field
	ast.Inspect(fd.Body, func(n ast.Node) bool {
		switch x := n.(type) {
		case *ast.CompositeLit:
			for _, el := range x.Elts {
				if kv, ok := el.(*ast.KeyValueExpr); ok && isLenMake(kv.Value) && appendedFields[ownerFieldKey(pk, x, core.ExprStr(kv.Key))] {
					out = append(out, kv)
				}
			}
		case *ast.AssignStmt:
			if len(x.Lhs) == 1 && len(x.Rhs) == 1 && isLenMake(x.Rhs[0]) {
				if sel, ok := x.Lhs[0].(*ast.SelectorExpr); ok && appendedFields[ownerFieldKey(pk, sel.X, sel.Sel.Name)] {
					out = append(out, x)
				}
			}
		}
		return true
	})
	return out
}

// appendedFieldNames: names of struct fields that some function grows with `x.f = append(x.f, ...)`.
func appendedFieldNames(pk *packages.Package, files []*ast.File) map[string]bool {
	out := map[string]bool{}
	for _, f := range files {
		for _, d := range f.Decls {
			fd, ok := d.(*ast.FuncDecl)
			if !ok || fd.Body == nil {
				continue
			}
			// the objects handed in: receiver and parameters. An append to a field of a value that is
			// local to the function cannot reach an object created elsewhere.
			handed := map[types.Object]bool{}
			lists := []*ast.FieldList{fd.Recv, fd.Type.Params}
			for _, fl := range lists {
				if fl == nil {
					continue
				}
				for _, fld := range fl.List {
					for _, nm := range fld.Names {
						if o := pk.TypesInfo.ObjectOf(nm); o != nil {
							handed[o] = true
						}
					}
				}
			}
			ast.Inspect(fd.Body, func(n ast.Node) bool {
				as, ok := n.(*ast.AssignStmt)
				if !ok || len(as.Lhs) != 1 || len(as.Rhs) != 1 {
					return true
				}
				sel, ok := as.Lhs[0].(*ast.SelectorExpr)
				if !ok {
					return true
				}
				if call, ok := as.Rhs[0].(*ast.CallExpr); ok && core.ExprStr(call.Fun) == "append" && len(call.Args) > 0 && core.ExprStr(call.Args[0]) == core.ExprStr(as.Lhs[0]) {
					root := sel.X
					for {
						if s2, ok := ast.Unparen(root).(*ast.SelectorExpr); ok {
							root = s2.X
							continue
						}
						break
					}
					if id, ok := ast.Unparen(root).(*ast.Ident); ok && handed[pk.TypesInfo.ObjectOf(id)] {
						out[ownerFieldKey(pk, sel.X, sel.Sel.Name)] = true
					}
				}
				return true
			})
		}
	}
	return out
}

// ownerFieldKey: "<named type of owner>.<field>".
func ownerFieldKey(pk *packages.Package, owner ast.Expr, field string) string {
	t := pk.TypesInfo.TypeOf(owner)
	if t == nil {
		return "?." + field
	}
	if p, ok := t.Underlying().(*types.Pointer); ok {
		t = p.Elem()
	}
	if n, ok := t.(*types.Named); ok {
		return n.Obj().Name() + "." + field
	}
	return "?." + field
}

// presizeRule: a slice that is filled by append starts empty.
func presizeRule(R string) RuleFunc {
	return func(c *core.Ctx) {
		c.Rule(R, "a slice created with a LENGTH (`make([]T, n)`, n not the constant 0, no capacity argument) is filled by index or by a filling call (copy, Read); it is never grown by append - neither in the same function nor, when it initialises a struct field, by the methods that append to that field. Otherwise the n zero values stay in front of the real elements: a copied object gets n empty keys before its n keys (`{\"\":1,\"\":{...}}`, `Duplicate key \"\"`), a set reports blank members. Expected count 0; the matcher is exercised on a built-in example")
		c.Floor(R, 2)
		pp, err := positivePkg(presizePositive)
		if err != nil {
			c.Bad(R, "positive-example", "-", "built-in example", "does not type-check: "+err.Error())
			return
		}
		pf := appendedFieldNames(pp, pp.Syntax)
		hits := map[string]int{}
		for _, d := range pp.Syntax[0].Decls {
			if fd, ok := d.(*ast.FuncDecl); ok && fd.Body != nil {
				hits[fd.Name.Name] = len(presizedAppends(pp, pp.Syntax, fd, pf))
			}
		}
		c.Check(hits["copyKeys"] == 1 && hits["localBad"] == 1 && hits["local"] == 0, R, "positive-example", "-", "the matcher reports the built-in pre-sized field and local that are appended to, not the indexed fill", core.F("matcher broken: %v", hits))
		// field names appended anywhere in the module, per package
		byPkg := map[*packages.Package]map[string]bool{}
		n, funcs := 0, 0
		for _, d := range c.P.FuncDecls() {
			if d.Decl.Body == nil {
				continue
			}
			funcs++
			af, ok := byPkg[d.Pkg]
			if !ok {
				af = appendedFieldNames(d.Pkg, d.Pkg.Syntax)
				byPkg[d.Pkg] = af
			}
			for _, nd := range presizedAppends(d.Pkg, d.Pkg.Syntax, d.Decl, af) {
				n++
				fn := core.DeclName(d.Pkg, d.Decl)
				c.Bad(R, fn+":presized", c.P.Pos(nd.Pos()), "pre-sized slice grown by append in "+fn, "make([]T, n) gives n zero values; the elements appended afterwards come behind them")
			}
		}
		c.OKd(R, "inventory", "-", core.F("%d functions scanned", funcs), core.F("%d pre-sized slices grown by append", n))
	}
}

// inQuotesRule: Unquote decodes exactly what the classifiers call a string.
func inQuotesRule(R string) RuleFunc {
	return func(c *core.Ctx) {
		c.Rule(R, "Bytes.InQuotes() - the guard under which Bytes.Unquote() decodes a literal - has the same symbolic accept set as json.GuessData.IsString(), the test by which the scanner-side classifier calls a literal a string (length >= 2, first and last byte a quotation mark). A literal that is a string for the classifier but not `in quotes` for Unquote is validated in its escaped spelling: a regex or enum is matched against `\"x\\\\\"` with its quotes and backslashes")
		c.Floor(R, 1)
		norm := func(s string) string {
			for _, v := range []string{"sel:.data(sel:.bytes(param:g))", "load:&g.data", "sel:.data(param:g)", "sel:.data(param:b)", "load:&b.data"} {
				s = strings.ReplaceAll(s, v, "DATA")
			}
			return s
		}
		inl := []string{"(bytes.Bytes).Len", "(bytes.Bytes).FirstByte", "(bytes.Bytes).LastByte", "(bytes.Bytes).String"}
		predEquiv(c, R, "(bytes.Bytes).InQuotes", "(json.GuessData).IsString", inl, norm, "Unquote() and the classifier json.Guess disagree on which literals are quoted strings")
	}
}

// falseRulesRule: a rule that is read by its mere presence does not survive with the value false.
func falseRulesRule(R string) RuleFunc {
	return func(c *core.Ctx) {
		c.Rule(R, "the checker, the example builder and the OpenAPI converter read some boolean rules by their mere presence (`node.Constraint(constraint.NullableConstraintType) != nil`, `m.Get(...)` with only the ok result used): for every boolean-valued constraint type read that way outside the compiler, schemaCompiler.falseConstraints - run first for every node - removes the constraint when its value is false (its filter names the type and returns false under `!Bool()`). Otherwise `nullable: false` makes a node accept null")
		c.Floor(R, 2)
		// boolean-valued constraint types: the struct behind NewX implements BoolKeeper
		bk := c.P.NamedType("notations/jschema/ischema/constraint", "BoolKeeper")
		if bk == nil {
			c.Unresolved(R, "constraint.BoolKeeper")
			return
		}
		iface, _ := bk.Underlying().(*types.Interface)
		boolType := map[string]bool{}
		cpk := c.P.Pkg("notations/jschema/ischema/constraint")
		for _, nm := range cpk.Types.Scope().Names() {
			tn, ok := cpk.Types.Scope().Lookup(nm).(*types.TypeName)
			if !ok {
				continue
			}
			if _, isStruct := tn.Type().Underlying().(*types.Struct); !isStruct {
				continue
			}
			if types.Implements(tn.Type(), iface) || types.Implements(types.NewPointer(tn.Type()), iface) {
				boolType[nm+"ConstraintType"] = true
			}
		}
		// presence reads outside the compiler
		need := map[string]string{}
		for _, d := range c.P.FuncDecls() {
			rel := core.Rel(d.Pkg.PkgPath)
			if d.Decl.Body == nil || !(rel == "notations/jschema/checker" || rel == "notations/jschema" || strings.HasPrefix(rel, "openapi")) {
				continue
			}
			ast.Inspect(d.Decl.Body, func(n ast.Node) bool {
				be, ok := n.(*ast.BinaryExpr)
				if ok && (be.Op == token.NEQ || be.Op == token.EQL) && core.ExprStr(be.Y) == "nil" {
					if call, isC := ast.Unparen(be.X).(*ast.CallExpr); isC && len(call.Args) == 1 {
						if sel, isS := call.Fun.(*ast.SelectorExpr); isS && sel.Sel.Name == "Constraint" {
							if a, isA := call.Args[0].(*ast.SelectorExpr); isA && boolType[a.Sel.Name] {
								need[a.Sel.Name] = c.P.Pos(be.Pos())
							}
						}
					}
				}
				if as, isAs := n.(*ast.AssignStmt); isAs && len(as.Lhs) == 2 && len(as.Rhs) == 1 && core.ExprStr(as.Lhs[0]) == "_" {
					if call, isC := as.Rhs[0].(*ast.CallExpr); isC && len(call.Args) == 1 {
						if sel, isS := call.Fun.(*ast.SelectorExpr); isS && sel.Sel.Name == "Get" {
							if a, isA := call.Args[0].(*ast.SelectorExpr); isA && boolType[a.Sel.Name] {
								need[a.Sel.Name] = c.P.Pos(as.Pos())
							}
						}
					}
				}
				return true
			})
		}
		// what falseConstraints removes
		d := c.P.FindDecl("(notations/jschema/loader.schemaCompiler).falseConstraints")
		if d == nil {
			c.Unresolved(R, "(notations/jschema/loader.schemaCompiler).falseConstraints")
			return
		}
		removed := map[string]bool{}
		ast.Inspect(d.Decl.Body, func(n ast.Node) bool {
			ifs, ok := n.(*ast.IfStmt)
			if !ok {
				return true
			}
			// the inner test must lead to `return false` under !Bool()
			drops := false
			ast.Inspect(ifs.Body, func(m ast.Node) bool {
				if in, ok := m.(*ast.IfStmt); ok && strings.Contains(core.ExprStr(in.Cond), "!") && strings.Contains(core.ExprStr(in.Cond), ".Bool()") {
					for _, st := range in.Body.List {
						if r, ok := st.(*ast.ReturnStmt); ok && len(r.Results) == 1 && core.ExprStr(r.Results[0]) == "false" {
							drops = true
						}
					}
				}
				return true
			})
			if !drops {
				return true
			}
			ast.Inspect(ifs.Cond, func(m ast.Node) bool {
				if be, ok := m.(*ast.BinaryExpr); ok && be.Op == token.EQL {
					if a, ok := be.Y.(*ast.SelectorExpr); ok {
						removed[a.Sel.Name] = true
					}
				}
				return true
			})
			return true
		})
		var names []string
		for n := range need {
			names = append(names, n)
		}
		sort.Strings(names)
		for _, n := range names {
			c.Check(removed[n], R, "falseConstraints:"+n, need[n], n+" is read by presence (e.g. here) and removed by falseConstraints when false", "a `"+strings.ToLower(strings.TrimSuffix(n, "ConstraintType"))+": false` rule stays in the node and is read as true by the presence test")
		}
		// falseConstraints runs before everything else in compileNode
		if cd := c.P.FindDecl("(notations/jschema/loader.schemaCompiler).compileNode"); cd == nil {
			c.Unresolved(R, "(notations/jschema/loader.schemaCompiler).compileNode")
		} else {
			first := false
			for _, st := range cd.Decl.Body.List {
				es, ok := st.(*ast.ExprStmt)
				if !ok {
					continue
				}
				call, ok := es.X.(*ast.CallExpr)
				if !ok || !strings.HasPrefix(core.FullName(core.Callee(cd.Pkg, call)), "(notations/jschema/loader.schemaCompiler).") {
					continue
				}
				first = strings.HasSuffix(core.ExprStr(call.Fun), ".falseConstraints")
				break
			}
			c.Check(first, R, "compileNode:first", c.P.Pos(cd.Decl.Pos()), "compileNode starts with falseConstraints(node)", "the false rules are not removed before the node is compiled")
		}
	}
}

// enumMemberRule: membership in an enum compares value and kind.
func enumMemberRule(R string) RuleFunc {
	return func(c *core.Ctx) {
		c.Rule(R, "constraint.Enum.Validate decides membership by comparing the whole ⟨decoded value, JSON kind⟩ item of the example with the items of the rule (`aa.enumItemValue == b.enumItemValue`, or both fields) - the same key Append uses for its uniqueness index and ASTNode for the OpenAPI `enum`. Compared by text alone, the string \"1\" is a member of [1, 2]: the schema is accepted and its Schema Object `{example: \"1\", enum: [1,2]}` does not contain the example")
		c.Floor(R, 1)
		const fn = "(notations/jschema/ischema/constraint.Enum).Validate"
		d := c.P.FindDecl(fn)
		if d == nil {
			c.Unresolved(R, fn)
			return
		}
		fields := map[string]bool{}
		// locals that only name an expression: want := aa.enumItemValue
		alias := map[string]ast.Expr{}
		ast.Inspect(d.Decl.Body, func(n ast.Node) bool {
			if as, ok := n.(*ast.AssignStmt); ok && as.Tok == token.DEFINE && len(as.Lhs) == 1 && len(as.Rhs) == 1 {
				if id, ok := as.Lhs[0].(*ast.Ident); ok {
					alias[id.Name] = as.Rhs[0]
				}
			}
			return true
		})
		resolve := func(e ast.Expr) ast.Expr {
			e = ast.Unparen(e)
			for i := 0; i < 3; i++ {
				id, ok := e.(*ast.Ident)
				if !ok {
					break
				}
				a, ok := alias[id.Name]
				if !ok {
					break
				}
				e = ast.Unparen(a)
			}
			return e
		}
		ast.Inspect(d.Decl.Body, func(n ast.Node) bool {
			be, ok := n.(*ast.BinaryExpr)
			if !ok || (be.Op != token.EQL && be.Op != token.NEQ) {
				return true
			}
			x, okx := resolve(be.X).(*ast.SelectorExpr)
			y, oky := resolve(be.Y).(*ast.SelectorExpr)
			if okx && oky && x.Sel.Name == y.Sel.Name {
				fields[x.Sel.Name] = true
			}
			return true
		})
		var fs []string
		for f := range fields {
			fs = append(fs, f)
		}
		sort.Strings(fs)
		ok := fields["enumItemValue"] || (fields["value"] && fields["jsonType"])
		c.Check(ok, R, fn+":compare", c.P.Pos(d.Decl.Pos()), "Validate compares "+strings.Join(fs, ", ")+" of the example and of each item", "membership is decided without the JSON kind (compared: "+strings.Join(fs, ", ")+"): a string is a member of a list of numbers with the same text")
	}
}

// keyTypeRule: a choice is a string key type only when every alternative is one.
func keyTypeRule(R string) RuleFunc {
	return func(c *core.Ctx) {
		c.Rule(R, "checker.actualRootTypeOf - the JSON type of a user type used as a key shortcut - answers T for a choice `@a | @b | ...` exactly when every alternative resolves to the same T, and `mixed` otherwise. The branch for choices is tabulated with the recursive call replaced by every sequence of results over {string, object, mixed} for 1, 2 and 3 alternatives (39 cells). If the last (or first) alternative decides alone, `{ @key: 1 }` with @key = `@obj | @str` is accepted and Example() writes an object where a key must stand: not JSON")
		c.Floor(R, 1)
		const fn = "notations/jschema/checker.actualRootTypeOf"
		d := c.P.FindDecl(fn)
		if d == nil {
			c.Unresolved(R, fn)
			return
		}
		// the branch `if n, ok := s.RootNode().(*ischema.MixedValueNode); ok { ... }` and what follows it
		var branch *ast.IfStmt
		var after []ast.Stmt
		for i, st := range d.Decl.Body.List {
			if ifs, ok := st.(*ast.IfStmt); ok && ifs.Init != nil && strings.Contains(core.ExprStr0(ifs.Init), "MixedValueNode") {
				branch = ifs
				after = d.Decl.Body.List[i+1:]
			}
		}
		if branch == nil {
			c.Bad(R, fn+":choice", c.P.Pos(d.Decl.Pos()), "the branch for choices", "not found (`if n, ok := s.RootNode().(*ischema.MixedValueNode); ok`)")
			return
		}
		tpk := c.P.Pkg("json")
		val := func(name string) int64 {
			if o := tpk.Types.Scope().Lookup(name); o != nil {
				if k, ok := o.(*types.Const); ok {
					n, _ := constantInt64(k.Val())
					return n
				}
			}
			return -1
		}
		str, obj, mixed := val("TypeString"), val("TypeObject"), val("TypeMixed")
		kinds := []int64{str, obj, mixed}
		bad := ""
		cells := 0
		var gen func(seq []int64, k int)
		gen = func(seq []int64, k int) {
			if bad != "" {
				return
			}
			if len(seq) < k {
				for _, t := range kinds {
					gen(append(append([]int64(nil), seq...), t), k)
				}
				return
			}
			cells++
			e := &miniEval{pk: d.Pkg, env: map[string]int64{"err": 0}, maps: map[string]map[int64]bool{}}
			if len(d.Decl.Type.Params.List) > 0 {
				last := d.Decl.Type.Params.List[len(d.Decl.Type.Params.List)-1]
				for _, nm := range last.Names {
					e.maps[nm.Name] = map[int64]bool{}
				}
			}
			loopVar := ""
			e.rng = func(x ast.Expr) ([]int64, bool) {
				if strings.HasSuffix(core.ExprStr(x), ".GetTypes()") {
					out := make([]int64, k)
					for i := range out {
						out[i] = int64(i)
					}
					return out, true
				}
				return nil, false
			}
			e.hook = func(x ast.Expr) (int64, bool) {
				if id, ok := x.(*ast.Ident); ok && id.Name == "nil" {
					return 0, true
				}
				return 0, false
			}
			e.tuple = func(call *ast.CallExpr) ([]int64, bool) {
				if strings.HasSuffix(core.FullName(core.Callee(d.Pkg, call)), "ISchema).Type") {
					return []int64{0, 0}, true
				}
				return nil, false
			}
			e.call = func(call *ast.CallExpr) (int64, bool) {
				if core.FullName(core.Callee(d.Pkg, call)) == fn {
					// which alternative is being resolved: the loop variable of the range
					if loopVar == "" {
						ast.Inspect(branch.Body, func(n ast.Node) bool {
							if rs, ok := n.(*ast.RangeStmt); ok && rs.Value != nil {
								loopVar = core.ExprStr(rs.Value)
							}
							return true
						})
					}
					return seq[e.env[loopVar]], true
				}
				return 0, false
			}
			st, rets := e.run(append(append([]ast.Stmt(nil), branch.Body.List...), after...))
			want := seq[0]
			for _, t := range seq {
				if t != seq[0] {
					want = mixed
				}
			}
			switch {
			case e.unknown != "":
				bad = "undecided: " + e.unknown
			case st != miniReturn || len(rets) != 1:
				bad = core.F("alternatives %v: no value returned", seq)
			case rets[0] != want:
				bad = core.F("alternatives resolve to %v (string=%d, object=%d, mixed=%d): answers %d, expected %d", seq, str, obj, mixed, rets[0], want)
			}
		}
		for k := 1; k <= 3; k++ {
			gen(nil, k)
		}
		c.Check(bad == "", R, fn+":choice", c.P.Pos(branch.Pos()), core.F("a choice has type T exactly when all alternatives have type T (%d cells)", cells), bad)
	}
}

// inheritAllRule: allOf copies every property of the inherited type, inherited ones included.
func inheritAllRule(R string) RuleFunc {
	return func(c *core.Ctx) {
		c.Rule(R, "allOfConstraintCompiler.extendWith copies EVERY child of the inherited object: the loop over fromObject.Children() has no continue / break / return, and the AddChild call is not under a condition. The inherited type is compiled before it is used (processType), so its children include what it inherited itself; skipping some of them (for instance those with a non-empty InheritedFrom) makes inheritance stop after one level - a required link back to the root declared two levels up is lost, Check() accepts a type that requires itself")
		c.Floor(R, 2)
		const fn = "(*notations/jschema/loader.allOfConstraintCompiler).extendWith"
		d := c.P.FindDecl(fn)
		if d == nil {
			c.Unresolved(R, fn)
			return
		}
		found := false
		var loops []collLoop
		for _, hd := range helperBodies(c, d, 2) {
			loops = append(loops, collLoops(hd.Pkg, hd.Decl.Body)...)
		}
		for _, lp := range loops {
			if !strings.HasSuffix(lp.coll, ".Children()") {
				continue
			}
			found = true
			bad := ""
			var stack []ast.Node
			addChild := false
			ast.Inspect(lp.body, func(m ast.Node) bool {
				if m == nil {
					stack = stack[:len(stack)-1]
					return true
				}
				stack = append(stack, m)
				switch x := m.(type) {
				case *ast.BranchStmt:
					bad = x.Tok.String() + " at " + c.P.Pos(x.Pos())
				case *ast.ReturnStmt:
					bad = "return at " + c.P.Pos(x.Pos())
				case *ast.CallExpr:
					if sel, ok := x.Fun.(*ast.SelectorExpr); ok && sel.Sel.Name == "AddChild" {
						addChild = true
						for _, a := range stack {
							if _, isIf := a.(*ast.IfStmt); isIf {
								bad = "AddChild is conditional"
							}
							if _, isSw := a.(*ast.SwitchStmt); isSw {
								bad = "AddChild is conditional"
							}
						}
					}
				}
				return true
			})
			if !addChild && bad == "" {
				bad = "no AddChild call in the loop"
			}
			c.Check(bad == "", R, "extendWith:children", c.P.Pos(lp.node.Pos()), "every child of the inherited object is copied into the inheriting one", "some children are skipped ("+bad+")")
			break
		}
		if !found {
			c.Bad(R, "extendWith:children", c.P.Pos(d.Decl.Pos()), "loop over the children of the inherited object", "not found")
		}
		// the inherited type is compiled first: extendWith obtains it through processType
		viaProcess := false
		ast.Inspect(d.Decl.Body, func(n ast.Node) bool {
			if call, ok := n.(*ast.CallExpr); ok && strings.HasSuffix(core.FullName(core.Callee(d.Pkg, call)), "allOfConstraintCompiler).processType") {
				viaProcess = true
			}
			return true
		})
		c.Check(viaProcess, R, "extendWith:compiled-first", c.P.Pos(d.Decl.Pos()), "the inherited type is obtained through processType (its own allOf is expanded first)", "the inherited type is used before its own inheritance is expanded")
	}
}

// unnamedNameRule: the generated names of unnamed types are unique across schema objects.
func unnamedNameRule(R string) RuleFunc {
	return func(c *core.Ctx) {
		c.Rule(R, "unnamed types are copied from the type map of one schema object into the map of another under their generated names (AddUnnamedTypes, extendWith), so the name ISchema.AddUnnamedType generates must be unique across schema objects: it is formatted from the identity of the added type (the pointer argument) or from a package-level counter - not from the state of the receiving schema alone (`len(s.types)`, a per-schema counter), which repeats in every schema and lets the copied types of a registered type replace the root's own. (That the present `%p` names are not reproducible is the known finding C09.addr.)")
		c.Floor(R, 1)
		const fn = "(*notations/jschema/ischema.ISchema).AddUnnamedType"
		d := c.P.FindDecl(fn)
		if d == nil {
			c.Unresolved(R, fn)
			return
		}
		recv := d.Decl.Recv.List[0].Names[0].Name
		params := map[string]bool{}
		for _, f := range d.Decl.Type.Params.List {
			for _, n := range f.Names {
				params[n.Name] = true
			}
		}
		ok, detail := false, "the name expression was not found (name := fmt.Sprintf(...))"
		ast.Inspect(d.Decl.Body, func(n ast.Node) bool {
			call, isC := n.(*ast.CallExpr)
			if !isC || core.FullName(core.Callee(d.Pkg, call)) != "fmt.Sprintf" || len(call.Args) < 2 {
				return true
			}
			usesParam, usesRecvOnly, usesGlobal := false, true, false
			for _, a := range call.Args[1:] {
				ast.Inspect(a, func(m ast.Node) bool {
					id, isID := m.(*ast.Ident)
					if !isID {
						return true
					}
					switch {
					case params[id.Name]:
						usesParam, usesRecvOnly = true, false
					case id.Name == recv:
					default:
						if o := d.Pkg.TypesInfo.Uses[id]; o != nil {
							if v, isVar := o.(*types.Var); isVar && v.Parent() == d.Pkg.Types.Scope() {
								usesGlobal, usesRecvOnly = true, false
							}
							if f, isF := o.(*types.Func); isF && f.Pkg() != nil && f.Pkg().Path() == "sync/atomic" {
								usesGlobal, usesRecvOnly = true, false
							}
						}
					}
					return true
				})
			}
			switch {
			case usesParam || usesGlobal:
				ok = true
			case usesRecvOnly:
				detail = "the name is formatted from the state of the receiving schema only (" + core.ExprStr(call) + "): the same names are generated in every schema object"
			}
			return true
		})
		c.Check(ok, R, fn+":name", c.P.Pos(d.Decl.Pos()), "the generated name depends on the identity of the added type or on a package-level counter", detail)
	}
}

// keepAltsRule: a type rule "mixed" does not wipe the alternatives of a choice.
func keepAltsRule(R string) RuleFunc {
	return func(c *core.Ctx) {
		c.Rule(R, "MixedValueNode.AddConstraint replaces the node's list of alternatives (n.types) by the value of a `type` rule only under a condition that spares `type: \"mixed\"` on a node that has alternatives already. The example builder and the recursion check take the alternatives from that list: with the single entry \"mixed\" in it, Example() of `@a | @b // {type: \"mixed\"}` returns the schema text `@a | @b` (not JSON) and a recursion through both alternatives goes unnoticed")
		c.Floor(R, 1)
		const fn = "(*notations/jschema/ischema.MixedValueNode).AddConstraint"
		d := c.P.FindDecl(fn)
		if d == nil {
			c.Unresolved(R, fn)
			return
		}
		n, ok := 0, true
		var stack []ast.Node
		ast.Inspect(d.Decl.Body, func(nd ast.Node) bool {
			if nd == nil {
				stack = stack[:len(stack)-1]
				return true
			}
			stack = append(stack, nd)
			as, isA := nd.(*ast.AssignStmt)
			if !isA || len(as.Lhs) != 1 || core.ExprStr(as.Lhs[0]) != "n.types" {
				return true
			}
			// only the store in the TypeConstraint case matters
			inTypeCase := false
			guarded := false
			for _, a := range stack {
				if cc, isCC := a.(*ast.CaseClause); isCC {
					for _, e := range cc.List {
						if strings.HasSuffix(core.ExprStr(e), "constraint.TypeConstraint") {
							inTypeCase = true
						}
					}
				}
				if ifs, isIf := a.(*ast.IfStmt); isIf && strings.Contains(core.ExprStr(ifs.Cond), `"mixed"`) && strings.Contains(core.ExprStr(ifs.Cond), "n.types") {
					guarded = true
				}
			}
			if inTypeCase {
				n++
				if !guarded {
					ok = false
				}
			}
			return true
		})
		c.Check(ok && n > 0, R, fn+":types", c.P.Pos(d.Decl.Pos()), "the `type` rule replaces n.types only when it is not \"mixed\" on a node with alternatives", "a `type: \"mixed\"` rule wipes the alternatives of a choice")
	}
}

// commaResetRule: the comma of an object and the comma of an array treat the annotation flag alike.
func commaResetRule(R string) RuleFunc {
	return func(c *core.Ctx) {
		c.Rule(R, "the end of a non-empty array clears allowAnnotation (no annotation on the line of a multi-element array). The flag is set again by the comma that separates the next element - in stateAfterArrayItem AND in stateAfterObjectValue, on the path outside annotations: the rows of the two sibling states for `,` carry the same store allowAnnotation=true. Otherwise the place of a line break around the comma decides whether the next property may be annotated (`[1,2]⏎ , \"b\": 3 // {...}` refused, `[1,2],⏎ \"b\": 3 // {...}` accepted)")
		c.Floor(R, 2)
		m := buildScanModel(c, "notations/jschema/scanner")
		for _, st := range []string{"stateAfterArrayItem", "stateAfterObjectValue"} {
			rows, ok := m.rows[st]
			if !ok {
				c.Unresolved(R, "notations/jschema/scanner."+st)
				continue
			}
			good, seen := true, false
			for _, p := range rows[','].paths {
				if !hasAtom(p, "bin:==(0,load:&s.annotation)", true) {
					continue
				}
				seen = true
				set := false
				for _, s := range p.stores {
					if s == "allowAnnotation=true" {
						set = true
					}
				}
				if p.kind != "return" || !set {
					good = false
				}
			}
			c.Check(good && seen, R, "notations/jschema/scanner."+st+":comma", c.P.Pos(m.states[st].Pos()), st+" on `,` outside annotations: allowAnnotation=true", "the comma does not allow annotations again: after a non-empty array value the next element cannot be annotated when the comma stands on the next line")
		}
	}
}

var eofNewlineTable = map[string]string{}

// eofNewlineRule: the end of the input and a line end followed by the end of the input get the same verdict.
func eofNewlineRule(R string) RuleFunc {
	return func(c *core.Ctx) {
		c.Rule(R, "on the pushdown model of the schema scanner (the one C03.subset explores), over every configuration reachable with the bytes { } [ ] : , \" \\ a 1 - . @ | SP LF (no annotations or comments) up to nesting depth 2: the scanner accepts the end of the input in a configuration exactly when it accepts a line end followed by the end of the input. A text that is complete stays complete when a line break is appended, and a text that is refused at its end is not rescued by one - otherwise Len(S) exists for S+LF but S itself is refused (prefix acceptance), and a trailing blank line changes the verdict")
		c.Floor(R, 1)
		jm, m, initial, fields, ok := newJSModel(c, R)
		if !ok {
			return
		}
		alphabet := []int{'{', '}', '[', ']', ':', ',', '"', '\\', 'a', '1', '-', '.', '@', '|', ' ', '\n'}
		type item struct {
			ic jsCfg
			w  string
		}
		start := item{jsCfg{implCfg: implCfg{step: initial, fields: fields}}, ""}
		seen := map[string]bool{start.ic.key(): true}
		queue := []item{start}
		undecided := 0
		type div struct{ what, detail, pos string }
		found := map[string]div{}
		var order []string
		for len(queue) > 0 && len(seen) < 60000 {
			it := queue[0]
			queue = queue[1:]
			if m.states[it.ic.step] == nil {
				undecided++ // a step function built at run time (closure): not a row of the model
				continue
			}
			fpos := c.P.Pos(m.states[it.ic.step].Pos())
			accE, whyE := jm.acceptsEOFJS(it.ic)
			nl, okNL, whyNL := jm.stepJS(it.ic, '\n')
			if whyE == "" && whyNL == "" {
				accL := false
				if okNL {
					a, w := jm.acceptsEOFJS(nl)
					if w != "" {
						undecided++
					} else {
						accL = a
					}
				}
				if accE != accL {
					key := core.F("eofnl:%s/stack=%s", it.ic.step, strings.Join(topN(it.ic.stack, 2), ","))
					if _, dup := found[key]; !dup {
						order = append(order, key)
						found[key] = div{core.F("end of input in state %s (top of stack %v)", it.ic.step, topN(it.ic.stack, 2)),
							core.F("after %q the end of the input is accepted: %v, a line end followed by the end of the input: %v", it.w, accE, accL), fpos}
					}
				}
			} else {
				undecided++
			}
			for _, b := range alphabet {
				ni, iok, why := jm.stepJS(it.ic, b)
				if why != "" {
					undecided++
					continue
				}
				if !iok || len(ni.rts) > maxRTS || len(ni.stack) > 8 || len(ni.ctxStack) > 3 || len(it.w) > 14 {
					continue
				}
				if k := ni.key(); !seen[k] {
					seen[k] = true
					queue = append(queue, item{ni, it.w + string(rune(b))})
				}
			}
		}
		sort.Strings(order)
		for _, k := range order {
			d := found[k]
			if r, ok := eofNewlineTable[k]; ok {
				c.Tabled(R, k, d.pos, d.what, r+" ["+d.detail+"]")
			} else {
				c.Bad(R, k, d.pos, d.what, d.detail+": a trailing line break changes the verdict")
			}
		}
		c.OKd(R, "explored", "-", core.F("%d configurations explored", len(seen)), core.F("%d divergences, %d steps not decided by the model (skipped)", len(order), undecided))
		c.Extra[R+".configurations"] = len(seen)
	}
}
