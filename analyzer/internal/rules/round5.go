package rules

import (
	"go/ast"
	"go/token"
	"go/types"
	"sort"
	"strings"

	"golang.org/x/tools/go/packages"

	"jsverif/internal/core"
)

var walkTable = map[string]string{
	"(*notations/jschema/checker.recursionChecker).check": "by design only object properties are followed: an array may be empty, so an item never forces an instance to contain the referenced type (the ArrayNode case returns nil explicitly)",
}

// walkKindsRule: a recursive walk over the node tree descends into every kind of branch node.
func walkKindsRule(R string) RuleFunc {
	return func(c *core.Ctx) {
		c.Rule(R, "every recursive walker over the schema node tree (a function that loops over X.Children() / looks children up with X.Child(...) and reaches itself again from the loop body, directly or through one or two helpers) descends into every kind of branch node: some X has the interface type ischema.BranchNode, or both *ObjectNode and *ArrayNode children are followed within the walker's recursion group. A walker that follows object properties only leaves everything below array items uncompiled / unchecked / uncollected (an `allOf` on an object inside an array is never resolved, a missing type there is never reported)")
		c.Floor(R, 5)
		type fn struct {
			d     core.DeclSite
			calls map[*types.Func]bool
			kinds map[string]bool // static receiver types of Children()/Child() calls
			loops bool
		}
		funcs := map[*types.Func]*fn{}
		for _, d := range c.P.FuncDecls() {
			if d.Obj == nil || d.Decl.Body == nil || !strings.HasPrefix(core.Rel(d.Pkg.PkgPath), "notations/jschema") {
				continue
			}
			f := &fn{d: d, calls: map[*types.Func]bool{}, kinds: map[string]bool{}}
			ast.Inspect(d.Decl.Body, func(n ast.Node) bool {
				call, ok := n.(*ast.CallExpr)
				if !ok {
					return true
				}
				if o, ok := core.Callee(d.Pkg, call).(*types.Func); ok && o.Pkg() != nil && core.InScope(o.Pkg().Path()) {
					f.calls[o] = true
				}
				if sel, ok := call.Fun.(*ast.SelectorExpr); ok {
					switch sel.Sel.Name {
					case "Children", "Child", "ChildByRawKey":
						if t := core.TypeOf(d.Pkg, sel.X); t != nil {
							f.kinds[core.Rel(strings.TrimPrefix(t.String(), "*"))] = true
						}
					}
				}
				return true
			})
			funcs[d.Obj] = f
		}
		reach := func(from *types.Func, depth int) map[*types.Func]bool {
			seen := map[*types.Func]bool{}
			frontier := []*types.Func{from}
			for i := 0; i < depth; i++ {
				var next []*types.Func
				for _, g := range frontier {
					if gf := funcs[g]; gf != nil {
						for h := range gf.calls {
							if !seen[h] {
								seen[h] = true
								next = append(next, h)
							}
						}
					}
				}
				frontier = next
			}
			return seen
		}
		var names []string
		byName := map[string]*types.Func{}
		for o, f := range funcs {
			// a loop over children whose body leads back to the function
			isWalker := false
			ast.Inspect(f.d.Decl.Body, func(n ast.Node) bool {
				var body *ast.BlockStmt
				switch x := n.(type) {
				case *ast.RangeStmt:
					body = x.Body
				case *ast.ForStmt:
					body = x.Body
				default:
					return true
				}
				ast.Inspect(body, func(m ast.Node) bool {
					call, ok := m.(*ast.CallExpr)
					if !ok {
						return true
					}
					g, ok := core.Callee(f.d.Pkg, call).(*types.Func)
					if !ok {
						return true
					}
					if g == o || reach(g, 2)[o] {
						isWalker = true
					}
					return true
				})
				return true
			})
			if !isWalker || len(f.kinds) == 0 {
				continue
			}
			nm := core.DeclName(f.d.Pkg, f.d.Decl)
			names = append(names, nm)
			byName[nm] = o
		}
		sort.Strings(names)
		for _, nm := range names {
			o := byName[nm]
			f := funcs[o]
			// the recursion group: functions on a short cycle through o
			kinds := map[string]bool{}
			for k := range f.kinds {
				kinds[k] = true
			}
			for g := range reach(o, 3) {
				if gf := funcs[g]; gf != nil && (g == o || reach(g, 3)[o]) {
					for k := range gf.kinds {
						kinds[k] = true
					}
				}
			}
			var ks []string
			for k := range kinds {
				ks = append(ks, k)
			}
			sort.Strings(ks)
			pos := c.P.Pos(f.d.Decl.Pos())
			what := nm + " follows the children of " + strings.Join(ks, ", ")
			all := kinds["notations/jschema/ischema.BranchNode"] || (kinds["notations/jschema/ischema.ObjectNode"] && kinds["notations/jschema/ischema.ArrayNode"])
			switch {
			case all:
				c.OK(R, nm+":walk", pos, what)
			case walkTable[nm] != "":
				c.Tabled(R, nm+":walk", pos, what, walkTable[nm])
			default:
				c.Bad(R, nm+":walk", pos, what, "the walk does not descend into every kind of branch node: nodes below the other kind (array items / object properties) are never visited")
			}
		}
	}
}

var _ = token.ADD
var _ *packages.Package

// pipeSplitRule: the text of a types shortcut is taken apart at the pipe, as the scanner reads it.
func pipeSplitRule(R string) RuleFunc {
	return func(c *core.Ctx) {
		c.Rule(R, "the scanner ends a type name of a shortcut at `|` with or without blanks around it (`@a|@b`, `@a |@b`); the two places that take the shortcut text apart again - the loader (addORShortcut: the names that are checked) and the used-types collector (the names that are reported) - both range over strings.Split(text, \"|\") and trim each part with strings.TrimSpace. A splitter that needs blanks (strings.Fields) reports `@a|@b` as one bogus name for a spelling the scanner accepts, so UsedUserTypes() depends on the spacing")
		c.Floor(R, 2)
		for _, fn := range []string{"notations/jschema/loader.addORShortcut", "(*notations/jschema.userTypesCollector).collect"} {
			d := c.P.FindDecl(fn)
			if d == nil {
				c.Unresolved(R, fn)
				continue
			}
			ok, other := false, ""
			ast.Inspect(d.Decl.Body, func(n ast.Node) bool {
				if call, isC := n.(*ast.CallExpr); isC {
					switch name := core.FullName(core.Callee(d.Pkg, call)); name {
					case "strings.Fields", "strings.FieldsFunc", "strings.SplitN", "strings.SplitAfter", "strings.Cut":
						other = name
					}
				}
				rs, isR := n.(*ast.RangeStmt)
				if !isR {
					return true
				}
				call, isC := ast.Unparen(rs.X).(*ast.CallExpr)
				if !isC || core.FullName(core.Callee(d.Pkg, call)) != "strings.Split" || len(call.Args) != 2 {
					return true
				}
				if cv := core.ConstOf(d.Pkg, call.Args[1]); cv == nil || cv.ExactString() != `"|"` {
					return true
				}
				v := ""
				if id, isID := rs.Value.(*ast.Ident); isID {
					v = id.Name
				}
				trimmed := false
				ast.Inspect(rs.Body, func(m ast.Node) bool {
					if tc, isT := m.(*ast.CallExpr); isT && core.FullName(core.Callee(d.Pkg, tc)) == "strings.TrimSpace" && len(tc.Args) == 1 && core.ExprStr(tc.Args[0]) == v {
						trimmed = true
					}
					return true
				})
				if trimmed {
					ok = true
				}
				return true
			})
			detail := "no loop over strings.Split(text, \"|\") with strings.TrimSpace on each part"
			if other != "" {
				detail += " (the text is taken apart with " + other + ")"
			}
			c.Check(ok && other == "", R, fn+":split", c.P.Pos(d.Decl.Pos()), fn+" splits the shortcut at `|` and trims the parts", detail)
		}
	}
}

var bytewiseTable = map[string]string{
	"notations/jschema/scanner.stateInlineComment:s.index--":   "the line end that closes a `#` comment is read again by the state below (the comment state was entered from it); one byte back, never forward",
	"notations/jschema/scanner.stateMultiLineComment:s.index++": "the second and third `#` of a closing `###`, both tested by the lookahead in the condition above (index+1 < dataSize)",
}

// bytewiseRule: the scanners classify every byte; nothing is skipped by a search.
func bytewiseRule(R string) RuleFunc {
	return func(c *core.Ctx) {
		c.Rule(R, "the lexeme scanners (schema, enum rule, JSON document) read their input one byte per step: the position field `index` is only ever moved by ++ / -- (in the drivers Next/processTail, and at 2 tabled places inside state functions), never assigned or advanced by a computed amount, and no state function searches the data with a library routine (bytes.IndexByte, strings.Index, ...). A jump to the next `\\n` leaves the bytes in between unclassified: a lone CR no longer ends a comment, so CR-only texts are read differently from their LF and CRLF spellings and Len() runs into the text that follows")
		c.Floor(R, 8)
		pkgs := map[string]bool{"notations/jschema/scanner": true, "rules/enum": true, "formats/json": true}
		n := 0
		for _, d := range c.P.FuncDecls() {
			rel := core.Rel(d.Pkg.PkgPath)
			if !pkgs[rel] || d.Decl.Body == nil {
				continue
			}
			fn := core.DeclName(d.Pkg, d.Decl)
			isState := false
			if d.Obj != nil {
				sig := d.Obj.Type().(*types.Signature)
				if sig.Params().Len() > 0 && sig.Results().Len() > 0 {
					if b, ok := sig.Params().At(sig.Params().Len() - 1).Type().Underlying().(*types.Basic); ok && b.Kind() == types.Uint8 {
						if nt, ok := sig.Results().At(0).Type().(*types.Named); ok && nt.Obj().Name() == "state" {
							isState = true
						}
					}
				}
			}
			isIndex := func(e ast.Expr) bool {
				sel, ok := ast.Unparen(e).(*ast.SelectorExpr)
				if !ok || sel.Sel.Name != "index" {
					return false
				}
				t := core.TypeOf(d.Pkg, sel.X)
				return t != nil && (strings.HasSuffix(t.String(), "canner"))
			}
			ast.Inspect(d.Decl.Body, func(nd ast.Node) bool {
				switch x := nd.(type) {
				case *ast.IncDecStmt:
					if !isIndex(x.X) {
						return true
					}
					n++
					key := fn + ":" + core.ExprStr(x.X) + x.Tok.String()
					pos := c.P.Pos(x.Pos())
					what := core.ExprStr(x.X) + x.Tok.String() + " in " + fn
					switch {
					case !isState:
						c.OKd(R, key, pos, what, "driver: one byte per step")
					case bytewiseTable[key] != "":
						c.Tabled(R, key, pos, what, bytewiseTable[key])
					default:
						c.Bad(R, key, pos, what, "a state function moves the read position itself: the byte stepped over is not classified by any state")
					}
				case *ast.AssignStmt:
					for _, l := range x.Lhs {
						if !isIndex(l) {
							continue
						}
						n++
						key := fn + ":" + core.ExprStr0(x)
						// constructors and rewinds start at a constant
						if x.Tok == token.ASSIGN && len(x.Rhs) == 1 && core.ConstOf(d.Pkg, x.Rhs[0]) != nil && !isState {
							c.OKd(R, key, c.P.Pos(x.Pos()), core.ExprStr0(x)+" in "+fn, "reset to a constant")
							continue
						}
						c.Bad(R, key, c.P.Pos(x.Pos()), core.ExprStr0(x)+" in "+fn, "the read position is assigned / advanced by a computed amount: the bytes in between are never classified by a state (a line end, a quote or a comment closer among them is missed)")
					}
				case *ast.CallExpr:
					o := core.Callee(d.Pkg, x)
					if o == nil || o.Pkg() == nil {
						return true
					}
					if p := o.Pkg().Path(); (p == "bytes" || p == "strings") && (strings.HasPrefix(o.Name(), "Index") || strings.HasPrefix(o.Name(), "LastIndex") || strings.HasPrefix(o.Name(), "Contains") || o.Name() == "Cut" || strings.HasPrefix(o.Name(), "Split") || strings.HasPrefix(o.Name(), "Fields")) && isState {
						n++
						c.Bad(R, fn+":"+p+"."+o.Name(), c.P.Pos(x.Pos()), p+"."+o.Name()+" in the state function "+fn, "a state function searches the data with a library routine instead of stepping: bytes that matter to other states are skipped")
					}
				}
				return true
			})
		}
		c.OKd(R, "inventory", "-", core.F("%d writes of a scanner's index field in 3 scanner packages", n), "all ++/-- or constant resets")
	}
}
