package rules

import (
	"go/ast"
	"go/types"
	"strings"

	"jsverif/internal/core"
)

// c10atomic: a registration that fails leaves no trace.
func c10atomic(c *core.Ctx) {
	const R = "C10.atomic"
	c.Rule(R, "in the public registration methods JSchema.AddType and JSchema.AddRule, a write into a map or field of the receiver (UserTypeCollection, Rules) is never followed, in the same block, by a call of a module function that may panic or return an error that makes the method fail: the step that can fail (AddNamedType panics on a duplicate or invalid name) comes first, so a rejected registration leaves the schema object as it was. Otherwise the OpenAPI converter (which reads UserTypeCollection) describes a type that Check() and Example() never accepted")
	c.Floor(R, 2)
	for _, fn := range []string{"(*notations/jschema.JSchema).AddType", "(*notations/jschema.JSchema).AddRule"} {
		d := c.P.FindDecl(fn)
		if d == nil {
			c.Unresolved(R, fn)
			continue
		}
		recv := ""
		if d.Decl.Recv != nil && len(d.Decl.Recv.List) == 1 && len(d.Decl.Recv.List[0].Names) == 1 {
			recv = d.Decl.Recv.List[0].Names[0].Name
		}
		n := 0
		var visit func(list []ast.Stmt)
		visit = func(list []ast.Stmt) {
			for i, st := range list {
				if cc, ok := st.(*ast.CaseClause); ok {
					visit(cc.Body)
					continue
				}
				if as, ok := st.(*ast.AssignStmt); ok && len(as.Lhs) == 1 {
					if ix, ok := as.Lhs[0].(*ast.IndexExpr); ok && strings.HasPrefix(core.ExprStr(ix.X), recv+".") {
						n++
						key := core.F("%s:%s", fn, core.ExprStr(ix.X))
						bad := ""
						for _, later := range list[i+1:] {
							ast.Inspect(later, func(m ast.Node) bool {
								call, ok := m.(*ast.CallExpr)
								if !ok {
									return true
								}
								fo, _ := core.Callee(d.Pkg, call).(*types.Func)
								if fo == nil {
									return true
								}
								sf := c.P.SSA.FuncValue(fo)
								if sf == nil || !c.P.FuncInModule(sf) {
									return true
								}
								if mp, _ := c.P.MayPanic(sf); mp {
									bad = core.ExprStr(call.Fun) + " may panic"
								}
								return true
							})
						}
						c.Check(bad == "", R, key, c.P.Pos(as.Pos()), "write to "+core.ExprStr(ix.X)+" in "+fn+" is the last step that can fail", "the receiver is modified before a step that can still fail ("+bad+"): a rejected registration leaves a trace behind")
					}
				}
				ast.Inspect(st, func(m ast.Node) bool {
					if m == st {
						return true
					}
					switch b := m.(type) {
					case *ast.BlockStmt:
						visit(b.List)
						return false
					case *ast.CaseClause:
						visit(b.Body)
						return false
					case *ast.FuncLit:
						return false
					}
					return true
				})
			}
		}
		visit(d.Decl.Body.List)
		if n == 0 {
			c.Bad(R, fn, c.P.Pos(d.Decl.Pos()), "receiver writes in "+fn, "undecided: no write to a map of the receiver found")
		}
	}
}

// c08nofloat: literal values travel as text.
func c08nofloat(c *core.Ctx) {
	const R = "C08.nofloat"
	c.Rule(R, "the OpenAPI packages and the example builder never pass a schema literal through a binary floating-point number (strconv.ParseFloat / FormatFloat / AppendFloat, float conversions of parsed values): example, enum and const values are copied as the text the schema has, so an integer above 2^53 or a decimal with more than 17 significant digits in `enum`/`const` stays the value the example has. Tabled: the `precision` -> multipleOf computation")
	c.Floor(R, 1)
	table := map[string]string{
		"openapi/internal/jsoac.newMultipleOf:strconv.ParseFloat": "parses the small integer value of a `precision` rule to compute multipleOf = 10^-p; no example/enum/const literal passes here",
	}
	n := 0
	for _, cs := range c.P.Calls() {
		rel := core.Rel(cs.Pkg.PkgPath)
		if !(strings.HasPrefix(rel, "openapi") || rel == "notations/jschema") {
			continue
		}
		name := core.FullName(core.Callee(cs.Pkg, cs.Call))
		switch name {
		case "strconv.ParseFloat", "strconv.FormatFloat", "strconv.AppendFloat":
		default:
			continue
		}
		n++
		fn := core.DeclName(cs.Pkg, cs.Decl)
		key := fn + ":" + name
		pos := c.P.Pos(cs.Call.Pos())
		if r, ok := table[key]; ok {
			c.Tabled(R, key, pos, name+" in "+fn, r)
		} else {
			c.Bad(R, key, pos, name+" in "+fn, "a literal of the schema is converted through float64: values that need more than 53 bits / 17 digits change, and the example is no longer a member of the generated `enum`")
		}
	}
	if n == 0 {
		c.Note(R, "no-float-call", "-", "no float conversion in the OpenAPI packages", "nothing to table")
	}
}

// c10aliasin: a schema handed to AddType is not modified by the root that uses it.
func c10aliasin(R string) RuleFunc {
	return func(c *core.Ctx) {
		c.Rule(R, "a schema object registered as a user type stays what it was: either JSchema.AddType stores a copy of the type's model (not the argument's own `Inner`), or the compile phase of the root never writes into the models of registered types. Today both halves are checked structurally: (in) the second argument of ISchema.AddNamedType in AddType is a field of the argument object (`typ.Inner`, stored by reference); (mut) allOfConstraintCompiler.processType hands the model returned by rootSchema.MustType(name) to processSchema, whose extendWith adds inherited children to it and deletes its allOf rule in place. With both true, compiling one root rewrites a type object that other roots (and the caller) still hold")
		c.Floor(R, 1)
		d := c.P.FindDecl("(*notations/jschema.JSchema).AddType")
		p := c.P.FindDecl("(*notations/jschema/loader.allOfConstraintCompiler).processType")
		if d == nil || p == nil {
			c.Unresolved(R, "JSchema.AddType / allOfConstraintCompiler.processType")
			return
		}
		aliasIn := ""
		ast.Inspect(d.Decl.Body, func(n ast.Node) bool {
			call, ok := n.(*ast.CallExpr)
			if !ok || !strings.HasSuffix(core.ExprStr(call.Fun), ".AddNamedType") || len(call.Args) < 2 {
				return true
			}
			a := core.ExprStr(call.Args[1])
			if a == "typ.Inner" {
				aliasIn = c.P.Pos(call.Pos())
			}
			return true
		})
		mutates := false
		typVar := ""
		ast.Inspect(p.Decl.Body, func(n ast.Node) bool {
			switch x := n.(type) {
			case *ast.AssignStmt:
				if len(x.Rhs) == 1 && strings.Contains(core.ExprStr(x.Rhs[0]), ".MustType(") && len(x.Lhs) == 1 {
					typVar = core.ExprStr(x.Lhs[0])
				}
			case *ast.CallExpr:
				if strings.HasSuffix(core.ExprStr(x.Fun), ".processSchema") && len(x.Args) == 1 && typVar != "" && core.ExprStr(x.Args[0]) == typVar {
					mutates = true
				}
			}
			return true
		})
		pos := c.P.Pos(d.Decl.Pos())
		if aliasIn != "" {
			pos = aliasIn
		}
		c.Check(!(aliasIn != "" && mutates), R, "AddType:typ.Inner", pos, "a registered type's model is copied on registration or never written by the root's compile phase",
			"the type's own model is stored by reference and the allOf compiler rewrites it in place: after a root that uses the type has been compiled, the type object shows the merged properties (its own Example() changes), a second root using the same type object with a different @base gets the first root's properties, a failed merge leaves it half extended (later `Duplicate key`), and concurrent Check() of two roots sharing the type races")
	}
}
