package rules

import (
	"go/ast"
	"go/constant"
	"go/token"
	"go/types"
	"strconv"
	"strings"

	"golang.org/x/tools/go/ssa"

	"jsverif/internal/core"
)

// Rules written for the seeded changes of the seventh round that no earlier rule reported.

// noExitRule: extendWith has no early exit.
func noExitRule(R string) RuleFunc {
	return func(c *core.Ctx) {
		c.Rule(R, "allOfConstraintCompiler.extendWith leaves only by falling off its end or by a refusal (panic): its own body has no `return`. The function does three things for an inherited type - compares/takes over additionalProperties, copies the children, takes over the required keys - and an early exit (`an empty object has nothing to inherit`) skips the ones behind it: an empty parent's conflicting additionalProperties is then accepted without the documented refusal")
		c.Floor(R, 1)
		const fn = "(*notations/jschema/loader.allOfConstraintCompiler).extendWith"
		d := c.P.FindDecl(fn)
		if d == nil {
			c.Unresolved(R, fn)
			return
		}
		bad := ""
		ast.Inspect(d.Decl.Body, func(n ast.Node) bool {
			switch x := n.(type) {
			case *ast.FuncLit:
				return false
			case *ast.ReturnStmt:
				if bad == "" {
					bad = c.P.Pos(x.Pos())
				}
			}
			return true
		})
		c.Check(bad == "", R, "extendWith:no-early-exit", c.P.Pos(d.Decl.Pos()), "extendWith has no return statement of its own", "early exit at "+bad+": the inheritance steps behind it are skipped for the inputs that take it")
	}
}

// registerRule: AddType registers every kind of type unconditionally.
func registerRule(R string) RuleFunc {
	return func(c *core.Ctx) {
		c.Rule(R, "in JSchema.AddType every case of the switch over the kind of schema that is registered (JSight schema, regex schema) calls Inner.AddNamedType on a path that is not under any condition of its own (error checks that return are siblings, not enclosing): whether a type is known must not depend on what the root text mentions - a type that is only referred to by ANOTHER type would otherwise be reported as not found")
		c.Floor(R, 2)
		const fn = "(*notations/jschema.JSchema).AddType"
		d := c.P.FindDecl(fn)
		if d == nil {
			c.Unresolved(R, fn)
			return
		}
		n := 0
		ast.Inspect(d.Decl.Body, func(nd ast.Node) bool {
			ts, ok := nd.(*ast.TypeSwitchStmt)
			if !ok {
				return true
			}
			for _, cl := range ts.Body.List {
				cc := cl.(*ast.CaseClause)
				if cc.List == nil {
					continue
				}
				kind := core.ExprStr(cc.List[0])
				uncond, cond := false, false
				var stack []ast.Node
				for _, st := range cc.Body {
					ast.Inspect(st, func(m ast.Node) bool {
						if m == nil {
							stack = stack[:len(stack)-1]
							return true
						}
						stack = append(stack, m)
						if call, isC := m.(*ast.CallExpr); isC && strings.HasSuffix(core.ExprStr(call.Fun), ".AddNamedType") {
							under := false
							for _, a := range stack {
								switch a.(type) {
								case *ast.IfStmt, *ast.SwitchStmt, *ast.ForStmt, *ast.RangeStmt:
									under = true
								}
							}
							if under {
								cond = true
							} else {
								uncond = true
							}
						}
						return true
					})
				}
				n++
				c.Check(uncond && !cond, R, "AddType:"+kind, c.P.Pos(cc.Pos()), "AddType registers a "+kind+" unconditionally", core.F("the registration of a %s is missing or conditional (unconditional call: %v, conditional call: %v)", kind, uncond, cond))
			}
			return false
		})
		if n == 0 {
			c.Bad(R, "AddType:switch", c.P.Pos(d.Decl.Pos()), "type switch of AddType", "undecided: no type switch over the registered schema")
		}
	}
}

// oaEntryRule: the exported OpenAPI entry points are not used inside the package.
func oaEntryRule(R string) RuleFunc {
	return func(c *core.Ctx) {
		c.Rule(R, "inside package openapi nothing calls the exported entry points Dereference / NewSchemaObject: they start from the schema's OWN user-type collection, while the listing of inherited properties must resolve names in the collection of the ROOT it was started from (threaded as ObjectInfo.userTypes / dereference.userTypes). Re-entering through the entry point makes the second level of an allOf chain unresolvable (`Type \"@base\" not found` from PropertiesInfos of an accepted schema)")
		c.Floor(R, 1)
		n, bad := 0, 0
		for _, cs := range c.P.Calls() {
			if core.Rel(cs.Pkg.PkgPath) != "openapi" || cs.Decl == nil {
				continue
			}
			n++
			name := core.FullName(core.Callee(cs.Pkg, cs.Call))
			if name == "openapi.Dereference" || name == "openapi.NewSchemaObject" {
				bad++
				fn := core.DeclName(cs.Pkg, cs.Decl)
				c.Bad(R, fn+":"+name, c.P.Pos(cs.Call.Pos()), "call of "+name+" in "+fn, "the package re-enters through its own entry point: the user types of the root are lost for everything below")
			}
		}
		c.OKd(R, "inventory", "-", core.F("%d call sites in package openapi", n), core.F("%d calls of the exported entry points", bad))
	}
}

// convertAllRule: the lexeme error converters convert whatever was thrown.
func convertAllRule(R string) RuleFunc {
	return func(c *core.Ctx) {
		c.Rule(R, "the deferred converters of package lexeme (CatchLexEventError, CatchLexEventErrorWithIncorrectUserType) never re-throw the value they recovered as it is: every panic in them throws the result of ConvertError or a JSchemaError obtained by a type assertion. They are the only catchers between the loader and panics.Handle, which re-panics everything that is not an error - a string thrown by the standard library (regexp.MustCompile on an invalid `regex` rule) would otherwise escape Check()/AddType() as a Go panic")
		c.Floor(R, 2)
		sp := c.P.SSAPkg("lexeme")
		if sp == nil {
			c.Unresolved(R, "package lexeme")
			return
		}
		n := 0
		for _, mem := range sp.Members {
			f, ok := mem.(*ssa.Function)
			if !ok || f.Blocks == nil {
				continue
			}
			var rec []ssa.Value
			for _, b := range f.Blocks {
				for _, in := range b.Instrs {
					if call, ok := in.(*ssa.Call); ok {
						if bi, ok := call.Call.Value.(*ssa.Builtin); ok && bi.Name() == "recover" {
							rec = append(rec, call)
						}
					}
				}
			}
			if len(rec) == 0 {
				continue
			}
			n++
			bad := ""
			for _, b := range f.Blocks {
				for _, in := range b.Instrs {
					p, ok := in.(*ssa.Panic)
					if !ok {
						continue
					}
					for _, r := range rec {
						if p.X == r && !underErrorAssert(b, r) {
							bad = c.P.Pos(p.Pos())
						}
						if ph, isPhi := p.X.(*ssa.Phi); isPhi {
							for _, e := range ph.Edges {
								if e == r {
									bad = c.P.Pos(p.Pos())
								}
							}
						}
					}
				}
			}
			c.Check(bad == "", R, core.FuncName(f)+":rethrow", c.P.Pos(f.Pos()), core.FuncName(f)+" converts what it recovered", "the recovered value is thrown again unconverted at "+bad+": a non-error panic value passes every catcher of the module")
		}
		if n == 0 {
			c.Unresolved(R, "a function of package lexeme that calls recover()")
		}
	}
}

// underErrorAssert: block b is only reached when the recovered value r was found (by a type switch or
// a comma-ok assertion) to have a concrete type that implements error.
func underErrorAssert(b *ssa.BasicBlock, r ssa.Value) bool {
	for d := b; d != nil; d = d.Idom() {
		id := d.Idom()
		if id == nil {
			return false
		}
		ifi, ok := id.Instrs[len(id.Instrs)-1].(*ssa.If)
		if !ok {
			continue
		}
		ex, ok := ifi.Cond.(*ssa.Extract)
		if !ok || ex.Index != 1 {
			continue
		}
		ta, ok := ex.Tuple.(*ssa.TypeAssert)
		if !ok || ta.X != r {
			continue
		}
		if !core.IsErrorType(ta.AssertedType) {
			continue
		}
		if t := id.Succs[0]; t == d || t.Dominates(d) {
			return true
		}
	}
	return false
}

// astFreshRule: the AST handed out by GetAST() is not the stored one.
func astFreshRule(R string) RuleFunc {
	return func(c *core.Ctx) {
		c.Rule(R, "the AST node a public GetAST() returns is built for the call (a composite literal, or the result of a copying function): it is not the node kept in a field of the schema object nor the cached result of a once wrapper. An ASTNode is a struct with a Children slice and a Rules pointer - handing out the stored one shares both with every later caller, so a caller that edits what it got (appends a child, sets a rule) changes what the next GetAST() and the OpenAPI conversion see")
		c.Floor(R, 3)
		for _, fn := range []string{"(*notations/jschema.JSchema).GetAST", "(*notations/regex.RSchema).GetAST", "(*rules/enum.Enum).GetAST"} {
			d := c.P.FindDecl(fn)
			if d == nil {
				c.Unresolved(R, fn)
				continue
			}
			var classify func(hd *core.DeclSite, depth int) string
			classify = func(hd *core.DeclSite, depth int) string {
				recv := ""
				if hd.Decl.Recv != nil && len(hd.Decl.Recv.List) == 1 && len(hd.Decl.Recv.List[0].Names) == 1 {
					recv = hd.Decl.Recv.List[0].Names[0].Name
				}
				worst := ""
				ast.Inspect(hd.Decl.Body, func(n ast.Node) bool {
					if _, isLit := n.(*ast.FuncLit); isLit {
						return false
					}
					r, ok := n.(*ast.ReturnStmt)
					if !ok || len(r.Results) == 0 {
						return true
					}
					switch x := ast.Unparen(r.Results[0]).(type) {
					case *ast.CompositeLit:
					case *ast.Ident:
						// a local that was built here
					case *ast.SelectorExpr:
						if id, isID := x.X.(*ast.Ident); isID && id.Name == recv {
							worst = "returns the stored node " + core.ExprStr(x)
						}
					case *ast.CallExpr:
						f := core.ExprStr(x.Fun)
						switch {
						case strings.HasSuffix(f, "Once.Do"):
							worst = "returns the cached result of " + f
						case strings.HasSuffix(f, ".Copy") || strings.HasSuffix(f, "copyASTNode"):
						case depth < 2:
							if g, isF := core.Callee(hd.Pkg, x).(interface{ FullName() string }); isF {
								if sub := c.P.FindDecl(core.Rel(g.FullName())); sub != nil && sub.Decl.Body != nil {
									if w := classify(sub, depth+1); w != "" {
										worst = w
									}
								}
							}
						}
					}
					return true
				})
				return worst
			}
			w := classify(d, 0)
			c.Check(w == "", R, fn, c.P.Pos(d.Decl.Pos()), fn+" hands out a node built for the call", w+": its Children slice and Rules map are shared with every other caller and with the schema object")
		}
	}
}

// tokenAgreeRule: the OpenAPI converter's own type-name table covers the JSON kinds.
func tokenAgreeRule(R string) RuleFunc {
	return func(c *core.Ctx) {
		c.Rule(R, "openapi/internal.TokenType - the table by which the items of an `or` rule are turned into AST nodes for the OpenAPI converter - answers for every JSON kind a schema type can name (string, boolean, integer, float, decimal, object, array, null), evaluated per name whatever the spelling (switch, table), and answers what SchemaType(name).ToTokenType() answers. A kind that is missing reaches `default: panic(ErrRuntimeFailure)`: the conversion of an accepted schema (`1.5 // {or: [\"float\", \"string\"]}`) panics")
		c.Floor(R, 8)
		d := c.P.FindDecl("openapi/internal.TokenType")
		ref := c.P.FindDecl("(root.SchemaType).ToTokenType")
		if d == nil || ref == nil || d.Decl.Type.Params == nil || len(d.Decl.Type.Params.List) != 1 || len(d.Decl.Type.Params.List[0].Names) != 1 {
			c.Unresolved(R, "openapi/internal.TokenType / (root.SchemaType).ToTokenType")
			return
		}
		param := d.Decl.Type.Params.List[0].Names[0].Name
		tRef, why := core.DecodeSwitchFunc(ref.Pkg, ref.Decl)
		if tRef == nil {
			c.Bad(R, "decode", c.P.Pos(ref.Decl.Pos()), "SchemaType.ToTokenType", "undecided: "+why)
			return
		}
		for _, name := range []string{"string", "boolean", "integer", "float", "decimal", "object", "array", "null"} {
			e := &miniEval{pk: d.Pkg, env: map[string]int64{param: internString(strconv.Quote(name)), "nil": 0}, ctx: c}
			e.hook = func(x ast.Expr) (int64, bool) {
				// s[0] == '@': the first byte of the name
				if ix, ok := x.(*ast.IndexExpr); ok && core.ExprStr(ix.X) == param {
					return int64(name[0]), true
				}
				return 0, false
			}
			st, rets := e.run(d.Decl.Body.List)
			key := "TokenType:" + name
			pos := c.P.Pos(d.Decl.Pos())
			want, _, _ := tRef.Get(constant.MakeString(name))
			switch {
			case e.unknown != "":
				c.Bad(R, key, pos, "TokenType("+strconv.Quote(name)+")", "undecided: "+e.unknown)
			case st == miniPanic:
				c.Bad(R, key, pos, "TokenType("+strconv.Quote(name)+")", "panics: the JSON kind has no entry, the OpenAPI conversion of an accepted `or` rule that names it fails with Runtime Failure")
			case st != miniReturn || len(rets) != 1:
				c.Bad(R, key, pos, "TokenType("+strconv.Quote(name)+")", "undecided: no value returned")
			default:
				got := ""
				if q, ok := uninternString(rets[0]); ok {
					got, _ = strconv.Unquote(q)
				}
				w := ""
				if want != nil {
					w = constant.StringVal(want)
				}
				c.Check(got == w && w != "", R, key, pos, core.F("TokenType(%q) = %q", name, got), core.F("SchemaType(%q).ToTokenType() is %q: the two tables disagree", name, w))
			}
		}
	}
}

// addrOrderRule: names gathered while walking the unnamed types are sorted before they become observable.
func addrOrderRule(R string) RuleFunc {
	return func(c *core.Ctx) {
		c.Rule(R, "JSchema.CollectUserTypes (and the helpers of the package it calls): the unnamed types of a schema are named after heap addresses (`#0xc000...`), so the ORDER in which they are walked - sorted by name or not - differs from run to run. Whatever is collected inside a loop over those names goes into a list that is passed to sort.Strings before a loop over it adds to the used-types set; nothing is added to the set directly inside such a loop. Otherwise the order of UsedUserTypes() depends on where the allocator put the rule-sets of an `or` rule")
		c.Floor(R, 1)
		root := c.P.FindDecl("(*notations/jschema.JSchema).CollectUserTypes")
		if root == nil {
			c.Unresolved(R, "(*notations/jschema.JSchema).CollectUserTypes")
			return
		}
		decls := helperBodies(c, root, 2)
		mentionsHash := func(n ast.Node) bool {
			s := core.ExprStr0(n)
			return strings.Contains(s, `"#"`) || strings.Contains(s, `'#'`)
		}
		// functions that return a list of unnamed-type names / a list collected in their order
		returnsUnnamed := map[string]bool{}
		returnsTainted := map[string]bool{}
		addsToSet := map[string]bool{}            // functions that add to the used-types set (directly or through such a function)
		paramUnnamed := map[string]map[int]bool{} // parameters that receive a list of unnamed-type names
		type result struct {
			bad   []string
			loops int
		}
		analyse := func(hd *core.DeclSite) result {
			var res result
			body := hd.Decl.Body
			unnamed := map[string]bool{}
			tainted := map[string]token.Pos{} // list -> end of the loop that tainted it
			self, _ := hd.Pkg.TypesInfo.Defs[hd.Decl.Name].(*types.Func)
			if self != nil && hd.Decl.Type.Params != nil {
				k := 0
				for _, fl := range hd.Decl.Type.Params.List {
					for _, nm := range fl.Names {
						if paramUnnamed[self.FullName()][k] {
							unnamed[nm.Name] = true
						}
						k++
					}
				}
			}
			isUnnamedExpr := func(e ast.Expr) bool {
				e = ast.Unparen(e)
				if unnamed[core.ExprStr(e)] {
					return true
				}
				if call, isC := e.(*ast.CallExpr); isC {
					if f, ok := core.Callee(hd.Pkg, call).(*types.Func); ok && returnsUnnamed[f.FullName()] {
						return true
					}
				}
				return false
			}
			callsAdder := func(m ast.Node) (*ast.CallExpr, bool) {
				call, ok := m.(*ast.CallExpr)
				if !ok {
					return nil, false
				}
				if f, isF := core.Callee(hd.Pkg, call).(*types.Func); isF && addsToSet[f.FullName()] {
					return call, true
				}
				return nil, false
			}
			// (A) lists of unnamed-type names: appended to under a '#' test inside a range over a map, or the result of a helper that does so
			ast.Inspect(body, func(n ast.Node) bool {
				switch x := n.(type) {
				case *ast.RangeStmt:
					if t := core.TypeOf(hd.Pkg, x.X); t != nil {
						if _, isMap := t.Underlying().(*types.Map); isMap && mentionsHash(x.Body) {
							ast.Inspect(x.Body, func(m ast.Node) bool {
								if as, ok := m.(*ast.AssignStmt); ok && len(as.Lhs) == 1 && len(as.Rhs) == 1 {
									if call, isC := as.Rhs[0].(*ast.CallExpr); isC && core.ExprStr(call.Fun) == "append" {
										unnamed[core.ExprStr(as.Lhs[0])] = true
									}
								}
								return true
							})
						}
					}
				case *ast.AssignStmt:
					if len(x.Lhs) >= 1 && len(x.Rhs) == 1 {
						if call, isC := ast.Unparen(x.Rhs[0]).(*ast.CallExpr); isC {
							if f, ok := core.Callee(hd.Pkg, call).(*types.Func); ok {
								if returnsUnnamed[f.FullName()] {
									unnamed[core.ExprStr(x.Lhs[0])] = true
								}
								if returnsTainted[f.FullName()] {
									tainted[core.ExprStr(x.Lhs[0])] = x.End()
								}
							}
						}
					}
				}
				return true
			})
			ast.Inspect(body, func(n ast.Node) bool {
				call, ok := n.(*ast.CallExpr)
				if !ok {
					return true
				}
				f, isF := core.Callee(hd.Pkg, call).(*types.Func)
				if !isF || f.Pkg() == nil || f.Pkg().Path() != hd.Pkg.PkgPath {
					return true
				}
				for i, a := range call.Args {
					if isUnnamedExpr(a) {
						if paramUnnamed[f.FullName()] == nil {
							paramUnnamed[f.FullName()] = map[int]bool{}
						}
						paramUnnamed[f.FullName()][i] = true
					}
				}
				return true
			})
			sortedAt := map[string][]token.Pos{}
			ast.Inspect(body, func(n ast.Node) bool {
				if call, ok := n.(*ast.CallExpr); ok && len(call.Args) >= 1 {
					switch core.FullName(core.Callee(hd.Pkg, call)) {
					case "sort.Strings", "slices.Sort", "sort.Sort", "sort.Stable":
						sortedAt[core.ExprStr(call.Args[0])] = append(sortedAt[core.ExprStr(call.Args[0])], call.Pos())
					}
				}
				return true
			})
			isAdd := func(m ast.Node) bool {
				call, ok := m.(*ast.CallExpr)
				return ok && strings.HasSuffix(core.ExprStr(call.Fun), "UserTypesNamesUsed.Add")
			}
			// (B) loops over a list of unnamed-type names
			for _, lp := range collLoops(hd.Pkg, body) {
				coll := lp.coll
				raw := ""
				if ex := exprOf(hd, lp); ex != nil {
					raw = core.ExprStr(ast.Unparen(ex))
				}
				walksUnnamed := unnamed[coll] || unnamed[raw]
				if ex := exprOf(hd, lp); ex != nil && isUnnamedExpr(ex) {
					walksUnnamed = true
				}
				if !walksUnnamed {
					continue
				}
				res.loops++
				ast.Inspect(lp.body, func(m ast.Node) bool {
					if isAdd(m) {
						res.bad = append(res.bad, "adds to the used-types set inside the loop over the unnamed types at "+c.P.Pos(m.Pos()))
					}
					if call, ok := callsAdder(m); ok {
						res.bad = append(res.bad, "calls "+core.ExprStr(call.Fun)+", which adds to the used-types set, inside the loop over the unnamed types at "+c.P.Pos(m.Pos()))
					}
					if as, ok := m.(*ast.AssignStmt); ok && len(as.Lhs) == 1 && len(as.Rhs) == 1 {
						if call, isC := as.Rhs[0].(*ast.CallExpr); isC && core.ExprStr(call.Fun) == "append" {
							tainted[core.ExprStr(as.Lhs[0])] = lp.node.End()
						}
					}
					return true
				})
			}
			// (C) a list collected in that order is sorted before it feeds the set / is returned
			sortedAfter := func(name string, after, before token.Pos) bool {
				for _, p := range sortedAt[name] {
					if p > after && p < before {
						return true
					}
				}
				return false
			}
			for _, lp := range collLoops(hd.Pkg, body) {
				name := lp.coll
				if ex := exprOf(hd, lp); ex != nil {
					if _, ok := tainted[core.ExprStr(ast.Unparen(ex))]; ok {
						name = core.ExprStr(ast.Unparen(ex))
					}
				}
				lp.coll = name
				end, isT := tainted[lp.coll]
				if !isT || lp.node.Pos() < end {
					continue
				}
				adds := false
				ast.Inspect(lp.body, func(m ast.Node) bool {
					if isAdd(m) {
						adds = true
					}
					return true
				})
				if adds && !sortedAfter(lp.coll, end, lp.node.Pos()) {
					res.bad = append(res.bad, core.F("the names in `%s` were collected in the order of the unnamed types and reach the used-types set unsorted (loop at %s)", lp.coll, c.P.Pos(lp.node.Pos())))
				}
			}
			ast.Inspect(body, func(n ast.Node) bool {
				call, ok := callsAdder(n)
				if !ok {
					return true
				}
				for _, a := range call.Args {
					name := core.ExprStr(ast.Unparen(a))
					if end, isT := tainted[name]; isT && call.Pos() > end && !sortedAfter(name, end, call.Pos()) {
						res.bad = append(res.bad, core.F("the names in `%s` were collected in the order of the unnamed types and are handed unsorted to %s, which adds them to the used-types set (%s)", name, core.ExprStr(call.Fun), c.P.Pos(call.Pos())))
					}
				}
				return true
			})
			if self != nil {
				ast.Inspect(body, func(n ast.Node) bool {
					if isAdd(n) {
						addsToSet[self.FullName()] = true
					}
					if _, ok := callsAdder(n); ok {
						addsToSet[self.FullName()] = true
					}
					return true
				})
			}
			// summaries for the callers
			ast.Inspect(body, func(n ast.Node) bool {
				if _, isLit := n.(*ast.FuncLit); isLit {
					return false
				}
				r, ok := n.(*ast.ReturnStmt)
				if !ok || len(r.Results) == 0 {
					return true
				}
				name := core.ExprStr(r.Results[0])
				obj, _ := hd.Pkg.TypesInfo.Defs[hd.Decl.Name].(*types.Func)
				if obj == nil {
					return true
				}
				if unnamed[name] {
					returnsUnnamed[obj.FullName()] = true
				}
				if end, isT := tainted[name]; isT && !sortedAfter(name, end, r.Pos()) {
					returnsTainted[obj.FullName()] = true
				}
				return true
			})
			return res
		}
		// helpers first (two passes settle the summaries), then the root
		var bad []string
		loops := 0
		for pass := 0; pass < 4; pass++ {
			bad, loops = nil, 0
			for i := len(decls) - 1; i >= 0; i-- {
				r := analyse(decls[i])
				bad = append(bad, r.bad...)
				loops += r.loops
			}
		}
		if loops == 0 {
			c.Bad(R, "CollectUserTypes:unnamed-order", c.P.Pos(root.Decl.Pos()), "walk over the unnamed types", "undecided: no loop over the names of the unnamed types found")
			return
		}
		c.Check(len(bad) == 0, R, "CollectUserTypes:unnamed-order", c.P.Pos(root.Decl.Pos()), core.F("names collected from the unnamed types are sorted before they are added (%d walk(s))", loops), strings.Join(bad, "; "))
	}
}

// exprOf: the collection expression of a loop as written (for a hoisted local: its defining expression).
func exprOf(hd *core.DeclSite, lp collLoop) ast.Expr {
	switch l := lp.node.(type) {
	case *ast.RangeStmt:
		return l.X
	}
	return nil
}

// gluedRule: an annotation or comment glued to the value starts the same way in both modes.
func gluedRule(R string) RuleFunc {
	return func(c *core.Ctx) {
		c.Rule(R, "per-byte summary of the schema scanner's stateEndTop: what happens on `/` - and, outside an inline annotation, on `#` - does not depend on the length-computing mode, on the depth of the lexeme stack or on trailing characters seen: no path of those rows tests lengthComputing, stack.Len() or hasTrailingCharacters. A root scalar followed without a blank by its annotation (`1/* {min: 0} */`, `\"abc\"// note`) otherwise scans differently under Len() than under Check(): Len() returns the bare scalar (the prefix has another AST) or fails")
		c.Floor(R, 2)
		m := buildScanModel(c, "notations/jschema/scanner")
		rows, ok := m.rows["stateEndTop"]
		if !ok {
			c.Unresolved(R, "notations/jschema/scanner.stateEndTop")
			return
		}
		pos := c.P.Pos(m.states["stateEndTop"].Pos())
		modal := func(k string) bool {
			return strings.Contains(k, "load:&s.lengthComputing") || strings.Contains(k, "load:&s.hasTrailingCharacters") || (strings.Contains(k, "Stack[") && strings.Contains(k, ").Len"))
		}
		for _, b := range []byte{'/', '#'} {
			bad := ""
			n := 0
			for _, p := range rows[b].paths {
				// `#` inside an inline annotation (annotation mode neither none nor multi-line) ends the measurement by mode: not this rule's business
				if b == '#' {
					inl := false
					for _, a := range p.atoms {
						k := a.Cond.Key()
						if (k == "bin:==(0,load:&s.annotation)" || k == "bin:==(1,load:&s.annotation)") && a.Truth {
							inl = true
						}
					}
					if !inl {
						continue
					}
				}
				n++
				for _, a := range p.atoms {
					if modal(a.Cond.Key()) && bad == "" {
						bad = "a path of this row is guarded by `" + a.String() + "`"
					}
				}
			}
			key := core.F("stateEndTop:%q", rune(b))
			if n == 0 {
				c.Bad(R, key, pos, core.F("stateEndTop on %q", rune(b)), "undecided: no path of this row was summarised")
				continue
			}
			c.Check(bad == "", R, key, pos, core.F("stateEndTop on %q starts the annotation / comment whatever the mode (%d paths)", rune(b), n), bad+": the glued annotation or comment is handled differently when the length is computed")
		}
	}
}
