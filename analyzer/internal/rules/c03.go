package rules

import (
	"go/ast"
	"go/types"
	"strings"

	"jsverif/internal/core"
)

func init() {
	Register("C03", "Decides structural necessary conditions of 'plain JSON is a valid schema and is preserved': (escape) decoded keys/values are JSON-encoded again before they are written into an example; (literal) the example of a literal node is the raw literal span of its lexeme, untransformed; (order) children and keys are emitted by position from the same ordered containers (no map iteration); (subset) every JSON text without exponent numbers is accepted by the schema scanner: one-directional lock-step simulation of the RFC 8259 reference by the extracted schema-scanner model. Does NOT decide value equality of the round trip or the AST shape.",
		jsonSinkRule("C03.escape", "an example (exampleBuilder)", func(pkgRel, fn string) bool {
			return pkgRel == "notations/jschema" && strings.Contains(fn, "exampleBuilder")
		}, 4),
		c03literal, c03order)
}

func c03literal(c *core.Ctx) {
	const R = "C03.literal"
	c.Rule(R, "exampleBuilder.Build returns, for a literal node, exactly BasisLexEventOfSchemaForNode().Value().Data() (the raw source span, no transformation), and LiteralNode.Grow stores the closing lexeme as the node's basis lexeme")
	c.Floor(R, 2)
	d := c.P.FindDecl("(*notations/jschema.exampleBuilder).Build")
	if d == nil {
		c.Unresolved(R, "(*notations/jschema.exampleBuilder).Build")
		return
	}
	ok := false
	ast.Inspect(d.Decl.Body, func(n ast.Node) bool {
		cc, isCC := n.(*ast.CaseClause)
		if !isCC || len(cc.List) != 1 || !strings.HasSuffix(core.ExprStr(cc.List[0]), "LiteralNode") {
			return true
		}
		if len(cc.Body) == 1 {
			if ret, isR := cc.Body[0].(*ast.ReturnStmt); isR && len(ret.Results) == 2 {
				s := core.ExprStr(ret.Results[0])
				if strings.HasSuffix(s, ".BasisLexEventOfSchemaForNode().Value().Data()") {
					ok = true
				}
			}
		}
		return true
	})
	c.Check(ok, R, "Build:literal", c.P.Pos(d.Decl.Pos()), "literal nodes are emitted as their raw lexeme bytes", "the literal branch of the example builder transforms or re-derives the literal: numbers/strings may change spelling or value")
	g := c.P.FindDecl("(*notations/jschema/ischema.LiteralNode).Grow")
	if g == nil {
		c.Unresolved(R, "(*notations/jschema/ischema.LiteralNode).Grow")
		return
	}
	stores := false
	ast.Inspect(g.Decl.Body, func(n ast.Node) bool {
		cc, isCC := n.(*ast.CaseClause)
		if !isCC || len(cc.List) == 0 || !strings.Contains(core.ExprStr(cc.List[0]), "LiteralEnd") {
			return true
		}
		ast.Inspect(cc, func(m ast.Node) bool {
			if as, isA := m.(*ast.AssignStmt); isA {
				for i, l := range as.Lhs {
					if strings.HasSuffix(core.ExprStr(l), ".schemaLexEvent") && i < len(as.Rhs) && core.ExprStr(as.Rhs[i]) == "lex" {
						stores = true
					}
				}
			}
			return true
		})
		return true
	})
	c.Check(stores, R, "LiteralNode.Grow:basis", c.P.Pos(g.Decl.Pos()), "LiteralNode.Grow keeps the LiteralEnd lexeme (whole literal span) as basis lexeme", "the literal's span is no longer the closing lexeme: the example would print a prefix or another part of the literal")
}

func c03order(c *core.Ctx) {
	const R = "C03.order"
	c.Rule(R, "the example builder and the AST builder emit object members by ranging over the children slice and taking the key with the same index from the ordered key list (no iteration over a map): source order is preserved")
	c.Floor(R, 3)
	for _, fn := range []string{"(*notations/jschema.exampleBuilder).buildExampleForObjectNode", "(*notations/jschema.exampleBuilder).buildExampleForArrayNode", "(*notations/jschema/ischema.ObjectNode).collectASTProperties"} {
		d := c.P.FindDecl(fn)
		if d == nil {
			c.Unresolved(R, fn)
			continue
		}
		bad := ""
		sliceRange := false
		ast.Inspect(d.Decl.Body, func(n ast.Node) bool {
			rs, ok := n.(*ast.RangeStmt)
			if !ok {
				return true
			}
			t := core.TypeOf(d.Pkg, rs.X)
			if t == nil {
				return true
			}
			switch t.Underlying().(type) {
			case *types.Map:
				bad = "ranges over a map (" + core.ExprStr(rs.X) + ")"
			case *types.Slice:
				sliceRange = true
			}
			return true
		})
		c.Check(bad == "" && sliceRange, R, fn, c.P.Pos(d.Decl.Pos()), fn+" iterates an ordered slice", "members are no longer emitted from the ordered children slice: "+bad)
	}
}
