package rules

import (
	"go/ast"
	"go/constant"
	"go/types"
	"strings"

	"jsverif/internal/core"
)

func init() {
	Register("C03", "Decides structural necessary conditions of 'plain JSON is a valid schema and is preserved': (escape) decoded keys/values are JSON-encoded again before they are written into an example; (literal) the example of a literal node is the raw literal span of its lexeme, untransformed; (order) children and keys are emitted by position from the same ordered containers (no map iteration); (subset) every JSON text without exponent numbers is accepted by the schema scanner: one-directional lock-step simulation of the RFC 8259 reference by the extracted schema-scanner model. Does NOT decide value equality of the round trip or the AST shape.",
		jsonSinkRule("C03.escape", "an example (exampleBuilder)", func(pkgRel, fn string) bool {
			return pkgRel == "notations/jschema" && strings.Contains(fn, "exampleBuilder")
		}, 2),
		c03literal, c03order, c03subset, c03unquote, trimQuoteRule("C03.trimquote"), keyEncoderRule("C03.keyencoder"), decodeOnceRule("C03.decodeonce"), strClassRule("C03.strclass"), stackRule("C03.stack"), noLimitRule("C03.nolimit"))
}

func c03literal(c *core.Ctx) {
	const R = "C03.literal"
	c.Rule(R, "exampleBuilder.Build returns, for a literal node, exactly BasisLexEventOfSchemaForNode().Value().Data() (the raw source span, no transformation), and LiteralNode.Grow stores the closing lexeme as the node's basis lexeme")
	c.Floor(R, 2)
	d := c.P.FindDecl("(*notations/jschema.exampleBuilder).Build")
	if d == nil {
		c.Unresolved(R, "(*notations/jschema.exampleBuilder).Build")
		return
	}
	ok := false
	ast.Inspect(d.Decl.Body, func(n ast.Node) bool {
		cc, isCC := n.(*ast.CaseClause)
		if !isCC || len(cc.List) != 1 || !strings.HasSuffix(core.ExprStr(cc.List[0]), "LiteralNode") {
			return true
		}
		if len(cc.Body) == 1 {
			if ret, isR := cc.Body[0].(*ast.ReturnStmt); isR && len(ret.Results) == 2 {
				s := core.ExprStr(ret.Results[0])
				if strings.HasSuffix(s, ".BasisLexEventOfSchemaForNode().Value().Data()") {
					ok = true
				}
			}
		}
		return true
	})
	c.Check(ok, R, "Build:literal", c.P.Pos(d.Decl.Pos()), "literal nodes are emitted as their raw lexeme bytes", "the literal branch of the example builder transforms or re-derives the literal: numbers/strings may change spelling or value")
	g := c.P.FindDecl("(*notations/jschema/ischema.LiteralNode).Grow")
	if g == nil {
		c.Unresolved(R, "(*notations/jschema/ischema.LiteralNode).Grow")
		return
	}
	stores := false
	ast.Inspect(g.Decl.Body, func(n ast.Node) bool {
		cc, isCC := n.(*ast.CaseClause)
		if !isCC || len(cc.List) == 0 || !strings.Contains(core.ExprStr(cc.List[0]), "LiteralEnd") {
			return true
		}
		ast.Inspect(cc, func(m ast.Node) bool {
			if as, isA := m.(*ast.AssignStmt); isA {
				for i, l := range as.Lhs {
					if strings.HasSuffix(core.ExprStr(l), ".schemaLexEvent") && i < len(as.Rhs) && core.ExprStr(as.Rhs[i]) == "lex" {
						stores = true
					}
				}
			}
			return true
		})
		return true
	})
	c.Check(stores, R, "LiteralNode.Grow:basis", c.P.Pos(g.Decl.Pos()), "LiteralNode.Grow keeps the LiteralEnd lexeme (whole literal span) as basis lexeme", "the literal's span is no longer the closing lexeme: the example would print a prefix or another part of the literal")
}

func c03order(c *core.Ctx) {
	const R = "C03.order"
	c.Rule(R, "the example builder and the AST builder emit object members by ranging over the children slice and taking the key with the same index from the ordered key list (no iteration over a map): source order is preserved")
	c.Floor(R, 3)
	for _, fn := range []string{"(*notations/jschema.exampleBuilder).buildExampleForObjectNode", "(*notations/jschema.exampleBuilder).buildExampleForArrayNode", "(*notations/jschema/ischema.ObjectNode).collectASTProperties"} {
		d := c.P.FindDecl(fn)
		if d == nil {
			c.Unresolved(R, fn)
			continue
		}
		bad := ""
		sliceRange := false
		inspectDeep(c, d, 2, func(hd *core.DeclSite, n ast.Node) bool {
			switch l := n.(type) {
			case *ast.RangeStmt:
				t := core.TypeOf(hd.Pkg, l.X)
				if t == nil {
					return true
				}
				switch t.Underlying().(type) {
				case *types.Map:
					bad = "ranges over a map (" + core.ExprStr(l.X) + ")"
				case *types.Slice:
					sliceRange = true
				}
			case *ast.ForStmt:
				// an index loop over a slice: i < len(slice)
				if l.Cond != nil {
					ast.Inspect(l.Cond, func(m ast.Node) bool {
						if call, ok := m.(*ast.CallExpr); ok && core.ExprStr(call.Fun) == "len" && len(call.Args) == 1 {
							if t := core.TypeOf(hd.Pkg, call.Args[0]); t != nil {
								if _, isSlice := t.Underlying().(*types.Slice); isSlice {
									sliceRange = true
								}
							}
						}
						return true
					})
				}
			}
			return true
		})
		c.Check(bad == "" && sliceRange, R, fn, c.P.Pos(d.Decl.Pos()), fn+" iterates an ordered slice", "members are no longer emitted from the ordered children slice: "+bad)
	}
}

// c03unquote: the JSON string decoder's tables.
func c03unquote(c *core.Ctx) { c03unquoteAs(c, "C03.unquote") }

func c03unquoteAs(c *core.Ctx, R string) {
	c.Rule(R, "the per-byte tables of the JSON string decoder bytes.unquoteBytes/getu4, evaluated for all 256 byte values: (hex) getu4 maps '0'-'9' to 0-9, 'a'-'f' and 'A'-'F' to 10-15 and rejects every other byte; (esc) the escape switch maps \\\" \\\\ \\/ to themselves and b f n r t to the control characters 8 12 10 13 9, hands `u` to getu4 and rejects everything else (the historical \\' of encoding/json is tolerated). A wrong cell decodes keys/values to other text than written (GetAST, example keys)")
	c.Floor(R, 256)
	d := c.P.FindDecl("bytes.getu4")
	if d == nil {
		c.Unresolved(R, "bytes.getu4")
		return
	}
	var loop *ast.RangeStmt
	ast.Inspect(d.Decl.Body, func(n ast.Node) bool {
		if rs, ok := n.(*ast.RangeStmt); ok && loop == nil {
			loop = rs
		}
		return true
	})
	if loop == nil || loop.Value == nil {
		c.Bad(R, "getu4:loop", c.P.Pos(d.Decl.Pos()), "getu4 digit loop", "undecided: no range loop over the four hex digits")
		return
	}
	ev := newByteBodyEval(c, d.Pkg, core.ExprStr(loop.Value))
	bad := 0
	for b := 0; b < 256; b++ {
		r := ev.run(loop.Body.List, int64(b))
		want := int64(-1)
		switch {
		case b >= '0' && b <= '9':
			want = int64(b - '0')
		case b >= 'a' && b <= 'f':
			want = int64(b-'a') + 10
		case b >= 'A' && b <= 'F':
			want = int64(b-'A') + 10
		}
		key := core.F("getu4:byte%03d", b)
		what := core.F("getu4 digit %q", rune(b))
		switch {
		case r.unknown != "":
			c.Bad(R, key, c.P.Pos(loop.Pos()), what, "undecided: "+r.unknown)
			bad++
		case want < 0 && r.ret == "":
			c.Bad(R, key, c.P.Pos(loop.Pos()), what, core.F("byte is accepted as a hex digit with value %d but is not one", r.val))
			bad++
		case want >= 0 && (r.ret != "" || r.val != want):
			c.Bad(R, key, c.P.Pos(loop.Pos()), what, core.F("hex digit %q decodes to %d (%s), expected %d: \\u escapes with this digit decode to another character", rune(b), r.val, r.ret, want))
			bad++
		default:
			c.OK(R, key, c.P.Pos(loop.Pos()), what)
		}
	}
	// escape switch of unquoteBytes
	u := c.P.FindDecl("bytes.unquoteBytes")
	if u == nil {
		c.Unresolved(R, "bytes.unquoteBytes")
		return
	}
	var esc *ast.SwitchStmt
	ast.Inspect(u.Decl.Body, func(n ast.Node) bool {
		sw, ok := n.(*ast.SwitchStmt)
		if !ok || sw.Tag == nil {
			return true
		}
		for _, cl := range sw.Body.List {
			for _, e := range cl.(*ast.CaseClause).List {
				if v := core.ConstOf(u.Pkg, e); v != nil && v.ExactString() == "117" { // 'u'
					esc = sw
				}
			}
		}
		return true
	})
	if esc == nil {
		c.Bad(R, "unquoteBytes:escape-switch", c.P.Pos(u.Decl.Pos()), "escape switch of unquoteBytes", "undecided: no switch with a case 'u'")
		return
	}
	tag := core.ExprStr(esc.Tag)
	// the switch is evaluated once per escape character: what is stored into the output (the character
	// itself / a constant), whether getu4 decodes it, or whether the function gives up
	table := map[int64]string{}
	def := "reject"
	for b := int64(0); b < 256; b++ {
		b := b
		e := &miniEval{pk: u.Pkg, env: map[string]int64{"nil": 0}, ctx: c}
		action := "?"
		e.hook = func(x ast.Expr) (int64, bool) {
			if core.ExprStr(x) == tag {
				return b, true
			}
			switch y := x.(type) {
			case *ast.Ident:
				if _, has := e.env[y.Name]; !has {
					if cv := core.ConstOf(u.Pkg, y); cv == nil {
						return 1, true // r, w and other counters: any value
					}
				}
			case *ast.CallExpr:
				if core.ExprStr(y.Fun) == "getu4" {
					if action == "?" {
						action = "u"
					}
					return 0x41, true
				}
				if core.ExprStr(y.Fun) == "len" {
					return 100, true
				}
				if tv, ok := u.Pkg.TypesInfo.Types[y.Fun]; ok && tv.IsType() {
					return 0, false
				}
				return 1, true
			}
			return 0, false
		}
		e.onStore = func(lhs, rhs ast.Expr) {
			if _, isIdx := ast.Unparen(lhs).(*ast.IndexExpr); isIdx && action == "?" {
				v := e.expr(rhs)
				if core.ExprStr(ast.Unparen(rhs)) == tag || (v == b && core.ConstOf(u.Pkg, rhs) == nil && b > 13) {
					action = "id"
				} else {
					action = core.F("const %d", v)
				}
			}
		}
		st, _ := e.run([]ast.Stmt{esc})
		if action == "?" && st == miniReturn {
			action = "reject"
		}
		if e.unknown != "" && action == "?" {
			action = "undecided: " + e.unknown
		}
		table[b] = action
	}
	want := map[int64]string{'"': "id", '\\': "id", '/': "id", 'b': "const 8", 'f': "const 12", 'n': "const 10", 'r': "const 13", 't': "const 9", 'u': "u"}
	for b := int64(0); b < 256; b++ {
		got, ok := table[b]
		if !ok {
			got = def
		}
		w, isWant := want[b]
		if !isWant {
			w = "reject"
		}
		key := core.F("unquoteBytes:esc%03d", b)
		what := core.F("escape \\%q -> %s", rune(b), got)
		if got == w || (b == '\'' && got == "id") {
			c.OK(R, key, c.P.Pos(esc.Pos()), what)
		} else {
			c.Bad(R, key, c.P.Pos(esc.Pos()), what, core.F("expected %s: the escape decodes to the wrong character (or an invalid escape is accepted)", w))
		}
	}
	c.Extra["exhaustive"] = true
}

// trimQuoteRule: quotes are removed one pair at a time.
func trimQuoteRule(R string) RuleFunc {
	return func(c *core.Ctx) {
		c.Rule(R, "no call of bytes.Trim / strings.Trim (or TrimLeft/TrimRight) with a cutset that contains the double quote is applied to JSON text in the model, example and OpenAPI packages: Trim removes EVERY leading and trailing byte of the cutset, so the escaped quote of a string that ends in `\\\"` is eaten together with the delimiter and the result is no longer JSON (`{\"5\\\":1}`)")
		c.Floor(R, 1)
		n := 0
		for _, cs := range c.P.Calls() {
			name := core.FullName(core.Callee(cs.Pkg, cs.Call))
			switch name {
			case "bytes.Trim", "strings.Trim", "bytes.TrimRight", "strings.TrimRight", "bytes.TrimLeft", "strings.TrimLeft":
			default:
				continue
			}
			if len(cs.Call.Args) != 2 {
				continue
			}
			v := core.ConstOf(cs.Pkg, cs.Call.Args[1])
			if v == nil || v.Kind() != constant.String || !strings.Contains(constant.StringVal(v), `"`) {
				continue
			}
			n++
			fn := core.DeclName(cs.Pkg, cs.Decl)
			c.Bad(R, fn+":"+name, c.P.Pos(cs.Call.Pos()), name+"("+core.ExprStr(cs.Call.Args[0])+", "+core.ExprStr(cs.Call.Args[1])+") in "+fn, "all quotes at the ends are removed, including an escaped one that belongs to the string")
		}
		if n == 0 {
			c.OK(R, "no-quote-trim", "-", "no Trim with a quote cutset in scope")
		}
	}
}
