package rules

func init() {
	Register("C10", "Decides structural necessary conditions of 'results stay intact and do not depend on history': (pool) nothing that aliases a pooled buffer escapes its user; (reset) the reset of every pooled struct clears every field and reset+Put run on all exits; (global) package-level state is immutable after initialisation. Does NOT decide value equality with a fresh process.",
		poolRule("C10.pool"), c10reset, c10global, c10share("C10.share"), inplaceRule("C10.inplace"), unnamedOnlyRule("C10.unnamedonly"), freshResultRule("C10.fresh"), astFreshRule("C10.astfresh"), noInplaceRule("C10.noinplace"), c11extAs("C10.ext"), c10atomic, c10aliasin("C10.aliasin"), oncePanicRule("C10.oncepanic"), compileOrderRule("C10.compile"), ctorOrderRule("C10.ctor"))
}
