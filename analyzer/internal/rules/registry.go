// Package rules holds the rule instances per property.  Every rule resolves its
// anchors through type information (package path + receiver + name), applies a
// structural rule to the current tree, and records one obligation per instance.
package rules

import (
	"sort"

	"jsverif/internal/absint"
	"jsverif/internal/core"
)

type RuleFunc func(c *core.Ctx)

type propEntry struct {
	explanation string
	fns         []RuleFunc
}

var registry = map[string]*propEntry{}

// Register adds rule functions to a property.
func Register(prop, explanation string, fns ...RuleFunc) {
	e := registry[prop]
	if e == nil {
		e = &propEntry{}
		registry[prop] = e
	}
	if explanation != "" {
		e.explanation = explanation
	}
	e.fns = append(e.fns, fns...)
}

func Properties() []string {
	var out []string
	for k := range registry {
		out = append(out, k)
	}
	sort.Strings(out)
	return out
}

// Run runs all rules of a property.
func Run(c *core.Ctx) bool {
	absint.FieldNameHook = core.ActivePinnedFieldName
	e := registry[c.Property]
	if e == nil {
		return false
	}
	c.Extra["explanation"] = e.explanation
	for _, f := range e.fns {
		f(c)
	}
	return true
}
