package rules

import (
	"go/constant"
	"go/token"
	"go/types"
	"sort"
	"strings"

	"golang.org/x/tools/go/ssa"

	"jsverif/internal/absint"
	"jsverif/internal/core"
)

func init() {
	Register("C13", "Decides, on finite tables extracted from the source: (grammar) the number recogniser json/scanner.go is a DFA over <state function, finished flag>; its driver contract holds and the DFA is language-equivalent to the RFC 8259 number grammar (product construction, every mismatch reported with a shortest witness); (pred) Equal/GreaterThan/... are the right truth tables over Cmp in {-1,0,1}, Cmp's sign logic is correct including equal magnitudes, `not` is total on {-1,0,1}, and negative zero is normalised; (ovf) integer accumulation is overflow-guarded and exponent-driven allocation is bounded. (cmp) cmpAbs/cmpInt/cmpFra/int()/fra() tabulated by operand role over every ordering of the part lengths, every index and every digit pair. (count) every state function of the number scanner tabulated over 256 bytes: which counter each digit feeds, where the exponent begins, which byte sets the sign; setExp shifts both counters by the exponent; getNatural over the signs of the counters. Does NOT decide String() or appendDigits.",
		c13grammar, c13pred, c13norm, c13ovf, c13parse, expParseRule("C13.base10"), c13cmp, c13count)
}

// ---- RFC 8259 number reference DFA ----
const (
	rStart = iota
	rMinus
	rZero
	rInt
	rPoint
	rFrac
	rExp
	rExpSign
	rExpNum
	rDead
)

var refNumAccept = map[int]bool{rZero: true, rInt: true, rFrac: true, rExpNum: true}

func refNumStep(s int, c byte) int {
	digit := c >= '0' && c <= '9'
	d19 := c >= '1' && c <= '9'
	switch s {
	case rStart:
		switch {
		case c == '-':
			return rMinus
		case c == '0':
			return rZero
		case d19:
			return rInt
		}
	case rMinus:
		switch {
		case c == '0':
			return rZero
		case d19:
			return rInt
		}
	case rZero:
		switch {
		case c == '.':
			return rPoint
		case c == 'e' || c == 'E':
			return rExp
		}
	case rInt:
		switch {
		case digit:
			return rInt
		case c == '.':
			return rPoint
		case c == 'e' || c == 'E':
			return rExp
		}
	case rPoint:
		if digit {
			return rFrac
		}
	case rFrac:
		switch {
		case digit:
			return rFrac
		case c == 'e' || c == 'E':
			return rExp
		}
	case rExp:
		switch {
		case c == '+' || c == '-':
			return rExpSign
		case digit:
			return rExpNum
		}
	case rExpSign:
		if digit {
			return rExpNum
		}
	case rExpNum:
		if digit {
			return rExpNum
		}
	}
	return rDead
}

type numTrans struct {
	next     string // method name
	finished bool
	ok       bool
}

// extractNumberDFA evaluates every state method of json.scanner on every byte.
func extractNumberDFA(c *core.Ctx, R string) (trans map[string]*[256]numTrans, initial string, okAll bool) {
	named := c.P.NamedType("json", "scanner")
	if named == nil {
		c.Unresolved(R, "json.scanner")
		return nil, "", false
	}
	in := absint.New(absint.Config{InModule: c.P.FuncInModule, SelfBases: map[string]bool{"s": true}, Inline: func(f *ssa.Function) bool { return false }})
	states := map[string]*ssa.Function{}
	ms := c.P.SSA.MethodSets.MethodSet(types.NewPointer(named))
	for i := 0; i < ms.Len(); i++ {
		fo, _ := ms.At(i).Obj().(*types.Func)
		sig := fo.Type().(*types.Signature)
		if sig.Params().Len() == 1 && sig.Results().Len() == 1 {
			if b, ok := sig.Params().At(0).Type().Underlying().(*types.Basic); ok && b.Kind() == types.Uint8 {
				if rb, ok := sig.Results().At(0).Type().Underlying().(*types.Basic); ok && rb.Kind() == types.Bool {
					if f := c.P.SSA.FuncValue(fo); f != nil {
						states[fo.Name()] = f
					}
				}
			}
		}
	}
	if len(states) < 5 {
		c.Unresolved(R, "state methods of json.scanner (func(byte) bool)")
		return nil, "", false
	}
	// initial state: newScanner
	ns := c.P.Func("json", "newScanner")
	if ns == nil {
		c.Unresolved(R, "json.newScanner")
		return nil, "", false
	}
	for _, o := range in.Run(ns, nil, nil) {
		if p, ok := o.Val.(absint.Ptr); ok {
			if v, ok := o.St.Mem(absint.Ptr{Base: p.Base, Path: ".stateFn"}.Key()); ok {
				if fv, ok := v.(absint.FuncV); ok {
					initial = strings.TrimSuffix(fv.Fn.Name(), "$bound")
				}
			}
		}
	}
	if initial == "" || states[initial] == nil {
		c.Bad(R, "json.newScanner:initial", c.P.Pos(ns.Pos()), "initial state of the number scanner", "undecided: newScanner does not store a state method in stateFn")
		return nil, "", false
	}
	trans = map[string]*[256]numTrans{}
	okAll = true
	var names []string
	for n := range states {
		names = append(names, n)
	}
	sort.Strings(names)
	for _, n := range names {
		f := states[n]
		var row [256]numTrans
		for b := 0; b < 256; b++ {
			var args []absint.Val
			if len(f.Params) == 2 {
				args = []absint.Val{absint.Ptr{Base: "s"}, absint.MkInt(int64(b))}
			} else {
				args = []absint.Val{absint.MkInt(int64(b))} // method without receiver use
			}
			outs := in.Run(f, args, nil)
			var t *numTrans
			for _, o := range outs {
				cur := numTrans{next: n, finished: true}
				if o.Kind != "return" {
					okAll = false
					c.Bad(R, core.F("json.scanner.%s:byte%d", n, b), c.P.Pos(f.Pos()), core.F("state %s on byte %q", n, rune(b)), "undecided: path does not end in a return ("+o.Kind+")")
					continue
				}
				rc, isC := o.Val.(absint.Const)
				if !isC || rc.V == nil || rc.V.Kind() != constant.Bool {
					okAll = false
					c.Bad(R, core.F("json.scanner.%s:byte%d", n, b), c.P.Pos(f.Pos()), core.F("state %s on byte %q", n, rune(b)), "undecided: result is not a constant")
					continue
				}
				cur.ok = constant.BoolVal(rc.V)
				if v, ok := o.St.LastStore("s.stateFn"); ok {
					if fv, ok := v.(absint.FuncV); ok {
						cur.next = strings.TrimSuffix(fv.Fn.Name(), "$bound")
					} else {
						okAll = false
						c.Bad(R, core.F("json.scanner.%s:byte%d", n, b), c.P.Pos(f.Pos()), core.F("state %s on byte %q", n, rune(b)), "undecided: stateFn set to a non-constant function value")
					}
				}
				if v, ok := o.St.LastStore("s.finished"); ok {
					if fc, ok := v.(absint.Const); ok && fc.V != nil {
						cur.finished = constant.BoolVal(fc.V)
					} else {
						okAll = false
					}
				}
				if t == nil {
					cp := cur
					t = &cp
				} else if *t != cur {
					okAll = false
					c.Bad(R, core.F("json.scanner.%s:byte%d", n, b), c.P.Pos(f.Pos()), core.F("state %s on byte %q", n, rune(b)), "undecided: transition depends on scanner state other than the byte")
				}
			}
			if t != nil {
				row[b] = *t
			}
		}
		r := row
		trans[n] = &r
	}
	return trans, initial, okAll
}

func c13grammar(c *core.Ctx) { c13grammarAs(c, "C13.grammar") }

func c13grammarAs(c *core.Ctx, R string) {
	c.Rule(R, "json/scanner.go: (driver) Scan stores finished=true right before each indirect state call, a false result returns an error, and after the loop !finished returns an error; (dfa) the recogniser extracted as a DFA over <state method, finished> (every state method specialised for each of the 256 byte values) accepts exactly the RFC 8259 number language: product construction against the reference DFA, each reachable mismatching pair reported with a shortest witness string")
	c.Floor(R, 12)
	// driver contract
	scan := c.P.Method("json", "scanner", "Scan")
	if scan == nil {
		c.Unresolved(R, "(*json.scanner).Scan")
		return
	}
	drv := checkNumberDriver(scan)
	for _, k := range []string{"finished=true before the state call", "false result returns an error", "!finished after the loop returns an error", "no rejection besides the state machine, the finished flag, setExp and the trims"} {
		c.Check(drv[k], R, "(*json.scanner).Scan:"+k, c.P.Pos(scan.Pos()), "driver contract: "+k, "the driver no longer enforces this clause, so the extracted DFA does not describe what Scan accepts")
	}
	trans, initial, okAll := extractNumberDFA(c, R)
	if trans == nil {
		return
	}
	nCells := 0
	for range trans {
		nCells += 256
	}
	// product BFS
	type pair struct {
		st  string
		fin bool
		ref int
	}
	type item struct {
		p pair
		w string
	}
	start := pair{initial, false, rStart}
	seen := map[pair]bool{start: true}
	queue := []item{{start, ""}}
	mismatch := map[string]bool{}
	states := map[string]bool{}
	for len(queue) > 0 {
		it := queue[0]
		queue = queue[1:]
		states[it.p.st] = true
		// acceptance
		implAcc := it.p.fin
		refAcc := refNumAccept[it.p.ref]
		if implAcc != refAcc {
			key := core.F("accept:%s/finished=%v", it.p.st, it.p.fin)
			if !mismatch[key] {
				mismatch[key] = true
				f := c.P.Method("json", "scanner", it.p.st)
				pos := "-"
				if f != nil {
					pos = c.P.Pos(f.Pos())
				}
				verdict := "accepts"
				if !implAcc {
					verdict = "rejects"
				}
				c.Bad(R, "dfa:"+key, pos, core.F("end of input in state %s (finished=%v)", it.p.st, it.p.fin), core.F("NewNumber %s %q but RFC 8259 says the opposite (reference state %d)", verdict, it.w, it.p.ref))
			}
		}
		row := trans[it.p.st]
		if row == nil {
			continue
		}
		for b := 0; b < 256; b++ {
			t := row[b]
			rn := refNumStep(it.p.ref, byte(b))
			implDead := !t.ok
			refDead := rn == rDead
			if implDead != refDead {
				key := core.F("step:%s:%q", it.p.st, rune(b))
				if !mismatch[key] {
					mismatch[key] = true
					f := c.P.Method("json", "scanner", it.p.st)
					verdict := "continues on"
					if implDead {
						verdict = "rejects"
					}
					c.Bad(R, "dfa:"+key, c.P.Pos(f.Pos()), core.F("state %s on byte %q", it.p.st, rune(b)), core.F("scanner %s %q after %q but the RFC 8259 grammar does the opposite", verdict, string(rune(b)), it.w))
				}
				continue
			}
			if implDead {
				continue
			}
			np := pair{t.next, t.finished, rn}
			if !seen[np] {
				seen[np] = true
				queue = append(queue, item{np, it.w + string(rune(b))})
			}
		}
	}
	if len(mismatch) == 0 && okAll {
		c.OKd(R, "dfa:equivalent", c.P.Pos(scan.Pos()), core.F("number DFA (%d state methods x 256 bytes, %d reachable product states) equals the RFC 8259 number grammar", len(trans), len(seen)), "exhaustive product construction")
	}
	var sn []string
	for s := range trans {
		sn = append(sn, s)
	}
	sort.Strings(sn)
	for _, s := range sn {
		f := c.P.Method("json", "scanner", s)
		if states[s] {
			c.OK(R, "state:"+s, c.P.Pos(f.Pos()), "state method "+s+" summarised for 256 bytes and reachable")
		} else {
			c.Note(R, "state:"+s, c.P.Pos(f.Pos()), "state method "+s+" unreachable in the product", "")
		}
	}
	c.Extra["C13.grammar.cells"] = nCells
	c.Extra["exhaustive"] = true
}

// checkNumberDriver verifies the driver clauses structurally on SSA. The loop over the bytes may live
// in Scan itself or in a helper of the package that reports acceptance as a bool (`if !s.accepts(v)
// { return err }`); the normalisation may live in a helper that forwards the errors of the trims.
func checkNumberDriver(scan *ssa.Function) map[string]bool {
	res := map[string]bool{}
	isField := func(v ssa.Value, name string) bool {
		fa, ok := v.(*ssa.FieldAddr)
		if !ok {
			return false
		}
		st, ok := fa.X.Type().Underlying().(*types.Pointer).Elem().Underlying().(*types.Struct)
		return ok && st.Field(fa.Field).Name() == name
	}
	isFinishedLoad := func(v ssa.Value) bool {
		lo, ok := v.(*ssa.UnOp)
		return ok && lo.Op == token.MUL && isField(lo.X, "finished")
	}
	isStateCall := func(v ssa.Value) bool {
		call, ok := v.(*ssa.Call)
		if !ok {
			return false
		}
		lo, ok := call.Call.Value.(*ssa.UnOp)
		return ok && lo.Op == token.MUL && isField(lo.X, "stateFn")
	}
	// rejecting return of f: a non-nil error as last result or, for a bool helper, the constant false
	rejects := func(r *ssa.Return, boolHelper bool) bool {
		if len(r.Results) == 0 {
			return false
		}
		e := r.Results[len(r.Results)-1]
		cst, isC := e.(*ssa.Const)
		if boolHelper {
			return isC && cst.Value != nil && cst.Value.Kind() == constant.Bool && !constant.BoolVal(cst.Value)
		}
		if isC && cst.Value == nil {
			return false
		}
		return true
	}
	retRej := func(b *ssa.BasicBlock, boolHelper bool) bool {
		for i := 0; i < 4 && b != nil; i++ {
			last := b.Instrs[len(b.Instrs)-1]
			if r, ok := last.(*ssa.Return); ok {
				return rejects(r, boolHelper)
			}
			if _, ok := last.(*ssa.Jump); ok {
				b = b.Succs[0]
				continue
			}
			return false
		}
		return false
	}
	// functions that take part: Scan, and bool helpers of the package whose false result makes Scan reject
	type part struct {
		f    *ssa.Function
		bool bool
	}
	parts := []part{{scan, false}}
	helperResult := map[*ssa.Call]bool{} // calls in Scan of an accepted bool helper
	for _, b := range scan.Blocks {
		ifi, ok := b.Instrs[len(b.Instrs)-1].(*ssa.If)
		if !ok {
			continue
		}
		cond := ifi.Cond
		falseSucc := b.Succs[1]
		if u, ok := cond.(*ssa.UnOp); ok && u.Op == token.NOT {
			cond, falseSucc = u.X, b.Succs[0]
		}
		call, ok := cond.(*ssa.Call)
		if !ok {
			continue
		}
		g := call.Call.StaticCallee()
		if g == nil || g.Pkg != scan.Pkg || g.Blocks == nil || g.Signature.Results().Len() != 1 {
			continue
		}
		if bt, ok := g.Signature.Results().At(0).Type().Underlying().(*types.Basic); !ok || bt.Kind() != types.Bool {
			continue
		}
		if retRej(falseSucc, false) {
			parts = append(parts, part{g, true})
			helperResult[call] = true
		}
	}
	for _, p := range parts {
		for _, b := range p.f.Blocks {
			for i, in := range b.Instrs {
				call, isCall := in.(*ssa.Call)
				if !isCall || !isStateCall(call) {
					continue
				}
				// clause 1: a store finished=true earlier in this block, none after it before the call
				for j := i - 1; j >= 0; j-- {
					if st, ok := b.Instrs[j].(*ssa.Store); ok && isField(st.Addr, "finished") {
						if cst, ok := st.Val.(*ssa.Const); ok && cst.Value != nil && constant.BoolVal(cst.Value) {
							res["finished=true before the state call"] = true
						}
						break
					}
				}
				// clause 2
				if ifi, ok := b.Instrs[len(b.Instrs)-1].(*ssa.If); ok && ifi.Cond == ssa.Value(call) {
					res["false result returns an error"] = retRej(b.Succs[1], p.bool)
				}
			}
			last := b.Instrs[len(b.Instrs)-1]
			if ifi, ok := last.(*ssa.If); ok && isFinishedLoad(ifi.Cond) {
				res["!finished after the loop returns an error"] = retRej(b.Succs[1], p.bool)
			}
			// a bool helper may hand the flag itself to the caller, which rejects on false
			if r, ok := last.(*ssa.Return); ok && p.bool && len(r.Results) == 1 && isFinishedLoad(r.Results[0]) {
				res["!finished after the loop returns an error"] = true
			}
		}
	}
	// clause 4: no other rejection. Every rejecting return either forwards the error of setExp / the
	// two trims (directly or through a helper that only forwards them), or is controlled by the
	// state-call result / the finished flag / the result of the accepting helper.
	const k4 = "no rejection besides the state machine, the finished flag, setExp and the trims"
	res[k4] = true
	var forwardsOnly func(f *ssa.Function, d int) bool
	var origin func(v ssa.Value, d int) bool
	origin = func(v ssa.Value, d int) bool {
		if d > 6 {
			return false
		}
		switch x := v.(type) {
		case *ssa.Call:
			if sc := x.Call.StaticCallee(); sc != nil {
				switch pinnedBare(sc) {
				case "setExp", "trimLeadingZerosInTheIntegerPart", "trimTrailingZerosInTheFractionalPart":
					return true
				}
				if sc.Pkg == scan.Pkg && sc.Blocks != nil {
					return forwardsOnly(sc, d+1)
				}
			}
		case *ssa.Extract:
			return origin(x.Tuple, d+1)
		case *ssa.Phi:
			for _, ed := range x.Edges {
				if cst, ok := ed.(*ssa.Const); ok && cst.Value == nil {
					continue
				}
				if !origin(ed, d+1) {
					return false
				}
			}
			return len(x.Edges) > 0
		case *ssa.MakeInterface:
			return origin(x.X, d+1)
		case *ssa.ChangeInterface:
			return origin(x.X, d+1)
		}
		return false
	}
	forwardsOnly = func(f *ssa.Function, d int) bool {
		n := 0
		for _, b := range f.Blocks {
			r, ok := b.Instrs[len(b.Instrs)-1].(*ssa.Return)
			if !ok || len(r.Results) == 0 {
				continue
			}
			e := r.Results[len(r.Results)-1]
			if cst, ok := e.(*ssa.Const); ok && cst.Value == nil {
				continue
			}
			n++
			if !origin(e, d) {
				return false
			}
		}
		return n > 0
	}
	for _, p := range parts {
		for _, b := range p.f.Blocks {
			ret, ok := b.Instrs[len(b.Instrs)-1].(*ssa.Return)
			if !ok || !rejects(ret, p.bool) {
				continue
			}
			if !p.bool && origin(ret.Results[len(ret.Results)-1], 0) {
				continue
			}
			controlled := false
			for d, i := b, 0; d != nil && i < 4; d, i = d.Idom(), i+1 {
				id := d.Idom()
				if id == nil {
					break
				}
				if ifi, ok := id.Instrs[len(id.Instrs)-1].(*ssa.If); ok {
					cond := ifi.Cond
					if u, ok := cond.(*ssa.UnOp); ok && u.Op == token.NOT {
						cond = u.X
					}
					if isStateCall(cond) || isFinishedLoad(cond) {
						controlled = true
					}
					if call, ok := cond.(*ssa.Call); ok && helperResult[call] {
						controlled = true
					}
				}
			}
			if !controlled {
				res[k4] = false
			}
		}
	}
	return res
}

func c13ovf(c *core.Ctx) {
	// the overflow/allocation rule is shared with C02; here it is restricted to the number code
	sub := core.NewCtx(c.P, "C02", c.Tier)
	c02ovf(sub)
	const R = "C13.ovf"
	c.Rule(R, sub.RuleText["C02.ovf"]+" (instances in packages bytes and json)")
	c.Floor(R, 2)
	for _, o := range sub.Obs {
		if strings.Contains(o.Key, "@(bytes.") || strings.Contains(o.Key, "@bytes.") || strings.Contains(o.Key, "json.") {
			o.Rule = R
			o.Key = strings.Replace(o.Key, "C02.ovf@", "C13.ovf@", 1)
			c.Obs = append(c.Obs, o)
		}
	}
}

// c13norm: every successful return of Scan went through the normalisation steps.
func c13norm(c *core.Ctx) {
	const R = "C13.norm"
	c.Rule(R, "must-pass-through: every return of (*json.scanner).Scan that yields a number (non-nil first result) is dominated by the calls to setExp, trimLeadingZerosInTheIntegerPart and trimTrailingZerosInTheFractionalPart and by the zero-sign test: Cmp compares the normalised digit strings, so a number that skips a step (a fast path for plain integers, an early return) compares wrongly with equal values written differently (0 vs 0.0, -0 vs 0)")
	c.Floor(R, 1)
	scan := c.P.Method("json", "scanner", "Scan")
	if scan == nil {
		c.Unresolved(R, "(*json.scanner).Scan")
		return
	}
	// a step is passed where it is called - directly, or inside a helper of the package that is
	// called there and itself passes through the step on every one of its non-error returns
	isStep := func(name string) bool {
		return name == "setExp" || name == "trimLeadingZerosInTheIntegerPart" || name == "trimTrailingZerosInTheFractionalPart"
	}
	var stepsOf func(f *ssa.Function, depth int) map[string]bool
	stepsOf = func(f *ssa.Function, depth int) map[string]bool {
		out := map[string]bool{}
		if f == nil || f.Blocks == nil || depth > 2 {
			return out
		}
		where := map[string]*ssa.BasicBlock{}
		for _, b := range f.Blocks {
			for _, in := range b.Instrs {
				if call, ok := in.(*ssa.Call); ok {
					if sc := call.Call.StaticCallee(); sc != nil {
						if isStep(pinnedBare(sc)) {
							where[pinnedBare(sc)] = b
						} else if core.FuncPkgPath(sc) == core.FuncPkgPath(f) {
							for k := range stepsOf(sc, depth+1) {
								where[k] = b
							}
						}
					}
				}
			}
		}
		// a step counts for f when it dominates every return that does not hand back an error
		for name, sb := range where {
			all := true
			for _, b := range f.Blocks {
				ret, ok := b.Instrs[len(b.Instrs)-1].(*ssa.Return)
				if !ok {
					continue
				}
				isErr := false
				for _, r := range ret.Results {
					if core.IsErrorType(r.Type()) {
						if cst, isC := r.(*ssa.Const); !isC || cst.Value != nil || !cst.IsNil() {
							isErr = true
						}
					}
				}
				if !isErr && !(sb == b || sb.Dominates(b)) {
					all = false
				}
			}
			if all {
				out[name] = true
			}
		}
		return out
	}
	steps := map[string]*ssa.BasicBlock{}
	for _, b := range scan.Blocks {
		for _, in := range b.Instrs {
			if call, ok := in.(*ssa.Call); ok {
				if sc := call.Call.StaticCallee(); sc != nil {
					if isStep(pinnedBare(sc)) {
						steps[pinnedBare(sc)] = b
					} else if core.FuncPkgPath(sc) == core.FuncPkgPath(scan) {
						for k := range stepsOf(sc, 1) {
							steps[k] = b
						}
					}
				}
			}
		}
	}
	n := 0
	for _, b := range scan.Blocks {
		ret, ok := b.Instrs[len(b.Instrs)-1].(*ssa.Return)
		if !ok || len(ret.Results) != 2 {
			continue
		}
		if cst, isC := ret.Results[0].(*ssa.Const); isC && cst.Value == nil {
			continue // error return
		}
		n++
		var missing []string
		for _, name := range []string{"setExp", "trimLeadingZerosInTheIntegerPart", "trimTrailingZerosInTheFractionalPart"} {
			sb := steps[name]
			if sb == nil || !(sb == b || sb.Dominates(b)) {
				missing = append(missing, name)
			}
		}
		c.Check(len(missing) == 0, R, core.F("Scan:success-return#%d", n), c.P.Pos(ret.Pos()), "successful return of Scan passes through every normalisation step", core.F("a number is returned without passing through %v: equal values written differently no longer compare equal", missing))
	}
	if n == 0 {
		c.Bad(R, "Scan:success-return", c.P.Pos(scan.Pos()), "successful return of Scan", "undecided: no return with a non-nil number found")
	}
}
