package rules

import (
	"go/ast"
	"go/constant"
	"go/token"
	"go/types"
	"regexp"
	"sort"
	"strings"

	"jsverif/internal/core"
)

func init() {
	Register("C01", "Decides structural necessary conditions of 'Check() verdict = rule semantics': (cmp) every value validator and compile-time pair check is the right decision table over all orderings and exclusivity flags; (registry) each rule name is wired to the constraint whose Type().String() is that name; (excl) exclusiveMinimum/Maximum are folded into min/max symmetrically; (dispatch) every constraint of a literal is validated, the only short-circuit is nullable+null, and every value-carrying constraint implements a validator interface; (or) an `or` fails iff all alternatives fail; (jsontype) the JSON-type acceptance table; (formats) format validators call the documented stdlib parser. Does NOT decide the composition over arbitrary programs, regex matching or number parsing (C13).",
		unnamedNameRule("C01.unnamedname"), c01cmp, func(c *core.Ctx) { c13predR(c, "C01.num") }, c01registry, c01excl, c01dispatch, c01or, c01formats, decodedRule("C01.decoded"), c01alltypes, c01charlen, c01diamond, checkedValueRule("C01.checkedvalue"), c01uuid, falseRulesRule("C01.falserules"), enumMemberRule("C01.enummember"), func(c *core.Ctx) { c03unquoteAs(c, "C01.unquote") }, func(c *core.Ctx) { c13cmpAs(c, "C01.numcmp") })
}

// decodeStringer returns value -> name of a stringer-generated type.
func decodeStringer(c *core.Ctx, pkgRel, typ string) map[int64]string {
	pk := c.P.Pkg(pkgRel)
	if pk == nil {
		return nil
	}
	nameObj, _ := pk.Types.Scope().Lookup("_" + typ + "_name").(*types.Const)
	idx := core.PkgVarInit(pk, "_"+typ+"_index")
	if nameObj == nil || idx == nil {
		return nil
	}
	name := constant.StringVal(nameObj.Val())
	var offs []int64
	for _, e := range core.MapLit(pk, idx) {
		if e.ValC == nil {
			return nil
		}
		v, _ := constantInt64(e.ValC)
		offs = append(offs, v)
	}
	out := map[int64]string{}
	for i := 0; i+1 < len(offs); i++ {
		if offs[i] < 0 || offs[i+1] > int64(len(name)) || offs[i] > offs[i+1] {
			return nil
		}
		out[int64(i)] = name[offs[i]:offs[i+1]]
	}
	return out
}

// typeMethodConst: the constant returned by T.Type().
func typeMethodConst(c *core.Ctx, named *types.Named) (int64, bool) {
	d := c.P.FindDecl(core.Rel("(" + named.Obj().Pkg().Path() + "." + named.Obj().Name() + ").Type"))
	if d == nil {
		d = c.P.FindDecl(core.Rel("(*" + named.Obj().Pkg().Path() + "." + named.Obj().Name() + ").Type"))
	}
	if d == nil || d.Decl.Body == nil || len(d.Decl.Body.List) != 1 {
		return 0, false
	}
	ret, ok := d.Decl.Body.List[0].(*ast.ReturnStmt)
	if !ok || len(ret.Results) != 1 {
		return 0, false
	}
	v := core.ConstOf(d.Pkg, ret.Results[0])
	if v == nil {
		return 0, false
	}
	return constantInt64(v)
}

func c01registry(c *core.Ctx) {
	const R = "C01.registry"
	c.Rule(R, "in constraint.NewConstraintFromRule every `case \"S\"` returns a constructor whose result type T satisfies T.Type().String() == S (decoded from the stringer tables): a cross-wired rule name would validate/describe a different rule than the one written; every declared constraint type has a non-empty, unique name")
	c.Floor(R, 15)
	K := "notations/jschema/ischema/constraint"
	names := decodeStringer(c, K, "Type")
	d := c.P.FindDecl(K + ".NewConstraintFromRule")
	if names == nil || d == nil {
		c.Unresolved(R, K+".NewConstraintFromRule / stringer tables of constraint.Type")
		return
	}
	// the dispatch from rule name to constructor: the cases of a switch over the name, or the entries
	// of a table map[string]func(...) Constraint that the function looks the name up in
	type dispatch struct {
		S    string
		body []ast.Stmt
		pos  token.Pos
	}
	var entries []dispatch
	var sw *ast.SwitchStmt
	ast.Inspect(d.Decl.Body, func(n ast.Node) bool {
		if s, ok := n.(*ast.SwitchStmt); ok && sw == nil {
			sw = s
		}
		return true
	})
	if sw != nil {
		for _, cl := range sw.Body.List {
			cc := cl.(*ast.CaseClause)
			for _, e := range cc.List {
				v := core.ConstOf(d.Pkg, e)
				if v == nil || v.Kind() != constant.String {
					continue
				}
				entries = append(entries, dispatch{constant.StringVal(v), cc.Body, cc.Pos()})
			}
		}
	} else {
		ast.Inspect(d.Decl.Body, func(n ast.Node) bool {
			ix, ok := n.(*ast.IndexExpr)
			if !ok || len(entries) > 0 {
				return true
			}
			id, isID := ast.Unparen(ix.X).(*ast.Ident)
			if !isID {
				return true
			}
			init := core.PkgVarInit(d.Pkg, id.Name)
			cl, isCL := ast.Unparen(init).(*ast.CompositeLit)
			if init == nil || !isCL {
				return true
			}
			for _, el := range cl.Elts {
				kv, isKV := el.(*ast.KeyValueExpr)
				if !isKV {
					continue
				}
				v := core.ConstOf(d.Pkg, kv.Key)
				if v == nil || v.Kind() != constant.String {
					continue
				}
				if body, _ := funcArgDecl(c, d.Pkg, kv.Value); body != nil {
					entries = append(entries, dispatch{constant.StringVal(v), body.List, kv.Pos()})
				} else {
					entries = append(entries, dispatch{constant.StringVal(v), nil, kv.Pos()})
				}
			}
			return true
		})
	}
	if len(entries) == 0 {
		c.Bad(R, K+".NewConstraintFromRule:switch", c.P.Pos(d.Decl.Pos()), "rule-name dispatch", "undecided: neither a switch over the rule name nor a lookup in a table of constructors")
		return
	}
	{
		for _, en := range entries {
			S := en.S
			key := K + ".NewConstraintFromRule:case:" + S
			pos := c.P.Pos(en.pos)
			if len(en.body) != 1 {
				c.Bad(R, key, pos, "case "+S, "undecided: case body is not a single return")
				continue
			}
			ret, ok := en.body[0].(*ast.ReturnStmt)
			if !ok || len(ret.Results) != 1 {
				c.Bad(R, key, pos, "case "+S, "undecided: case body is not `return NewX(...)`")
				continue
			}
			t := core.TypeOf(d.Pkg, ret.Results[0])
			if p, ok := t.(*types.Pointer); ok {
				t = p.Elem()
			}
			named, ok := t.(*types.Named)
			if !ok {
				c.Bad(R, key, pos, "case "+S, "undecided: constructor result is not a named constraint type")
				continue
			}
			tv, ok := typeMethodConst(c, named)
			if !ok {
				c.Bad(R, key, pos, "case "+S+" -> "+named.Obj().Name(), "undecided: "+named.Obj().Name()+".Type() does not return a constant")
				continue
			}
			got := names[tv]
			c.Check(got == S, R, key, pos, core.F("rule %q -> %s, whose Type().String() is %q", S, named.Obj().Name(), got),
				"the rule name is wired to a constraint of another kind: the rule written in the schema is not the rule that is checked/reported")
		}
	}
	// names unique and non-empty (except the internal last one)
	seen := map[string]int64{}
	var vals []int64
	for v := range names {
		vals = append(vals, v)
	}
	sort.Slice(vals, func(i, j int) bool { return vals[i] < vals[j] })
	for _, v := range vals {
		n := names[v]
		if o, dup := seen[n]; dup {
			c.Bad(R, core.F("name:%d", v), "-", core.F("constraint type %d is named %q", v, n), core.F("same name as type %d", o))
		}
		seen[n] = v
	}
}

// c01excl: exclusiveMinimum / exclusiveMaximum folding.
func c01excl(c *core.Ctx) {
	const R = "C01.excl"
	c.Rule(R, "schemaCompiler.exclusiveMinimumConstraint reads the ExclusiveMinimum constraint, requires Min to be present, calls SetExclusive(true) on the *Min only under IsExclusive(), and deletes the consumed constraint; exclusiveMaximumConstraint is its mirror clone under min<->max")
	c.Floor(R, 3)
	L := "(notations/jschema/loader.schemaCompiler)."
	a, b := c.P.FindDecl(L+"exclusiveMinimumConstraint"), c.P.FindDecl(L+"exclusiveMaximumConstraint")
	if a == nil || b == nil {
		c.Unresolved(R, L+"exclusiveMinimumConstraint / exclusiveMaximumConstraint")
		return
	}
	norm := func(d *core.DeclSite) string {
		return core.NormFunc(d.Pkg, d.Decl, [][2]string{{"Minimum", "EXT"}, {"Maximum", "EXT"}, {"Min", "M"}, {"Max", "M"}})
	}
	na, nb := norm(a), norm(b)
	c.Check(na == nb, R, "mirror", c.P.Pos(b.Decl.Pos()), "exclusiveMaximumConstraint ≡ exclusiveMinimumConstraint under min<->max", "the two folding functions diverge: "+core.FirstDiff(na, nb))
	// shape of the minimum variant
	for _, d := range []*core.DeclSite{a, b} {
		name := d.Decl.Name.Name
		setUnderIsExclusive, deleted, requires := false, false, false
		ast.Inspect(d.Decl.Body, func(n ast.Node) bool {
			switch x := n.(type) {
			case *ast.IfStmt:
				cond := core.ExprStr(x.Cond)
				if strings.Contains(cond, ".IsExclusive()") {
					ast.Inspect(x.Body, func(m ast.Node) bool {
						if call, ok := m.(*ast.CallExpr); ok && strings.HasSuffix(core.FullName(core.Callee(d.Pkg, call)), ").SetExclusive") && len(call.Args) == 1 {
							if v := core.ConstOf(d.Pkg, call.Args[0]); v != nil && constantBool(v) {
								setUnderIsExclusive = true
							}
						}
						return true
					})
				}
				if strings.HasSuffix(cond, "== nil") {
					ast.Inspect(x.Body, func(m ast.Node) bool {
						if call, ok := m.(*ast.CallExpr); ok {
							if id, ok := call.Fun.(*ast.Ident); ok && id.Name == "panic" {
								requires = true
							}
						}
						return true
					})
				}
			case *ast.CallExpr:
				if strings.HasSuffix(core.ExprStr(x.Fun), ".DeleteConstraint") {
					deleted = true
				}
			}
			return true
		})
		// SetExclusive must not be called outside the IsExclusive guard
		calls := 0
		ast.Inspect(d.Decl.Body, func(n ast.Node) bool {
			if call, ok := n.(*ast.CallExpr); ok && strings.HasSuffix(core.FullName(core.Callee(d.Pkg, call)), ").SetExclusive") {
				calls++
			}
			return true
		})
		ok := setUnderIsExclusive && deleted && requires && calls == 1
		c.Check(ok, R, name+":shape", c.P.Pos(d.Decl.Pos()), name+": SetExclusive(true) only under IsExclusive(), base rule required, consumed rule deleted",
			core.F("folding no longer has the expected shape (setUnderIsExclusive=%v deleted=%v requiresBase=%v SetExclusive calls=%d): `exclusiveMinimum: false` could make the bound exclusive, or the flag is lost", setUnderIsExclusive, deleted, requires, calls))
	}
}

// c01dispatch: every constraint of a literal node is validated.
func c01dispatch(c *core.Ctx) {
	const R = "C01.dispatch"
	c.Rule(R, "ValidateLiteralValue collects the keys of the node's whole constraint map, iterates all of them and calls LiteralValidator.Validate on each constraint that implements it; the only early return is guarded by both the Nullable constraint and value == \"null\"; every constraint struct that carries a value rule implements LiteralValidator or ArrayValidator; checkArrayNode applies both array validators")
	c.Floor(R, 14)
	d := c.P.FindDecl("notations/jschema/checker.ValidateLiteralValue")
	if d == nil {
		c.Unresolved(R, "notations/jschema/checker.ValidateLiteralValue")
		return
	}
	pos := c.P.Pos(d.Decl.Pos())
	// (1) the loop: range over `keys`, body gets the constraint and calls Validate under a type assertion
	validateInLoop, filtered := false, false
	var keysObj types.Object
	ast.Inspect(d.Decl.Body, func(n ast.Node) bool {
		rs, ok := n.(*ast.RangeStmt)
		if !ok {
			return true
		}
		if id, ok := ast.Unparen(rs.X).(*ast.Ident); ok {
			keysObj = d.Pkg.TypesInfo.ObjectOf(id)
		}
		ast.Inspect(rs.Body, func(m ast.Node) bool {
			switch x := m.(type) {
			case *ast.CallExpr:
				if core.FullName(core.Callee(d.Pkg, x)) == "(notations/jschema/ischema/constraint.LiteralValidator).Validate" {
					validateInLoop = true
				}
			case *ast.BranchStmt:
				if x.Tok == token.CONTINUE || x.Tok == token.BREAK {
					filtered = true
				}
			case *ast.ReturnStmt:
				filtered = true
			}
			return true
		})
		return false
	})
	c.Check(validateInLoop && !filtered, R, "ValidateLiteralValue:loop", pos, "every collected constraint kind reaches LiteralValidator.Validate (no continue/break/return in the loop)", "the validation loop skips constraints or no longer calls Validate: a rule written next to a value is not applied")
	// (2) keys are appended for every element of the constraint map (EachSafe callback appends unconditionally)
	appendAll := false
	inspectDeep(c, d, 1, func(hd *core.DeclSite, n ast.Node) bool {
		call, ok := n.(*ast.CallExpr)
		if !ok || !strings.HasSuffix(core.FullName(core.Callee(hd.Pkg, call)), "Constraints).EachSafe") || len(call.Args) != 1 {
			return true
		}
		fl, ok := call.Args[0].(*ast.FuncLit)
		if !ok || len(fl.Body.List) != 1 {
			return true
		}
		// the callback is one unconditional `keys = append(keys, ...)`
		if as, ok := fl.Body.List[0].(*ast.AssignStmt); ok && len(as.Lhs) == 1 && len(as.Rhs) == 1 {
			if ap, ok := as.Rhs[0].(*ast.CallExpr); ok && core.ExprStr(ap.Fun) == "append" && len(ap.Args) >= 2 && core.ExprStr(ap.Args[0]) == core.ExprStr(as.Lhs[0]) {
				if hd.Decl == d.Decl {
					if id, ok := as.Lhs[0].(*ast.Ident); ok && d.Pkg.TypesInfo.ObjectOf(id) == keysObj {
						appendAll = true
					}
				} else {
					appendAll = true // built in a helper whose result is the list
				}
			}
		}
		return true
	})
	c.Check(appendAll, R, "ValidateLiteralValue:keys", pos, "the key list is filled unconditionally from the whole constraint map", "the list of constraint kinds to validate is filtered or no longer built from the node's constraint map")
	// (3) only early return: nullable && value == "null"
	nret := 0
	okRet := true
	for _, st := range d.Decl.Body.List {
		ifs, ok := st.(*ast.IfStmt)
		if !ok {
			continue
		}
		hasRet := false
		for _, s2 := range ifs.Body.List {
			if _, ok := s2.(*ast.ReturnStmt); ok {
				hasRet = true
			}
		}
		if !hasRet {
			continue
		}
		nret++
		cond := core.ExprStr(ifs.Cond)
		init := ""
		if ifs.Init != nil {
			if as, ok := ifs.Init.(*ast.AssignStmt); ok && len(as.Rhs) == 1 {
				init = core.ExprStr(as.Rhs[0])
			}
		}
		if !(strings.Contains(init+cond, "NullableConstraintType") && strings.Contains(cond, `"null"`) && strings.Contains(cond, "&&")) {
			okRet = false
		}
	}
	c.Check(okRet && nret == 1, R, "ValidateLiteralValue:shortcircuit", pos, "the only early return is `Nullable present && value == \"null\"`", core.F("found %d early returns, or the nullable short-circuit lost one of its two conditions: values skip validation", nret))
	// (4) validator interfaces implemented by the value-carrying constraints
	K := c.P.Pkg("notations/jschema/ischema/constraint")
	lv, _ := K.Types.Scope().Lookup("LiteralValidator").Type().Underlying().(*types.Interface)
	av, _ := K.Types.Scope().Lookup("ArrayValidator").Type().Underlying().(*types.Interface)
	wantLit := []string{"Min", "Max", "MinLength", "MaxLength", "Precision", "Regex", "Enum", "Const", "Email", "Uri", "UUID", "Date", "DateTime"}
	wantArr := []string{"MinItems", "MaxItems"}
	for _, n := range wantLit {
		obj := K.Types.Scope().Lookup(n)
		if obj == nil {
			c.Unresolved(R, "constraint."+n)
			continue
		}
		ok := types.Implements(obj.Type(), lv) || types.Implements(types.NewPointer(obj.Type()), lv)
		c.Check(ok, R, "implements:"+n, c.P.Pos(obj.Pos()), "constraint."+n+" implements LiteralValidator", "the constraint no longer implements LiteralValidator: ValidateLiteralValue silently skips it (type assertion fails) and the rule is never applied")
	}
	for _, n := range wantArr {
		obj := K.Types.Scope().Lookup(n)
		if obj == nil {
			c.Unresolved(R, "constraint."+n)
			continue
		}
		ok := types.Implements(obj.Type(), av) || types.Implements(types.NewPointer(obj.Type()), av)
		c.Check(ok, R, "implements:"+n, c.P.Pos(obj.Pos()), "constraint."+n+" implements ArrayValidator", "the constraint no longer implements ArrayValidator: array length rules are skipped")
	}
	// (5) checkArrayNode / array validators both applied
	found := map[string]bool{}
	for _, ds := range c.P.FuncDecls() {
		if core.Rel(ds.Pkg.PkgPath) != "notations/jschema/checker" {
			continue
		}
		ast.Inspect(ds.Decl.Body, func(n ast.Node) bool {
			if call, ok := n.(*ast.CallExpr); ok && strings.HasSuffix(core.FullName(core.Callee(ds.Pkg, call)), ").ValidateTheArray") {
				// which constraint type was fetched in this function
				ast.Inspect(ds.Decl.Body, func(m ast.Node) bool {
					if se, ok := m.(*ast.SelectorExpr); ok && (se.Sel.Name == "MinItemsConstraintType" || se.Sel.Name == "MaxItemsConstraintType") {
						found[se.Sel.Name] = true
					}
					return true
				})
			}
			return true
		})
	}
	c.Check(found["MinItemsConstraintType"] && found["MaxItemsConstraintType"], R, "array-validators", "-", "the checker applies ValidateTheArray for both minItems and maxItems", core.F("array validators applied: %v", found))
}

// c01or: `or` fails iff all alternatives fail.
func c01or(c *core.Ctx) {
	const R = "C01.or"
	c.Rule(R, "checkSchema.checkLiteralNode, evaluated with 0, 1, 2 and 3 alternative checkers and every pattern of failing ones (15 cells): the value is refused (panic) exactly when every alternative fails; with one alternative the error raised is that alternative's own")
	c.Floor(R, 1)
	d := c.P.FindDecl("(notations/jschema/checker.checkSchema).checkLiteralNode")
	if d == nil {
		c.Unresolved(R, "(notations/jschema/checker.checkSchema).checkLiteralNode")
		return
	}
	// the variable holding the list of checkers
	listVar, listType := "", ""
	ast.Inspect(d.Decl.Body, func(n ast.Node) bool {
		if as, ok := n.(*ast.AssignStmt); ok && len(as.Lhs) == 1 && len(as.Rhs) == 1 {
			if call, ok := as.Rhs[0].(*ast.CallExpr); ok && strings.HasSuffix(core.ExprStr(call.Fun), ".checkerList") {
				listVar = core.ExprStr(as.Lhs[0])
				if t := core.TypeOf(d.Pkg, call); t != nil {
					listType = t.String()
				}
			}
		}
		return true
	})
	if listVar == "" {
		c.Bad(R, "checkLiteralNode:all-fail", c.P.Pos(d.Decl.Pos()), "the list of alternative checkers", "undecided: no `x := c.checkerList(...)`")
		return
	}
	bad := ""
	cells := 0
	for n := 0; n <= 3 && bad == ""; n++ {
		for mask := 0; mask < 1<<n && bad == ""; mask++ {
			cells++
			e := &miniEval{pk: d.Pkg, env: map[string]int64{}, ctx: c, helpers: true}
			isList := func(x ast.Expr) bool {
				if core.ExprStr(x) == listVar {
					return true
				}
				// the list handed to a helper of the package under another name: same slice type
				if id, ok := ast.Unparen(x).(*ast.Ident); ok && listType != "" {
					if t := core.TypeOf(d.Pkg, id); t != nil && t.String() == listType {
						return true
					}
				}
				return false
			}
			e.rng = func(x ast.Expr) ([]int64, bool) {
				if isList(x) {
					out := make([]int64, n)
					for i := range out {
						out[i] = int64(i)
					}
					return out, true
				}
				return nil, false
			}
			e.hook = func(x ast.Expr) (int64, bool) {
				switch y := x.(type) {
				case *ast.Ident:
					if y.Name == "nil" {
						return 0, true
					}
				case *ast.CallExpr:
					if core.ExprStr(y.Fun) == "len" && len(y.Args) == 1 && isList(y.Args[0]) {
						return int64(n), true
					}
					if sel, ok := y.Fun.(*ast.SelectorExpr); ok && sel.Sel.Name == "Check" {
						// which checker: the range variable, or list[i]
						idx := int64(-1)
						switch r := ast.Unparen(sel.X).(type) {
						case *ast.Ident:
							idx = e.env[r.Name]
						case *ast.IndexExpr:
							if isList(r.X) {
								idx = e.expr(r.Index)
							}
						}
						if idx >= 0 && idx < int64(n) {
							return int64(mask>>uint(idx)) & 1, true
						}
					}
					// a helper of the package is evaluated in place
					if fo, isF := core.Callee(d.Pkg, y).(*types.Func); isF && fo.Pkg() != nil && fo.Pkg().Path() == d.Pkg.PkgPath && fo.Name() != "checkerList" {
						if hd := c.P.FindDecl(core.Rel(fo.FullName())); hd != nil && hd.Decl.Body != nil && hd.Decl.Recv == nil {
							return 0, false
						}
					}
					return 0, true // other calls (lexeme getters, error constructors) carry no decision
				}
				return 0, false
			}
			st, _ := e.run(d.Decl.Body.List)
			allFail := mask == 1<<n-1
			switch {
			case e.unknown != "":
				bad = "undecided: " + e.unknown
			case (st == miniPanic) != allFail:
				bad = core.F("%d alternatives, failing pattern %0*b: refused=%v, expected %v - a value matching one alternative is refused, or a value matching none is accepted", n, n, mask, st == miniPanic, allFail)
			case n == 1 && allFail && len(e.effects) > 0 && !panicOfVar.MatchString(e.effects[len(e.effects)-1]):
				bad = "with a single alternative the error raised is not that alternative's own: " + e.effects[len(e.effects)-1]
			}
		}
	}
	c.Check(bad == "", R, "checkLiteralNode:all-fail", c.P.Pos(d.Decl.Pos()), core.F("an `or` value is refused iff every alternative fails (%d cells)", cells), bad)
}

func c01formats(c *core.Ctx) {
	const R = "C01.formats"
	c.Rule(R, "each built-in string format validator calls the resolved standard-library parser with the documented constant and panics iff it fails: date -> time.Parse(\"2006-01-02\"), datetime -> time.Parse(time.RFC3339), email -> net/mail.ParseAddress (plus the module's own checks), uri -> net/url.ParseRequestURI")
	c.Floor(R, 4)
	K := "notations/jschema/ischema/constraint"
	want := []struct{ typ, callee, arg string }{
		{"Date", "time.Parse", "2006-01-02"},
		{"DateTime", "time.Parse", "2006-01-02T15:04:05Z07:00"},
		{"Email", "net/mail.ParseAddress", ""},
		{"Uri", "net/url.ParseRequestURI", ""},
	}
	for _, w := range want {
		d := c.P.FindDecl("(" + K + "." + w.typ + ").Validate")
		if d == nil {
			c.Unresolved(R, "("+K+"."+w.typ+").Validate")
			continue
		}
		ok := false
		ast.Inspect(d.Decl.Body, func(n ast.Node) bool {
			call, isC := n.(*ast.CallExpr)
			if !isC || core.FullName(core.Callee(d.Pkg, call)) != w.callee {
				return true
			}
			if w.arg == "" {
				ok = true
				return true
			}
			if len(call.Args) > 0 {
				if v := core.ConstOf(d.Pkg, call.Args[0]); v != nil && v.Kind() == constant.String && constant.StringVal(v) == w.arg {
					ok = true
				}
			}
			return true
		})
		// must panic under err != nil
		panics := false
		ast.Inspect(d.Decl.Body, func(n ast.Node) bool {
			if ifs, isIf := n.(*ast.IfStmt); isIf && strings.Contains(core.ExprStr(ifs.Cond), "!= nil") {
				ast.Inspect(ifs.Body, func(m ast.Node) bool {
					if call, isC := m.(*ast.CallExpr); isC {
						if id, isId := call.Fun.(*ast.Ident); isId && id.Name == "panic" {
							panics = true
						}
					}
					return true
				})
			}
			return true
		})
		c.Check(ok && panics, R, w.typ, c.P.Pos(d.Decl.Pos()), core.F("%s.Validate calls %s(%q) and panics on error", w.typ, w.callee, w.arg), "the format validator no longer delegates to the documented parser/layout (or ignores its error): values of the wrong format pass")
	}
}

// panicOfVar: `panic(x)` with a plain variable - an error value obtained earlier, not one built on the spot.
var panicOfVar = regexp.MustCompile(`^panic\([A-Za-z_][A-Za-z0-9_]*\)$`)
