package rules

import (
	"go/ast"
	"go/constant"
	"go/token"
	"strings"

	"jsverif/internal/absint"
	"jsverif/internal/core"
)

func init() {
	Register("C15", "Decides three structural necessary conditions of 'what follows never moves the boundary' for the schema scanner's Len(): (boundary) once the root value is complete (state stateEndTop, empty lexeme stack, no annotation open, length mode) every byte other than a blank, `/` and `#` emits the EndTop lexeme and nothing else; (stop) Length() stops reading at the EndTop lexeme; (arith) the candidate length is End()+1 after a lexeme and End() or End()-1 at EndTop (the lexeme lies on the first trailing byte; the property only speaks of trailing text on a new line, so at least one blank precedes it), after which exactly SP, TAB, LF, CR are dropped from the end. (pairing) every dedicated callee of the return-to-step stack (escape, comment states) leaves by a pop, so the scanner is back in stateEndTop when the root value and its annotation end. Does NOT decide prefix acceptance, idempotence of Len on the prefix, equality of ASTs, nor the values of the lexeme positions.",
		annoEndRule("C15.annoend"), gluedRule("C15.glued"), c15boundary, c15stop, c15arith, c15newline, c15lineend, asciiBlankRule("C15.asciiblank"), sameFileRule("C15.samefile"), bytewiseRule("C15.bytewise"), eofNewlineRule("C15.eofnl"), blockCommentEOFRule("C15.blockeof"), pairingRule("C15.pairing", []string{"notations/jschema/scanner"}))
}

func c15boundary(c *core.Ctx) {
	const R = "C15.boundary"
	c.Rule(R, "per-byte summary of notations/jschema/scanner.stateEndTop under <lengthComputing, no annotation, empty stack>: for each of the 250 bytes that are not SP, TAB, LF, CR, `/`, `#` the only effect is found(EndTop) (no state change, no store, no error); for LF/CR the only effect is found(NewLine): the first byte of a follow-up text ends the measurement whatever it is")
	c.Floor(R, 250)
	m := buildScanModel(c, "notations/jschema/scanner")
	rows, ok := m.rows["stateEndTop"]
	if !ok {
		c.Unresolved(R, "notations/jschema/scanner.stateEndTop")
		return
	}
	pos := c.P.Pos(m.states["stateEndTop"].Pos())
	// the configuration <length mode, no annotation, empty lexeme stack, no trailing characters seen>:
	// every guard atom is EVALUATED under it (not matched by its spelling), so that `Len() > 0`,
	// `Len() == 0`, `!(Len() != 0)` ... all mean the same
	term := func(v absint.Val) (int64, bool) {
		if cv, ok := v.(absint.Const); ok && cv.V != nil {
			if n, ok := constantInt64(cv.V); ok {
				return n, true
			}
			if cv.V.Kind() == constant.Bool {
				return b2i(constant.BoolVal(cv.V)), true
			}
			return 0, false
		}
		k := v.Key()
		switch {
		case k == "load:&s.lengthComputing":
			return 1, true
		case k == "load:&s.annotation":
			return 0, true
		case k == "load:&s.hasTrailingCharacters":
			return 0, true // set only with a non-empty stack (invalid schema kept scanning)
		case strings.HasPrefix(k, "call:(*internal/ds.Stack[lexeme.LexEvent]).Len"):
			return 0, true
		}
		return 0, false
	}
	var eval func(v absint.Val) (int64, bool)
	eval = func(v absint.Val) (int64, bool) {
		if n, ok := term(v); ok {
			return n, true
		}
		sy, ok := v.(absint.Sym)
		if !ok {
			return 0, false
		}
		switch sy.Op {
		case "un":
			if len(sy.Args) == 1 && sy.Name == "!" {
				if x, ok := eval(sy.Args[0]); ok {
					return b2i(x == 0), true
				}
			}
		case "bin":
			if len(sy.Args) != 2 {
				return 0, false
			}
			x, okx := eval(sy.Args[0])
			y, oky := eval(sy.Args[1])
			if !okx || !oky {
				return 0, false
			}
			switch sy.Name {
			case "==":
				return b2i(x == y), true
			case "!=":
				return b2i(x != y), true
			case ">":
				return b2i(x > y), true
			case "<":
				return b2i(x < y), true
			case ">=":
				return b2i(x >= y), true
			case "<=":
				return b2i(x <= y), true
			}
		}
		return 0, false
	}
	consistent := func(p scanPath) bool {
		for _, a := range p.atoms {
			if v, ok := eval(a.Cond); ok && (v != 0) != a.Truth {
				return false
			}
		}
		return true
	}
	for b := 0; b < 256; b++ {
		if b == ' ' || b == '\t' || b == '/' || b == '#' {
			continue
		}
		var ps []scanPath
		for _, p := range rows[b].paths {
			if consistent(p) {
				ps = append(ps, p)
			}
		}
		want := "EndTop"
		if b == '\n' || b == '\r' {
			want = "NewLine"
		}
		key := core.F("stateEndTop:%q", rune(b))
		ok := len(ps) >= 1
		why := ""
		for _, p := range ps {
			if p.kind != "return" || p.next != "" || len(p.pushes) > 0 || p.pops > 0 || len(p.stores) > 0 || len(p.finds) != 1 || p.finds[0] != want {
				ok = false
				why = clip(p.String(), 200)
			}
		}
		if len(ps) == 0 {
			why = "no path for this configuration"
		}
		if ok {
			c.OK(R, key, pos, core.F("byte %q after the complete root value: found(%s) only", rune(b), want))
		} else {
			c.Bad(R, key, pos, core.F("byte %q after the complete root value: found(%s) only", rune(b), want), "a follow-up text beginning with this byte does not simply end the measurement (it is consumed, changes the state or is an error), so Len() of schema+text differs from Len() of the schema: "+why)
		}
	}
}

func c15stop(c *core.Ctx) {
	const R = "C15.stop"
	c.Rule(R, "in (*Scanner).Length the loop over Next() is left (break/return) in the branch that recognises the EndTop lexeme: nothing after the first trailing byte is read")
	c.Floor(R, 1)
	d := c.P.FindDecl("(*notations/jschema/scanner.Scanner).Length")
	if d == nil {
		c.Unresolved(R, "(*notations/jschema/scanner.Scanner).Length")
		return
	}
	ok := false
	lexLoop := lexemeLoop(c, d)
	if lexLoop == nil {
		c.Bad(R, "Length:break-at-EndTop", c.P.Pos(d.Decl.Pos()), "the lexeme loop of Length", "undecided: no loop calling Next() in Length or its helpers")
		return
	}
	ast.Inspect(lexLoop.Body, func(n ast.Node) bool {
		ifs, isIf := n.(*ast.IfStmt)
		if !isIf || !strings.Contains(core.ExprStr(ifs.Cond), "EndTop") {
			return true
		}
		if len(ifs.Body.List) > 0 {
			switch last := ifs.Body.List[len(ifs.Body.List)-1].(type) {
			case *ast.BranchStmt:
				ok = last.Tok == token.BREAK
			case *ast.ReturnStmt:
				ok = true
			}
		}
		return true
	})
	c.Check(ok, R, "Length:break-at-EndTop", c.P.Pos(d.Decl.Pos()), "Length() stops at the EndTop lexeme", "scanning continues into the follow-up text: its content decides the result (or raises an error)")
}

func c15arith(c *core.Ctx) {
	lenArith(c, "C15.arith", "(*notations/jschema/scanner.Scanner).Length", func(k int64) bool { return k == 0 || k == -1 }, "candidate length = End() or End()-1 (a blank precedes the trailer)",
		"structure of (*notations/jschema/scanner.Scanner).Length: candidate = End()+1 after a lexeme; at the EndTop lexeme (which lies on the first byte of the follow-up text, preceded by at least the line break) End() or End()-1; then exactly SP, TAB, LF, CR are dropped from the end (predicate evaluated for all 256 bytes)")
}

// c15lineend: a reference shortcut ends at the end of its line.
func c15lineend(c *core.Ctx) {
	const R = "C15.lineend"
	c.Rule(R, "in the states of a type reference / `@a | @b` shortcut that accept the separator `|` (after a type name, between a name and the pipe) a line break is not a blank: the row of LF differs from the row of SPACE (LF ends the value through stateEndValue, SPACE waits for a pipe). If LF were skipped like SPACE the text on the line after a root `@cat` (`| @dog`, a one-character line) would be taken for a continuation of the schema and move the boundary found by Len()")
	c.Floor(R, 2)
	m := buildScanModel(c, "notations/jschema/scanner")
	n := 0
	for _, name := range m.names {
		rows := m.rows[name]
		pipe := false
		for _, p := range rows['|'].paths {
			if p.kind == "return" && p.next != "" && p.next != name && len(p.finds) == 0 {
				pipe = true
			}
		}
		same := 0
		for b := 0x21; b < 0x7f; b++ {
			if rows[b].key == rows['|'].key {
				same++
			}
		}
		if !pipe || same > 3 {
			continue
		}
		n++
		pos := c.P.Pos(m.states[name].Pos())
		c.Check(rows['\n'].key != rows[' '].key, R, "state:"+name, pos, "state "+name+": LF is handled differently from SPACE", "a line break is skipped like a blank inside a reference shortcut: the value continues on the next line")
	}
	if n == 0 {
		c.Bad(R, "states", "-", "pipe-accepting states", "undecided: no state accepts `|` as a separator")
	}
}

// c15newline: a line end is not part of the schema.
func c15newline(c *core.Ctx) {
	const R = "C15.newline"
	c.Rule(R, "in (*Scanner).Length the NewLine lexeme does not move the candidate length (the loop continues before the assignment when lex.Type() == lexeme.NewLine), and at the EndTop lexeme the length is left where the last lexeme of the schema put it. A user comment after the root value emits no lexeme, so a length that follows NewLine/EndTop positions jumps behind the comment as soon as a line end or more text follows it (Len(\"1 # c\") = 1 but Len(\"1 # c\\nx\") = 11)")
	c.Floor(R, 1)
	d := c.P.FindDecl("(*notations/jschema/scanner.Scanner).Length")
	if d == nil {
		c.Unresolved(R, "(*notations/jschema/scanner.Scanner).Length")
		return
	}
	skipNL := false
	endTopAssigns := false
	lexLoop := lexemeLoop(c, d)
	if lexLoop == nil {
		c.Bad(R, "Length:newline", c.P.Pos(d.Decl.Pos()), "the lexeme loop of Length", "undecided: no loop calling Next() in Length or its helpers")
		return
	}
	ast.Inspect(lexLoop.Body, func(n ast.Node) bool {
		ifs, ok := n.(*ast.IfStmt)
		if !ok {
			return true
		}
		cond := core.ExprStr(ifs.Cond)
		if strings.Contains(cond, "lexeme.NewLine") && strings.Contains(cond, "==") {
			for _, st := range ifs.Body.List {
				if b, ok := st.(*ast.BranchStmt); ok && b.Tok == token.CONTINUE {
					skipNL = true
				}
			}
		}
		if strings.Contains(cond, "lexeme.EndTop") {
			ast.Inspect(ifs.Body, func(m ast.Node) bool {
				if as, ok := m.(*ast.AssignStmt); ok && len(as.Lhs) == 1 && core.ExprStr(as.Lhs[0]) == "length" {
					endTopAssigns = true
				}
				return true
			})
		}
		return true
	})
	c.Check(skipNL && !endTopAssigns, R, "Length:newline", c.P.Pos(d.Decl.Pos()), "NewLine and EndTop lexemes do not move the length", core.F("the length follows positions outside the schema's own lexemes (NewLine skipped: %v, assignment at EndTop: %v): a trailing comment is inside or outside the measured schema depending on what follows", skipNL, endTopAssigns))
}

// lexemeLoop: the top-level loop of Length (or of a helper of the package it calls) that calls Next().
func lexemeLoop(c *core.Ctx, d *core.DeclSite) *ast.ForStmt {
	for _, hd := range helperBodies(c, d, 2) {
		for _, st := range hd.Decl.Body.List {
			fs, ok := st.(*ast.ForStmt)
			if !ok {
				continue
			}
			callsNext := false
			ast.Inspect(fs, func(n ast.Node) bool {
				if call, ok := n.(*ast.CallExpr); ok && strings.HasSuffix(core.ExprStr(call.Fun), ".Next") {
					callsNext = true
				}
				return true
			})
			if callsNext {
				return fs
			}
		}
	}
	return nil
}
