package rules

import (
	"go/ast"
	"go/token"
	"go/types"
	"sort"
	"strings"

	"jsverif/internal/core"
)

// Engine E5: field-based, context-insensitive taint "decoded string -> JSON sink".
//
// A value is *decoded* if it comes from bytes.Bytes.Unquote() (JSON string
// decoding) or from anything that stores such a value: struct fields,
// parameters that receive it at some call site, results of functions that
// return it. Decoded text must pass a JSON string encoder before it is written
// into JSON output.

type taintInfo struct {
	fields  map[*types.Var]string // struct field -> why
	params  map[*types.Var]string
	results map[*types.Func]string
	locals  map[types.Object]string
}

var taintSanitizers = map[string]bool{
	"encoding/json.Marshal": true, "encoding/json.MarshalIndent": true,
	"openapi/internal.ToJSONString": true, "strconv.Itoa": true,
	// encodes string values with ToJSONString and copies number/boolean/null literals verbatim (shape checked by rule C08.escape:jsonValue)
	"(openapi/internal/jsoac.Example).jsonValue": true, "strconv.FormatUint": true, "strconv.FormatInt": true,
}

var taintSources = map[string]bool{
	"(bytes.Bytes).Unquote": true,
}

// passthrough methods keep the taint of their receiver/argument
var taintPass = map[string]bool{
	"(bytes.Bytes).String": true, "(bytes.Bytes).Data": true, "(bytes.Bytes).TrimSpaces": true, "(bytes.Bytes).TrimSquareBrackets": true,
	"strings.TrimSpace": true, "strings.TrimLeft": true, "strings.TrimRight": true, "strings.Trim": true, "strings.ToLower": true, "strings.TrimPrefix": true, "strings.TrimSuffix": true,
	"bytes.NewBytes": true, "bytes.Trim": true,
}

func (t *taintInfo) exprTainted(pk *packagesPackage, e ast.Expr) string {
	e = ast.Unparen(e)
	switch x := e.(type) {
	case *ast.Ident:
		obj := pk.TypesInfo.ObjectOf(x)
		if v, ok := obj.(*types.Var); ok {
			if w := t.params[v]; w != "" {
				return w
			}
		}
		if w := t.locals[obj]; w != "" {
			return w
		}
	case *ast.SelectorExpr:
		if sel := pk.TypesInfo.Selections[x]; sel != nil && sel.Kind() == types.FieldVal {
			if f, ok := sel.Obj().(*types.Var); ok {
				if _, clean := taintCleanFields[fieldKey(f, sel.Recv())]; clean {
					return ""
				}
				if w := t.fields[f]; w != "" {
					return w
				}
			}
		}
	case *ast.CallExpr:
		if tv, ok := pk.TypesInfo.Types[x.Fun]; ok && tv.IsType() && len(x.Args) == 1 {
			return t.exprTainted(pk, x.Args[0]) // conversion
		}
		callee := core.Callee(pk, x)
		name := core.FullName(callee)
		if i := strings.Index(name, "["); i > 0 {
			name = name[:i]
		}
		if taintSanitizers[name] {
			return ""
		}
		if taintSources[name] {
			return "result of " + name
		}
		if taintPass[name] {
			if se, ok := x.Fun.(*ast.SelectorExpr); ok {
				if _, isPkg := pk.TypesInfo.Uses[identOf(se.X)].(*types.PkgName); !isPkg {
					if w := t.exprTainted(pk, se.X); w != "" {
						return w
					}
				}
			}
			for _, a := range x.Args {
				if w := t.exprTainted(pk, a); w != "" {
					return w
				}
			}
			return ""
		}
		if f, ok := callee.(*types.Func); ok {
			if f.Name() == "MarshalJSON" {
				return "" // JSON by contract; every MarshalJSON body is itself checked as a sink
			}
			if w := t.results[f]; w != "" {
				return w
			}
		}
		if id, ok := x.Fun.(*ast.Ident); ok && id.Name == "append" {
			for _, a := range x.Args {
				if w := t.exprTainted(pk, a); w != "" {
					return w
				}
			}
		}
		if name == "fmt.Sprintf" || name == "fmt.Sprint" {
			for _, a := range x.Args {
				if w := t.exprTainted(pk, a); w != "" {
					return w
				}
			}
		}
	case *ast.BinaryExpr:
		if x.Op == token.ADD {
			if w := t.exprTainted(pk, x.X); w != "" {
				return w
			}
			return t.exprTainted(pk, x.Y)
		}
	case *ast.SliceExpr:
		return t.exprTainted(pk, x.X)
	case *ast.IndexExpr:
		return t.exprTainted(pk, x.X)
	case *ast.StarExpr:
		return t.exprTainted(pk, x.X)
	case *ast.UnaryExpr:
		return t.exprTainted(pk, x.X)
	}
	return ""
}

// taintCleanFields: fields that hold decoded text of a restricted alphabet.
var taintCleanFields = map[string]string{
	"openapi/internal/jsoac.UserType.name": "user type names match IsUserTypeName ('@' followed by [A-Za-z0-9_-]) before a type can be registered or referenced, so they need no JSON escaping",
}

func fieldKey(f *types.Var, recv types.Type) string {
	if p, ok := recv.(*types.Pointer); ok {
		recv = p.Elem()
	}
	return core.Rel(recv.String()) + "." + f.Name()
}

func identOf(e ast.Expr) *ast.Ident {
	id, _ := ast.Unparen(e).(*ast.Ident)
	return id
}

var taintCache = map[*core.Program]*taintInfo{}

func computeTaint(c *core.Ctx) *taintInfo {
	if t, ok := taintCache[c.P]; ok {
		return t
	}
	t := &taintInfo{fields: map[*types.Var]string{}, params: map[*types.Var]string{}, results: map[*types.Func]string{}, locals: map[types.Object]string{}}
	decls := c.P.FuncDecls()
	for iter := 0; iter < 12; iter++ {
		changed := false
		setField := func(f *types.Var, why string) {
			if f != nil && t.fields[f] == "" {
				t.fields[f] = why
				changed = true
			}
		}
		for _, d := range decls {
			pk := d.Pkg
			ast.Inspect(d.Decl.Body, func(n ast.Node) bool {
				switch x := n.(type) {
				case *ast.AssignStmt:
					for i, l := range x.Lhs {
						var r ast.Expr
						if len(x.Lhs) == len(x.Rhs) {
							r = x.Rhs[i]
						} else if len(x.Rhs) == 1 {
							r = x.Rhs[0]
						}
						if r == nil {
							continue
						}
						w := t.exprTainted(pk, r)
						if w == "" {
							continue
						}
						switch lx := ast.Unparen(l).(type) {
						case *ast.Ident:
							obj := pk.TypesInfo.ObjectOf(lx)
							if obj != nil && t.locals[obj] == "" {
								t.locals[obj] = w
								changed = true
							}
						case *ast.SelectorExpr:
							if sel := pk.TypesInfo.Selections[lx]; sel != nil && sel.Kind() == types.FieldVal {
								setField(sel.Obj().(*types.Var), w)
							}
						}
					}
				case *ast.RangeStmt:
					if w := t.exprTainted(pk, x.X); w != "" {
						for _, kv := range []ast.Expr{x.Key, x.Value} {
							if id, ok := kv.(*ast.Ident); ok && id.Name != "_" {
								if obj := pk.TypesInfo.ObjectOf(id); obj != nil && t.locals[obj] == "" {
									if b, isB := obj.Type().Underlying().(*types.Basic); isB && b.Info()&types.IsInteger != 0 {
										continue // slice index
									}
									t.locals[obj] = w
									changed = true
								}
							}
						}
					}
				case *ast.CompositeLit:
					tt := core.TypeOf(pk, x)
					if tt == nil {
						return true
					}
					if p, ok := tt.Underlying().(*types.Pointer); ok {
						tt = p.Elem()
					}
					st, ok := tt.Underlying().(*types.Struct)
					if !ok {
						return true
					}
					for i, el := range x.Elts {
						if kv, ok := el.(*ast.KeyValueExpr); ok {
							if w := t.exprTainted(pk, kv.Value); w != "" {
								if id, ok := kv.Key.(*ast.Ident); ok {
									for j := 0; j < st.NumFields(); j++ {
										if st.Field(j).Name() == id.Name {
											setField(st.Field(j), w)
										}
									}
								}
							}
						} else if i < st.NumFields() {
							if w := t.exprTainted(pk, el); w != "" {
								setField(st.Field(i), w)
							}
						}
					}
				case *ast.CallExpr:
					f, ok := core.Callee(pk, x).(*types.Func)
					if !ok || f.Pkg() == nil || !strings.HasPrefix(f.Pkg().Path(), core.Module) {
						return true
					}
					sig := f.Type().(*types.Signature)
					for i, a := range x.Args {
						if w := t.exprTainted(pk, a); w != "" {
							pi := i
							if sig.Variadic() && pi >= sig.Params().Len()-1 {
								pi = sig.Params().Len() - 1
							}
							if pi < sig.Params().Len() {
								pv := sig.Params().At(pi)
								if t.params[pv] == "" {
									t.params[pv] = w
									changed = true
								}
							}
						}
					}
				case *ast.ReturnStmt:
					if d.Obj == nil {
						return true
					}
					for _, r := range x.Results {
						if w := t.exprTainted(pk, r); w != "" && t.results[d.Obj] == "" {
							t.results[d.Obj] = w
							changed = true
						}
					}
				}
				return true
			})
		}
		if !changed {
			break
		}
	}
	taintCache[c.P] = t
	return t
}

// jsonSinkRule reports decoded text written into JSON output without encoding.
// pkgFilter selects the functions whose buffer writes are JSON sinks.
func jsonSinkRule(R, what string, pkgFilter func(pkgRel, fn string) bool, floor int) RuleFunc {
	return func(c *core.Ctx) {
		c.Rule(R, "taint rule (field-based, context-insensitive): a string obtained by JSON-decoding (Bytes.Unquote and every field/parameter/result that stores it, e.g. ObjectNodeKey.Key, ASTNode.Key/Value) must pass a JSON string encoder (encoding/json.Marshal, strconv.Quote, ToJSONString) before it is written into "+what+"; raw literal bytes copied from the source are not decoded and need no encoding")
		c.Floor(R, floor)
		t := computeTaint(c)
		var tf []string
		for f, w := range t.fields {
			tf = append(tf, f.Pkg().Name()+"."+f.Name()+" <- "+w)
		}
		sort.Strings(tf)
		c.Extra[R+".decoded_fields"] = tf
		// the functions named by the filter and the helpers of the same package they call
		var scope []*core.DeclSite
		inScope := map[*ast.FuncDecl]bool{}
		for _, d := range c.P.FuncDecls() {
			if d.Decl.Body == nil || !pkgFilter(core.Rel(d.Pkg.PkgPath), core.DeclName(d.Pkg, d.Decl)) {
				continue
			}
			d := d
			for _, hd := range helperBodies(c, &d, 3) {
				if !inScope[hd.Decl] {
					inScope[hd.Decl] = true
					scope = append(scope, hd)
				}
			}
		}
		for _, d := range scope {
			fn := core.DeclName(d.Pkg, d.Decl)
			n := 0
			ast.Inspect(d.Decl.Body, func(nd ast.Node) bool {
				call, ok := nd.(*ast.CallExpr)
				if !ok {
					return true
				}
				name := core.FullName(core.Callee(d.Pkg, call))
				switch name {
				case "(*bytes.Buffer).Write", "(*bytes.Buffer).WriteString":
				case "fmt.Sprintf":
					// JSON text assembled with Sprintf: format constant containing a double quote
					if len(call.Args) < 2 {
						return true
					}
					fv := core.ConstOf(d.Pkg, call.Args[0])
					if fv == nil || !strings.Contains(fv.ExactString(), `\"`) {
						return true
					}
					for _, a := range call.Args[1:] {
						n++
						w := t.exprTainted(d.Pkg, a)
						c.Check(w == "", R, core.F("%s:sprintf#%d", fn, n), c.P.Pos(call.Pos()), core.F("Sprintf of `%s` into JSON text in %s", core.ExprStr(a), fn),
							"decoded text ("+w+") is formatted into JSON text with %s/%v instead of a JSON string encoder")
					}
					return true
				default:
					return true
				}
				if len(call.Args) != 1 {
					return true
				}
				n++
				key := core.F("%s:write#%d", fn, n)
				w := t.exprTainted(d.Pkg, call.Args[0])
				c.Check(w == "", R, key, c.P.Pos(call.Pos()), core.F("buffer write of `%s` in %s", core.ExprStr(call.Args[0]), fn),
					"decoded text ("+w+") is written into JSON output without a JSON string encoder: a key or value containing a quote, backslash or control character produces invalid JSON / a different value")
				return true
			})
		}
	}
}
